/-
C14 — "List-mode histogramming and list-mode likelihood agree with the event list".
Property theorems over the model of `Model.lean` (`processData` = `LmToProjData::process_data`).  All statements are
for every record list, every frame list, every template and every batch size (no bound).

Scope of the model functions since the extension of the harness (families 3 and 4): the bin of an event is data, so the
theorems about `processData` are statements about every run that the driver replays — runs fed by the synthetic
`CListEventCylindricalScannerWithDiscreteDetectors` events, by events that only know their LOR (`ListEvent::get_bin`), by
events of BlocksOnCylindrical scanners, and by REAL SAFIR and ECAT8 32-bit list-mode files read through the library's readers
(several passes = `save_get_position`/`set_get_position` on the file); with `processDataW`/`preStream` also runs with pre- or
post-normalisation (section "normalisation" below).
-/
import StirVerif.C14.ProofsWeighted

namespace StirVerif.C14

/-- configurations `set_up()` produces: a non-empty template and batch sizes ≥ 1 -/
structure Cfg.WF (c : Cfg) : Prop where
  segs : 1 ≤ c.segsInMemory
  tofs : 1 ≤ c.tofInMemory
  seg : c.tpl.minSeg ≤ c.tpl.maxSeg
  tof : c.tpl.minTof ≤ c.tpl.maxTof

/-- `set_up()` yields such a configuration whenever the requested batch sizes are `-1` or ≥ 1 and the
    template is not empty (`maximum absolute segment number to process` = `-1` or ≥ 0) -/
theorem C14_setUp_WF (t : Template) (p : Params) (c : Cfg) (h : setUp t p = some c)
    (hs : p.segsInMemory = -1 ∨ 1 ≤ p.segsInMemory) (ht : p.tofInMemory = -1 ∨ 1 ≤ p.tofInMemory)
    (hseg : 0 ≤ t.maxSeg ∧ t.minSeg = -t.maxSeg) (htof : t.minTof ≤ t.maxTof)
    (hm : p.maxSegToProcess = -1 ∨ 0 ≤ p.maxSegToProcess) : c.WF := by
  unfold setUp at h
  simp only at h
  split at h
  · cases h
  · next inc hinc =>
    simp only [Option.some.injEq] at h
    subst h
    by_cases hms : p.maxSegToProcess = -1
    · simp only [hms, if_true]
      constructor <;> simp only <;> (try split) <;> omega
    · simp only [hms, if_false]
      constructor <;> simp only <;> (try split) <;> omega

/-- **"the result does not depend on how many segments or TOF bins are held in memory at once"**, core:
    every frame's histogram written by the multi-pass run (batches of `num_segments_in_memory` segments ×
    `num_TOF_bins_in_memory` TOF bins, first pass skipping to the frame start and saving the position, later passes
    rewinding to it) is the histogram of reading the data ONCE with everything in memory — for every record list,
    in time-frame mode with any frames, and in `num_events_to_store` mode with one frame.
    `_partial`: the hypothesis `hmode` excludes `num_events_to_store ≠ 0` together with several frames (possible through
    `set_time_frame_definitions`); there the statement is FALSE of the code
    (`C14_batch_independent_full_fails`, known finding `lm2pd:num-events-with-frames-depends-on-batches`). -/
theorem C14_process_eq_single_pass_partial (c : Cfg) (h : c.WF) (hmode : c.doTimeFrame = true ∨ c.frames.length ≤ 1)
    (recs : List Record) (b : Bin) :
    (processData c recs).1.map (fun a => value a b) = (singlePass c recs).1.map (fun a => value a b) :=
  process_eq_singlePass c h.segs h.tofs h.seg h.tof hmode recs b

/-- **batch-size independence**: any two admissible `num_segments_in_memory` / `num_TOF_bins_in_memory`
    give the same histograms (corollary of `C14_process_eq_single_pass_partial`; `_partial` for the same reason). -/
theorem C14_batch_size_independent_partial (c : Cfg) (n m n' m' : Int) (hn : 1 ≤ n) (hm : 1 ≤ m) (hn' : 1 ≤ n') (hm' : 1 ≤ m')
    (hseg : c.tpl.minSeg ≤ c.tpl.maxSeg) (htof : c.tpl.minTof ≤ c.tpl.maxTof)
    (hmode : c.doTimeFrame = true ∨ c.frames.length ≤ 1) (recs : List Record) (b : Bin) :
    (processData { c with segsInMemory := n, tofInMemory := m } recs).1.map (fun a => value a b)
      = (processData { c with segsInMemory := n', tofInMemory := m' } recs).1.map (fun a => value a b) := by
  have h1 := process_eq_singlePass { c with segsInMemory := n, tofInMemory := m } hn hm hseg htof hmode recs b
  have h2 := process_eq_singlePass { c with segsInMemory := n', tofInMemory := m' } hn' hm' hseg htof hmode recs b
  rw [h1, h2]
  simp only [singlePass]
  rw [onePassFrames_congr c { c with segsInMemory := n, tofInMemory := m } rfl rfl rfl rfl rfl,
    onePassFrames_congr c { c with segsInMemory := n', tofInMemory := m' } rfl rfl rfl rfl rfl]

/-- the hypotheses on frames and stream under which "the events inside a frame" means what the property says:
    time-frame mode, frames non-empty / ending after 0.01 s / in sequence (what `TimeFrameDefinitions` accepts),
    time marks that never go back, and no frame lying strictly inside the gap between two consecutive time marks -/
structure Timely (c : Cfg) (recs : List Record) : Prop where
  mode : c.doTimeFrame = true
  frames : FramesOK c.frames
  regular : regularB c.frames 0 recs = true

/-- **"Histogramming adds, for every event inside a requested time frame, exactly one count … to the bin that the
    data geometry assigns …, and nothing else"**: for every batch size, every frame's histogram is the one-line
    specification `direct` — add the increment of every event whose preceding time mark lies in `[start,end)` and
    whose bin is inside the data.
    `_partial`: the hypothesis `Timely.regular` excludes (a) time marks that go back — there "the time of an event" is
    not defined — and (b) two consecutive time marks that jump over a whole frame; for (b) the statement is FALSE of the
    code (`C14_histogram_is_time_filter_full_fails`, known finding `lm2pd:frame-inside-time-mark-gap`). -/
theorem C14_process_eq_direct_partial (c : Cfg) (h : c.WF) (recs : List Record) (ht : Timely c recs) (b : Bin) :
    (processData c recs).1.map (fun a => value a b) = c.frames.map fun f => value (direct c recs f.1 f.2) b := by
  rw [process_eq_singlePass c h.segs h.tofs h.seg h.tof (Or.inl ht.mode),
    singlePass_eq_direct c ht.mode ht.frames recs ((regularB_iff _ _ _).1 ht.regular), List.map_map]
  rfl

/-- `direct`, spelled out: the value of a bin is the sum of the increments (`+1` prompt, `delayed_increment` delayed)
    of exactly the events of the frame that are assigned to that bin … -/
theorem C14_one_count_per_event (c : Cfg) (recs : List Record) (s e : Int) (b : Bin) :
    value (direct c recs s e) b
      = (if c.storePrompts then 1 else 0) *
          (((timed 0 recs).filter (inWinAt c s e b)).countP fun te => te.2.prompt)
        + c.delayedIncrement * (((timed 0 recs).filter (inWinAt c s e b)).countP fun te => !te.2.prompt) := by
  rw [direct_eq, value_filterMap_win, sum_eventIncrement]

/-- … **"minus one for delayed events when they are subtracted"**: what `set_up()` makes of the two switches:
    both → prompts − delayeds; prompts only → delayeds ignored; delayeds only → delayeds ADDED; none → error -/
theorem C14_delayed_subtracts (t : Template) (p : Params) (c : Cfg) (h : setUp t p = some c) :
    (p.storePrompts = true ∧ p.storeDelayeds = true → c.storePrompts = true ∧ c.delayedIncrement = -1) ∧
    (p.storePrompts = true ∧ p.storeDelayeds = false → c.storePrompts = true ∧ c.delayedIncrement = 0) ∧
    (p.storePrompts = false ∧ p.storeDelayeds = true → c.storePrompts = false ∧ c.delayedIncrement = 1) ∧
    ¬(p.storePrompts = false ∧ p.storeDelayeds = false) := by
  unfold setUp at h
  simp only at h
  cases hp : p.storePrompts <;> cases hd : p.storeDelayeds <;> simp [hp, hd] at h ⊢ <;> subst h <;> simp

/-- so with both switches on a bin holds (#prompts − #delayeds) of the frame assigned to it -/
theorem C14_trues (c : Cfg) (hp : c.storePrompts = true) (hd : c.delayedIncrement = -1) (recs : List Record) (s e : Int)
    (b : Bin) :
    value (direct c recs s e) b
      = (((timed 0 recs).filter (inWinAt c s e b)).countP fun te => te.2.prompt)
        - (((timed 0 recs).filter (inWinAt c s e b)).countP fun te => !te.2.prompt : Nat) := by
  rw [C14_one_count_per_event, hp, hd]; simp; omega

/-- **"and nothing else"** / out-of-range events are dropped — for EVERY input (no hypothesis on stream, frames, mode
    or batch sizes): whatever `process_data` adds is a non-zero increment at a bin that passed the decoder's segment
    test and the range test (tangential, axial, TOF) … -/
theorem C14_nothing_outside (c : Cfg) (recs : List Record) :
    ∀ l ∈ (processData c recs).1, ∀ a ∈ l, binOK c.tpl a.1 ∧ a.2 ≠ 0 :=
  frameLoop_adds_binOK c c.frames 0 recs

/-- … hence every bin outside the data stays 0 -/
theorem C14_out_of_range_dropped (c : Cfg) (recs : List Record) (b : Bin) (hb : ¬binOK c.tpl b) :
    ∀ l ∈ (processData c recs).1, value l b = 0 := by
  intro l hl
  apply value_eq_zero_of_forall_ne
  intro a ha hab
  exact hb (hab ▸ (C14_nothing_outside c recs l hl a ha).1)

/-- **"the frames of a partition of a time interval add up to the histogram of the whole interval"**, on the
    specification … -/
theorem C14_direct_frames_add (c : Cfg) (recs : List Record) (b : Bin) (s0 : Int) (L : List (Int × Int))
    (hL : IsPartitionFrom s0 L) :
    (L.map fun f => value (direct c recs f.1 f.2) b).sum = value (direct c recs s0 (lastEnd s0 L)) b :=
  direct_frames_add c recs b L s0 hL

/-- … and on `process_data` itself: the per-frame histograms of a run over frames that partition `[s0, t)` sum to the
    histogram of the run with the single frame `[s0, t)` (any batch sizes in either run).
    `_partial`: same hypothesis `Timely` as `C14_process_eq_direct_partial`, and needed
    (`C14_frames_add_fails_without_regular`). -/
theorem C14_frames_add_partial (c : Cfg) (h : c.WF) (recs : List Record) (ht : Timely c recs) (s0 : Int)
    (hP : IsPartitionFrom s0 c.frames) (hne : c.frames ≠ []) (b : Bin) :
    ((processData c recs).1.map fun a => value a b).sum
      = ((processData { c with frames := [(s0, lastEnd s0 c.frames)] } recs).1.map fun a => value a b).sum := by
  rw [C14_process_eq_direct_partial c h recs ht b, C14_direct_frames_add c recs b s0 c.frames hP]
  -- the merged frame satisfies the hypotheses as well
  cases hfr : c.frames with
  | nil => exact absurd hfr hne
  | cons f0 fs =>
    obtain ⟨s, e⟩ := f0
    have hP' := hP
    rw [hfr] at hP'
    obtain ⟨hs, hse, hrest⟩ := hP'
    subst hs
    have hf0 := ht.frames.1 (s, e) (by rw [hfr]; simp)
    simp only at hf0
    have hge : e ≤ lastEnd s ((s, e) :: fs) := lastEnd_ge e fs hrest
    have hT : Timely { c with frames := [(s, lastEnd s ((s, e) :: fs))] } recs := by
      refine ⟨ht.mode, ⟨?_, by simp⟩, ?_⟩
      · intro f hf
        simp only [List.mem_singleton] at hf
        subst hf
        simp only
        omega
      · rw [regularB_iff]
        apply Regular_mono c.frames _ _ recs 0 ((regularB_iff _ _ _).1 ht.regular)
        intro g hg
        simp only [List.mem_singleton] at hg
        subst hg
        exact ⟨(s, e), by rw [hfr]; simp, Int.le_refl _, hge⟩
    have := C14_process_eq_direct_partial { c with frames := [(s, lastEnd s ((s, e) :: fs))] } ⟨h.segs, h.tofs, h.seg, h.tof⟩ recs hT b
    rw [this]
    simp only [List.map_cons, List.map_nil, List.sum_cons, List.sum_nil, Int.add_zero]
    rfl

/-- **`num_events_to_store`**: without frame definitions (the single frame `(0,0)`, whose end is ignored) the run stores,
    for every batch size, the contributions of exactly the records of `cutPrefix` … -/
theorem C14_num_events_cutoff (c : Cfg) (h : c.WF) (hd : c.doTimeFrame = false) (s e : Int) (hf : c.frames = [(s, e)])
    (hs : s ≤ 0) (he : e ≤ 10) (recs : List Record) (b : Bin) :
    (processData c recs).1.map (fun a => value a b)
      = [value (directAll c (cutPrefix c c.numEventsToStore recs)) b] := by
  rw [process_eq_singlePass c h.segs h.tofs h.seg h.tof (Or.inr (by rw [hf]; simp))]
  simp only [singlePass, hf, onePassFrames, hd, List.map_cons, List.map_nil]
  have hsk : skipTo s 0 recs = (0, recs) := by
    cases recs with
    | nil => rfl
    | cons r rs => exact skipTo_ge (by omega)
  rw [hsk]
  simp only [Bool.false_eq_true, if_false]
  rw [(onePass_numEvents c hd e he recs c.numEventsToStore 0 0).1]
  rfl

/-- … where `cutPrefix` is the shortest prefix of the stream whose stored total (prompts − delayeds, or the number of
    stored events when only one kind is stored) equals `num_events_to_store`, or the whole stream if that is never reached -/
theorem C14_cutPrefix_char (c : Cfg) (n : Int) (recs : List Record) :
    cutPrefix c n recs <+: recs ∧
    (cutPrefix c n recs ≠ recs → stored c (cutPrefix c n recs) = n) ∧
    (∀ p, p <+: cutPrefix c n recs → p ≠ cutPrefix c n recs → stored c p ≠ n) :=
  ⟨cutPrefix_prefix c recs n, cutPrefix_total c recs n, cutPrefix_first c recs n⟩

/-- **"The gradient of the list-mode Poisson log-likelihood equals the gradient of the projection-data log-likelihood of
    the histogrammed data with the same model"**, algebraic core: with prompts only, the list-mode sum over the events of
    the frame of `row(bin e) j / ybar(bin e)` equals the projection-data sum over bins of `y_b · row_b j / ybar_b`, where
    `y` is the histogram (`direct`) of that frame — for any rows and any `ybar` over any field.  (The sensitivity term
    `-Σ_b row_b j` is the same expression in both objective functions.) -/
theorem C14_lm_grad_eq_pd_grad {K : Type} [Field K] (c : Cfg) (hp : c.storePrompts = true) (hdl : c.delayedIncrement = 0)
    (recs : List Record) (s e : Int) {J : Type} (row : Bin → J → K) (ybar : Bin → K) (j : J) :
    ((promptBins c recs s e).map fun b => row b j / ybar b).sum
      = ∑ b ∈ (promptBins c recs s e).toFinset, ((value (direct c recs s e) b : Int) : K) * (row b j / ybar b) := by
  rw [direct_prompts_only c hp hdl]
  exact sum_events_eq_sum_bins _ _

/-! ### the same clause on the model of the real list-mode objective function
`PoissonLogLikelihoodWithLinearModelForMeanAndListModeDataWithProjMatrixByBin` (`lmEvents` = `read_listmode_batch` batch after
batch, `lmGps` = `actual_compute_subset_gradient_without_penalty(…, add_sensitivity = true)`; the driver executes exactly these
functions on the inputs of the real class) -/

/-- the configurations of the list-mode objective the clause is about: time-frame mode (a frame `[start,end)` with
    `start < end`, `0 < end`), no `num_events_to_use`, a cache of at least one event -/
structure LmCfg.WF (c : LmCfg) : Prop where
  mode : c.doTimeFrame = true
  noCount : c.numEventsToUse ≤ 0
  cache : 1 ≤ c.cacheSize
  frame : c.startT < c.endT
  pos : 0 < c.endT

/-- **the events the list-mode objective uses are the events `LmToProjData` histograms** (prompts only, same frame, same
    ranges): for every cache size, the batches of `read_listmode_batch` concatenate to the accepted prompt events whose
    preceding time mark lies in the frame, in stream order — for every stream whose time marks never go back. -/
theorem C14_lm_objective_events (c : LmCfg) (h : c.WF) (recs : List Record) (hR : regularB [] 0 recs = true) :
    (lmEvents c recs).flatten = promptBins c.histCfg recs c.startT c.endT := by
  unfold lmEvents
  rw [lmBatches_flatten c h.noCount h.cache (by have := h.frame; omega) _ true 0 recs 0 (by omega) (fun _ => rfl) (by simp),
    lmReadAll_eq_filter c h.mode recs 0 ((regularB_iff _ _ _).1 hR) h.pos]
  rfl

/-- **the result does not depend on the cache size** (how the events are split into batches / cache files) — for every
    stream, also malformed ones, in every mode without `num_events_to_use` -/
theorem C14_lm_objective_cache_size_independent {K : Type} [Field K] (c : LmCfg) (n m : Nat) (hn : 1 ≤ n) (hm : 1 ≤ m)
    (hcount : c.numEventsToUse ≤ 0) (hse : c.startT ≤ c.endT) (recs : List Record)
    (data : Bin → LmBinData K) (img : Nat → K) (nsub subset : Int) (v : Nat) :
    lmGps data img nsub subset (lmEvents { c with cacheSize := n } recs) v
      = lmGps data img nsub subset (lmEvents { c with cacheSize := m } recs) v := by
  rw [lmGps_eq_sum, lmGps_eq_sum]
  unfold lmEvents
  rw [lmBatches_flatten { c with cacheSize := n } hcount hn hse _ true 0 recs 0 (by omega) (fun _ => rfl) (by simp),
    lmBatches_flatten { c with cacheSize := m } hcount hm hse _ true 0 recs 0 (by omega) (fun _ => rfl) (by simp),
    lmReadAll_cacheSize c n, lmReadAll_cacheSize c m]

/-- **"The gradient of the list-mode Poisson log-likelihood equals the gradient of the projection-data log-likelihood of
    the histogrammed data with the same model"**, on the model of the real class: what the list-mode objective adds up at
    voxel `v` for subset `subset` (event selection by frame and ranges, batches of any size, subset test on the view of the
    basic bin, `1/(row·image + additive)` back projected along the row) equals the projection-data expression
    `Σ_b y_b · row_b(v) / (row_b·image + additive_b)` over the bins of the subset, where `y` is the histogram `direct` that
    `LmToProjData` produces from the same stream for the same frame (`C14_process_eq_direct_partial`) — for any rows,
    additive terms, image and subset numbers over any field.  (The sensitivity term is the same back projection of
    `1/normalisation` in both classes and is compared on the implementation only.) -/
theorem C14_lm_objective_grad_eq_pd_grad {K : Type} [Field K] (c : LmCfg) (h : c.WF) (recs : List Record)
    (hR : regularB [] 0 recs = true) (data : Bin → LmBinData K) (img : Nat → K) (nsub subset : Int) (v : Nat) :
    lmGps data img nsub subset (lmEvents c recs) v
      = ∑ b ∈ (promptBins c.histCfg recs c.startT c.endT).toFinset,
          ((value (direct c.histCfg recs c.startT c.endT) b : Int) : K) *
            (if inSubset nsub subset (data b).basicView then
              rowAt (data b).row v / (lmFwd img (data b).row + (data b).add) else 0) := by
  rw [lmGps_eq_sum, C14_lm_objective_events c h recs hR, sum_filter_events_eq_sum_bins,
    direct_prompts_only c.histCfg rfl rfl]

/-- what the driver executes (`accumulate` into an array of `n` voxels) is `lmGps` at every voxel of the image -/
theorem C14_lm_objective_accumulate {K : Type} [Field K] (n : Nat) (data : Bin → LmBinData K) (img : Nat → K) (nsub subset : Int)
    (batches : List (List Bin)) (v : Nat) (hv : v < n) :
    (accumulate n (lmContribs data img nsub subset batches)).getD v 0 = lmGps data img nsub subset batches v :=
  accumulate_getD n _ v hv

/-! ### normalisation in `LmToProjData` (pre-normalisation with `get_compression_count`, post-normalisation)
`processDataW` = `process_data` with a non-trivial normalisation: the run of `processData` on the stream as
`get_bin_from_event` decodes it (`preStream`; with pre-normalisation the model bin carries the number `unc` of the event's
uncompressed bin), every addition multiplied by `bin.get_bin_value()` (`binValue`).  With these model functions the theorems
above (`C14_process_eq_single_pass_partial`, `C14_batch_size_independent_partial`, `C14_process_eq_direct_partial`,
`C14_nothing_outside`, `C14_frames_add_partial`, `C14_num_events_cutoff`) are statements about the runs WITH normalisation as
well: they hold for every stream, in particular for `preStream tooLow recs`, and for the model bins with `unc` tags.  The
theorems below carry them over to the stored (non-integer) values: "exactly one count per event" becomes "exactly one weight
per event". -/

/-- **"the result does not depend on how many segments or TOF bins are held in memory at once"**, with normalisation: every
    stored value of every frame is the same for any two admissible batch sizes (`_partial` as
    `C14_batch_size_independent_partial`) -/
theorem C14_normalised_batch_size_independent_partial {K : Type} [Field K] (tooLow : K → Bool) (nrm : Norm K) (c : Cfg)
    (n m n' m' : Int) (hn : 1 ≤ n) (hm : 1 ≤ m) (hn' : 1 ≤ n') (hm' : 1 ≤ m')
    (hseg : c.tpl.minSeg ≤ c.tpl.maxSeg) (htof : c.tpl.minTof ≤ c.tpl.maxTof)
    (hmode : c.doTimeFrame = true ∨ c.frames.length ≤ 1) (recs : List Record) (b : Bin) :
    (processDataW tooLow nrm { c with segsInMemory := n, tofInMemory := m } recs).1.map (fun l => valueW l b)
      = (processDataW tooLow nrm { c with segsInMemory := n', tofInMemory := m' } recs).1.map (fun l => valueW l b) := by
  simp only [processDataW, List.map_map, Function.comp_def, valueW_weighted]
  exact map_wsum_congr _ _ _ (fun b' => C14_batch_size_independent_partial c n m n' m' hn hm hn' hm' hseg htof hmode recs b')

/-- **"adds, for every event inside a requested time frame, exactly one count … to the bin that the data geometry assigns …,
    and nothing else"**, with normalisation: every frame's stored values are those of the weighted one-line specification
    (the weighted additions of `direct`), for every batch size (`_partial` as `C14_process_eq_direct_partial`) -/
theorem C14_normalised_process_eq_direct_partial {K : Type} [Field K] (tooLow : K → Bool) (nrm : Norm K) (c : Cfg) (h : c.WF)
    (recs : List Record) (ht : Timely c recs) (b : Bin) :
    (processDataW tooLow nrm c recs).1.map (fun l => valueW l b)
      = c.frames.map fun f => valueW (weighted tooLow nrm (direct c recs f.1 f.2)) b := by
  simp only [processDataW, List.map_map, Function.comp_def, valueW_weighted]
  have := map_wsum_congr (weightAt tooLow nrm b) (processData c recs).1 (c.frames.map fun f => direct c recs f.1 f.2)
    (fun b' => by rw [C14_process_eq_direct_partial c h recs ht b', List.map_map]; rfl)
  rw [this, List.map_map]
  rfl

/-- … where the weighted specification is, spelled out, **one weight per event**: the stored value of the output bin `b` is
    the sum over the events of the stream of: the event's bin value (`binValue`: `1/(efficiency of its uncompressed bin ×
    compression count of the output bin)` with pre-normalisation, `1/efficiency of the output bin` with post-normalisation)
    times its increment (+1 / `delayed_increment`) if its preceding time mark lies in `[s,e)`, its bin is inside the data and
    belongs to `b`, and the efficiency is usable — and 0 otherwise -/
theorem C14_one_weight_per_event {K : Type} [Field K] (tooLow : K → Bool) (nrm : Norm K) (c : Cfg) (recs : List Record)
    (s e : Int) (b : Bin) :
    valueW (weighted tooLow nrm (direct c recs s e)) b
      = ((timed 0 recs).map fun te =>
          (if s ≤ te.1 ∧ te.1 < e then contribution c te.2 else none).elim 0 fun a =>
            (if a.1.key = b then (binValue tooLow nrm a.1).getD 0 else 0) * ((a.2 : Int) : K)).sum := by
  rw [valueW_weighted, direct_eq]
  exact sum_filterMap (fun te => if s ≤ te.1 ∧ te.1 < e then contribution c te.2 else none)
    (fun a => (if a.1.key = b then (binValue tooLow nrm a.1).getD 0 else 0) * ((a.2 : Int) : K)) (timed 0 recs)

/-- **post-normalisation = histogram × post factor**: with post-normalisation the stored value of an output bin is its
    un-normalised content (the sum of the increments added to it, `keyValue`) times `1/efficiency` of the bin — 0 if the
    efficiency is unusable (< 1e-10; as after the proposed fix C14-7) — for every run -/
theorem C14_post_normalisation_scales {K : Type} [Field K] (tooLow : K → Bool) (eff : Bin → K) (c : Cfg) (recs : List Record)
    (b : Bin) :
    (processDataW tooLow (.post eff) c recs).1.map (fun l => valueW l b)
      = (processData c recs).1.map fun a => (if tooLow (eff b) then 0 else 1 / eff b) * ((keyValue a b : Int) : K) := by
  simp only [processDataW, List.map_map, Function.comp_def, valueW_weighted, wsum_post]

/-- **pre-normalisation**: the stored value of an output bin is the sum over the additions that belong to it of
    `increment / (efficiency of the event's uncompressed bin × compression count of the output bin)` -/
theorem C14_pre_normalisation_weights {K : Type} [Field K] (tooLow : K → Bool) (eff : Int → K) (cc : Bin → Int) (adds : List Add)
    (b : Bin) :
    valueW (weighted tooLow (.pre eff cc) adds) b
      = (adds.map fun a => (if a.1.key = b then 1 / eff a.1.unc / ((cc a.1 : Int) : K) else 0) * ((a.2 : Int) : K)).sum := by
  rw [valueW_weighted]
  simp only [wsum, weightAt, binValue, Option.getD_some]

/-- **"the frames of a partition of a time interval add up to the histogram of the whole interval"**, with normalisation
    (`_partial` as `C14_frames_add_partial`) -/
theorem C14_normalised_frames_add_partial {K : Type} [Field K] (tooLow : K → Bool) (nrm : Norm K) (c : Cfg) (h : c.WF)
    (recs : List Record) (ht : Timely c recs) (s0 : Int) (hP : IsPartitionFrom s0 c.frames) (hne : c.frames ≠ []) (b : Bin) :
    ((processDataW tooLow nrm c recs).1.map fun l => valueW l b).sum
      = ((processDataW tooLow nrm { c with frames := [(s0, lastEnd s0 c.frames)] } recs).1.map fun l => valueW l b).sum := by
  simp only [processDataW, List.map_map, Function.comp_def, valueW_weighted]
  rw [sum_map_wsum, sum_map_wsum]
  apply wsum_congr
  intro b'
  rw [value_flatten, value_flatten]
  exact C14_frames_add_partial c h recs ht s0 hP hne b'

/-! ### the hypotheses are satisfiable (non-vacuity) and needed (negative witnesses) -/

/-- a two-segment template and events in it -/
def exTpl : Template :=
  { minSeg := 0, maxSeg := 1, minTof := -1, maxTof := 1, minTang := -1, maxTang := 1, axRange := (fun _ => (0, 1)) }

def exEv (seg view tof : Int) (prompt : Bool) : Record := .event ⟨some ⟨seg, view, 0, 0, tof, 0⟩, prompt⟩

/-- three frames, the first two adjacent, the third after a gap -/
def exCfg (n m : Int) : Cfg :=
  { tpl := exTpl, frames := [(0, 1000), (1000, 2000), (2500, 3000)], doTimeFrame := true, numEventsToStore := 0,
    storePrompts := true, delayedIncrement := -1, segsInMemory := n, tofInMemory := m }

/-- events before the first time mark, on frame boundaries (mark exactly at 1000 and 2000), in the gap, out of range
    (tang 5 via `none`, TOF 2), delayed events -/
def exRecs : List Record :=
  [exEv 0 0 0 true, .time 300, exEv 1 1 1 true, exEv 1 1 1 false, .time 1000, exEv 0 2 (-1) true, exEv 0 2 2 true,
   .event ⟨none, true⟩, .time 1500, exEv 1 3 0 false, .time 2000, exEv 0 4 0 true, .time 2600, exEv 1 5 1 true, .time 3100,
   exEv 0 6 0 true]

example : (exCfg 1 2).WF := ⟨by decide, by decide, by decide, by decide⟩
example : Timely (exCfg 1 2) exRecs := ⟨rfl, ⟨by decide, by decide⟩, by decide⟩
/-- the instance is not trivial: the three frames hold different, non-zero data, one bin is negative (delayed) -/
example : (processData (exCfg 1 2) exRecs).1.map (fun a => value a ⟨0, 2, 0, 0, -1, 0⟩) = [0, 1, 0] := by decide
example : (processData (exCfg 1 2) exRecs).1.map (fun a => value a ⟨1, 3, 0, 0, 0, 0⟩) = [0, -1, 0] := by decide
example : (processData (exCfg 2 3) exRecs).1.map (fun a => value a ⟨1, 5, 0, 0, 1, 0⟩) = [0, 0, 1] := by decide
/-- hypotheses of `C14_frames_add`: a partition of `[0, 2000)` with the same stream -/
example : IsPartitionFrom 0 [(0, 1000), (1000, 2000)] := ⟨rfl, by decide, rfl, by decide, trivial⟩
example : Timely { exCfg 1 1 with frames := [(0, 1000), (1000, 2000)] } exRecs := ⟨rfl, ⟨by decide, by decide⟩, by decide⟩
example : ((processData { exCfg 1 1 with frames := [(0, 1000), (1000, 2000)] } exRecs).1.map fun a => value a ⟨1, 1, 0, 0, 1, 0⟩) = [0, 0]
    ∧ ((processData { exCfg 1 1 with frames := [(0, 1000), (1000, 2000)] } exRecs).1.map fun a => value a ⟨0, 0, 0, 0, 0, 0⟩) = [1, 0] := by
  constructor <;> decide
/-- `num_events_to_store` instance: stops after the second stored event -/
example : cutPrefix { exCfg 1 1 with doTimeFrame := false, numEventsToStore := 2, frames := [(0, 0)], delayedIncrement := 0 } 2 exRecs
    = [exEv 0 0 0 true, .time 300, exEv 1 1 1 true] := by decide

/-- **negative witness 1** (replayed on the implementation by the harness: `fixed-gap-case`, known finding
    `lm2pd:frame-inside-time-mark-gap`): frames `[0,1) [1,2) [2,3)` s, stream `T0.5 e0 T2.5 e1 T2.7 e2 T3.5`.  The time marks
    jump over the whole second frame; the end of a frame is only tested when a time record is read, so `e1` (time 2.5 s)
    is histogrammed into frame `[1,2)`. -/
def gapCfg : Cfg :=
  { tpl := { minSeg := 0, maxSeg := 0, minTof := 0, maxTof := 0, minTang := -1, maxTang := 1, axRange := (fun _ => (0, 0)) },
    frames := [(0, 1000), (1000, 2000), (2000, 3000)], doTimeFrame := true, numEventsToStore := 0,
    storePrompts := true, delayedIncrement := 0, segsInMemory := 1, tofInMemory := 1 }

def gapRecs : List Record :=
  [.time 500, exEv 0 0 0 true, .time 2500, exEv 0 1 0 true, .time 2700, exEv 0 2 0 true, .time 3500]

theorem C14_process_eq_direct_fails_without_regular :
    gapCfg.WF ∧ gapCfg.doTimeFrame = true ∧ FramesOK gapCfg.frames ∧ regularB gapCfg.frames 0 gapRecs = false ∧
    (processData gapCfg gapRecs).1.map (fun a => value a ⟨0, 1, 0, 0, 0, 0⟩) = [0, 1, 0] ∧
    (gapCfg.frames.map fun f => value (direct gapCfg gapRecs f.1 f.2) ⟨0, 1, 0, 0, 0, 0⟩) = [0, 0, 1] := by
  refine ⟨⟨by decide, by decide, by decide, by decide⟩, rfl, ⟨by decide, by decide⟩, by decide, by decide, by decide⟩

/-- … and the frames of that partition do not add up to the whole interval `[0,3)` either (frame sum 1, whole 0 at
    the bin of the event after `T3.5` when the stream goes on) — here shown on the shorter partition `[0,1) [1,2)`:
    sum of the frames = 2 events, whole interval `[0,2)` = 1 event. -/
theorem C14_frames_add_fails_without_regular :
    ((processData { gapCfg with frames := [(0, 1000), (1000, 2000)] } gapRecs).1.map fun a =>
        value a ⟨0, 0, 0, 0, 0, 0⟩ + value a ⟨0, 1, 0, 0, 0, 0⟩).sum = 2 ∧
    ((processData { gapCfg with frames := [(0, 2000)] } gapRecs).1.map fun a =>
        value a ⟨0, 0, 0, 0, 0, 0⟩ + value a ⟨0, 1, 0, 0, 0, 0⟩).sum = 1 := by
  constructor <;> decide

/-- the full statement one would like — for every stream whose time marks never go back — stated, and refuted below -/
def C14_histogram_is_time_filter_full : Prop :=
  ∀ (c : Cfg) (recs : List Record), c.WF → c.doTimeFrame = true → FramesOK c.frames →
    regularB [] 0 recs = true →   -- the time marks never go back (no condition on frames)
    ∀ b, (processData c recs).1.map (fun a => value a b) = c.frames.map fun f => value (direct c recs f.1 f.2) b

theorem C14_histogram_is_time_filter_full_fails : ¬C14_histogram_is_time_filter_full := by
  intro h
  obtain ⟨hwf, hd, hF, _, h1, h2⟩ := C14_process_eq_direct_fails_without_regular
  have := h gapCfg gapRecs hwf hd hF (by decide) ⟨0, 1, 0, 0, 0, 0⟩
  rw [h1, h2] at this
  exact absurd this (by decide)

/-- **negative witness 2** (replayed by the harness: `fixed-hybrid-…`, known finding
    `lm2pd:num-events-with-frames-depends-on-batches`): `num_events_to_store = 1` together with two frames (set through
    `set_time_frame_definitions`): the mode excluded by `hmode` in `C14_process_eq_single_pass_partial`.  Later passes reset
    `current_time` to the frame start, so the next frame's skip loop behaves differently: frame 2 holds `e2` with both
    segments in memory, `e4` with one. -/
def hybCfg (n : Int) : Cfg :=
  { tpl := { minSeg := 0, maxSeg := 1, minTof := 0, maxTof := 0, minTang := -1, maxTang := 1, axRange := (fun _ => (0, 0)) },
    frames := [(100, 200), (300, 400)], doTimeFrame := false, numEventsToStore := 1,
    storePrompts := true, delayedIncrement := 0, segsInMemory := n, tofInMemory := 1 }

def hybRecs : List Record :=
  [.time 400, exEv 0 1 0 true, exEv 0 2 0 true, exEv 0 3 0 true, .time 500, exEv 0 4 0 true]

theorem C14_batch_independence_fails_numEvents_with_frames :
    (processData (hybCfg 2) hybRecs).1.map (fun a => value a ⟨0, 2, 0, 0, 0, 0⟩) = [0, 1] ∧
    (processData (hybCfg 1) hybRecs).1.map (fun a => value a ⟨0, 2, 0, 0, 0, 0⟩) = [0, 0] := by
  constructor <;> decide

/-- batch-size independence for every mode — stated, and refuted by witness 2 -/
def C14_batch_independent_full : Prop :=
  ∀ (c : Cfg) (n n' : Int), 1 ≤ n → 1 ≤ n' → 1 ≤ c.tofInMemory → c.tpl.minSeg ≤ c.tpl.maxSeg → c.tpl.minTof ≤ c.tpl.maxTof →
    ∀ recs b, (processData { c with segsInMemory := n } recs).1.map (fun a => value a b)
        = (processData { c with segsInMemory := n' } recs).1.map (fun a => value a b)

theorem C14_batch_independent_full_fails : ¬C14_batch_independent_full := by
  intro h
  have := h (hybCfg 1) 2 1 (by decide) (by decide) (by decide) (by decide) (by decide) hybRecs ⟨0, 2, 0, 0, 0, 0⟩
  have h2 : ({ hybCfg 1 with segsInMemory := 2 } : Cfg) = hybCfg 2 := rfl
  have h1 : ({ hybCfg 1 with segsInMemory := 1 } : Cfg) = hybCfg 1 := rfl
  rw [h1, h2, C14_batch_independence_fails_numEvents_with_frames.1, C14_batch_independence_fails_numEvents_with_frames.2] at this
  exact absurd this (by decide)

/-! ### normalisation: instances -/

/-- `bin_efficiency < 1.E-10` over `Rat` -/
def exTooLow : Rat → Bool := fun q => decide (q < 1 / 10000000000)

/-- post-normalisation efficiencies: 2 in view 2, unusable (0) in view 3, 1/2 elsewhere -/
def exPostEff : Bin → Rat := fun b => if b.view = 2 then 2 else if b.view = 3 then 0 else 1 / 2

/-- not trivial: frame 2 holds the prompt of view 2 with weight 1/2; the delayed event of view 3 has an unusable efficiency and
    adds nothing; the prompt of view 5 in frame 3 is stored as 2 -/
example : (processDataW exTooLow (.post exPostEff) (exCfg 1 2) exRecs).1.map (fun l => valueW l ⟨0, 2, 0, 0, -1, 0⟩) = [0, 1 / 2, 0] := by
  decide +kernel
example : (processDataW exTooLow (.post exPostEff) (exCfg 1 2) exRecs).1.map (fun l => valueW l ⟨1, 3, 0, 0, 0, 0⟩) = [0, 0, 0] := by
  decide +kernel
example : (processDataW exTooLow (.post exPostEff) (exCfg 2 3) exRecs).1.map (fun l => valueW l ⟨1, 5, 0, 0, 1, 0⟩) = [0, 0, 2] := by
  decide +kernel

/-- pre-normalisation: three prompts of the same output bin from the uncompressed bins 1 (efficiency 2), 2 (efficiency 4) and 3
    (efficiency 0: ignored), one event that the decoder rejects for the uncompressed geometry, a delayed one from bin 1;
    compression count 3 -/
def exPreRecs : List (PreRecord Rat) :=
  [.time 100,
   .event ⟨some ⟨0, 1, 0, 0, 0, 0⟩, some (1, 2), true⟩, .event ⟨some ⟨0, 1, 0, 0, 0, 0⟩, some (2, 4), true⟩,
   .event ⟨some ⟨0, 1, 0, 0, 0, 0⟩, some (3, 0), true⟩, .event ⟨some ⟨0, 1, 0, 0, 0, 0⟩, none, true⟩,
   .time 1200, .event ⟨some ⟨0, 1, 0, 0, 0, 0⟩, some (1, 2), false⟩, .time 2100]

def exPreNorm : Norm Rat := .pre (fun u => if u = 1 then 2 else if u = 2 then 4 else 0) (fun _ => 3)

/-- frame 1: 1/(2·3) + 1/(4·3) = 1/4; frame 2: the delayed event, −1/(2·3) -/
example : (processDataW exTooLow exPreNorm (exCfg 1 1) (preStream exTooLow exPreRecs)).1.map (fun l => valueW l ⟨0, 1, 0, 0, 0, 0⟩)
    = [1 / 4, -1 / 6, 0] := by decide +kernel
example : Timely (exCfg 1 1) (preStream exTooLow exPreRecs) := ⟨rfl, ⟨by decide, by decide⟩, by decide⟩

/-! ### list-mode objective: instance and negative witness -/

/-- frame `[0.3, 2) s` of the stream `exRecs`, cache of `n` events -/
def exLm (n : Nat) : LmCfg :=
  { tpl := exTpl, doTimeFrame := true, startT := 300, endT := 2000, numEventsToUse := 0, cacheSize := n }

example : (exLm 1).WF := ⟨rfl, by decide, by decide, by decide, by decide⟩
example : regularB [] 0 exRecs = true := by decide
/-- not trivial: two prompt events are accepted (one before the frame, a delayed one, two out of range and three after the
    frame are not); with a cache of one event they come in separate batches, followed by an empty last batch -/
example : lmEvents (exLm 1) exRecs = [[⟨1, 1, 0, 0, 1, 0⟩], [⟨0, 2, 0, 0, -1, 0⟩], []] := by decide
example : lmEvents (exLm 7) exRecs = [[⟨1, 1, 0, 0, 1, 0⟩, ⟨0, 2, 0, 0, -1, 0⟩]] := by decide
example : promptBins (exLm 7).histCfg exRecs 300 2000 = [⟨1, 1, 0, 0, 1, 0⟩, ⟨0, 2, 0, 0, -1, 0⟩] := by decide

/-- **negative witness** (the hypothesis "time marks never go back" of `C14_lm_objective_events` is needed): with the marks
    2.5 s, 0.5 s the objective stops reading at the first mark beyond the frame, while the event after the second mark has its
    time in the frame (and `LmToProjData`, which skips to the frame start first, histograms it) -/
theorem C14_lm_objective_events_fails_without_monotone :
    (exLm 2).WF ∧ regularB [] 0 [.time 2500, .time 500, exEv 0 1 0 true] = false ∧
    (lmEvents (exLm 2) [.time 2500, .time 500, exEv 0 1 0 true]).flatten = [] ∧
    promptBins (exLm 2).histCfg [.time 2500, .time 500, exEv 0 1 0 true] 300 2000 = [⟨0, 1, 0, 0, 0, 0⟩] := by
  refine ⟨⟨rfl, by decide, by decide, by decide, by decide⟩, by decide, by decide, by decide⟩

end StirVerif.C14
