/-
C14 — proofs, part 4: the algebraic core of "list-mode gradient = projection-data gradient of the histogrammed
data": a sum over events of a bin-indexed quantity, regrouped by bin, is the histogram-weighted sum over bins.
-/
import StirVerif.C14.ProofsProps
import Mathlib.Algebra.BigOperators.Group.Finset.Basic
import Mathlib.Algebra.Field.Defs
import Mathlib.Data.Int.Cast.Lemmas

namespace StirVerif.C14

/-- the histogram of a list of unit counts is the multiplicity -/
theorem value_unit_counts (bs : List Bin) (b : Bin) : value (bs.map fun x => (x, (1 : Int))) b = (bs.count b : Int) := by
  induction bs with
  | nil => simp [value]
  | cons x bs ih =>
    simp only [List.map_cons, value_cons, ih, List.count_cons]
    by_cases h : x = b
    · subst h; simp; omega
    · have : (x == b) = false := by simpa using h
      simp [h, this]

/-- **regrouping**: Σ over events of `g (bin e)` = Σ over bins of `y_b · g b`, `y` the histogram of the events -/
theorem sum_events_eq_sum_bins {K : Type} [Field K] (bs : List Bin) (g : Bin → K) :
    (bs.map g).sum = ∑ b ∈ bs.toFinset, ((value (bs.map fun x => (x, (1 : Int))) b : Int) : K) * g b := by
  rw [Finset.sum_list_map_count]
  apply Finset.sum_congr rfl
  intro b _
  rw [value_unit_counts, nsmul_eq_mul, Int.cast_natCast]

/-- the bins of the prompt events of the frame `[s,e)` that fall inside the data, in stream order -/
def promptBins (c : Cfg) (recs : List Record) (s e : Int) : List Bin :=
  (timed 0 recs).filterMap fun te => if s ≤ te.1 ∧ te.1 < e ∧ te.2.prompt = true then accepted c te.2 else none

/-- with prompts only (`store_prompts=1, store_delayeds=0`) the histogram is one unit count per accepted prompt -/
theorem direct_prompts_only (c : Cfg) (hp : c.storePrompts = true) (hdl : c.delayedIncrement = 0) (recs : List Record)
    (s e : Int) : direct c recs s e = (promptBins c recs s e).map fun x => (x, (1 : Int)) := by
  simp only [direct_eq, promptBins]
  induction timed 0 recs with
  | nil => simp
  | cons te l ih =>
    obtain ⟨t, ev⟩ := te
    simp only [List.filterMap_cons, win, contribution_eq]
    by_cases hw : s ≤ t ∧ t < e
    · simp only [hw, and_self, if_true, true_and]
      cases hpr : ev.prompt
      · have : eventIncrement c ev = 0 := by simp [eventIncrement, hpr, hdl]
        cases accepted c ev <;> simp [this, ih]
      · have : eventIncrement c ev = 1 := by simp [eventIncrement, hpr, hp]
        cases accepted c ev <;> simp [this, ih]
    · have h2 : ¬(s ≤ t ∧ t < e ∧ ev.prompt = true) := fun h => hw ⟨h.1, h.2.1⟩
      simp only [hw, h2, if_false]
      exact ih

end StirVerif.C14
