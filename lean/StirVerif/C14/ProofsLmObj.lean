/-
C14 — proofs, part 5: the list-mode objective function
(`PoissonLogLikelihoodWithLinearModelForMeanAndListModeDataWithProjMatrixByBin`, model in `Model.lean`):
* the batches of `read_listmode_batch` concatenate to the events read with an unlimited cache, for every cache size;
* for a stream whose time marks never go back these are exactly the prompt events of the frame that the data
  geometry accepts (`promptBins`, the events whose histogram is `direct`);
* what the back projections add up to at a voxel is the sum over those events of `row_v / (row·image + add)`;
* the array the driver accumulates is that image.
-/
import StirVerif.C14.ProofsGrad
import Mathlib.Algebra.Field.Basic
import Mathlib.Tactic.Ring

namespace StirVerif.C14

/-! ### reading the events -/

/-- `lmReadAll` depends on the current time only through the test `current_time < start_time` -/
theorem lmReadAll_cur_irrelevant (c : LmCfg) (recs : List Record) (cur cur' : Int) (h : cur < c.startT ↔ cur' < c.startT) :
    lmReadAll c cur recs = lmReadAll c cur' recs := by
  induction recs with
  | nil => rfl
  | cons r rs ih =>
    cases r with
    | time t => simp only [lmReadAll]
    | event e =>
      simp only [lmReadAll]
      by_cases h1 : cur < c.startT
      · have h2 := h.1 h1
        simp only [h1, h2, if_true]
        exact ih
      · have h2 : ¬cur' < c.startT := fun hh => h1 (h.2 hh)
        simp only [h1, h2, if_false, ih]

/-- one batch, without `num_events_to_use`: either it stops and holds the rest of the events, or it is full and the events
    go on after it (with a current time that is not before the start of the frame) -/
theorem lmReadBatch_spec (c : LmCfg) (hn : c.numEventsToUse ≤ 0) (prev : Nat) (recs : List Record) :
    ∀ (n : Nat) (cur : Int), n < c.cacheSize →
      let o := lmReadBatch c prev n cur recs
      (o.stop = true → lmReadAll c cur recs = o.bins) ∧
      (o.stop = false → o.rest.length < recs.length ∧ o.bins ≠ [] ∧
        ∃ cur', ¬cur' < c.startT ∧ lmReadAll c cur recs = o.bins ++ lmReadAll c cur' o.rest) := by
  have hne : ¬(c.numEventsToUse > 0) := by omega
  induction recs with
  | nil => intro n cur _; simp [lmReadBatch, lmReadAll]
  | cons r rs ih =>
    intro n cur hlt
    cases r with
    | time t =>
      simp only [lmReadBatch, lmReadAll]
      by_cases hstop : (c.doTimeFrame && decide (t ≥ c.endT)) = true
      · simp [hstop]
      · simp only [hstop, if_false, Bool.false_eq_true]
        have := ih n t hlt
        refine ⟨this.1, fun hs => ?_⟩
        obtain ⟨h1, h2, h3⟩ := this.2 hs
        exact ⟨by simp only [List.length_cons]; omega, h2, h3⟩
    | event e =>
      simp only [lmReadBatch, lmReadAll]
      have skip : (let o := lmReadBatch c prev n cur rs
          (o.stop = true → lmReadAll c cur rs = o.bins) ∧
          (o.stop = false → o.rest.length < (Record.event e :: rs).length ∧ o.bins ≠ [] ∧
            ∃ cur', ¬cur' < c.startT ∧ lmReadAll c cur rs = o.bins ++ lmReadAll c cur' o.rest)) := by
        have := ih n cur hlt
        refine ⟨this.1, fun hs => ?_⟩
        obtain ⟨h1, h2, h3⟩ := this.2 hs
        exact ⟨by simp only [List.length_cons]; omega, h2, h3⟩
      by_cases hc : cur < c.startT
      · simp only [hc, if_true]; exact skip
      · simp only [hc, if_false]
        by_cases hp : e.prompt = true
        · simp only [hp, if_true]
          cases hb : getBinFromEvent c.tpl e with
          | none => simp only []; exact skip
          | some b =>
            simp only []
            by_cases hr : inRange c.tpl b = true
            · simp only [hr, if_true]
              have hfalse : (decide (c.numEventsToUse > 0) && decide (((prev + n : Nat) : Int) + 1 ≥ c.numEventsToUse)) = false := by
                simp [hne]
              simp only [hfalse, Bool.false_eq_true, if_false]
              by_cases hfull : n + 1 = c.cacheSize
              · simp only [hfull, if_true]
                refine ⟨by simp, fun _ => ⟨by simp, by simp, cur, hc, by simp⟩⟩
              · simp only [hfull, if_false]
                have := ih (n + 1) cur (by omega)
                refine ⟨fun hs => by rw [this.1 hs], fun hs => ?_⟩
                obtain ⟨h1, _, cur', h3, h4⟩ := this.2 hs
                exact ⟨by simp only [List.length_cons]; omega, by simp, cur', h3, by rw [h4]; simp⟩
            · simp only [hr, if_false, Bool.false_eq_true]; exact skip
        · simp only [hp, if_false, Bool.false_eq_true]; exact skip

/-- **the batches concatenate to the events read with an unlimited cache**, for every cache size ≥ 1 (no
    `num_events_to_use`; `start_time ≤ end_time`, so that restarting a batch at the end time of the frame — what the code
    does — is not before the start) -/
theorem lmBatches_flatten (c : LmCfg) (hn : c.numEventsToUse ≤ 0) (hc : 1 ≤ c.cacheSize) (hse : c.startT ≤ c.endT) :
    ∀ (fuel : Nat) (first : Bool) (prev : Nat) (recs : List Record) (cur : Int), recs.length < fuel →
      (first = true → cur = 0) → (first = false → ¬cur < c.startT) →
      (lmBatches c fuel first prev recs).flatten = lmReadAll c cur recs := by
  intro fuel
  induction fuel with
  | zero => intro _ _ recs _ h; omega
  | succ fuel ih =>
    intro first prev recs cur hlen hf1 hf2
    simp only [lmBatches]
    have hcur : lmReadAll c cur recs = lmReadAll c (if first = true then 0 else c.endT) recs := by
      cases first with
      | true => simp [hf1 rfl]
      | false =>
        apply lmReadAll_cur_irrelevant
        have := hf2 rfl
        simp only [Bool.false_eq_true, if_false]
        constructor <;> intro h <;> omega
    rw [hcur]
    have spec := lmReadBatch_spec c hn prev recs 0 (if first = true then 0 else c.endT) (by omega)
    simp only at spec
    cases hs : (lmReadBatch c prev 0 (if first = true then 0 else c.endT) recs).stop with
    | true => simp [spec.1 hs]
    | false =>
      simp only [Bool.false_eq_true, if_false, List.flatten_cons]
      obtain ⟨h1, _, cur', h3, h4⟩ := spec.2 hs
      rw [h4, ih false _ _ cur' (by omega) (by simp) (fun _ => h3)]

/-- `lmReadAll` does not look at the cache size -/
theorem lmReadAll_cacheSize (c : LmCfg) (n : Nat) (recs : List Record) :
    ∀ cur, lmReadAll { c with cacheSize := n } cur recs = lmReadAll c cur recs := by
  induction recs with
  | nil => intro _; rfl
  | cons r rs ih =>
    intro cur
    cases r with
    | time t => simp only [lmReadAll, ih]
    | event e => simp only [lmReadAll, ih]

/-- the configuration of `LmToProjData` that histograms the same events: prompts only, the same frame, the same ranges -/
def LmCfg.histCfg (c : LmCfg) : Cfg :=
  { tpl := c.tpl, frames := [(c.startT, c.endT)], doTimeFrame := true, numEventsToStore := 0, storePrompts := true,
    delayedIncrement := 0, segsInMemory := 1, tofInMemory := 1 }

/-- reading with an unlimited cache, in time-frame mode, on a stream whose time marks never go back: exactly the
    accepted prompt events whose time lies in the frame -/
theorem lmReadAll_eq_filter (c : LmCfg) (hd : c.doTimeFrame = true) (recs : List Record) :
    ∀ cur, Regular [] cur recs → cur < c.endT →
      lmReadAll c cur recs = (timed cur recs).filterMap fun te =>
        if c.startT ≤ te.1 ∧ te.1 < c.endT ∧ te.2.prompt = true then accepted c.histCfg te.2 else none := by
  induction recs with
  | nil => intro cur _ _; simp [lmReadAll, timed]
  | cons r rs ih =>
    intro cur hR hlt
    cases r with
    | time t =>
      simp only [Regular] at hR
      simp only [lmReadAll, timed, hd, Bool.true_and]
      by_cases ht : t ≥ c.endT
      · simp only [ht, decide_true, if_true]
        symm
        rw [List.filterMap_eq_nil_iff]
        intro te hte
        have := timed_ge [] rs t hR.2.2 te hte
        rw [if_neg]; omega
      · simp only [ht, decide_false, Bool.false_eq_true, if_false]
        exact ih t hR.2.2 (by omega)
    | event e =>
      simp only [Regular] at hR
      have IH := ih cur hR hlt
      simp only [lmReadAll, timed, List.filterMap_cons]
      rw [IH]
      by_cases hc : cur < c.startT
      · have hw : ¬(c.startT ≤ cur ∧ cur < c.endT ∧ e.prompt = true) := by omega
        simp only [hc, if_true, hw, if_false]
      · by_cases hp : e.prompt = true
        · have hw : c.startT ≤ cur ∧ cur < c.endT ∧ e.prompt = true := ⟨by omega, hlt, hp⟩
          have hacc : accepted c.histCfg e
              = (match getBinFromEvent c.tpl e with
                 | none => none
                 | some b => if inRange c.tpl b then some b else none) := rfl
          simp only [hc, if_false, hp, if_true, hw, and_self, hacc]
          cases hb : getBinFromEvent c.tpl e with
          | none => rfl
          | some b =>
            by_cases hr : inRange c.tpl b = true
            · simp only [hr, if_true]
            · simp only [hr, if_false, Bool.false_eq_true]
        · simp [hc, hp]

/-! ### the back projections -/

section Field
variable {K : Type} [Field K]

theorem sumList_eq_sum (l : List K) : sumList l = l.sum := by
  induction l with
  | nil => rfl
  | cons a l ih => simp [sumList, ih]

theorem imageAt_nil (v : Nat) : imageAt ([] : List (Nat × K)) v = 0 := rfl

theorem imageAt_append (l1 l2 : List (Nat × K)) (v : Nat) : imageAt (l1 ++ l2) v = imageAt l1 v + imageAt l2 v := by
  simp [imageAt, sumList_eq_sum]

theorem imageAt_flatMap {α : Type} (f : α → List (Nat × K)) (l : List α) (v : Nat) :
    imageAt (l.flatMap f) v = (l.map fun a => imageAt (f a) v).sum := by
  induction l with
  | nil => rfl
  | cons a l ih => simp [List.flatMap_cons, imageAt_append, ih]

theorem sum_row_div (row : List (Nat × K)) (q : K) (v : Nat) :
    (row.map fun e => if e.1 = v then e.2 / q else 0).sum = (row.map fun e => if e.1 = v then e.2 else 0).sum / q := by
  induction row with
  | nil => simp
  | cons e l ih =>
    simp only [List.map_cons, List.sum_cons, ih, add_div]
    congr 1
    by_cases h : e.1 = v <;> simp [h]

/-- back projection of one event: `row_v / (row·image + add)` at voxel `v` -/
theorem imageAt_lmEventContribs (img : Nat → K) (d : LmBinData K) (v : Nat) :
    imageAt (lmEventContribs img d) v = rowAt d.row v / (lmFwd img d.row + d.add) := by
  simp only [lmEventContribs, imageAt, rowAt, sumList_eq_sum, List.map_map]
  rw [← sum_row_div]
  rfl

/-- **the list-mode gradient plus sensitivity at a voxel is the sum over the events (of all batches, of the subset) of
    `row_v / (row·image + add)`** -/
theorem lmGps_eq_sum (data : Bin → LmBinData K) (img : Nat → K) (nsub subset : Int) (batches : List (List Bin)) (v : Nat) :
    lmGps data img nsub subset batches v
      = ((batches.flatten.filter fun b => inSubset nsub subset (data b).basicView).map fun b =>
          rowAt (data b).row v / (lmFwd img (data b).row + (data b).add)).sum := by
  simp only [lmGps, lmContribs, imageAt_flatMap]
  induction batches with
  | nil => rfl
  | cons bt bts ih =>
    simp only [List.map_cons, List.sum_cons, List.flatten_cons, List.filter_append, List.map_append, List.sum_append, ih]
    congr 1
    simp only [imageAt_lmEventContribs]

/-! ### the executable accumulation is the image -/

theorem accumulate_aux (cs : List (Nat × K)) (arr : Array K) (v : Nat) (hv : v < arr.size) :
    (cs.foldl (fun arr e => arr.modify e.1 (fun s => s + e.2)) arr).getD v 0 = arr.getD v 0 + imageAt cs v := by
  induction cs generalizing arr with
  | nil => simp [imageAt_nil]
  | cons e cs ih =>
    rw [List.foldl_cons, ih _ (by simpa using hv)]
    have : (arr.modify e.1 (fun s => s + e.2)).getD v 0 = arr.getD v 0 + (if e.1 = v then e.2 else 0) := by
      simp only [Array.getD_eq_getD_getElem?, Array.getElem?_modify]
      by_cases h : e.1 = v
      · subst h; simp [hv]
      · simp [h, hv]
    rw [this]
    simp only [imageAt, sumList, List.map_cons]
    ring

/-- the array the driver computes holds, for every voxel of the image, the value `imageAt` of the model -/
theorem accumulate_getD (n : Nat) (cs : List (Nat × K)) (v : Nat) (hv : v < n) :
    (accumulate n cs).getD v 0 = imageAt cs v := by
  unfold accumulate
  rw [accumulate_aux cs _ v (by simpa using hv)]
  simp [hv]

/-- a sum over the events of a subset, regrouped by bin: histogram-weighted sum over the bins of the subset -/
theorem sum_filter_events_eq_sum_bins (bs : List Bin) (p : Bin → Bool) (g : Bin → K) :
    ((bs.filter p).map g).sum
      = ∑ b ∈ bs.toFinset, ((value (bs.map fun x => (x, (1 : Int))) b : Int) : K) * (if p b then g b else 0) := by
  rw [← sum_events_eq_sum_bins bs (fun b => if p b then g b else 0)]
  induction bs with
  | nil => rfl
  | cons b bs ih =>
    by_cases h : p b = true
    · simp [h, ih]
    · simp [h, ih]

end Field

end StirVerif.C14
