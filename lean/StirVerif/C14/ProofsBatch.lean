/-
C14 — proofs, part 1: the multi-pass run (`processData`, batches of segments / TOF bins, rewind to the saved
position) stores the same histogram as reading the data once with everything in memory (`singlePass`).
-/
import StirVerif.C14.Model

namespace StirVerif.C14

/-! ### `value` -/

theorem value_nil (b : Bin) : value [] b = 0 := rfl

theorem value_cons (a : Add) (l : List Add) (b : Bin) :
    value (a :: l) b = (if a.1 = b then a.2 else 0) + value l b := by
  cases a; rfl

theorem value_append (l1 l2 : List Add) (b : Bin) : value (l1 ++ l2) b = value l1 b + value l2 b := by
  induction l1 with
  | nil => simp [value]
  | cons a l ih => simp only [List.cons_append, value_cons, ih]; omega

theorem value_filter (p : Bin → Bool) (l : List Add) (b : Bin) :
    value (l.filter fun a => p a.1) b = if p b then value l b else 0 := by
  induction l with
  | nil => simp [value]
  | cons a l ih =>
    by_cases hab : a.1 = b
    · subst hab
      by_cases hp : p a.1 = true
      · simp [hp, value_cons, ih]
      · simp [hp, ih]
    · by_cases hp : p a.1 = true
      · simp [hp, value_cons, ih, hab]
      · simp [hp, value_cons, hab, ih]

theorem value_eq_zero_of_forall_ne (l : List Add) (b : Bin) (h : ∀ a ∈ l, a.1 ≠ b) : value l b = 0 := by
  induction l with
  | nil => rfl
  | cons a l ih =>
    have h1 : a.1 ≠ b := h a (by simp)
    have h2 : value l b = 0 := ih fun x hx => h x (by simp [hx])
    simp [value_cons, h1, h2]

/-! ### one pass: `mainLoop` is `onePass` filtered by the batch -/

/-- the bins that are inside the output data -/
def inTemplate (t : Template) (b : Bin) : Prop :=
  t.minSeg ≤ b.seg ∧ b.seg ≤ t.maxSeg ∧ t.minTof ≤ b.tof ∧ b.tof ≤ t.maxTof

theorem getBinFromEvent_seg {t : Template} {e : Event} {b : Bin} (h : getBinFromEvent t e = some b) :
    t.minSeg ≤ b.seg ∧ b.seg ≤ t.maxSeg := by
  unfold getBinFromEvent at h
  cases he : e.bin with
  | none => simp [he] at h
  | some b' =>
    simp only [he] at h
    split at h
    · next hc => cases h; exact hc
    · cases h

theorem inRange_tof {t : Template} {b : Bin} (h : inRange t b = true) : t.minTof ≤ b.tof ∧ b.tof ≤ t.maxTof := by
  simp only [inRange, Bool.and_eq_true, decide_eq_true_eq] at h
  omega

/-- everything one pass stores lies inside the output data -/
theorem onePass_adds_inTemplate (c : Cfg) (endT : Int) (recs : List Record) :
    ∀ more cur, ∀ a ∈ (onePass c endT more cur recs).adds, inTemplate c.tpl a.1 := by
  induction recs with
  | nil => intro more cur a ha; simp [onePass] at ha
  | cons r rs ih =>
    intro more cur a ha
    unfold onePass at ha
    split at ha
    · simp at ha
    · cases r with
      | time t =>
        try simp only at ha
        split at ha
        · split at ha
          · simp at ha
          · exact ih _ _ a ha
        · exact ih _ _ a ha
      | event e =>
        try simp only at ha
        split at ha
        · exact ih _ _ a ha
        · next b hb =>
          split at ha
          · next hr =>
            try simp only at ha
            split at ha
            · exact ih _ _ a ha
            · simp only [List.mem_cons] at ha
              rcases ha with rfl | ha
              · have h1 := getBinFromEvent_seg hb
                have h2 := inRange_tof hr
                exact ⟨h1.1, h1.2, h2.1, h2.2⟩
              · exact ih _ _ a ha
          · exact ih _ _ a ha

/-- **one pass**: the pass over batch `bt` stores exactly the additions of the full pass that fall into `bt`,
    stops at the same place, and (when started at the same `current_time`, or in time-frame mode unless the data
    ran out) with the same `current_time`. -/
theorem mainLoop_spec (c : Cfg) (endT : Int) (bt : Batch) (recs : List Record) :
    ∀ more cur cur',
      (mainLoop c endT bt more cur recs).adds
          = ((onePass c endT more cur' recs).adds.filter fun a => inBatch bt a.1) ∧
      (mainLoop c endT bt more cur recs).rest = (onePass c endT more cur' recs).rest ∧
      (cur = cur' → (mainLoop c endT bt more cur recs).cur = (onePass c endT more cur' recs).cur) ∧
      (c.doTimeFrame = true → more ≠ 0 →
        (onePass c endT more cur' recs).rest = [] ∨
          (mainLoop c endT bt more cur recs).cur = (onePass c endT more cur' recs).cur) := by
  induction recs with
  | nil =>
    intro more cur cur'
    simp [mainLoop, onePass]
  | cons r rs ih =>
    intro more cur cur'
    unfold mainLoop onePass
    by_cases hm : more = 0
    · simp [hm]
    · simp only [hm, if_false]
      cases r with
      | time t =>
        simp only
        by_cases he : endT > 10
        · simp only [he, if_true]
          by_cases hb : (c.doTimeFrame && decide (t ≥ endT)) = true
          · simp [hb]
          · simp only [hb]
            have := ih more t t
            refine ⟨this.1, this.2.1, fun _ => this.2.2.1 rfl, fun _ _ => Or.inr (this.2.2.1 rfl)⟩
        · simp only [he, if_false]
          exact ih more cur cur'
      | event e =>
        simp only
        cases hg : getBinFromEvent c.tpl e with
        | none => simp only; exact ih more cur cur'
        | some b =>
          simp only
          by_cases hr : inRange c.tpl b = true
          · simp only [hr, if_true]
            by_cases hi : eventIncrement c e = 0
            · simp only [hi, if_true]; exact ih more cur cur'
            · simp only [hi, if_false]
              have := ih (if c.doTimeFrame then more else more - eventIncrement c e) cur cur'
              obtain ⟨h1, h2, h3, h4⟩ := this
              by_cases hbt : inBatch bt b = true
              · simp only [hbt, if_true, List.filter_cons]
                refine ⟨by rw [h1], h2, h3, ?_⟩
                intro hd hmore
                apply h4 hd
                simp [hd, hmore]
              · simp only [hbt, List.filter_cons]
                refine ⟨by simpa using h1, h2, h3, ?_⟩
                intro hd hmore
                apply h4 hd
                simp [hd, hmore]
          · simp only [hr]
            exact ih more cur cur'

/-! ### the batches partition the output data -/

open List in
theorem countP_batchStarts (lo hi step x : Int) (hstep : 1 ≤ step) (hx : lo ≤ x ∧ x ≤ hi) :
    (batchStarts lo hi step).countP (fun s => decide (s ≤ x) && decide (x ≤ min (hi + 1) (s + step) - 1)) = 1 := by
  have hpos : 0 < step := by omega
  unfold batchStarts
  rw [countP_map]
  have hd : 0 ≤ x - lo := by omega
  have hq0 : 0 ≤ (x - lo) / step := Int.ediv_nonneg hd (by omega)
  have hq1 : (x - lo) / step * step ≤ x - lo := Int.ediv_mul_le _ (by omega)
  have hq2 : x - lo < ((x - lo) / step + 1) * step := Int.lt_ediv_add_one_mul_self _ hpos
  rw [Int.add_mul, Int.one_mul] at hq2
  have hqn : (x - lo) / step ≤ (hi - lo) / step := Int.ediv_le_ediv hpos (by omega)
  have hcongr : countP ((fun s => decide (s ≤ x) && decide (x ≤ min (hi + 1) (s + step) - 1)) ∘ fun (i : Nat) => lo + (i : Int) * step)
        (range ((hi - lo) / step + 1).toNat)
      = countP (fun i => i == ((x - lo) / step).toNat) (range ((hi - lo) / step + 1).toNat) := by
    apply countP_congr
    intro i _
    simp only [Function.comp, Bool.and_eq_true, decide_eq_true_eq, beq_iff_eq]
    constructor
    · rintro ⟨h1, h2⟩
      have a1 : (i : Int) ≤ (x - lo) / step := (Int.le_ediv_iff_mul_le hpos).2 (by omega)
      have a2 : (x - lo) / step < (i : Int) + 1 := (Int.ediv_lt_iff_lt_mul hpos).2 (by rw [Int.add_mul, Int.one_mul]; omega)
      omega
    · intro h
      have hi' : (i : Int) = (x - lo) / step := by omega
      rw [hi']
      omega
  rw [hcongr, ← count_eq_countP, Nodup.count nodup_range, if_pos]
  rw [mem_range]
  omega

open List in
theorem countP_const_and {β : Type} (S : List β) (q : Bool) (ps : β → Bool) :
    countP (fun s => q && ps s) S = if q then countP ps S else 0 := by
  cases q <;> simp

open List in
theorem countP_flatMap_map_and {α β γ : Type} (T : List α) (S : List β) (mk : α → β → γ) (p : γ → Bool)
    (pt : α → Bool) (ps : β → Bool) (h : ∀ t s, p (mk t s) = (pt t && ps s)) :
    countP p (T.flatMap fun t => S.map (mk t)) = countP pt T * countP ps S := by
  induction T with
  | nil => simp
  | cons t T ih =>
    rw [flatMap_cons, countP_append, ih, countP_map]
    have : (p ∘ mk t) = fun s => pt t && ps s := by funext s; simp [h]
    rw [this, countP_const_and, countP_cons]
    cases pt t <;> simp [Nat.add_mul, Nat.add_comm]

/-- every bin of the output data is held in memory in exactly one pass -/
theorem countP_batches (c : Cfg) (hs : 1 ≤ c.segsInMemory) (ht : 1 ≤ c.tofInMemory) (b : Bin)
    (hb : inTemplate c.tpl b) : (batches c).countP (fun bt => inBatch bt b) = 1 := by
  unfold batches
  rw [countP_flatMap_map_and _ _ _ _
        (fun tof => decide (tof ≤ b.tof) && decide (b.tof ≤ min (c.tpl.maxTof + 1) (tof + c.tofInMemory) - 1))
        (fun seg => decide (seg ≤ b.seg) && decide (b.seg ≤ min (c.tpl.maxSeg + 1) (seg + c.segsInMemory) - 1))]
  · rw [countP_batchStarts _ _ _ _ ht ⟨hb.2.2.1, hb.2.2.2⟩, countP_batchStarts _ _ _ _ hs ⟨hb.1, hb.2.1⟩]
  · intro t s
    simp only [inBatch, Bool.and_assoc]

/-! ### the passes of one frame -/

/-- `more_events` at the start of every pass -/
def more0 (c : Cfg) : Int := if c.doTimeFrame then 1 else c.numEventsToStore

/-- "we're going once more through the data" (l.733) -/
def isLater (c : Cfg) (bt : Batch) : Bool := bt.segLo ≠ c.tpl.minSeg || bt.tofLo > c.tpl.minTof

theorem more0_ne_zero (c : Cfg) (h : c.doTimeFrame = true) : more0 c ≠ 0 := by simp [more0, h]

/-- later passes: all start from the saved position `s1` -/
theorem passes_later (c : Cfg) (s e : Int) (s1 : List Record) (cur1 : Int) (bts : List Batch)
    (hl : ∀ bt ∈ bts, isLater c bt = true) :
    ∀ st : PassState, st.saved = s1 →
      (∀ b, value (passes c s e bts st).1 b
          = value (onePass c e (more0 c) cur1 s1).adds b * (bts.countP fun bt => inBatch bt b)) ∧
      (bts = [] → (passes c s e bts st).2 = st) ∧
      (bts ≠ [] → (passes c s e bts st).2.stream = (onePass c e (more0 c) cur1 s1).rest ∧
        (c.doTimeFrame = true → (onePass c e (more0 c) cur1 s1).rest = [] ∨
            (passes c s e bts st).2.cur = (onePass c e (more0 c) cur1 s1).cur)) := by
  induction bts with
  | nil => intro st _; simp [passes, value]
  | cons bt bts ih =>
    intro st hst
    have hbt : isLater c bt = true := hl bt (by simp)
    have hl' : ∀ bt ∈ bts, isLater c bt = true := fun x hx => hl x (by simp [hx])
    have hcond : (bt.segLo ≠ c.tpl.minSeg || bt.tofLo > c.tpl.minTof) = true := hbt
    obtain ⟨m1, m2, m3, m4⟩ := mainLoop_spec c e bt s1 (more0 c) s cur1
    have hstep : passes c s e (bt :: bts) st
        = ((mainLoop c e bt (more0 c) s s1).adds
              ++ (passes c s e bts ⟨(mainLoop c e bt (more0 c) s s1).cur, (mainLoop c e bt (more0 c) s s1).rest, s1⟩).1,
            (passes c s e bts ⟨(mainLoop c e bt (more0 c) s s1).cur, (mainLoop c e bt (more0 c) s s1).rest, s1⟩).2) := by
      simp only [passes, hcond, if_true, hst, more0]
    rw [hstep]
    obtain ⟨i1, i2, i3⟩ := ih hl' ⟨(mainLoop c e bt (more0 c) s s1).cur, (mainLoop c e bt (more0 c) s s1).rest, s1⟩ rfl
    refine ⟨?_, by simp, fun _ => ?_⟩
    · intro b
      simp only [value_append, i1 b, m1, value_filter, List.countP_cons]
      by_cases hb : inBatch bt b = true
      · simp [hb, Int.mul_add, Int.add_comm]
      · simp [hb]
    · by_cases hnil : bts = []
      · subst hnil
        simp only [passes]
        exact ⟨m2, fun hd => m4 hd (more0_ne_zero c hd)⟩
      · exact i3 hnil

theorem skipTo_nil (s cur : Int) : skipTo s cur [] = (cur, []) := rfl

theorem mainLoop_nil (c : Cfg) (e : Int) (bt : Batch) (more cur : Int) :
    mainLoop c e bt more cur [] = ⟨[], cur, []⟩ := rfl

theorem onePass_nil (c : Cfg) (e : Int) (more cur : Int) : onePass c e more cur [] = ⟨[], cur, []⟩ := rfl

/-- once the data have run out nothing is stored any more -/
theorem passes_nil (c : Cfg) (s e : Int) (bts : List Batch) :
    ∀ st : PassState, st.stream = [] → st.saved = [] →
      (passes c s e bts st).1 = [] ∧ (passes c s e bts st).2.stream = [] ∧ (passes c s e bts st).2.saved = [] := by
  induction bts with
  | nil => intro st h1 h2; simp [passes, h1, h2]
  | cons bt bts ih =>
    intro st h1 h2
    by_cases hc : (bt.segLo ≠ c.tpl.minSeg || bt.tofLo > c.tpl.minTof) = true
    · have := ih ⟨s, [], []⟩ rfl rfl
      simp only [passes, h1, h2, hc, if_true, mainLoop_nil, List.nil_append]
      exact this
    · have := ih ⟨st.cur, [], []⟩ rfl rfl
      simp only [passes, h1, h2, hc, skipTo_nil, mainLoop_nil, List.nil_append]
      exact this

theorem batchStarts_cons (lo hi step : Int) (hstep : 1 ≤ step) (h : lo ≤ hi) :
    ∃ tl, batchStarts lo hi step = lo :: tl ∧ ∀ x ∈ tl, lo < x := by
  have hpos : 0 < step := by omega
  have hq0 : 0 ≤ (hi - lo) / step := Int.ediv_nonneg (by omega) (by omega)
  obtain ⟨k, hk⟩ : ∃ k : Nat, ((hi - lo) / step + 1).toNat = k + 1 := ⟨((hi - lo) / step).toNat, by omega⟩
  refine ⟨(List.range k).map fun (i : Nat) => lo + ((i : Int) + 1) * step, ?_, ?_⟩
  · unfold batchStarts
    rw [hk, List.range_succ_eq_map]
    simp [List.map_map, Function.comp_def]
  · intro x hx
    simp only [List.mem_map, List.mem_range] at hx
    obtain ⟨i, _, rfl⟩ := hx
    have : 0 < ((i : Int) + 1) * step := Int.mul_pos (by omega) hpos
    omega

theorem batches_cons (c : Cfg) (hs : 1 ≤ c.segsInMemory) (ht : 1 ≤ c.tofInMemory)
    (hseg : c.tpl.minSeg ≤ c.tpl.maxSeg) (htof : c.tpl.minTof ≤ c.tpl.maxTof) :
    ∃ bt bts, batches c = bt :: bts ∧ isLater c bt = false ∧ ∀ x ∈ bts, isLater c x = true := by
  obtain ⟨tt, hT, hT'⟩ := batchStarts_cons c.tpl.minTof c.tpl.maxTof c.tofInMemory ht htof
  obtain ⟨ss, hS, hS'⟩ := batchStarts_cons c.tpl.minSeg c.tpl.maxSeg c.segsInMemory hs hseg
  unfold batches
  rw [hT, hS]
  simp only [List.flatMap_cons, List.map_cons, List.cons_append]
  refine ⟨_, _, rfl, by simp [isLater], ?_⟩
  intro x hx
  simp only [List.mem_append, List.mem_map, List.mem_flatMap, List.mem_cons] at hx
  rcases hx with ⟨s, hs1, rfl⟩ | ⟨t, ht1, rfl | ⟨s, hs1, rfl⟩⟩
  · have := hS' s hs1
    simp only [isLater, Bool.or_eq_true, decide_eq_true_eq]
    left; simp; omega
  · have := hT' t ht1
    simp only [isLater, Bool.or_eq_true, decide_eq_true_eq]
    right; omega
  · have := hT' t ht1
    simp only [isLater, Bool.or_eq_true, decide_eq_true_eq]
    right; omega

/-- **one frame**: all the passes together store what one pass with everything in memory stores, and leave the
    list-mode data at the same place -/
theorem frame_spec (c : Cfg) (hs : 1 ≤ c.segsInMemory) (ht : 1 ≤ c.tofInMemory)
    (hseg : c.tpl.minSeg ≤ c.tpl.maxSeg) (htof : c.tpl.minTof ≤ c.tpl.maxTof) (s e cur : Int) (recs : List Record) :
    (∀ b, value (passes c s e (batches c) ⟨cur, recs, recs⟩).1 b
        = value (onePass c e (more0 c) (skipTo s cur recs).1 (skipTo s cur recs).2).adds b) ∧
    (passes c s e (batches c) ⟨cur, recs, recs⟩).2.stream
        = (onePass c e (more0 c) (skipTo s cur recs).1 (skipTo s cur recs).2).rest ∧
    (c.doTimeFrame = true →
      (onePass c e (more0 c) (skipTo s cur recs).1 (skipTo s cur recs).2).rest = [] ∨
      (passes c s e (batches c) ⟨cur, recs, recs⟩).2.cur
        = (onePass c e (more0 c) (skipTo s cur recs).1 (skipTo s cur recs).2).cur) := by
  obtain ⟨bt, bts, heq, hfirst, hlater⟩ := batches_cons c hs ht hseg htof
  have hcount := fun b hb => countP_batches c hs ht b hb
  rw [heq] at hcount ⊢
  have hcond : (bt.segLo ≠ c.tpl.minSeg || bt.tofLo > c.tpl.minTof) = false := hfirst
  generalize hsk : skipTo s cur recs = sk
  obtain ⟨m1, m2, m3, _⟩ := mainLoop_spec c e bt sk.2 (more0 c) sk.1 sk.1
  have hstep : passes c s e (bt :: bts) ⟨cur, recs, recs⟩
      = ((mainLoop c e bt (more0 c) sk.1 sk.2).adds
            ++ (passes c s e bts ⟨(mainLoop c e bt (more0 c) sk.1 sk.2).cur, (mainLoop c e bt (more0 c) sk.1 sk.2).rest, sk.2⟩).1,
          (passes c s e bts ⟨(mainLoop c e bt (more0 c) sk.1 sk.2).cur, (mainLoop c e bt (more0 c) sk.1 sk.2).rest, sk.2⟩).2) := by
    simp only [passes, hcond, hsk, more0]
    rfl
  rw [hstep]
  obtain ⟨i1, i2, i3⟩ := passes_later c s e sk.2 sk.1 bts hlater
    ⟨(mainLoop c e bt (more0 c) sk.1 sk.2).cur, (mainLoop c e bt (more0 c) sk.1 sk.2).rest, sk.2⟩ rfl
  refine ⟨?_, ?_, ?_⟩
  · intro b
    simp only [value_append, i1 b, m1, value_filter]
    by_cases hb : inTemplate c.tpl b
    · have h1 := hcount b hb
      rw [List.countP_cons] at h1
      by_cases hbb : inBatch bt b = true
      · simp only [hbb, if_true] at h1 ⊢
        have : List.countP (fun bt => inBatch bt b) bts = 0 := by omega
        simp [this]
      · simp only [hbb] at h1 ⊢
        have : List.countP (fun bt => inBatch bt b) bts = 1 := by simpa using h1
        simp [this]
    · have h0 : value (onePass c e (more0 c) sk.1 sk.2).adds b = 0 := by
        apply value_eq_zero_of_forall_ne
        intro a ha hab
        exact hb (hab ▸ onePass_adds_inTemplate c e sk.2 _ _ a ha)
      simp [h0]
  · by_cases hnil : bts = []
    · subst hnil; simp only [passes]; exact m2
    · exact (i3 hnil).1
  · intro hd
    by_cases hnil : bts = []
    · subst hnil; simp only [passes]; exact Or.inr (m3 rfl)
    · exact (i3 hnil).2 hd

/-- **all frames**: the histograms of `processData` are those of `singlePass`, frame by frame
    (generalised over the state at the start of a frame) -/
theorem frameLoop_spec (c : Cfg) (hs : 1 ≤ c.segsInMemory) (ht : 1 ≤ c.tofInMemory)
    (hseg : c.tpl.minSeg ≤ c.tpl.maxSeg) (htof : c.tpl.minTof ≤ c.tpl.maxTof) (b : Bin) (fs : List (Int × Int)) :
    ∀ curP curS recs, (curP = curS ∨ recs = []) → (c.doTimeFrame = true ∨ fs.length ≤ 1) →
      (frameLoop c fs curP recs).1.map (fun a => value a b) = (onePassFrames c fs curS recs).1.map (fun a => value a b) := by
  induction fs with
  | nil => intro curP curS recs _ _; simp [frameLoop, onePassFrames]
  | cons f fs ih =>
    obtain ⟨s, e⟩ := f
    intro curP curS recs hst hmode
    have hmode' : c.doTimeFrame = true ∨ fs.length ≤ 1 := by
      rcases hmode with h | h
      · exact Or.inl h
      · right; simp only [List.length_cons] at h; omega
    by_cases hrecs : recs = []
    · subst hrecs
      obtain ⟨p1, p2, _⟩ := passes_nil c s e (batches c) ⟨curP, [], []⟩ rfl rfl
      simp only [frameLoop, onePassFrames, skipTo_nil, onePass_nil, List.map_cons, p1, p2]
      rw [ih _ _ [] (Or.inr rfl) hmode']
    · have hcur : curP = curS := by rcases hst with h | h; exact h; exact absurd h hrecs
      subst hcur
      obtain ⟨f1, f2, f3⟩ := frame_spec c hs ht hseg htof s e curP recs
      simp only [frameLoop, onePassFrames, List.map_cons]
      rw [f1 b, f2]
      congr 1
      by_cases hfs : fs = []
      · subst hfs; simp [frameLoop, onePassFrames]
      · have hd : c.doTimeFrame = true := by
          rcases hmode with h | h
          · exact h
          · exfalso
            cases fs with
            | nil => exact hfs rfl
            | cons _ _ => simp only [List.length_cons] at h; omega
        apply ih _ _ _ _ hmode'
        rcases f3 hd with h | h
        · exact Or.inr h
        · exact Or.inl h

/-- **Theorem A** -/
theorem process_eq_singlePass (c : Cfg) (hs : 1 ≤ c.segsInMemory) (ht : 1 ≤ c.tofInMemory)
    (hseg : c.tpl.minSeg ≤ c.tpl.maxSeg) (htof : c.tpl.minTof ≤ c.tpl.maxTof)
    (hmode : c.doTimeFrame = true ∨ c.frames.length ≤ 1) (recs : List Record) (b : Bin) :
    (processData c recs).1.map (fun a => value a b) = (singlePass c recs).1.map (fun a => value a b) :=
  frameLoop_spec c hs ht hseg htof b c.frames 0 0 recs (Or.inl rfl) hmode

end StirVerif.C14
