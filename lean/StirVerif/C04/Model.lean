/-
C04 — executable model of the matched projector pair built on a projection matrix.

Everything is generic in the number type `K` (only `0`, `+`, `*` and the test `= 0` are used): the driver
executes these definitions at `K = Rat` (every `float` of the implementation is a dyadic rational), the
theorems of `Props.lean` are for an arbitrary commutative ring.

What is *data* (sent by the harness, no assumption made about it in any theorem):
* the rows of the matrix, `rows : Bin → Row K`, i.e. what
  `ProjMatrixByBin::get_proj_matrix_elems_for_one_bin` returns for a bin;
* the symmetries, `Syms`: `is_basic`, `get_related_view_segment_numbers` and, for the explicit-symmetries branch,
  the list produced by `find_basic_bin` + `get_related_bins_factorised`;
* the memory layouts `idx : Bin → Nat` (projection data, property C02) and `ImgGeom.lin : Vox → Nat` (image).

What is transcribed:
* `ProjMatrixElemsForOneBin::forward_project(Bin&, density)` / `back_project(density, Bin)`
  (src/recon_buildblock/ProjMatrixElemsForOneBin.cxx:334-371): `fwdRow`, `bckRow`, including the `data == 0`
  early return and the range guard that exists for the first (z) coordinate only — there is no guard for y and x
  in the C++ (the asserts of `Array::operator[]` are compiled out), so there is none here: the voxel goes through
  the layout function `lin` unchecked.
* both branches of `ForwardProjectorByBinUsingProjMatrixByBin::actual_forward_project`
  (ForwardProjectorByBinUsingProjMatrixByBin.cxx:102-207) and of
  `BackProjectorByBinUsingProjMatrixByBin::actual_back_project`
  (BackProjectorByBinUsingProjMatrixByBin.cxx:106-222): `binsPerBin` (cache enabled: loop over viewgrams, tangential,
  axial positions), `explicitPositions`/`binsExplicit` (cache disabled: the `already_processed` loop), `fwdBins`, `bckBins`.
* `ForwardProjectorByBin::forward_project(ProjData&, subset_num, num_subsets, zero)` (ForwardProjectorByBin.cxx:171-235; the `(viewgrams)`, `(viewgrams, min_ax, max_ax)` overloads :238-258 only fill in the full ranges):
  `fwdSubset`; `detail::find_basic_vs_nums_in_subset` (find_basic_vs_nums_in_subset.cxx:32): `vsInSubset`.
* `BackProjectorByBin::{set_up, start_accumulating_in_new_target, back_project(ProjData), back_project(RelatedViewgrams),
  get_output, back_project(image, proj_data, ..)}` (BackProjectorByBin.cxx:71, 306, 186, 260, 327, 115): `BackProj.*`.

* `ForwardProjectorByBin::set_input` with its pre-data-processor (ForwardProjectorByBin.cxx:312) and
  `forward_project(proj_data, image, …)` = `set_input; forward_project` (:100): `setInput`, `fwdProject`;
  `BackProjectorByBin::get_output` with its post-data-processor (BackProjectorByBin.cxx:327-360): `BackProj.getOutputPost`,
  `BackProj.backIntoPost`.  A processor is a function on the voxel array (`Proc`); what it computes is the processor's
  business, where and on which copy it is applied is the projector's.

* `ProjMatrixByBin::set_up` / `ProjMatrixByBinUsingRayTracing::set_up` (with its "already set up with the same
  characteristics" shortcut), `get_proj_matrix_elems_for_one_bin` with the row cache in both modes
  (`cache_stores_only_basic_bins` or not), `cache_proj_matrix_elems_for_one_bin`, `get_cached_proj_matrix_elems_for_one_bin`
  (ProjMatrixByBin.cxx:131-182, 213-283; ProjMatrixByBin.inl:48-112; ProjMatrixByBinUsingRayTracing.cxx:237-420):
  `MatrixObj.*` — the state machine that decides which rows an object returns after it has been set up several times.

The geometry `G : PDGeom` and the layout `idx` are those of the **projection data passed to the call**
(`proj_data.get_proj_data_info_sptr()`, `viewgrams.get_min_axial_pos_num()` …), which may be smaller than the geometry the
projectors were set up with (`*_proj_data_info_sptr >= proj_data_info`: fewer segments, trimmed axial / tangential ranges);
`rows` and `Syms` belong to the set-up geometry (the matrix and its symmetries), the related-position lists `rel` are what
`get_related_bins_factorised` returns for the ranges of the data passed in.  The driver executes `fwdSubset`/`bckSubset` in
both situations (`fwd`/`bsub` and `fwd2`/`bsub2`).

Not modelled: the on-the-fly projector `ForwardProjectorByBinUsingRayTracing` (hand-optimised Siddon with in-line symmetries;
it shares no code with the matrix — compared on the implementation by the harness only), float rounding (the driver returns the exact value, the magnitude `Σ|terms|` and the number of terms;
`checks/c04.py` applies the forward error bound), OpenMP, what a data processor computes (the harness installs its own
exact-arithmetic processors: scaling, a symmetric 3-point stencil, one that fails), the
geometry/modality `check()`s (error paths exercised by the harness as `err` only), the ray tracing itself
(`RayTraceVoxelsOnCartesianGrid`) — but the END POINTS between which `ray_trace_one_lor` traces (the part of the LOR inside
the cylindrical or square field of view, ProjMatrixByBinUsingRayTracing.cxx:478-526) are: `squareChord`, `cylChordSq`.
Core Lean only.
-/
namespace StirVerif.C04

/-- voxel index `(coords[1], coords[2], coords[3]) = (z, y, x)` -/
abbrev Vox := Int × Int × Int

/-- one row of the matrix: `ProjMatrixElemsForOneBin::elements` (coordinates, value), in storage order -/
abbrev Row (K : Type) := List (Vox × K)

/-- what the projectors use of the image grid: `density.get_min_index()`, `density.get_max_index()` (first
    coordinate) and the storage layout -/
structure ImgGeom where
  zmin : Int
  zmax : Int
  lin : Vox → Nat

structure Bin where
  seg : Int
  view : Int
  ax : Int
  tang : Int
  tof : Int
  deriving DecidableEq, Repr, Inhabited

/-- identity of a viewgram -/
structure VG where
  seg : Int
  view : Int
  tof : Int
  deriving DecidableEq, Repr, Inhabited

/-- `min_axial_pos_num, max_axial_pos_num, min_tangential_pos_num, max_tangential_pos_num` -/
structure Range where
  minA : Int
  maxA : Int
  minT : Int
  maxT : Int
  deriving DecidableEq, Repr, Inhabited

/-- `for (i = lo; i <= hi; ++i)` -/
def irange (lo hi : Int) : List Int := (List.range (hi + 1 - lo).toNat).map fun (k : Nat) => lo + (k : Int)

def Range.contains (r : Range) (p : Int × Int) : Bool :=
  r.minA ≤ p.1 && p.1 ≤ r.maxA && r.minT ≤ p.2 && p.2 ≤ r.maxT

def VG.bin (vg : VG) (a t : Int) : Bin := ⟨vg.seg, vg.view, a, t, vg.tof⟩

section Generic
variable {K : Type} [Zero K] [Add K] [Mul K] [DecidableEq K]

/-- `coords[1] >= density.get_min_index() && coords[1] <= density.get_max_index()` -/
def guardZ (ig : ImgGeom) (v : Vox) : Bool := ig.zmin ≤ v.1 && v.1 ≤ ig.zmax

/-- `ProjMatrixElemsForOneBin::forward_project(Bin& single, const density&)`:
    `single += density[z][y][x] * value` for every element passing the z guard; `acc` is the value the bin
    comes in with (the callers construct it with 0). -/
def fwdRow (ig : ImgGeom) (row : Row K) (img : Array K) (acc : K) : K :=
  row.foldl (fun s e => if guardZ ig e.1 then s + img.getD (ig.lin e.1) 0 * e.2 else s) acc

/-- `ProjMatrixElemsForOneBin::back_project(density&, const Bin& single)`:
    `if (data == 0) return;` then `density[z][y][x] += value * data` for every element passing the z guard. -/
def bckRow (ig : ImgGeom) (row : Row K) (y : K) (img : Array K) : Array K :=
  if y = 0 then img
  else row.foldl (fun im e => if guardZ ig e.1 then im.modify (ig.lin e.1) (· + e.2 * y) else im) img

/-! ### the two branches of `actual_forward_project` / `actual_back_project`: which bins, in which order -/

/-- cache enabled: `while (r_viewgrams_iter != end) for tang_pos for ax_pos { Bin bin(segment, view, ax, tang, timing) … }` -/
def binsPerBin (vgs : List VG) (r : Range) : List Bin :=
  vgs.flatMap fun vg => (irange r.minT r.maxT).flatMap fun t => (irange r.minA r.maxA).map fun a => vg.bin a t

/-- cache disabled: the `already_processed` loop.  `rel a t` is the list `r_ax_poss` that
    `symmetries->find_basic_bin(basic_bin)` + `get_related_bins_factorised(r_ax_poss, basic_bin, ranges)` produce for
    the position `(a, t)` of the basic viewgram.  Returns the positions `(axial_pos_tmp, tang_pos_tmp)` that are
    processed, in order and **with multiplicity** (the code marks them as processed but does not test the mark
    before processing a related position). -/
def explicitPositions (rel : Int → Int → List (Int × Int)) (r : Range) : List (Int × Int) :=
  ((irange r.minT r.maxT).flatMap fun t => (irange r.minA r.maxA).map fun a => (a, t)).foldl
    (fun processed p =>
      if processed.contains p then processed            -- if (already_processed[ax_pos][tang_pos]) continue;
      else processed ++ (rel p.1 p.2).filter r.contains) -- range test, already_processed[..] = 1, process
    []

/-- … and for every such position the inner loop over the viewgrams of the related set -/
def binsExplicit (rel : Int → Int → List (Int × Int)) (vgs : List VG) (r : Range) : List Bin :=
  (explicitPositions rel r).flatMap fun p => vgs.map fun vg => vg.bin p.1 p.2

/-- `if (proj_matrix_ptr->is_cache_enabled()) … else …` -/
def branchBins (cache : Bool) (rel : Int → Int → List (Int × Int)) (vgs : List VG) (r : Range) : List Bin :=
  if cache then binsPerBin vgs r else binsExplicit rel vgs r

variable (rows : Bin → Row K) (ig : ImgGeom) (idx : Bin → Nat)

/-- forward projection of a sequence of bins into projection data:
    `get_proj_matrix_elems_for_one_bin(row, bin); row.forward_project(bin, image); viewgram[ax][tang] = bin.get_bin_value();` -/
def fwdBins (img : Array K) (bins : List Bin) (d : Array K) : Array K :=
  bins.foldl (fun d b => d.setIfInBounds (idx b) (fwdRow ig (rows b) img 0)) d

/-- back projection of a sequence of bins: `row.back_project(image, bin)` with `bin`'s value taken from the data
    (the callers' `if (viewgram[ax][tang] == 0) continue;` is the same test as the one inside `bckRow`) -/
def bckBins (y : Array K) (bins : List Bin) (im : Array K) : Array K :=
  bins.foldl (fun im b => bckRow ig (rows b) (y.getD (idx b) 0) im) im

/-- `actual_forward_project(viewgrams, min_ax, max_ax, min_tang, max_tang)` on viewgrams living in `d` -/
def fwdRelated (cache : Bool) (rel : Int → Int → List (Int × Int)) (vgs : List VG) (r : Range) (img d : Array K) : Array K :=
  fwdBins rows ig idx img (branchBins cache rel vgs r) d

/-- `actual_back_project(image, viewgrams, min_ax, max_ax, min_tang, max_tang)` -/
def bckRelated (cache : Bool) (rel : Int → Int → List (Int × Int)) (vgs : List VG) (r : Range) (y im : Array K) : Array K :=
  bckBins rows ig idx y (branchBins cache rel vgs r) im

/-! ### whole data sets and subsets -/

/-- index ranges of the projection data (`ProjDataInfo`) -/
structure PDGeom where
  minSeg : Int
  maxSeg : Int
  minView : Int
  maxView : Int
  minTang : Int
  maxTang : Int
  minTof : Int
  maxTof : Int
  axMin : Int → Int
  axMax : Int → Int

/-- the symmetries object as data -/
structure Syms where
  /-- `DataSymmetriesForViewSegmentNumbers::is_basic(ViewSegmentNumbers(view, seg))` -/
  isBasic : Int → Int → Bool
  /-- `get_related_view_segment_numbers` of a basic `(view, seg)`: list of `(view, seg)` -/
  related : Int → Int → List (Int × Int)
  /-- `rel view seg tof a t`: `find_basic_bin` + `get_related_bins_factorised` over the full range, for the related
      set with basic `(view, seg)` and timing position `tof` -/
  rel : Int → Int → Int → Int → Int → List (Int × Int)

variable (G : PDGeom) (S : Syms)

def PDGeom.fullRange (seg : Int) : Range := ⟨G.axMin seg, G.axMax seg, G.minTang, G.maxTang⟩

/-- all bins of one viewgram (`set_viewgram` writes all of them) -/
def PDGeom.viewgramBins (vg : VG) : List Bin :=
  (irange (G.axMin vg.seg) (G.axMax vg.seg)).flatMap fun a => (irange G.minTang G.maxTang).map fun t => vg.bin a t

/-- `ProjData::get_related_viewgrams(vs, symmetries, false, k)`: the related `(view, seg)` pairs, all with timing
    position `k` -/
def Syms.vgs (v s k : Int) : List VG := (S.related v s).map fun p => ⟨p.2, p.1, k⟩

/-- `for (view = start; view <= max_view; view += num_subsets)` (`n ≤ 0` does not terminate in C++: not reachable
    through `forward_project`, which rejects it; `[]` here) -/
def viewsFrom (start maxView n : Int) : List Int :=
  if n ≤ 0 then [] else if start > maxView then []
  else (List.range (((maxView - start) / n).toNat + 1)).map fun (k : Nat) => start + (k : Int) * n

/-- `detail::find_basic_vs_nums_in_subset` — including its loop over `timing_pos_num` from `-min_tof_pos_num` to
    `max_tof_pos_num`, which pushes every basic pair once per iteration (one iteration for a symmetric TOF range) -/
def vsInSubset (i n : Int) : List (Int × Int) :=
  (irange G.minSeg G.maxSeg).flatMap fun seg =>
    (irange (-G.minTof) G.maxTof).flatMap fun _ =>
      ((viewsFrom (G.minView + i) G.maxView n).filter fun v => S.isBasic v seg).map fun v => (v, seg)

/-- `proj_data.fill(0)` -/
def fillZero (d : Array K) : Array K := d.map fun _ => 0

def zeroBins (bins : List Bin) (d : Array K) : Array K := bins.foldl (fun d b => d.setIfInBounds (idx b) 0) d

/-- body of the double loop of `forward_project(ProjData&, …)` for one basic `(view, seg)` and timing position:
    `viewgrams = proj_data.get_empty_related_viewgrams(vs, symmetries, false, k); forward_project(viewgrams);
     proj_data.set_related_viewgrams(viewgrams)` — the viewgrams start as zeros and are written back whole. -/
def fwdOneRelated (cache : Bool) (img : Array K) (v s k : Int) (d : Array K) : Array K :=
  let vgs := S.vgs v s k
  fwdRelated rows ig idx cache (S.rel v s k) vgs (G.fullRange s) img
    (zeroBins idx (vgs.flatMap G.viewgramBins) d)

/-- `ForwardProjectorByBin::forward_project(ProjData&, subset_num, num_subsets, zero)` after `set_input(image)`;
    `none` = `error(...)` -/
def fwdSubset (cache : Bool) (img d : Array K) (i n : Int) (zero : Bool) : Option (Array K) :=
  if i < 0 then none                      -- "wrong subset number"
  else if i > n - 1 then none             -- "must be less than the number of subsets"
  else
    let d0 := if zero && n > 1 then fillZero d else d
    some <| (vsInSubset G S i n).foldl
      (fun d vs => (irange G.minTof G.maxTof).foldl (fun d k => fwdOneRelated rows ig idx G S cache img vs.1 vs.2 k d) d) d0

/-- `BackProjectorByBin::back_project(const ProjData&, subset_num, num_subsets)`: no argument checks in the C++ -/
def bckSubset (cache : Bool) (y : Array K) (i n : Int) (im : Array K) : Array K :=
  (vsInSubset G S i n).foldl
    (fun im vs => (irange G.minTof G.maxTof).foldl
      (fun im k => bckRelated rows ig idx cache (S.rel vs.1 vs.2 k) (S.vgs vs.1 vs.2 k) (G.fullRange vs.2) y im) im) im

/-! ### accumulation state of the back projector (`_density_sptr`) -/

structure BackProj (K : Type) where
  density : Array K

/-- `set_up`: `_density_sptr.reset(density_info_sptr->clone())` — a copy *with* the values of the image passed in -/
def BackProj.setUp (img : Array K) : BackProj K := ⟨img⟩

/-- `start_accumulating_in_new_target`: `_density_sptr->fill(0.)` -/
def BackProj.start (s : BackProj K) : BackProj K := ⟨fillZero s.density⟩

/-- `back_project(proj_data, subset_num, num_subsets)` -/
def BackProj.backSubset (cache : Bool) (s : BackProj K) (y : Array K) (i n : Int) : BackProj K :=
  ⟨bckSubset rows ig idx G S cache y i n s.density⟩

/-- `back_project(viewgrams, min_ax, max_ax, min_tang, max_tang)` -/
def BackProj.backRelated (cache : Bool) (s : BackProj K) (rel : Int → Int → List (Int × Int)) (vgs : List VG) (r : Range)
    (y : Array K) : BackProj K :=
  ⟨bckRelated rows ig idx cache rel vgs r y s.density⟩

/-- `get_output(density)`: `std::copy(_density_sptr->begin_all(), …, density.begin_all())` -/
def BackProj.getOutput (s : BackProj K) : Array K := s.density

/-- `back_project(image, proj_data, subset_num, num_subsets)` = start; back_project; get_output — the image passed in
    is overwritten, not added to -/
def BackProj.backInto (cache : Bool) (s : BackProj K) (y : Array K) (i n : Int) : BackProj K × Array K :=
  let s' := BackProj.backSubset rows ig idx G S cache (BackProj.start s) y i n
  (s', s'.getOutput)

/-! ### pre- and post- data processors -/

/-- a `DataProcessor<DiscretisedDensity<3,float>>` seen as a function on the voxel array;
    `none` = `apply` returned `Succeeded::no` -/
abbrev Proc (K : Type) := Array K → Option (Array K)

/-- `ForwardProjectorByBin::set_input(density)` (ForwardProjectorByBin.cxx:312):
    `_density_sptr.reset(density.clone()); if (!is_null_ptr(_pre_data_processor_sptr)) _pre_data_processor_sptr->apply(*_density_sptr)`
    — the processor works on the clone, the caller's image is not touched; `pre = none` is the null pointer;
    result `none` = `throw std::runtime_error("… Pre-forward-projection data processor failed.")`. -/
def setInput (pre : Option (Proc K)) (img : Array K) : Option (Array K) :=
  match pre with
  | none => some img
  | some p => p img

/-- `ForwardProjectorByBin::forward_project(proj_data, image, subset_num, num_subsets, zero)` (ForwardProjectorByBin.cxx:100)
    = `set_input(image); forward_project(proj_data, subset_num, num_subsets, zero);` -/
def fwdProject (pre : Option (Proc K)) (cache : Bool) (img d : Array K) (i n : Int) (zero : Bool) : Option (Array K) :=
  (setInput pre img).bind fun x => fwdSubset rows ig idx G S cache x d i n zero

/-- `BackProjectorByBin::get_output(density)` (BackProjectorByBin.cxx:327): copy `_density_sptr` into `density`, then, if a
    post-processor is set, `_post_data_processor_sptr->apply(density)` — applied to the copy handed out, the accumulation
    target itself keeps the unprocessed sum (the function is `const`); `none` = the processor failed (`throw`). -/
def BackProj.getOutputPost (post : Option (Proc K)) (s : BackProj K) : Option (Array K) :=
  match post with
  | none => some s.density
  | some p => p s.density

/-- `back_project(image, proj_data, subset_num, num_subsets)` with a post-processor:
    start; back_project; get_output (the processor acts in `get_output`) -/
def BackProj.backIntoPost (post : Option (Proc K)) (cache : Bool) (s : BackProj K) (y : Array K) (i n : Int) :
    BackProj K × Option (Array K) :=
  let s' := BackProj.backSubset rows ig idx G S cache (BackProj.start s) y i n
  (s', s'.getOutputPost post)

/-- the harness' scaling processor: every voxel times `c` -/
def procScale (c : K) : Proc K := fun x => some (x.map fun v => c * v)

/-! ### inner products and linear combinations used to state the property -/

/-- `Σ_{b ∈ bins} u[b]·v[b]` -/
def dotBins (u v : Array K) (bins : List Bin) : K :=
  bins.foldl (fun s b => s + u.getD (idx b) 0 * v.getD (idx b) 0) 0

/-- `Σ_voxels x·x'` -/
def dotImg (x x' : Array K) : K :=
  (List.range x.size).foldl (fun s i => s + x.getD i 0 * x'.getD i 0) 0

/-- `c·x + x'` -/
def axpy (c : K) (x x' : Array K) : Array K := Array.zipWith (fun a b => c * a + b) x x'

def zeroImg (n : Nat) : Array K := Array.replicate n 0

end Generic

/-! ### the matrix object: `set_up`, the row cache, re-use for another geometry

`ProjMatrixByBin` keeps the rows it has computed in `cache_collection[view][segment][cache_key(bin)]`.  Which rows it
returns after it has been `set_up` a second (third, …) time — for another image grid or other projection data — is a
property of this state machine alone; no arithmetic on `K` is involved.  `G` stands for everything `set_up` reads (the
projection-data info and, of the image, voxel size, origin and index range); what the concrete matrix type and the
symmetries compute for a geometry is data (`MatrixData`). -/

/-- the concrete matrix type and the symmetries, as data -/
structure MatrixData (G K : Type) where
  /-- `calculate_proj_matrix_elems_for_one_bin(row)` followed by `apply_tof_kernel` for TOF data, for a basic bin -/
  compute : G → Bin → Row K
  /-- the basic bin that `symmetries_sptr->find_symmetry_operation_from_basic_bin(bin)` leaves in `bin` -/
  basicOf : G → Bin → Bin
  /-- `symm_ptr->transform_proj_matrix_elems_for_one_bin(row)` for the operation that maps the basic bin to `bin` -/
  transform : G → Bin → Row K → Row K

/-- the members of `ProjMatrixByBin` that decide which row `get_proj_matrix_elems_for_one_bin` returns -/
structure MatrixObj (G K : Type) where
  /-- `proj_data_info_sptr`, `image_info_sptr`, `symmetries_sptr`, … as set by the last `set_up` (`none`: never set up) -/
  geom : Option G
  /-- `!cache_disabled` -/
  cacheEnabled : Bool
  /-- `cache_stores_only_basic_bins` -/
  onlyBasic : Bool
  /-- `cache_collection`: `cache_key` is injective on the (axial, tangential, timing) positions that pass the bit check
      of `set_up`, view and segment are array indices, so the key is the bin -/
  cache : List (Bin × Row K)

section Matrix
variable {G K : Type}

/-- a newly constructed matrix (`set_defaults` + `enable_cache` / `store_only_basic_bins_in_cache`) -/
def MatrixObj.new (cacheEnabled onlyBasic : Bool) : MatrixObj G K := ⟨none, cacheEnabled, onlyBasic, []⟩

/-- `ProjMatrixByBin::set_up` (ProjMatrixByBin.cxx:131-182): stores the geometry, `cache_collection.recycle()` and
    `resize` — an empty cache.  `ProjMatrixByBinUsingInterpolation::set_up` is this followed by members computed from the
    arguments only. -/
def MatrixObj.setUp (m : MatrixObj G K) (g : G) : MatrixObj G K := { m with geom := some g, cache := [] }

/-- `ProjMatrixByBinUsingRayTracing::set_up` (ProjMatrixByBinUsingRayTracing.cxx:237-420):
    `if (already_setup && *proj_data_info_sptr == *new && voxel_size == new && origin == new && min/max_index == new) return;`
    otherwise the base-class `set_up`, members computed from the arguments, `already_setup = true; clear_cache();`
    (the setters of the matrix' own parameters reset `already_setup`; the parameters are fixed here: they are part of `compute`). -/
def MatrixObj.setUpRT [DecidableEq G] (m : MatrixObj G K) (g : G) : MatrixObj G K :=
  if m.geom = some g then m else m.setUp g

/-- `get_cached_proj_matrix_elems_for_one_bin` (ProjMatrixByBin.cxx:239): `if (cache_disabled) return Succeeded::no;` then `find` -/
def MatrixObj.find (m : MatrixObj G K) (b : Bin) : Option (Row K) :=
  if m.cacheEnabled then m.cache.lookup b else none

/-- `cache_proj_matrix_elems_for_one_bin` (ProjMatrixByBin.cxx:213): `if (cache_disabled) return;` then `std::map::insert`,
    which leaves an existing entry alone -/
def MatrixObj.store (m : MatrixObj G K) (b : Bin) (r : Row K) : MatrixObj G K :=
  if m.cacheEnabled then
    match m.cache.lookup b with
    | some _ => m
    | none => { m with cache := (b, r) :: m.cache }
  else m

/-- `if (get_cached_proj_matrix_elems_for_one_bin(probabilities) == Succeeded::no) calculate_proj_matrix_elems_for_one_bin(probabilities);`
    for the basic bin `bb` -/
def MatrixObj.basicRow (D : MatrixData G K) (m : MatrixObj G K) (g : G) (bb : Bin) : Row K :=
  match m.find bb with
  | some r => r
  | none => D.compute g bb

/-- `ProjMatrixByBin::get_proj_matrix_elems_for_one_bin(probabilities, bin)` (ProjMatrixByBin.inl:48-112), both branches:
    the row and the new state of the (mutable) cache; `none` = called before `set_up` (null `symmetries_sptr`). -/
def MatrixObj.getRow (D : MatrixData G K) (m : MatrixObj G K) (bin : Bin) : Option (Row K × MatrixObj G K) :=
  match m.geom with
  | none => none
  | some g =>
    let bb := D.basicOf g bin
    if m.onlyBasic then
      match m.find bb with
      | some r => some (D.transform g bin r, m)
      | none =>
        let r := D.compute g bb
        some (D.transform g bin r, m.store bb r)
    else
      match m.find bin with
      | some r => some (r, m)
      | none =>
        let r := D.transform g bin (m.basicRow D g bb)
        some (r, m.store bin r)

/-- the row of `bin` for the geometry `g`: the row of its basic bin, transformed — what a matrix that has never seen
    another geometry returns -/
def MatrixData.rowOf (D : MatrixData G K) (g : G) (bin : Bin) : Row K :=
  D.transform g bin (D.compute g (D.basicOf g bin))

/-- one call on the object -/
inductive MOp (G : Type) where
  | setUp (g : G)
  | setUpRT (g : G)
  | get (b : Bin)

/-- the state after one call (`get` before any `set_up`: state unchanged) -/
def MatrixObj.step [DecidableEq G] (D : MatrixData G K) (m : MatrixObj G K) : MOp G → MatrixObj G K
  | .setUp g => m.setUp g
  | .setUpRT g => m.setUpRT g
  | .get b => match m.getRow D b with
    | some (_, m') => m'
    | none => m

/-- the state after a history of calls -/
def MatrixObj.exec [DecidableEq G] (D : MatrixData G K) (m : MatrixObj G K) (ops : List (MOp G)) : MatrixObj G K :=
  ops.foldl (MatrixObj.step D) m

/-- the row a `get_proj_matrix_elems_for_one_bin(bin)` returns in state `m` -/
def MatrixObj.rowNow (D : MatrixData G K) (m : MatrixObj G K) (bin : Bin) : Option (Row K) :=
  (m.getRow D bin).map (·.1)

end Matrix

/-! ### the part of a LOR inside the transaxial field of view (`ray_trace_one_lor`)

`ray_trace_one_lor` (static, ProjMatrixByBinUsingRayTracing.cxx:451-592) parametrises the LOR of a bin as
`X = s cos φ + a sin φ`, `Y = s sin φ − a cos φ` and finds `min_a`, `max_a` such that the end points lie on the border of the
field of view: the cylinder of radius `fovrad_in_mm` (`restrict to cylindrical FOV := 1`, :481-500) or the square
`|X|, |Y| ≤ fovrad_in_mm` (`:= 0`, :501-526).  The voxels between the two end points are then traced.  The arithmetic is
transcribed exactly over `Rat` (every `float` is a rational; the rounding of the `float` operations is not modelled);
`cos φ`, `sin φ` are inputs (the `float`s the code computed). -/

/-- `sign(t)` of ProjMatrixByBinUsingRayTracing.cxx:443-448: `t < 0 ? -1 : 1` -/
def sgn (t : Rat) : Rat := if t < 0 then -1 else 1

/-- `fabs` -/
def rabs (t : Rat) : Rat := if t < 0 then -t else t

/-- the `double` constant `1.E-3` (`0x1.0624dd2f1a9fcp-10`) -/
def milli : Rat := 1152921504606847 / 1152921504606846976

/-- `min_a`, `max_a` of the general case of the square field of view (:519-521), every view angle:
    `max_a = min((F sign(sφ) − s cφ)/sφ, (F sign(cφ) + s sφ)/cφ)`, `min_a = max((−F sign(sφ) − s cφ)/sφ, (−F sign(cφ) + s sφ)/cφ)` -/
def squareEnds (fov s cphi sphi : Rat) : Rat × Rat :=
  let a1 := (fov * sgn sphi - s * cphi) / sphi
  let a2 := (fov * sgn cphi + s * sphi) / cphi
  let b1 := (-fov * sgn sphi - s * cphi) / sphi
  let b2 := (-fov * sgn cphi + s * sphi) / cphi
  (if b1 ≤ b2 then b2 else b1, if a1 ≤ a2 then a1 else a2)

/-- the square field of view (:501-526): `none` = `return` (the LOR gets no element), `some (min_a, max_a)` otherwise.
    Views within `1.E-3` of a multiple of 90 degrees take the edges of the square; a chord shorter than a thousandth of a
    voxel is dropped. -/
def squareChord (fov s cphi sphi vx : Rat) : Option (Rat × Rat) :=
  if rabs cphi < milli ∨ rabs sphi < milli then
    if fov < rabs s then none else some (-fov, fov)
  else
    let e := squareEnds fov s cphi sphi
    if e.1 > e.2 - milli * vx then none else some e

/-- the cylindrical field of view (:481-500): `none` = `return`; otherwise `max_a² = fovrad² − s²` (`max_a` is its
    `sqrt`, `min_a = −max_a`; for `|s| = fovrad` both are 0) -/
def cylChordSq (fov s : Rat) : Option Rat :=
  if rabs s > fov then none else some (fov * fov - s * s)

end StirVerif.C04
