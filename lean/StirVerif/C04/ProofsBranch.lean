/-
C04 — helper lemmas, part 3: the two branches of `actual_forward_project` / `actual_back_project`.
The `already_processed` loop of the explicit-symmetries branch visits every position of the requested range exactly
once, provided the related-position lists handed out by the symmetries partition the range.
-/
import StirVerif.C04.ProofsBins
import Mathlib.Data.List.Nodup
import Mathlib.Data.List.Perm.Lattice

set_option linter.unusedSectionVars false
set_option linter.unusedSimpArgs false

namespace StirVerif.C04

/-! ### ranges -/

theorem mem_irange (lo hi x : Int) : x ∈ irange lo hi ↔ lo ≤ x ∧ x ≤ hi := by
  unfold irange
  simp only [List.mem_map, List.mem_range]
  constructor
  · rintro ⟨k, hk, rfl⟩; omega
  · rintro ⟨h1, h2⟩
    refine ⟨(x - lo).toNat, by omega, by omega⟩

theorem nodup_irange (lo hi : Int) : (irange lo hi).Nodup := by
  unfold irange
  refine List.Nodup.map ?_ List.nodup_range
  intro a b h
  simpa using h

/-- the positions of a range in the order of the loops `for tang_pos … for ax_pos …` -/
def rangePositions (r : Range) : List (Int × Int) :=
  (irange r.minT r.maxT).flatMap fun t => (irange r.minA r.maxA).map fun a => (a, t)

theorem mem_rangePositions (r : Range) (p : Int × Int) : p ∈ rangePositions r ↔ r.contains p = true := by
  unfold rangePositions Range.contains
  simp only [List.mem_flatMap, List.mem_map, mem_irange, Bool.and_eq_true, decide_eq_true_eq]
  constructor
  · rintro ⟨t, ⟨ht1, ht2⟩, a, ⟨ha1, ha2⟩, rfl⟩; exact ⟨⟨⟨ha1, ha2⟩, ht1⟩, ht2⟩
  · rintro ⟨⟨⟨ha1, ha2⟩, ht1⟩, ht2⟩; exact ⟨p.2, ⟨ht1, ht2⟩, p.1, ⟨ha1, ha2⟩, rfl⟩

theorem nodup_rangePositions (r : Range) : (rangePositions r).Nodup := by
  unfold rangePositions
  rw [List.nodup_flatMap]
  refine ⟨?_, ?_⟩
  · intro t _
    refine List.Nodup.map ?_ (nodup_irange _ _)
    intro a b h
    simpa using h
  · have hnd : List.Pairwise (· ≠ ·) (irange r.minT r.maxT) := nodup_irange r.minT r.maxT
    refine List.Pairwise.imp ?_ hnd
    intro t t' hne
    simp only [Function.onFun, List.disjoint_left, List.mem_map]
    rintro p ⟨a, _, rfl⟩ ⟨a', _, h⟩
    exact hne (by simpa using (congrArg Prod.snd h).symm)

/-! ### the `already_processed` loop -/

/-- the related positions of `p` that survive the range test -/
def cls (rel : Int → Int → List (Int × Int)) (r : Range) (p : Int × Int) : List (Int × Int) :=
  (rel p.1 p.2).filter r.contains

/-- what the symmetries have to guarantee about `get_related_bins_factorised` for the loop to be right:
    every position is related to itself, no position is listed twice, and related positions have the same list
    (as a set) -/
structure RelPartition (rel : Int → Int → List (Int × Int)) (r : Range) : Prop where
  refl : ∀ p, r.contains p = true → p ∈ cls rel r p
  nodup : ∀ p, r.contains p = true → (cls rel r p).Nodup
  closed : ∀ p q, r.contains p = true → q ∈ cls rel r p → ∀ q', q' ∈ cls rel r q ↔ q' ∈ cls rel r p

def explicitStep (rel : Int → Int → List (Int × Int)) (r : Range) (processed : List (Int × Int)) (p : Int × Int) :
    List (Int × Int) :=
  if processed.contains p then processed else processed ++ (rel p.1 p.2).filter r.contains

theorem explicitPositions_eq (rel : Int → Int → List (Int × Int)) (r : Range) :
    explicitPositions rel r = (rangePositions r).foldl (explicitStep rel r) [] := rfl

structure LoopInv (rel : Int → Int → List (Int × Int)) (r : Range) (processed : List (Int × Int)) : Prop where
  nodup : processed.Nodup
  inRange : ∀ q ∈ processed, r.contains q = true
  closed : ∀ q ∈ processed, ∀ q' ∈ cls rel r q, q' ∈ processed

theorem cls_inRange (rel : Int → Int → List (Int × Int)) (r : Range) (p q : Int × Int) (h : q ∈ cls rel r p) :
    r.contains q = true := by
  unfold cls at h
  exact (List.mem_filter.mp h).2

theorem LoopInv.step {rel : Int → Int → List (Int × Int)} {r : Range} (H : RelPartition rel r) {processed : List (Int × Int)}
    (inv : LoopInv rel r processed) (p : Int × Int) (hp : r.contains p = true) :
    LoopInv rel r (explicitStep rel r processed p) ∧ p ∈ explicitStep rel r processed p
      ∧ ∀ q ∈ processed, q ∈ explicitStep rel r processed p := by
  unfold explicitStep
  by_cases hc : processed.contains p = true
  · simp only [hc, if_true]
    exact ⟨inv, by simpa using hc, fun q hq => hq⟩
  · simp only [hc]
    have hpn : p ∉ processed := by simpa using hc
    refine ⟨⟨?_, ?_, ?_⟩, ?_, ?_⟩
    · refine List.Nodup.append inv.nodup (H.nodup p hp) ?_
      intro q hq hq'
      -- q processed and related to p: then p would already be processed
      have h1 : p ∈ cls rel r q := (H.closed p q hp hq' p).mpr (H.refl p hp)
      exact hpn (inv.closed q hq p h1)
    · intro q hq
      rcases List.mem_append.mp hq with h | h
      · exact inv.inRange q h
      · exact cls_inRange rel r p q h
    · intro q hq q' hq'
      rcases List.mem_append.mp hq with h | h
      · exact List.mem_append_left _ (inv.closed q h q' hq')
      · exact List.mem_append_right _ ((H.closed p q hp h q').mp hq')
    · exact List.mem_append_right _ (H.refl p hp)
    · intro q hq; exact List.mem_append_left _ hq

theorem loop_invariant {rel : Int → Int → List (Int × Int)} {r : Range} (H : RelPartition rel r) (l : List (Int × Int))
    (hl : ∀ p ∈ l, r.contains p = true) (processed : List (Int × Int)) (inv : LoopInv rel r processed) :
    LoopInv rel r (l.foldl (explicitStep rel r) processed)
      ∧ (∀ q ∈ processed, q ∈ l.foldl (explicitStep rel r) processed)
      ∧ ∀ p ∈ l, p ∈ l.foldl (explicitStep rel r) processed := by
  induction l generalizing processed with
  | nil => exact ⟨inv, fun q hq => hq, fun p hp => by cases hp⟩
  | cons a l ih =>
    obtain ⟨inv', ha, hmono⟩ := inv.step H a (hl a List.mem_cons_self)
    obtain ⟨inv'', hmono', hall⟩ := ih (fun p hp => hl p (List.mem_cons_of_mem _ hp)) _ inv'
    refine ⟨inv'', fun q hq => hmono' q (hmono q hq), ?_⟩
    intro p hp
    rcases List.mem_cons.mp hp with h | h
    · subst h; exact hmono' _ ha
    · exact hall p h

/-- the explicit-symmetries branch processes every position of the range exactly once -/
theorem explicitPositions_perm {rel : Int → Int → List (Int × Int)} {r : Range} (H : RelPartition rel r) :
    (explicitPositions rel r).Perm (rangePositions r) := by
  rw [explicitPositions_eq]
  obtain ⟨inv, _, hall⟩ := loop_invariant H (rangePositions r) (fun p hp => (mem_rangePositions r p).mp hp) []
    ⟨List.nodup_nil, (fun q hq => by cases hq), (fun q hq => by cases hq)⟩
  rw [List.perm_ext_iff_of_nodup inv.nodup (nodup_rangePositions r)]
  intro p
  exact ⟨fun h => (mem_rangePositions r p).mpr (inv.inRange p h), fun h => hall p h⟩

/-! ### from positions to bins -/

theorem binsPerBin_eq (vgs : List VG) (r : Range) :
    binsPerBin vgs r = vgs.flatMap fun vg => (rangePositions r).map fun p => vg.bin p.1 p.2 := by
  unfold binsPerBin rangePositions
  congr 1
  funext vg
  rw [List.map_flatMap]
  simp [List.map_map, Function.comp_def]

theorem flatMap_cons_perm {α β : Type} (l : List α) (f : α → β) (h : α → List β) :
    (l.flatMap fun a => f a :: h a).Perm (l.map f ++ l.flatMap h) := by
  induction l with
  | nil => simp
  | cons a l ih =>
    simp only [List.flatMap_cons, List.map_cons, List.cons_append]
    refine List.Perm.cons _ ?_
    -- h a ++ X  ~  map f l ++ (h a ++ flatMap h l)   with X ~ map f l ++ flatMap h l
    refine (List.Perm.append_left (h a) ih).trans ?_
    rw [← List.append_assoc, ← List.append_assoc]
    exact List.Perm.append_right _ List.perm_append_comm

theorem flatMap_transpose_perm {α β γ : Type} (R : List α) (V : List β) (g : α → β → γ) :
    (R.flatMap fun p => V.map (g p)).Perm (V.flatMap fun v => R.map fun p => g p v) := by
  induction R with
  | nil => simp
  | cons p R ih =>
    simp only [List.flatMap_cons, List.map_cons]
    refine List.Perm.trans ?_ (flatMap_cons_perm V (g p) (fun v => R.map fun p => g p v)).symm
    exact List.Perm.append_left _ ih

/-- both branches process the same bins, each exactly once -/
theorem binsExplicit_perm {rel : Int → Int → List (Int × Int)} {r : Range} (H : RelPartition rel r) (vgs : List VG) :
    (binsExplicit rel vgs r).Perm (binsPerBin vgs r) := by
  rw [binsPerBin_eq]
  unfold binsExplicit
  refine (List.Perm.flatMap_right _ (explicitPositions_perm H)).trans ?_
  exact flatMap_transpose_perm (rangePositions r) vgs (fun p vg => vg.bin p.1 p.2)

theorem branchBins_perm {rel : Int → Int → List (Int × Int)} {r : Range} (H : RelPartition rel r) (vgs : List VG) (cache : Bool) :
    (branchBins cache rel vgs r).Perm (binsPerBin vgs r) := by
  unfold branchBins
  cases cache
  · simpa using binsExplicit_perm H vgs
  · simp

/-! ### permuting the bins -/

variable {K : Type} [CommRing K] [DecidableEq K]
variable (rows : Bin → Row K) (ig : ImgGeom) (idx : Bin → Nat)

theorem InjOn.perm {idx : Bin → Nat} {l l' : List Bin} (h : InjOn idx l) (hp : l'.Perm l) : InjOn idx l' :=
  h.sublist fun _ hb => hp.mem_iff.mp hb

/-- back projection does not depend on the order in which the bins are processed -/
theorem getD_bckBins_perm (y im : Array K) {l l' : List Bin} (hp : l.Perm l') (i : Nat) (hi : i < im.size) :
    (bckBins rows ig idx y l im).getD i 0 = (bckBins rows ig idx y l' im).getD i 0 := by
  rw [getD_bckBins _ _ _ _ _ _ _ hi, getD_bckBins _ _ _ _ _ _ _ hi, bckSum_perm rows ig idx y hp]

/-- forward projection neither (given a layout that keeps the bins apart) -/
theorem getD_fwdBins_perm (img d : Array K) {l l' : List Bin} (hp : l.Perm l') (hinj : InjOn idx l)
    (hsz : ∀ b ∈ l, idx b < d.size) (j : Nat) :
    (fwdBins rows ig idx img l d).getD j 0 = (fwdBins rows ig idx img l' d).getD j 0 := by
  by_cases hj : j ∈ l.map idx
  · obtain ⟨b, hb, rfl⟩ := List.mem_map.mp hj
    rw [getD_fwdBins_mem rows ig idx img d l hinj b hb (hsz b hb),
      getD_fwdBins_mem rows ig idx img d l' (hinj.perm hp.symm) b (hp.mem_iff.mp hb) (hsz b hb)]
  · have hj' : j ∉ l'.map idx := fun h => hj ((hp.map idx).mem_iff.mpr h)
    rw [getD_fwdBins_not_mem _ _ _ _ _ _ _ hj, getD_fwdBins_not_mem _ _ _ _ _ _ _ hj']

/-! ### an executable check of `RelPartition` (used for the non-vacuity examples) -/

/-- executable form of `RelPartition` -/
def relPartitionCheck (rel : Int → Int → List (Int × Int)) (r : Range) : Bool :=
  (rangePositions r).all fun p =>
    (cls rel r p).contains p && decide (cls rel r p).Nodup &&
      (cls rel r p).all fun q => (cls rel r q).all (fun q' => (cls rel r p).contains q') && (cls rel r p).all fun q' => (cls rel r q).contains q'

theorem relPartition_of_check (rel : Int → Int → List (Int × Int)) (r : Range) (h : relPartitionCheck rel r = true) :
    RelPartition rel r := by
  unfold relPartitionCheck at h
  rw [List.all_eq_true] at h
  refine ⟨?_, ?_, ?_⟩
  · intro p hp
    have := h p ((mem_rangePositions r p).mpr hp)
    simp only [Bool.and_eq_true, List.contains_iff_mem, decide_eq_true_eq] at this
    exact this.1.1
  · intro p hp
    have := h p ((mem_rangePositions r p).mpr hp)
    simp only [Bool.and_eq_true, decide_eq_true_eq] at this
    exact this.1.2
  · intro p q hp hq q'
    have := h p ((mem_rangePositions r p).mpr hp)
    simp only [Bool.and_eq_true, List.all_eq_true, List.contains_iff_mem] at this
    have hq2 := this.2 q hq
    exact ⟨fun h' => hq2.1 q' h', fun h' => hq2.2 q' h'⟩

/-- the related-position lists of a cylindrical scanner with `do_symmetry_shift_z` and `do_symmetry_swap_s`
    (`get_related_bins_factorised`: every axial position of the range, tangential positions `t` and `-t`) -/
def relCyl (r : Range) : Int → Int → List (Int × Int) := fun _ t =>
  (irange r.minA r.maxA).flatMap fun a => if t = 0 then [(a, t)] else [(a, |t|), (a, -|t|)]

end StirVerif.C04
