/-
C04 — helper lemmas, part 1: one row of the matrix (`fwdRow`, `bckRow`) as finite sums.
-/
import StirVerif.C04.Model
import Mathlib.Tactic.Ring
import Mathlib.Algebra.BigOperators.Group.List.Basic

set_option linter.unusedSectionVars false
set_option linter.unusedSimpArgs false

namespace StirVerif.C04

variable {K : Type} [CommRing K] [DecidableEq K]

/-! ### arrays read through `getD · 0` -/

theorem getD_of_lt (a : Array K) {i : Nat} (h : i < a.size) : a.getD i 0 = a[i] := by
  simp [Array.getD, h]

theorem getD_of_ge (a : Array K) {i : Nat} (h : a.size ≤ i) : a.getD i 0 = 0 := by
  simp [Array.getD, Nat.not_lt.mpr h]

theorem getD_modify (a : Array K) (j i : Nat) (f : K → K) (h : i < a.size) :
    (a.modify j f).getD i 0 = if j = i then f (a.getD i 0) else a.getD i 0 := by
  rw [Array.getD_eq_getD_getElem?, Array.getElem?_modify, Array.getD_eq_getD_getElem?]
  by_cases hji : j = i
  · simp [hji, h]
  · simp [hji]

theorem getD_setIfInBounds (a : Array K) (j i : Nat) (v : K) :
    (a.setIfInBounds j v).getD i 0 = if j = i ∧ i < a.size then v else a.getD i 0 := by
  rw [Array.getD_eq_getD_getElem?, Array.getElem?_setIfInBounds, Array.getD_eq_getD_getElem?]
  by_cases hji : j = i
  · subst hji
    by_cases h : j < a.size
    · simp [h]
    · simp [h]
  · simp [hji]

theorem getD_zeroImg (n i : Nat) : (zeroImg n : Array K).getD i 0 = 0 := by
  unfold zeroImg
  rw [Array.getD_eq_getD_getElem?, Array.getElem?_replicate]
  by_cases h : i < n <;> simp [h]

theorem size_zeroImg (n : Nat) : (zeroImg n : Array K).size = n := by simp [zeroImg]

theorem getD_fillZero (d : Array K) (i : Nat) : (fillZero d).getD i 0 = 0 := by
  unfold fillZero
  rw [Array.getD_eq_getD_getElem?, Array.getElem?_map]
  cases d[i]? <;> simp

theorem size_fillZero (d : Array K) : (fillZero d).size = d.size := by simp [fillZero]

theorem size_axpy (c : K) (x x' : Array K) (h : x.size = x'.size) : (axpy c x x').size = x.size := by
  simp [axpy, h]

theorem getD_axpy (c : K) (x x' : Array K) (h : x.size = x'.size) (i : Nat) :
    (axpy c x x').getD i 0 = c * x.getD i 0 + x'.getD i 0 := by
  unfold axpy
  rw [Array.getD_eq_getD_getElem?, Array.getElem?_zipWith, Array.getD_eq_getD_getElem?, Array.getD_eq_getD_getElem?]
  by_cases hi : i < x.size
  · have hi' : i < x'.size := h ▸ hi
    simp [hi, hi']
  · have hi' : ¬ i < x'.size := h ▸ hi
    simp [hi, hi']

/-! ### a row as a list of (storage index, weight) terms -/

/-- the elements of a row that pass the z guard, with the storage index of their voxel -/
def rowTerms (ig : ImgGeom) (row : Row K) : List (Nat × K) :=
  (row.filter fun e => guardZ ig e.1).map fun e => (ig.lin e.1, e.2)

theorem rowTerms_nil (ig : ImgGeom) : rowTerms ig ([] : Row K) = [] := rfl

theorem rowTerms_cons (ig : ImgGeom) (e : Vox × K) (row : Row K) :
    rowTerms ig (e :: row) = if guardZ ig e.1 then (ig.lin e.1, e.2) :: rowTerms ig row else rowTerms ig row := by
  unfold rowTerms
  by_cases h : guardZ ig e.1 <;> simp [List.filter_cons, h]

/-- `Σ_terms img[index]·weight` -/
def dotTerms (l : List (Nat × K)) (img : Array K) : K := (l.map fun p => img.getD p.1 0 * p.2).sum

/-- `Σ_{terms with index i} weight`: column `i` of the row -/
def colTerms (l : List (Nat × K)) (i : Nat) : K := (l.map fun p => if p.1 = i then p.2 else 0).sum

theorem dotTerms_nil (img : Array K) : dotTerms ([] : List (Nat × K)) img = 0 := rfl
theorem dotTerms_cons (p : Nat × K) (l : List (Nat × K)) (img : Array K) :
    dotTerms (p :: l) img = img.getD p.1 0 * p.2 + dotTerms l img := by simp [dotTerms]
theorem colTerms_nil (i : Nat) : colTerms ([] : List (Nat × K)) i = 0 := rfl
theorem colTerms_cons (p : Nat × K) (l : List (Nat × K)) (i : Nat) :
    colTerms (p :: l) i = (if p.1 = i then p.2 else 0) + colTerms l i := by simp [colTerms]

/-- `ProjMatrixElemsForOneBin::forward_project` computes `acc + Σ_terms img·w` -/
theorem fwdRow_eq (ig : ImgGeom) (row : Row K) (img : Array K) (acc : K) :
    fwdRow ig row img acc = acc + dotTerms (rowTerms ig row) img := by
  unfold fwdRow
  induction row generalizing acc with
  | nil => simp [rowTerms_nil, dotTerms_nil]
  | cons e row ih =>
    rw [List.foldl_cons, ih, rowTerms_cons]
    by_cases h : guardZ ig e.1
    · simp only [h, if_true, dotTerms_cons]; ring
    · simp [h]

theorem size_bckRow (ig : ImgGeom) (row : Row K) (y : K) (img : Array K) : (bckRow ig row y img).size = img.size := by
  unfold bckRow
  by_cases hy : y = 0
  · simp [hy]
  · simp only [hy, if_false]
    induction row generalizing img with
    | nil => simp
    | cons e row ih =>
      rw [List.foldl_cons, ih]
      by_cases h : guardZ ig e.1 <;> simp [h]

/-- `ProjMatrixElemsForOneBin::back_project` adds `column · data` to every voxel (the `data == 0` early return
    included: in a ring `column · 0 = 0`) -/
theorem getD_bckRow (ig : ImgGeom) (row : Row K) (y : K) (img : Array K) (i : Nat) (hi : i < img.size) :
    (bckRow ig row y img).getD i 0 = img.getD i 0 + colTerms (rowTerms ig row) i * y := by
  unfold bckRow
  by_cases hy : y = 0
  · simp [hy]
  · simp only [hy, if_false]
    induction row generalizing img with
    | nil => simp [rowTerms_nil, colTerms_nil]
    | cons e row ih =>
      rw [List.foldl_cons, rowTerms_cons]
      by_cases h : guardZ ig e.1
      · simp only [h, if_true]
        rw [ih _ (by simpa using hi), getD_modify _ _ _ _ hi, colTerms_cons]
        by_cases hji : ig.lin e.1 = i
        · simp only [hji, if_true]; ring
        · simp only [hji, if_false]; ring
      · simp only [h]
        exact ih _ hi

theorem dotTerms_axpy (l : List (Nat × K)) (c : K) (x x' : Array K) (h : x.size = x'.size) :
    dotTerms l (axpy c x x') = c * dotTerms l x + dotTerms l x' := by
  induction l with
  | nil => simp [dotTerms_nil]
  | cons p l ih => simp only [dotTerms_cons, getD_axpy c x x' h, ih]; ring

/-- forward projection of one row is linear in the image -/
theorem fwdRow_axpy (ig : ImgGeom) (row : Row K) (c : K) (x x' : Array K) (h : x.size = x'.size) (a a' : K) :
    fwdRow ig row (axpy c x x') (c * a + a') = c * fwdRow ig row x a + fwdRow ig row x' a' := by
  rw [fwdRow_eq, fwdRow_eq, fwdRow_eq, dotTerms_axpy _ c x x' h]; ring

/-! ### sums over `List.range` -/

theorem sum_range_indicator (n j : Nat) (f : Nat → K) (w : K) :
    ((List.range n).map fun i => f i * (if j = i then w else 0)).sum = if j < n then f j * w else 0 := by
  induction n with
  | zero => simp
  | succ n ih =>
    rw [List.range_succ, List.map_append, List.sum_append, ih]
    simp only [List.map_cons, List.map_nil, List.sum_cons, List.sum_nil, add_zero]
    by_cases hjn : j = n
    · subst hjn; simp
    · by_cases hlt : j < n
      · have : j < n + 1 := Nat.lt_succ_of_lt hlt
        simp [hlt, this, hjn]
      · have : ¬ j < n + 1 := by omega
        simp [hlt, this, hjn]

/-- `dotImg` as a `List.sum` -/
theorem dotImg_eq (x x' : Array K) : dotImg x x' = ((List.range x.size).map fun i => x.getD i 0 * x'.getD i 0).sum := by
  unfold dotImg
  generalize List.range x.size = l
  have : ∀ (a : K), l.foldl (fun s i => s + x.getD i 0 * x'.getD i 0) a = a + (l.map fun i => x.getD i 0 * x'.getD i 0).sum := by
    induction l with
    | nil => intro a; simp
    | cons i l ih => intro a; rw [List.foldl_cons, ih]; simp [add_assoc]
  rw [this]; simp

/-- **row-level adjointness**: `Σ_voxels x[i] · column(i) = Σ_terms x[index]·w` -/
theorem sum_range_colTerms (l : List (Nat × K)) (x : Array K) :
    ((List.range x.size).map fun i => x.getD i 0 * colTerms l i).sum = dotTerms l x := by
  induction l with
  | nil => simp [colTerms_nil, dotTerms_nil]
  | cons p l ih =>
    simp only [colTerms_cons, dotTerms_cons, mul_add]
    rw [List.sum_map_add, ih, sum_range_indicator]
    by_cases hp : p.1 < x.size
    · simp [hp]
    · simp [hp, getD_of_ge x (Nat.not_lt.mp hp)]

end StirVerif.C04
