/-
C04 — helper lemmas, part 5: the pre- and post- data processors of `set_input` and `get_output`, and projection data that
are smaller than the geometry the projectors were set up with.
-/
import StirVerif.C04.ProofsSubset

set_option linter.unusedSectionVars false
set_option linter.unusedSimpArgs false

namespace StirVerif.C04

variable {K : Type} [CommRing K] [DecidableEq K]
variable (rows : Bin → Row K) (ig : ImgGeom) (idx : Bin → Nat)

/-! ### the scaling processor -/

theorem getD_map_mul (c : K) (x : Array K) (i : Nat) : (x.map fun v => c * v).getD i 0 = c * x.getD i 0 := by
  rw [Array.getD_eq_getD_getElem?, Array.getElem?_map, Array.getD_eq_getD_getElem?]
  cases x[i]? <;> simp

theorem size_map_mul (c : K) (x : Array K) : (x.map fun v => c * v).size = x.size := by simp

/-- the scaling processor is its own adjoint: `⟨c·u, v⟩ = ⟨u, c·v⟩` -/
theorem dotImg_map_mul (c : K) (u v : Array K) :
    dotImg (u.map fun a => c * a) v = dotImg u (v.map fun a => c * a) := by
  rw [dotImg_eq, dotImg_eq, size_map_mul]
  congr 1
  apply List.map_congr_left
  intro i _
  rw [getD_map_mul, getD_map_mul]
  ring

theorem dotTerms_map_mul (l : List (Nat × K)) (c : K) (x : Array K) :
    dotTerms l (x.map fun v => c * v) = c * dotTerms l x := by
  induction l with
  | nil => simp [dotTerms_nil]
  | cons p l ih => simp only [dotTerms_cons, getD_map_mul, ih]; ring

/-- one row applied to the scaled image (bin coming in with the scaled value) gives the scaled result -/
theorem fwdRow_map_mul (row : Row K) (c : K) (x : Array K) (a : K) :
    fwdRow ig row (x.map fun v => c * v) (c * a) = c * fwdRow ig row x a := by
  rw [fwdRow_eq, fwdRow_eq, dotTerms_map_mul]; ring

/-! ### adjointness through a pair of mutually adjoint processors -/

/-- forward projection of the pre-processed image against the post-processed back projection -/
theorem adjoint_bins_processed (p q : Array K → Array K) (hp : ∀ u, (p u).size = u.size)
    (hadj : ∀ u v : Array K, u.size = v.size → dotImg (p u) v = dotImg u (q v))
    (x y d : Array K) (bins : List Bin) (hinj : InjOn idx bins) (hsz : ∀ b ∈ bins, idx b < d.size) :
    dotBins idx (fwdBins rows ig idx (p x) bins d) y bins
      = dotImg x (q (bckBins rows ig idx y bins (zeroImg x.size))) := by
  rw [adjoint_bins rows ig idx (p x) y d bins hinj hsz, hp x]
  exact hadj x _ (by rw [size_bckBins, size_zeroImg])

end StirVerif.C04
