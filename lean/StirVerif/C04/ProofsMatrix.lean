/-
C04 — helper lemmas, part 6: the matrix object (`MatrixObj`): after any history of `set_up`s and row requests the cache
only holds rows of the geometry of the last `set_up`, so a re-used matrix returns the rows of a fresh one.
-/
import StirVerif.C04.Model

namespace StirVerif.C04

variable {G K : Type}

/-- what the symmetries have to satisfy for the cache to be coherent: the basic bin of a basic bin is itself, and the
    operation that belongs to a basic bin leaves the row alone (`TrivialSymmetryOperation`) -/
structure MatrixData.Coherent (D : MatrixData G K) : Prop where
  idem : ∀ g b, D.basicOf g (D.basicOf g b) = D.basicOf g b
  trivial : ∀ g b r, D.basicOf g b = b → D.transform g b r = r

/-- the cache holds rows of the current geometry only: in "only basic bins" mode the computed row of the key, otherwise
    the finished row of the key -/
def MatrixObj.Inv (D : MatrixData G K) (m : MatrixObj G K) : Prop :=
  ∀ g, m.geom = some g → ∀ b r, m.cache.lookup b = some r →
    (m.onlyBasic = true → r = D.compute g b) ∧ (m.onlyBasic = false → r = D.rowOf g b)

theorem MatrixObj.inv_new (D : MatrixData G K) (ce ob : Bool) : (MatrixObj.new ce ob : MatrixObj G K).Inv D := by
  intro g hg
  simp [MatrixObj.new] at hg

theorem MatrixObj.inv_setUp (D : MatrixData G K) (m : MatrixObj G K) (g : G) : (m.setUp g).Inv D := by
  intro g' _ b r h
  simp [MatrixObj.setUp] at h

theorem MatrixObj.inv_setUpRT [DecidableEq G] (D : MatrixData G K) (m : MatrixObj G K) (h : m.Inv D) (g : G) :
    (m.setUpRT g).Inv D := by
  unfold MatrixObj.setUpRT
  split
  · exact h
  · exact MatrixObj.inv_setUp D m g

theorem MatrixObj.geom_setUp (m : MatrixObj G K) (g : G) : (m.setUp g).geom = some g := rfl

theorem MatrixObj.geom_setUpRT [DecidableEq G] (m : MatrixObj G K) (g : G) : (m.setUpRT g).geom = some g := by
  unfold MatrixObj.setUpRT
  split
  · assumption
  · rfl

theorem MatrixObj.flags_setUp (m : MatrixObj G K) (g : G) :
    (m.setUp g).cacheEnabled = m.cacheEnabled ∧ (m.setUp g).onlyBasic = m.onlyBasic := ⟨rfl, rfl⟩

theorem MatrixObj.flags_setUpRT [DecidableEq G] (m : MatrixObj G K) (g : G) :
    (m.setUpRT g).cacheEnabled = m.cacheEnabled ∧ (m.setUpRT g).onlyBasic = m.onlyBasic := by
  unfold MatrixObj.setUpRT
  split <;> exact ⟨rfl, rfl⟩

/-- a hit in the cache is an entry of the cache -/
theorem MatrixObj.find_some (m : MatrixObj G K) (b : Bin) (r : Row K) (h : m.find b = some r) :
    m.cache.lookup b = some r := by
  unfold MatrixObj.find at h
  split at h
  · exact h
  · cases h

theorem MatrixObj.store_geom (m : MatrixObj G K) (b : Bin) (r : Row K) : (m.store b r).geom = m.geom := by
  unfold MatrixObj.store
  split
  · split <;> rfl
  · rfl

theorem MatrixObj.store_flags (m : MatrixObj G K) (b : Bin) (r : Row K) :
    (m.store b r).cacheEnabled = m.cacheEnabled ∧ (m.store b r).onlyBasic = m.onlyBasic := by
  unfold MatrixObj.store
  split
  · split <;> exact ⟨rfl, rfl⟩
  · exact ⟨rfl, rfl⟩

/-- storing a row that is right for its key keeps the cache coherent -/
theorem MatrixObj.inv_store (D : MatrixData G K) (m : MatrixObj G K) (h : m.Inv D) (b : Bin) (r : Row K)
    (hr : ∀ g, m.geom = some g → (m.onlyBasic = true → r = D.compute g b) ∧ (m.onlyBasic = false → r = D.rowOf g b)) :
    (m.store b r).Inv D := by
  unfold MatrixObj.store
  split
  · split
    · exact h
    · intro g hg b' r' hl
      simp only [List.lookup] at hl
      split at hl
      · rename_i heq
        have hb : b' = b := by simpa using heq
        cases hl
        subst hb
        exact hr g hg
      · exact h g hg b' r' hl
  · exact h

/-- **One request.**  In a coherent state with geometry `g`, `get_proj_matrix_elems_for_one_bin(bin)` returns the row of
    `bin` for `g`, and leaves a coherent state with the same geometry and flags. -/
theorem MatrixObj.getRow_spec (D : MatrixData G K) (hD : D.Coherent) (m : MatrixObj G K) (h : m.Inv D) (g : G)
    (hg : m.geom = some g) (bin : Bin) :
    ∃ m', m.getRow D bin = some (D.rowOf g bin, m') ∧ m'.Inv D ∧ m'.geom = some g ∧
      m'.cacheEnabled = m.cacheEnabled ∧ m'.onlyBasic = m.onlyBasic := by
  unfold MatrixObj.getRow
  rw [hg]
  simp only
  cases hob : m.onlyBasic
  · -- every bin is cached
    simp only [Bool.false_eq_true, if_false]
    cases hf : m.find bin with
    | some r =>
      refine ⟨m, ?_, h, hg, rfl, hob⟩
      have := (h g hg bin r (m.find_some bin r hf)).2 hob
      simp [this]
    | none =>
      simp only
      have hr0 : m.basicRow D g (D.basicOf g bin) = D.compute g (D.basicOf g bin) := by
        unfold MatrixObj.basicRow
        cases hfb : m.find (D.basicOf g bin) with
        | none => rfl
        | some r =>
          simp only
          have := (h g hg _ r (m.find_some _ r hfb)).2 hob
          rw [this, MatrixData.rowOf, hD.idem, hD.trivial g _ _ (hD.idem g bin)]
      rw [hr0]
      refine ⟨_, rfl, ?_, ?_, (m.store_flags _ _).1, by rw [(m.store_flags _ _).2, hob]⟩
      · apply MatrixObj.inv_store D m h
        intro g' hg'
        have : g' = g := by rw [hg] at hg'; exact (Option.some.inj hg').symm
        subst this
        exact ⟨fun hc => (by rw [hob] at hc; cases hc), fun _ => rfl⟩
      · rw [m.store_geom]; exact hg
  · -- only basic bins are cached
    simp only [if_true]
    cases hf : m.find (D.basicOf g bin) with
    | some r =>
      refine ⟨m, ?_, h, hg, rfl, hob⟩
      have := (h g hg _ r (m.find_some _ r hf)).1 hob
      simp [this, MatrixData.rowOf]
    | none =>
      refine ⟨_, rfl, ?_, ?_, (m.store_flags _ _).1, by rw [(m.store_flags _ _).2, hob]⟩
      · apply MatrixObj.inv_store D m h
        intro g' hg'
        have : g' = g := by rw [hg] at hg'; exact (Option.some.inj hg').symm
        subst this
        exact ⟨fun _ => rfl, fun hc => (by rw [hob] at hc; cases hc)⟩
      · rw [m.store_geom]; exact hg

/-- one call keeps the state coherent -/
theorem MatrixObj.inv_step [DecidableEq G] (D : MatrixData G K) (hD : D.Coherent) (m : MatrixObj G K) (h : m.Inv D)
    (op : MOp G) : (m.step D op).Inv D := by
  cases op with
  | setUp g => exact MatrixObj.inv_setUp D m g
  | setUpRT g => exact MatrixObj.inv_setUpRT D m h g
  | get b =>
    simp only [MatrixObj.step]
    cases hgm : m.geom with
    | none =>
      have : m.getRow D b = none := by unfold MatrixObj.getRow; rw [hgm]
      rw [this]; exact h
    | some g =>
      obtain ⟨m', hrow, hinv, _, _, _⟩ := MatrixObj.getRow_spec D hD m h g hgm b
      rw [hrow]; exact hinv

/-- any history of calls keeps the state coherent -/
theorem MatrixObj.inv_exec [DecidableEq G] (D : MatrixData G K) (hD : D.Coherent) (ops : List (MOp G)) :
    ∀ (m : MatrixObj G K), m.Inv D → (m.exec D ops).Inv D := by
  induction ops with
  | nil => intro m h; exact h
  | cons op rest ih =>
    intro m h
    simp only [MatrixObj.exec, List.foldl_cons]
    exact ih _ (MatrixObj.inv_step D hD m h op)

/-- row requests do not change the geometry -/
theorem MatrixObj.geom_exec_gets [DecidableEq G] (D : MatrixData G K) (hD : D.Coherent) (bs : List Bin) :
    ∀ (m : MatrixObj G K) (g : G), m.Inv D → m.geom = some g →
      (m.exec D (bs.map MOp.get)).Inv D ∧ (m.exec D (bs.map MOp.get)).geom = some g := by
  induction bs with
  | nil => intro m g h hg; exact ⟨h, hg⟩
  | cons b rest ih =>
    intro m g h hg
    simp only [List.map_cons, MatrixObj.exec, List.foldl_cons]
    obtain ⟨m', hrow, hinv, hg', _, _⟩ := MatrixObj.getRow_spec D hD m h g hg b
    have : m.step D (MOp.get b) = m' := by simp only [MatrixObj.step]; rw [hrow]
    rw [this]
    exact ih m' g hinv hg'

theorem MatrixObj.exec_append [DecidableEq G] (D : MatrixData G K) (m : MatrixObj G K) (a b : List (MOp G)) :
    m.exec D (a ++ b) = (m.exec D a).exec D b := by
  simp [MatrixObj.exec, List.foldl_append]

end StirVerif.C04
