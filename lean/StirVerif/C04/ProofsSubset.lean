/-
C04 — helper lemmas, part 4: whole data sets and subsets (`fwdSubset`, `bckSubset`) as a sequence of steps
"zero the related viewgrams, forward project the bins of the branch into them" / "back project the bins of the branch".
-/
import StirVerif.C04.ProofsBranch

set_option linter.unusedSectionVars false
set_option linter.unusedSimpArgs false

namespace StirVerif.C04

variable {K : Type} [CommRing K] [DecidableEq K]
variable (rows : Bin → Row K) (ig : ImgGeom) (idx : Bin → Nat)

/-! ### a generic sequence of steps -/

section Steps
variable {σ : Type} (Z P : σ → List Bin)

/-- one step: the bins `Z q` are zeroed, then the bins `P q` receive their forward projection -/
def fwdStep (img : Array K) (d : Array K) (q : σ) : Array K := fwdBins rows ig idx img (P q) (zeroBins idx (Z q) d)

def fwdSteps (img : Array K) (L : List σ) (d : Array K) : Array K := L.foldl (fwdStep rows ig idx Z P img) d

theorem fwdSteps_cons (img d : Array K) (q : σ) (L : List σ) :
    fwdSteps rows ig idx Z P img (q :: L) d = fwdSteps rows ig idx Z P img L (fwdStep rows ig idx Z P img d q) := rfl

theorem size_fwdStep (img d : Array K) (q : σ) : (fwdStep rows ig idx Z P img d q).size = d.size := by
  simp [fwdStep, size_fwdBins, size_zeroBins]

theorem size_fwdSteps (img d : Array K) (L : List σ) : (fwdSteps rows ig idx Z P img L d).size = d.size := by
  induction L generalizing d with
  | nil => rfl
  | cons q L ih => rw [fwdSteps_cons, ih, size_fwdStep]

/-- the places a list of steps may write to -/
def touched (L : List σ) : List Nat := L.flatMap fun q => (Z q ++ P q).map idx

theorem getD_fwdStep_not_mem (img d : Array K) (q : σ) (j : Nat) (hj : j ∉ (Z q ++ P q).map idx) :
    (fwdStep rows ig idx Z P img d q).getD j 0 = d.getD j 0 := by
  unfold fwdStep
  rw [getD_fwdBins_not_mem, getD_zeroBins_not_mem]
  · intro h; exact hj (by simp only [List.map_append, List.mem_append]; exact Or.inl h)
  · intro h; exact hj (by simp only [List.map_append, List.mem_append]; exact Or.inr h)

/-- frame of a sequence of steps -/
theorem getD_fwdSteps_not_mem (img d : Array K) (L : List σ) (j : Nat) (hj : j ∉ touched idx Z P L) :
    (fwdSteps rows ig idx Z P img L d).getD j 0 = d.getD j 0 := by
  induction L generalizing d with
  | nil => rfl
  | cons q L ih =>
    rw [fwdSteps_cons, ih]
    · apply getD_fwdStep_not_mem
      intro h; exact hj (by simp only [touched, List.flatMap_cons, List.mem_append]; exact Or.inl h)
    · intro h; exact hj (by simp only [touched, List.flatMap_cons, List.mem_append]; exact Or.inr h)

/-- all bins a list of steps deals with -/
def stepBins (L : List σ) : List Bin := L.flatMap fun q => Z q ++ P q

theorem touched_eq (L : List σ) : touched idx Z P L = (stepBins Z P L).map idx := by
  simp [touched, stepBins, List.map_flatMap]

/-- different steps deal with different bins -/
def StepsDisjoint (L : List σ) : Prop := L.Pairwise fun q q' => ∀ b ∈ Z q ++ P q, b ∉ Z q' ++ P q'

/-- value after a sequence of steps: a bin processed in a step holds the forward projection of its row, a bin only
    zeroed holds 0 — provided the layout keeps the bins apart and no later step touches the bin again -/
theorem getD_fwdSteps_mem (img d : Array K) (L : List σ) (hinj : InjOn idx (stepBins Z P L)) (hdis : StepsDisjoint Z P L)
    (hsz : ∀ b ∈ stepBins Z P L, idx b < d.size) (q : σ) (hq : q ∈ L) (b : Bin) :
    (b ∈ P q → (fwdSteps rows ig idx Z P img L d).getD (idx b) 0 = fwdRow ig (rows b) img 0)
    ∧ (b ∈ Z q → b ∉ P q → (fwdSteps rows ig idx Z P img L d).getD (idx b) 0 = 0) := by
  induction L generalizing d with
  | nil => cases hq
  | cons q0 L ih =>
    have hinjL : InjOn idx (stepBins Z P L) :=
      hinj.sublist fun b hb => by simp only [stepBins, List.flatMap_cons, List.mem_append] at hb ⊢; exact Or.inr hb
    have hdisL : StepsDisjoint Z P L := (List.pairwise_cons.mp hdis).2
    have hszL : ∀ b ∈ stepBins Z P L, idx b < (fwdStep rows ig idx Z P img d q0).size := by
      intro b hb; rw [size_fwdStep]
      exact hsz b (by simp only [stepBins, List.flatMap_cons, List.mem_append] at hb ⊢; exact Or.inr hb)
    rw [fwdSteps_cons]
    by_cases hqL : q ∈ L
    · exact ih _ hinjL hdisL hszL hqL
    · have hq0 : q = q0 := by
        rcases List.mem_cons.mp hq with h | h
        · exact h
        · exact absurd h hqL
      subst hq0
      -- the bins of this step are not touched by the later steps
      have later : ∀ b, b ∈ Z q ++ P q → idx b ∉ touched idx Z P L := by
        intro b hb hm
        rw [touched_eq] at hm
        obtain ⟨b', hb', e⟩ := List.mem_map.mp hm
        have hbb : b = b' := by
          refine hinj b ?_ b' ?_ e.symm
          · simp only [stepBins, List.flatMap_cons, List.mem_append] at hb ⊢; exact Or.inl hb
          · simp only [stepBins, List.flatMap_cons, List.mem_append] at hb' ⊢; exact Or.inr hb'
        subst hbb
        obtain ⟨q', hq', hbq'⟩ := List.mem_flatMap.mp hb'
        exact (List.pairwise_cons.mp hdis).1 q' hq' b hb hbq'
      have hszq : ∀ b ∈ Z q ++ P q, idx b < d.size := fun b hb =>
        hsz b (by simp only [stepBins, List.flatMap_cons, List.mem_append] at hb ⊢; exact Or.inl hb)
      have hinjP : InjOn idx (P q) :=
        hinj.sublist fun b hb => by
          simp only [stepBins, List.flatMap_cons, List.mem_append]; exact Or.inl (Or.inr hb)
      constructor
      · intro hbP
        rw [getD_fwdSteps_not_mem _ _ _ _ _ _ _ _ _ (later b (List.mem_append_right _ hbP))]
        unfold fwdStep
        exact getD_fwdBins_mem rows ig idx img _ (P q) hinjP b hbP
          (by rw [size_zeroBins]; exact hszq b (List.mem_append_right _ hbP))
      · intro hbZ hbP
        rw [getD_fwdSteps_not_mem _ _ _ _ _ _ _ _ _ (later b (List.mem_append_left _ hbZ))]
        unfold fwdStep
        have hnot : idx b ∉ (P q).map idx := by
          intro hm
          obtain ⟨b', hb', e⟩ := List.mem_map.mp hm
          have : b = b' := by
            refine hinj b ?_ b' ?_ e.symm
            · simp only [stepBins, List.flatMap_cons, List.mem_append]; exact Or.inl (Or.inl hbZ)
            · simp only [stepBins, List.flatMap_cons, List.mem_append]; exact Or.inl (Or.inr hb')
          exact hbP (this ▸ hb')
        rw [getD_fwdBins_not_mem _ _ _ _ _ _ _ hnot]
        exact getD_zeroBins_mem idx d (Z q) (idx b) (List.mem_map.mpr ⟨b, hbZ, rfl⟩)

/-- back projection of a sequence of steps is the back projection of the concatenated bins -/
theorem bckSteps_eq (y im : Array K) (L : List σ) :
    L.foldl (fun im q => bckBins rows ig idx y (P q) im) im = bckBins rows ig idx y (L.flatMap P) im := by
  induction L generalizing im with
  | nil => rfl
  | cons q L ih => rw [List.foldl_cons, ih, List.flatMap_cons, bckBins_append]

end Steps

/-! ### `fwdSubset` / `bckSubset` are such sequences -/

variable (G : PDGeom) (S : Syms)

/-- the (basic view, basic segment, timing position) triples in the order of the double loop -/
def subsetSteps (i n : Int) : List (Int × Int × Int) :=
  (vsInSubset G S i n).flatMap fun vs => (irange G.minTof G.maxTof).map fun k => (vs.1, vs.2, k)

/-- the bins of the related viewgrams of a step (they are written back whole) -/
def stepZ (q : Int × Int × Int) : List Bin := (S.vgs q.1 q.2.1 q.2.2).flatMap G.viewgramBins

/-- the bins the chosen branch processes in a step -/
def stepP (cache : Bool) (q : Int × Int × Int) : List Bin :=
  branchBins cache (S.rel q.1 q.2.1 q.2.2) (S.vgs q.1 q.2.1 q.2.2) (G.fullRange q.2.1)

theorem fwdSubset_eq (cache : Bool) (img d : Array K) (i n : Int) (zero : Bool) :
    fwdSubset rows ig idx G S cache img d i n zero =
      if i < 0 then none else if i > n - 1 then none
      else some (fwdSteps rows ig idx (stepZ G S) (stepP G S cache) img (subsetSteps G S i n)
        (if zero && decide (n > 1) then fillZero d else d)) := by
  unfold fwdSubset
  by_cases h1 : i < 0
  · simp [h1]
  · by_cases h2 : i > n - 1
    · simp [h1, h2]
    · simp only [h1, h2, if_false]
      congr 1
      unfold fwdSteps subsetSteps
      rw [List.foldl_flatMap]
      congr 1
      funext d vs
      rw [List.foldl_map]
      rfl

theorem bckSubset_eq (cache : Bool) (y im : Array K) (i n : Int) :
    bckSubset rows ig idx G S cache y i n im
      = bckBins rows ig idx y ((subsetSteps G S i n).flatMap (stepP G S cache)) im := by
  rw [← bckSteps_eq]
  unfold bckSubset subsetSteps
  rw [List.foldl_flatMap]
  congr 1
  funext im vs
  rw [List.foldl_map]
  rfl

/-! ### pieces -/

theorem fillZero_eq (d : Array K) : fillZero d = zeroImg d.size := by
  apply Array.ext
  · simp [fillZero, zeroImg]
  · intro i h1 h2
    simp [fillZero, zeroImg]

theorem dotBins_congr (u u' y : Array K) (bins : List Bin) (h : ∀ b ∈ bins, u.getD (idx b) 0 = u'.getD (idx b) 0) :
    dotBins idx u y bins = dotBins idx u' y bins := by
  rw [dotBins_eq, dotBins_eq]
  congr 1
  apply List.map_congr_left
  intro b hb
  rw [h b hb]

/-- forward projecting piece after piece into the same data = forward projecting the concatenation -/
theorem fwdPieces_eq (img d : Array K) (pieces : List (List Bin)) :
    pieces.foldl (fun d p => fwdBins rows ig idx img p d) d = fwdBins rows ig idx img pieces.flatten d := by
  induction pieces generalizing d with
  | nil => rfl
  | cons p L ih => rw [List.foldl_cons, ih, List.flatten_cons, fwdBins_append]

/-- back projecting piece after piece into the same target = back projecting the concatenation -/
theorem bckPieces_eq (y im : Array K) (pieces : List (List Bin)) :
    pieces.foldl (fun im p => bckBins rows ig idx y p im) im = bckBins rows ig idx y pieces.flatten im := by
  induction pieces generalizing im with
  | nil => rfl
  | cons p L ih => rw [List.foldl_cons, ih, List.flatten_cons, bckBins_append]

theorem bckSum_flatten (y : Array K) (pieces : List (List Bin)) (i : Nat) :
    bckSum rows ig idx y pieces.flatten i = (pieces.map fun p => bckSum rows ig idx y p i).sum := by
  induction pieces with
  | nil => simp [bckSum]
  | cons p L ih => rw [List.flatten_cons, bckSum_append, ih]; simp

end StirVerif.C04
