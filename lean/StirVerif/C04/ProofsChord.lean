/-
C04 — helper lemmas, part 7: the end points between which `ray_trace_one_lor` traces (`squareEnds`, `squareChord`,
`cylChordSq`) bound exactly the part of the LOR inside the field of view, for every sign of `cos φ` and `sin φ`
(i.e. for the views beyond 90 degrees as well as for those that the view symmetries would otherwise supply).
-/
import StirVerif.C04.Model
import Mathlib.Algebra.Order.Field.Rat
import Mathlib.Algebra.Order.Field.Basic
import Mathlib.Algebra.Order.Ring.Abs
import Mathlib.Tactic.Linarith
import Mathlib.Tactic.Ring
import Mathlib.Tactic.SplitIfs
import Mathlib.Tactic.NormNum

namespace StirVerif.C04

theorem rabs_eq_abs (t : Rat) : rabs t = |t| := by
  unfold rabs
  split_ifs with h
  · exact (abs_of_neg h).symm
  · exact (abs_of_nonneg (not_lt.mp h)).symm

theorem sgn_of_pos {t : Rat} (h : 0 < t) : sgn t = 1 := by
  unfold sgn
  rw [if_neg (not_lt.mpr h.le)]

theorem sgn_of_neg {t : Rat} (h : t < 0) : sgn t = -1 := by
  unfold sgn
  rw [if_pos h]

/-- `squareEnds` written with `max` / `min` -/
theorem squareEnds_eq (fov s c sn : Rat) :
    squareEnds fov s c sn =
      (max ((-fov * sgn sn - s * c) / sn) ((-fov * sgn c + s * sn) / c),
       min ((fov * sgn sn - s * c) / sn) ((fov * sgn c + s * sn) / c)) := by
  unfold squareEnds
  simp only [max_def, min_def]

/-- `|p + a d| ≤ F` as an interval for `a`, `d > 0` -/
theorem abs_affine_le_pos (F p d a : Rat) (hd : 0 < d) :
    |p + a * d| ≤ F ↔ ((-F - p) / d ≤ a ∧ a ≤ (F - p) / d) := by
  rw [abs_le, div_le_iff₀ hd, le_div_iff₀ hd]
  constructor
  · rintro ⟨h1, h2⟩
    exact ⟨by linarith, by linarith⟩
  · rintro ⟨h1, h2⟩
    exact ⟨by linarith, by linarith⟩

/-- `|p + a d| ≤ F` as an interval for `a`, `d < 0`: the two borders change places -/
theorem abs_affine_le_neg (F p d a : Rat) (hd : d < 0) :
    |p + a * d| ≤ F ↔ ((F - p) / d ≤ a ∧ a ≤ (-F - p) / d) := by
  rw [abs_le, div_le_iff_of_neg hd, le_div_iff_of_neg hd]
  constructor
  · rintro ⟨h1, h2⟩
    exact ⟨by linarith, by linarith⟩
  · rintro ⟨h1, h2⟩
    exact ⟨by linarith, by linarith⟩

/-- the X condition, either sign of `sin φ` -/
theorem x_inside_iff (fov s c sn a : Rat) (hs : sn ≠ 0) :
    |s * c + a * sn| ≤ fov ↔ ((-fov * sgn sn - s * c) / sn ≤ a ∧ a ≤ (fov * sgn sn - s * c) / sn) := by
  rcases lt_or_gt_of_ne hs with h | h
  · rw [sgn_of_neg h, abs_affine_le_neg fov (s * c) sn a h]
    have e1 : (-fov * -1 - s * c) / sn = (fov - s * c) / sn := by ring
    have e2 : (fov * -1 - s * c) / sn = (-fov - s * c) / sn := by ring
    rw [e1, e2]
  · rw [sgn_of_pos h, abs_affine_le_pos fov (s * c) sn a h]
    have e1 : (-fov * 1 - s * c) / sn = (-fov - s * c) / sn := by ring
    have e2 : (fov * 1 - s * c) / sn = (fov - s * c) / sn := by ring
    rw [e1, e2]

/-- the Y condition, either sign of `cos φ` -/
theorem y_inside_iff (fov s c sn a : Rat) (hc : c ≠ 0) :
    |s * sn - a * c| ≤ fov ↔ ((-fov * sgn c + s * sn) / c ≤ a ∧ a ≤ (fov * sgn c + s * sn) / c) := by
  have e0 : s * sn - a * c = s * sn + a * (-c) := by ring
  rw [e0]
  rcases lt_or_gt_of_ne hc with h | h
  · have h' : 0 < -c := by linarith
    rw [sgn_of_neg h, abs_affine_le_pos fov (s * sn) (-c) a h']
    have e1 : (-fov * -1 + s * sn) / c = (-fov - s * sn) / -c := by
      rw [div_neg, ← neg_div]; ring
    have e2 : (fov * -1 + s * sn) / c = (fov - s * sn) / -c := by
      rw [div_neg, ← neg_div]; ring
    rw [e1, e2]
  · have h' : -c < 0 := by linarith
    rw [sgn_of_pos h, abs_affine_le_neg fov (s * sn) (-c) a h']
    have e1 : (-fov * 1 + s * sn) / c = (fov - s * sn) / -c := by
      rw [div_neg, ← neg_div]; ring
    have e2 : (fov * 1 + s * sn) / c = (-fov - s * sn) / -c := by
      rw [div_neg, ← neg_div]; ring
    rw [e1, e2]

/-- the end points of the general case bound exactly the part of the LOR inside the square -/
theorem squareEnds_inside_iff (fov s c sn a : Rat) (hc : c ≠ 0) (hs : sn ≠ 0) :
    ((squareEnds fov s c sn).1 ≤ a ∧ a ≤ (squareEnds fov s c sn).2) ↔
      (|s * c + a * sn| ≤ fov ∧ |s * sn - a * c| ≤ fov) := by
  rw [squareEnds_eq, x_inside_iff fov s c sn a hs, y_inside_iff fov s c sn a hc]
  simp only [max_le_iff, le_min_iff]
  constructor
  · rintro ⟨⟨h1, h2⟩, h3, h4⟩
    exact ⟨⟨h1, h3⟩, h2, h4⟩
  · rintro ⟨⟨h1, h3⟩, h2, h4⟩
    exact ⟨⟨h1, h2⟩, h3, h4⟩

/-- on the circle `c² + sn² = 1`: distance of the point `a` of the LOR from the axis -/
theorem lor_radius_sq (s c sn a : Rat) (h1 : c * c + sn * sn = 1) :
    (s * c + a * sn) * (s * c + a * sn) + (s * sn - a * c) * (s * sn - a * c) = s * s + a * a := by
  have : (s * c + a * sn) * (s * c + a * sn) + (s * sn - a * c) * (s * sn - a * c)
      = (s * s + a * a) * (c * c + sn * sn) := by ring
  rw [this, h1, mul_one]

end StirVerif.C04
