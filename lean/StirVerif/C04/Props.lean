/-
C04 — "Matched projector pairs are linear, adjoint and additive over pieces".

Property theorems over the model of `Model.lean`.  `K` is an arbitrary commutative ring with decidable equality (the
driver runs the same definitions at `K = Rat`); `rows : Bin → Row K` is an **arbitrary** family of sparse rows, `ig` an
arbitrary image grid/layout, `idx` the layout of the projection data, `G`/`S` arbitrary index ranges and symmetry tables:
nothing is assumed about what the rows are, how long they are, how many bins, views, subsets or voxels there are.
Hypotheses that do appear are explicit:
* `InjOn idx bins` — the layout does not store two different bins of the list at the same place (property C02);
* `idx b < d.size` — the bin is inside the data array (the model's `setIfInBounds` ignores writes outside);
* `RelPartition rel r` — the related-position lists of the symmetries partition the requested range (what
  `get_related_bins_factorised` has to deliver for the `already_processed` loop to be right; it does **not** for
  BlocksOnCylindrical/Generic TOF data, see `C04_explicit_branch_needs_reflexive_rel_fails`);
* `StepsDisjoint` — the related-viewgram sets processed for a subset are disjoint (property C06).
Each is shown satisfiable by a concrete instance in the `example`s.

`G`, `idx` (and the related-position lists inside `S`) describe the projection data **passed to the call**; `rows` belongs to
the geometry the projectors were set up with.  Since nothing is assumed about how the two are related, every theorem below
about `fwdSubset` / `bckSubset` / `fwdRelated` / `bckRelated` also covers projection data that are smaller than the set-up
geometry (fewer segments, trimmed axial and tangential ranges) — the harness drives the real projectors and the model in both
situations (`fwd`/`bsub` and `fwd2`/`bsub2` operations) — and `C04_fwd_smaller_data_is_restriction` states what connects the two.
The data processors of `set_input` / `get_output` are arbitrary functions on the voxel array (`Proc`).

The image grid `ig` is arbitrary as well: `ig.zmin`, `ig.zmax` are `density.get_min_index()` / `get_max_index()` whatever they
are.  Since round 3 the harness drives the real projectors and the model on grids whose first plane is negative, positive or
straddles 0 (`IndexRange3D(-4,4,…)`, `(-2,6,…)`, `(3,9,…)`, all planes negative) and whose x/y ranges have extra columns at
either end, so every theorem that mentions `ig` (`C04_adjoint*`, `C04_additive_*`, `C04_fwd_subset_*`, `C04_bck_accumulates`,
…) is now tied to the code on such grids too (a guard `z ≥ 0` instead of `z ≥ min_index` in either direction is a
correspondence failure there, and breaks the adjointness oracle).

**Re-use of one matrix / projector object for several geometries** (`C04_reused_matrix_*` at the end): the rows above are
"the rows of the geometry the projectors were set up with"; which rows an object that has been `set_up` several times
actually returns is decided by the cache state machine `MatrixObj`, and the theorems say: those of the last `set_up`,
i.e. those of a fresh object.  The harness runs such histories on the real objects (ray-tracing and interpolation matrices,
cache on / every bin cached / off, separate projectors and `ProjectorByBinPairUsingProjMatrixByBin`) and lets the model —
fed with the rows of a fresh matrix — answer the projections of the old objects.

The last clause of the property ("the on-the-fly ray-tracing forward projector gives the same data as forward projection
through the ray-tracing matrix") is about `ForwardProjectorByBinUsingRayTracing`, which is not modelled: it is evaluated on
the implementation by the oracle of `harness/c04_projectors.cxx` only — with `restrict_to_cylindrical_FOV` true and false,
numbers of views 4k / 4k+2 (odd: refused), z origins off by whole planes, anisotropic voxels, one or two planes per ring,
every segment with full ranges and axial+tangential sub-ranges, and projection data smaller than the set-up geometry.
Found there: the half-plane term dropped at tangential position 0 in `forward_project_all_symmetries_2D` (repaired in /repo),
`+=` instead of overwriting the viewgrams, the `plus_90` routines used at 45 degrees for non-square voxels, and the hard-coded
two planes per ring in `proj_Siddon` (the last two: known candidates with proposed repairs `docs/fixes/C04-1.diff`, `C04-2.diff`).
Round 3 (image grids whose first plane is not 0): `proj_Siddon` tests `plane >= 0` instead of `plane >= min_index`, so planes
of negative index are ignored and memory before a positive first plane is read (known candidate
`on-the-fly-raytracing:image-first-plane-not-0`, proposed repair `docs/fixes/C04-4.diff`).

Round 4 (field of view x symmetries): which voxels a row of `ProjMatrixByBinUsingRayTracing` contains is decided by the two
end points `min_a`, `max_a` that `ray_trace_one_lor` computes on the border of the cylindrical or the SQUARE field of view
(`restrict to cylindrical FOV := 0`).  With the view symmetries in use only views of 0..45 degrees reach that code; with
them switched off (by option, or automatically for TOF data, view mashing, a view offset, `use_actual_detector_boundaries`)
every view does, with `cos φ < 0` beyond 90 degrees.  `squareChord` / `cylChordSq` transcribe that code and
`C04_square_fov_*`, `C04_cylindrical_fov_chord_exact` (end of this file) say that, for every sign of `cos φ` and `sin φ`, the
end points bound exactly the part of the LOR inside the field of view — what both the matrix and the on-the-fly projector
have to trace for the last clause of the property to hold.  The harness sends every ray of its cross product
{cylindrical, square} x {32 symmetry settings} x {1, 2, 3 rays} x {detector boundaries} to the model (`sqchord`) and checks the
rows of the real matrix against the same geometry (non-empty, row sum = chord, column sums = 2D lengths), and the on-the-fly
projector against the matrix for all 32 symmetry settings and both fields of view, all views.
-/
import StirVerif.C04.ProofsProc
import StirVerif.C04.ProofsMatrix
import StirVerif.C04.ProofsChord

set_option linter.unusedSectionVars false
set_option linter.unusedSimpArgs false

namespace StirVerif.C04

variable {K : Type} [CommRing K] [DecidableEq K]
variable (rows : Bin → Row K) (ig : ImgGeom) (idx : Bin → Nat) (G : PDGeom) (S : Syms)

/-! ## linearity -/

/-- "projection is linear" — one row (`ProjMatrixElemsForOneBin::forward_project`): `A(c·x + x') = c·A x + A x'`,
    also in the value the bin comes in with. -/
theorem C04_fwd_row_linear (row : Row K) (c : K) (x x' : Array K) (h : x.size = x'.size) (a a' : K) :
    fwdRow ig row (axpy c x x') (c * a + a') = c * fwdRow ig row x a + fwdRow ig row x' a' :=
  fwdRow_axpy ig row c x x' h a a'

/-- "projection is linear" — forward projection of any sequence of bins (viewgram, related viewgrams, subset,
    sub-range), read at any processed bin. -/
theorem C04_fwd_linear (c : K) (x x' d : Array K) (hx : x.size = x'.size) (bins : List Bin) (hinj : InjOn idx bins)
    (hsz : ∀ b ∈ bins, idx b < d.size) (b : Bin) (hb : b ∈ bins) :
    (fwdBins rows ig idx (axpy c x x') bins d).getD (idx b) 0
      = c * (fwdBins rows ig idx x bins d).getD (idx b) 0 + (fwdBins rows ig idx x' bins d).getD (idx b) 0 := by
  rw [getD_fwdBins_mem rows ig idx _ d bins hinj b hb (hsz b hb), getD_fwdBins_mem rows ig idx _ d bins hinj b hb (hsz b hb),
    getD_fwdBins_mem rows ig idx _ d bins hinj b hb (hsz b hb)]
  have := fwdRow_axpy ig (rows b) c x x' hx 0 0
  simpa using this

/-- "projection is linear" — back projection of any sequence of bins is linear in the data, at every voxel
    (the `data == 0` short cuts do not break it). -/
theorem C04_bck_linear (c : K) (y y' : Array K) (hy : y.size = y'.size) (bins : List Bin) (n i : Nat) (hi : i < n) :
    (bckBins rows ig idx (axpy c y y') bins (zeroImg n)).getD i 0
      = c * (bckBins rows ig idx y bins (zeroImg n)).getD i 0 + (bckBins rows ig idx y' bins (zeroImg n)).getD i 0 := by
  have hz : i < (zeroImg n : Array K).size := by rw [size_zeroImg]; exact hi
  rw [getD_bckBins _ _ _ _ _ _ _ hz, getD_bckBins _ _ _ _ _ _ _ hz, getD_bckBins _ _ _ _ _ _ _ hz, getD_zeroImg,
    bckSum_axpy rows ig idx c y y' hy]
  ring

/-! ## adjointness -/

/-- "the two operations are adjoint, ⟨A x, y⟩ = ⟨x, Aᵀ y⟩ for all images x and data y" — for the rows of **any** finite
    sequence of bins, hence for the full data set, every subset, every symmetry group of viewgrams and every axial or
    tangential sub-range (they are all sequences of bins): the forward projection written into the data `d` by the model
    and read back at the bins, against the back projection accumulated by the model into a zero image.
    (`ig` arbitrary: since round 3 exercised against the code also on image grids whose first plane is not 0 and, via the
    history operations, on projector objects that were set up for other geometries before.) -/
theorem C04_adjoint (x y d : Array K) (bins : List Bin) (hinj : InjOn idx bins) (hsz : ∀ b ∈ bins, idx b < d.size) :
    dotBins idx (fwdBins rows ig idx x bins d) y bins = dotImg x (bckBins rows ig idx y bins (zeroImg x.size)) :=
  adjoint_bins rows ig idx x y d bins hinj hsz

/-- … "for every symmetry group of viewgrams and axial or tangential sub-range that can be requested": the same for
    `actual_forward_project` / `actual_back_project` on related viewgrams `vgs` over the range `r`, in **either** branch
    (cache enabled / explicit symmetries), whatever the related-position lists `rel` are. -/
theorem C04_adjoint_related (cache : Bool) (rel : Int → Int → List (Int × Int)) (vgs : List VG) (r : Range) (x y d : Array K)
    (hinj : InjOn idx (branchBins cache rel vgs r)) (hsz : ∀ b ∈ branchBins cache rel vgs r, idx b < d.size) :
    dotBins idx (fwdRelated rows ig idx cache rel vgs r x d) y (branchBins cache rel vgs r)
      = dotImg x (bckRelated rows ig idx cache rel vgs r y (zeroImg x.size)) :=
  adjoint_bins rows ig idx x y d _ hinj hsz

/-- … "for the full data set and for every subset": `ForwardProjectorByBin::forward_project(proj_data, subset_num,
    num_subsets, zero)` against `BackProjectorByBin::back_project(proj_data, subset_num, num_subsets)`, for every
    `0 ≤ subset_num < num_subsets`, both values of `zero`, either branch — the inner product taken over the bins the
    projectors process for that subset.  (`G`, `idx` are those of `proj_data`: the statement is the same whether
    `proj_data` has the set-up geometry or a smaller one; the driver executes `fwdSubset`/`bckSubset` for both.) -/
theorem C04_adjoint_subset (cache : Bool) (x y d : Array K) (i n : Int) (zero : Bool) (hi : 0 ≤ i) (hin : i ≤ n - 1)
    (hinj : InjOn idx (stepBins (stepZ G S) (stepP G S cache) (subsetSteps G S i n)))
    (hdis : StepsDisjoint (stepZ G S) (stepP G S cache) (subsetSteps G S i n))
    (hsz : ∀ b ∈ stepBins (stepZ G S) (stepP G S cache) (subsetSteps G S i n), idx b < d.size) :
    ∃ out, fwdSubset rows ig idx G S cache x d i n zero = some out ∧
      dotBins idx out y ((subsetSteps G S i n).flatMap (stepP G S cache))
        = dotImg x (bckSubset rows ig idx G S cache y i n (zeroImg x.size)) := by
  refine ⟨fwdSteps rows ig idx (stepZ G S) (stepP G S cache) x (subsetSteps G S i n)
    (if zero && decide (n > 1) then fillZero d else d), ?_, ?_⟩
  · rw [fwdSubset_eq]; simp [not_lt.mpr hi, not_lt.mpr hin]
  · set allP := (subsetSteps G S i n).flatMap (stepP G S cache) with hallP
    set d0 := (if zero && decide (n > 1) then fillZero d else d) with hd0
    have hd0sz : d0.size = d.size := by
      rw [hd0]; split <;> simp [size_fillZero]
    have hsub : ∀ b ∈ allP, b ∈ stepBins (stepZ G S) (stepP G S cache) (subsetSteps G S i n) := by
      intro b hb
      obtain ⟨q, hq, hbq⟩ := List.mem_flatMap.mp hb
      exact List.mem_flatMap.mpr ⟨q, hq, List.mem_append_right _ hbq⟩
    have hinjP : InjOn idx allP := hinj.sublist hsub
    rw [bckSubset_eq, ← adjoint_bins rows ig idx x y d0 allP hinjP (fun b hb => by rw [hd0sz]; exact hsz b (hsub b hb))]
    apply dotBins_congr
    intro b hb
    obtain ⟨q, hq, hbq⟩ := List.mem_flatMap.mp hb
    rw [(getD_fwdSteps_mem rows ig idx (stepZ G S) (stepP G S cache) x d0 _ hinj hdis
        (fun b hb => by rw [hd0sz]; exact hsz b hb) q hq b).1 hbq,
      getD_fwdBins_mem rows ig idx x d0 allP hinjP b hb (by rw [hd0sz]; exact hsz b (hsub b hb))]

/-! ## additivity over pieces -/

/-- "projecting piecewise and adding the pieces equals projecting at once" — back projection: for any split of a
    sequence of bins `whole` into pieces (in any order: `pieces.flatten` is a permutation of `whole`), the sum of the
    back projections of the pieces is the back projection of the whole, at every voxel. -/
theorem C04_additive_over_pieces_bck (y : Array K) (pieces : List (List Bin)) (whole : List Bin)
    (hp : pieces.flatten.Perm whole) (n i : Nat) (hi : i < n) :
    (pieces.map fun p => (bckBins rows ig idx y p (zeroImg n)).getD i 0).sum
      = (bckBins rows ig idx y whole (zeroImg n)).getD i 0 := by
  have hz : i < (zeroImg n : Array K).size := by rw [size_zeroImg]; exact hi
  rw [getD_bckBins _ _ _ _ _ _ _ hz, getD_zeroImg, zero_add, ← bckSum_perm rows ig idx y hp, bckSum_flatten]
  congr 1
  apply List.map_congr_left
  intro p _
  rw [getD_bckBins _ _ _ _ _ _ _ hz, getD_zeroImg, zero_add]

/-- … forward projection: projecting the pieces one after the other into the same data gives, at every place of the
    data, what projecting the whole at once gives (for a layout that keeps the bins of `whole` apart). -/
theorem C04_additive_over_pieces_fwd (x d : Array K) (pieces : List (List Bin)) (whole : List Bin)
    (hp : pieces.flatten.Perm whole) (hinj : InjOn idx whole) (hsz : ∀ b ∈ whole, idx b < d.size) (j : Nat) :
    (pieces.foldl (fun d p => fwdBins rows ig idx x p d) d).getD j 0 = (fwdBins rows ig idx x whole d).getD j 0 := by
  rw [fwdPieces_eq]
  exact getD_fwdBins_perm rows ig idx x d hp (hinj.perm hp) (fun b hb => hsz b (hp.mem_iff.mp hb)) j

/-- … "for every subset": if the bins processed for the `n` subsets together are exactly the bins processed for the whole
    data (each once — the bin-level form of C06's partition theorem), the back projections of the subsets add up to the back
    projection of the whole data, at every voxel. -/
theorem C04_additive_over_subsets_bck (cache : Bool) (y : Array K) (n : Nat)
    (hp : ((List.range n).map fun (i : Nat) => (subsetSteps G S i n).flatMap (stepP G S cache)).flatten.Perm
      ((subsetSteps G S 0 1).flatMap (stepP G S cache))) (m v : Nat) (hv : v < m) :
    ((List.range n).map fun (i : Nat) => (bckSubset rows ig idx G S cache y i n (zeroImg m)).getD v 0).sum
      = (bckSubset rows ig idx G S cache y 0 1 (zeroImg m)).getD v 0 := by
  have := C04_additive_over_pieces_bck rows ig idx y _ _ hp m v hv
  simp only [bckSubset_eq]
  simpa [List.map_map, Function.comp_def] using this

/-! ## frame of the forward projection -/

/-- `forward_project(proj_data, subset_num, num_subsets, zero)` is an error exactly for `subset_num < 0` or
    `subset_num > num_subsets - 1` (so in particular for every `num_subsets ≤ 0`). -/
theorem C04_fwd_subset_error_iff (cache : Bool) (x d : Array K) (i n : Int) (zero : Bool) :
    fwdSubset rows ig idx G S cache x d i n zero = none ↔ (i < 0 ∨ i > n - 1) := by
  rw [fwdSubset_eq]
  by_cases h1 : i < 0
  · simp [h1]
  · by_cases h2 : i > n - 1
    · simp [h1, h2]
    · simp [h1, h2]

/-- "Forward projecting a subset of a data set leaves all other bins unchanged, or sets them to zero when zeroing is
    requested": every place of the data that does not belong to a related viewgram processed for the subset keeps its value
    when `zero = false`, and is 0 when `zero = true ∧ num_subsets > 1`.  The `num_subsets = 1` corner is as in the code:
    with `zero = true` nothing is zeroed either (`if (zero && num_subsets > 1) proj_data.fill(0)`), a place that no related
    viewgram covers keeps its old value. -/
theorem C04_fwd_subset_frame (cache : Bool) (x d out : Array K) (i n : Int) (zero : Bool)
    (h : fwdSubset rows ig idx G S cache x d i n zero = some out) (j : Nat)
    (hj : j ∉ touched idx (stepZ G S) (stepP G S cache) (subsetSteps G S i n)) :
    out.getD j 0 = if zero && decide (n > 1) then 0 else d.getD j 0 := by
  rw [fwdSubset_eq] at h
  by_cases h1 : i < 0
  · simp [h1] at h
  · by_cases h2 : i > n - 1
    · simp [h1, h2] at h
    · simp only [h1, h2, if_false, Option.some.injEq] at h
      rw [← h, getD_fwdSteps_not_mem _ _ _ _ _ _ _ _ _ hj]
      by_cases hz : (zero && decide (n > 1)) = true
      · simp only [hz, if_true]; exact getD_fillZero d j
      · simp only [hz]
        simp

/-- … and inside the subset: every bin the branch processes holds the forward projection of its row, every other bin of
    the related viewgrams (written back whole from `get_empty_related_viewgrams`) holds 0 — given disjoint related sets
    (C06) and an injective layout (C02). -/
theorem C04_fwd_subset_value (cache : Bool) (x d out : Array K) (i n : Int) (zero : Bool)
    (h : fwdSubset rows ig idx G S cache x d i n zero = some out)
    (hinj : InjOn idx (stepBins (stepZ G S) (stepP G S cache) (subsetSteps G S i n)))
    (hdis : StepsDisjoint (stepZ G S) (stepP G S cache) (subsetSteps G S i n))
    (hsz : ∀ b ∈ stepBins (stepZ G S) (stepP G S cache) (subsetSteps G S i n), idx b < d.size)
    (q : Int × Int × Int) (hq : q ∈ subsetSteps G S i n) (b : Bin) :
    (b ∈ stepP G S cache q → out.getD (idx b) 0 = fwdRow ig (rows b) x 0)
    ∧ (b ∈ stepZ G S q → b ∉ stepP G S cache q → out.getD (idx b) 0 = 0) := by
  rw [fwdSubset_eq] at h
  by_cases h1 : i < 0
  · simp [h1] at h
  · by_cases h2 : i > n - 1
    · simp [h1, h2] at h
    · simp only [h1, h2, if_false, Option.some.injEq] at h
      rw [← h]
      refine getD_fwdSteps_mem rows ig idx (stepZ G S) (stepP G S cache) x _ _ hinj hdis ?_ q hq b
      intro b hb
      have : (if zero && decide (n > 1) then fillZero d else d).size = d.size := by split <;> simp [size_fillZero]
      rw [this]; exact hsz b hb

/-- the forward projection of bins (any sequence) never touches a place that is not the place of one of them, and writes
    the row sum at the place of each of them: frame + value for viewgrams, related viewgrams and sub-ranges. -/
theorem C04_fwd_bins_frame_and_value (x d : Array K) (bins : List Bin) :
    (∀ j, j ∉ bins.map idx → (fwdBins rows ig idx x bins d).getD j 0 = d.getD j 0)
    ∧ (InjOn idx bins → ∀ b ∈ bins, idx b < d.size → (fwdBins rows ig idx x bins d).getD (idx b) 0 = fwdRow ig (rows b) x 0) :=
  ⟨fun j hj => getD_fwdBins_not_mem rows ig idx x d bins j hj,
   fun hinj b hb hs => getD_fwdBins_mem rows ig idx x d bins hinj b hb hs⟩

/-! ## accumulation of the back projection -/

/-- "back projection accumulates without disturbing earlier contributions": back projecting any sequence of bins into a
    target that already holds `im` gives, at every voxel, `im` plus what the same back projection gives from zero. -/
theorem C04_bck_accumulates (y im : Array K) (bins : List Bin) (i : Nat) (hi : i < im.size) :
    (bckBins rows ig idx y bins im).getD i 0 = im.getD i 0 + (bckBins rows ig idx y bins (zeroImg im.size)).getD i 0 := by
  have hz : i < (zeroImg im.size : Array K).size := by rw [size_zeroImg]; exact hi
  rw [getD_bckBins _ _ _ _ _ _ _ hi, getD_bckBins _ _ _ _ _ _ _ hz, getD_zeroImg, zero_add]

/-- … at the level of the projector's state: after `start_accumulating_in_new_target`, two successive
    `back_project(proj_data, subset, num_subsets)` calls (any data, any subsets) leave the sum of the two separate back
    projections in the target; the values the target had before `start_accumulating_in_new_target` play no role. -/
theorem C04_backproj_two_calls (cache : Bool) (s : BackProj K) (y1 y2 : Array K) (i1 n1 i2 n2 : Int) (v : Nat)
    (hv : v < s.density.size) :
    (BackProj.backSubset rows ig idx G S cache (BackProj.backSubset rows ig idx G S cache s.start y1 i1 n1) y2 i2 n2).getOutput.getD v 0
      = (bckSubset rows ig idx G S cache y1 i1 n1 (zeroImg s.density.size)).getD v 0
        + (bckSubset rows ig idx G S cache y2 i2 n2 (zeroImg s.density.size)).getD v 0 := by
  simp only [BackProj.backSubset, BackProj.getOutput, BackProj.start, bckSubset_eq, fillZero_eq]
  have hz : v < (zeroImg s.density.size : Array K).size := by rw [size_zeroImg]; exact hv
  rw [getD_bckBins _ _ _ _ _ _ _ (by rw [size_bckBins]; exact hz), getD_bckBins _ _ _ _ _ _ _ hz,
    getD_bckBins _ _ _ _ _ _ _ hz, getD_zeroImg]
  ring

/-- `back_project(image, proj_data, subset, num_subsets)` (= start; back_project; get_output) returns the back projection
    from zero: neither the previous contents of the target nor those of `image` enter. -/
theorem C04_backproj_backInto (cache : Bool) (s : BackProj K) (y : Array K) (i n : Int) :
    (BackProj.backInto rows ig idx G S cache s y i n).2 = bckSubset rows ig idx G S cache y i n (zeroImg s.density.size) := by
  simp [BackProj.backInto, BackProj.backSubset, BackProj.getOutput, BackProj.start, fillZero_eq]

/-! ## pre- and post- data processors; `forward_project(proj_data, image, …)` -/

/-- without a pre-data-processor `forward_project(proj_data, image, subset_num, num_subsets, zero)` (= `set_input(image)`
    followed by `forward_project(proj_data, subset_num, num_subsets, zero)`) is `fwdSubset` on the image itself: all theorems
    about `fwdSubset` are theorems about that overload. -/
theorem C04_fwd_project_no_processor (cache : Bool) (x d : Array K) (i n : Int) (zero : Bool) :
    fwdProject rows ig idx G S none cache x d i n zero = fwdSubset rows ig idx G S cache x d i n zero := by
  simp [fwdProject, setInput]

/-- with a pre-data-processor the projector works on the processed copy; a processor that fails is an error of
    `set_input` (`throw`), whatever the subset arguments are. -/
theorem C04_fwd_project_processor (p : Proc K) (cache : Bool) (x d : Array K) (i n : Int) (zero : Bool) :
    fwdProject rows ig idx G S (some p) cache x d i n zero
      = match p x with
        | none => none
        | some x' => fwdSubset rows ig idx G S cache x' d i n zero := by
  simp only [fwdProject, setInput]
  cases h : p x <;> simp

/-- `get_output` without a post-data-processor hands out the accumulation target; with one it hands out the processed copy
    and — the function returning no new state — leaves the target as it was: a later `back_project` accumulates on the
    unprocessed sum. -/
theorem C04_get_output_post (s : BackProj K) (q : Proc K) :
    s.getOutputPost none = some s.getOutput ∧ s.getOutputPost (some q) = q s.getOutput := by
  simp [BackProj.getOutputPost, BackProj.getOutput]

/-- "the two operations are adjoint" **through the data processors**: if the post-processor `q` of the back projector is the
    adjoint of the pre-processor `p` of the forward projector (`⟨p u, v⟩ = ⟨u, q v⟩`; in particular `p = q` self-adjoint) and
    `p` keeps the image size, then `⟨A (p x), y⟩ = ⟨x, q (Aᵀ y)⟩` for the rows of any sequence of bins: `set_input` with
    `p`, forward projection, against back projection into a fresh target and `get_output` with `q`. -/
theorem C04_adjoint_with_processors (p q : Array K → Array K) (hp : ∀ u, (p u).size = u.size)
    (hadj : ∀ u v : Array K, u.size = v.size → dotImg (p u) v = dotImg u (q v))
    (x y d : Array K) (bins : List Bin) (hinj : InjOn idx bins) (hsz : ∀ b ∈ bins, idx b < d.size) :
    ∃ x' out, setInput (some fun u => some (p u)) x = some x'
      ∧ (BackProj.mk (bckBins rows ig idx y bins (zeroImg x.size))).getOutputPost (some fun v => some (q v)) = some out
      ∧ dotBins idx (fwdBins rows ig idx x' bins d) y bins = dotImg x out :=
  ⟨p x, q (bckBins rows ig idx y bins (zeroImg x.size)), rfl, rfl,
    adjoint_bins_processed rows ig idx p q hp hadj x y d bins hinj hsz⟩

/-- "with a scaling processor results scale": forward projection after `set_input` with the processor `image *= c` is `c`
    times the unprocessed forward projection at every processed bin, and `get_output` with it is `c` times the target. -/
theorem C04_scaling_processor_scales (c : K) (x d : Array K) (bins : List Bin) (hinj : InjOn idx bins)
    (hsz : ∀ b ∈ bins, idx b < d.size) (s : BackProj K) :
    (∃ x', setInput (some (procScale c)) x = some x' ∧
      ∀ b ∈ bins, (fwdBins rows ig idx x' bins d).getD (idx b) 0 = c * (fwdBins rows ig idx x bins d).getD (idx b) 0)
    ∧ (∃ out, s.getOutputPost (some (procScale c)) = some out ∧ ∀ v, out.getD v 0 = c * s.getOutput.getD v 0) := by
  refine ⟨⟨x.map fun v => c * v, rfl, ?_⟩, ⟨s.density.map fun v => c * v, rfl, ?_⟩⟩
  · intro b hb
    rw [getD_fwdBins_mem rows ig idx _ d bins hinj b hb (hsz b hb), getD_fwdBins_mem rows ig idx _ d bins hinj b hb (hsz b hb)]
    have := fwdRow_map_mul ig (rows b) c x 0
    simpa using this
  · intro v
    exact getD_map_mul c s.density v

/-- the scaling processor satisfies the hypotheses of `C04_adjoint_with_processors` (it is self-adjoint) -/
theorem C04_scaling_processor_self_adjoint (c : K) :
    (∀ u : Array K, (u.map fun a => c * a).size = u.size)
    ∧ (∀ u v : Array K, u.size = v.size → dotImg (u.map fun a => c * a) v = dotImg u (v.map fun a => c * a)) :=
  ⟨fun u => size_map_mul c u, fun u v _ => dotImg_map_mul c u v⟩

/-! ## projection data smaller than the set-up geometry -/

/-- "projecting piecewise … equals projecting at once", for a piece that is a **smaller projection-data object**: the same
    projector (same `rows`) called once with data of geometry `G`, layout `idx` and once with data of geometry `G'`, layout
    `idx'`, related-position lists `S'.rel` for the ranges of the smaller data (any subset arguments, any `zero`, either
    branch in either call) writes the same value for every bin that both calls process — the projection of the smaller data
    is the restriction of the projection of the larger. -/
theorem C04_fwd_smaller_data_is_restriction (x : Array K)
    (cache : Bool) (d out : Array K) (i n : Int) (zero : Bool)
    (h : fwdSubset rows ig idx G S cache x d i n zero = some out)
    (hinj : InjOn idx (stepBins (stepZ G S) (stepP G S cache) (subsetSteps G S i n)))
    (hdis : StepsDisjoint (stepZ G S) (stepP G S cache) (subsetSteps G S i n))
    (hsz : ∀ b ∈ stepBins (stepZ G S) (stepP G S cache) (subsetSteps G S i n), idx b < d.size)
    (G' : PDGeom) (S' : Syms) (idx' : Bin → Nat) (cache' : Bool) (d' out' : Array K) (i' n' : Int) (zero' : Bool)
    (h' : fwdSubset rows ig idx' G' S' cache' x d' i' n' zero' = some out')
    (hinj' : InjOn idx' (stepBins (stepZ G' S') (stepP G' S' cache') (subsetSteps G' S' i' n')))
    (hdis' : StepsDisjoint (stepZ G' S') (stepP G' S' cache') (subsetSteps G' S' i' n'))
    (hsz' : ∀ b ∈ stepBins (stepZ G' S') (stepP G' S' cache') (subsetSteps G' S' i' n'), idx' b < d'.size)
    (q : Int × Int × Int) (hq : q ∈ subsetSteps G S i n) (q' : Int × Int × Int) (hq' : q' ∈ subsetSteps G' S' i' n')
    (b : Bin) (hb : b ∈ stepP G S cache q) (hb' : b ∈ stepP G' S' cache' q') :
    out'.getD (idx' b) 0 = out.getD (idx b) 0 := by
  rw [(C04_fwd_subset_value rows ig idx G S cache x d out i n zero h hinj hdis hsz q hq b).1 hb,
    (C04_fwd_subset_value rows ig idx' G' S' cache' x d' out' i' n' zero' h' hinj' hdis' hsz' q' hq' b).1 hb']

/-! ## the two branches -/

/-- the `already_processed` loop of the explicit-symmetries branch visits every position of the requested range exactly
    once, if the related-position lists partition the range. -/
theorem C04_explicit_branch_visits_once (rel : Int → Int → List (Int × Int)) (r : Range) (H : RelPartition rel r) :
    (explicitPositions rel r).Perm (rangePositions r) :=
  explicitPositions_perm H

/-- then the explicit-symmetries branch back projects exactly what the per-bin (cache enabled) branch back projects … -/
theorem C04_branches_agree_bck (rel : Int → Int → List (Int × Int)) (r : Range) (H : RelPartition rel r) (vgs : List VG)
    (y im : Array K) (i : Nat) (hi : i < im.size) :
    (bckRelated rows ig idx false rel vgs r y im).getD i 0 = (bckRelated rows ig idx true rel vgs r y im).getD i 0 :=
  getD_bckBins_perm rows ig idx y im ((branchBins_perm H vgs false).trans (branchBins_perm H vgs true).symm) i hi

/-- … and forward projects the same values into the same places (and leaves the same places alone). -/
theorem C04_branches_agree_fwd (rel : Int → Int → List (Int × Int)) (r : Range) (H : RelPartition rel r) (vgs : List VG)
    (x d : Array K) (hinj : InjOn idx (binsPerBin vgs r)) (hsz : ∀ b ∈ binsPerBin vgs r, idx b < d.size) (j : Nat) :
    (fwdRelated rows ig idx false rel vgs r x d).getD j 0 = (fwdRelated rows ig idx true rel vgs r x d).getD j 0 := by
  have hp := (branchBins_perm (rel := rel) H vgs false).trans (branchBins_perm H vgs true).symm
  have hp1 := branchBins_perm (rel := rel) H vgs false
  exact getD_fwdBins_perm rows ig idx x d hp (hinj.perm hp1) (fun b hb => hsz b (hp1.mem_iff.mp hb)) j

/-- **negative witness** (replayed on the implementation by the harness, reported as known candidate
    `explicit-symmetries-branch-skips-bins-with-nonzero-timing-pos:BlocksOnCylindrical:cache-disabled`): without the
    hypothesis the statement is false.  If the symmetries hand out an empty related-position list — which is what
    `DataSymmetriesForBins_PET_CartesianGrid::get_related_bins_factorised` does for BlocksOnCylindrical and Generic
    scanners whenever the timing position is not 0 (it compares against a bin built without the timing position) — the
    explicit-symmetries branch processes no bin at all, while the per-bin branch processes the whole range. -/
theorem C04_explicit_branch_needs_reflexive_rel_fails :
    ¬ (∀ (rel : Int → Int → List (Int × Int)) (vgs : List VG) (r : Range), (binsExplicit rel vgs r).Perm (binsPerBin vgs r)) := by
  intro h
  have h1 := (h (fun _ _ => []) [⟨0, 0, 1⟩] ⟨0, 1, -1, 1⟩).length_eq
  revert h1
  decide

/-! ## non-vacuity: concrete instances of the hypotheses -/

/-- the hypothesis of the branch theorems holds for the cylindrical symmetries, on a full and on a clipped range -/
example : RelPartition (relCyl ⟨0, 2, -2, 2⟩) ⟨0, 2, -2, 2⟩ := relPartition_of_check _ _ (by decide)
example : RelPartition (relCyl ⟨0, 2, -2, 2⟩) ⟨1, 2, -1, 2⟩ := relPartition_of_check _ _ (by decide)

/-- … and the loop then really produces the 15 positions, each once -/
example : (explicitPositions (relCyl ⟨0, 2, -2, 2⟩) ⟨0, 2, -2, 2⟩).length = 15 := by decide

/-- a small projection-data layout: 2 views × 3 axial × 5 tangential positions, segment 0, no TOF -/
def exIdx (b : Bin) : Nat := ((b.view * 3 + b.ax) * 5 + (b.tang + 2)).toNat

/-- the layout hypothesis holds for two related viewgrams over the full range, in both branches -/
example : InjOn exIdx (branchBins true (relCyl ⟨0, 2, -2, 2⟩) [⟨0, 0, 0⟩, ⟨0, 1, 0⟩] ⟨0, 2, -2, 2⟩) := by
  unfold InjOn; decide
example : InjOn exIdx (branchBins false (relCyl ⟨0, 2, -2, 2⟩) [⟨0, 0, 0⟩, ⟨0, 1, 0⟩] ⟨0, 2, -2, 2⟩) := by
  unfold InjOn; decide

/-- a small data set: 4 views, segment 0, 2 axial × 3 tangential positions; views 0,1 basic, view v+2 related to v -/
def exG : PDGeom := ⟨0, 0, 0, 3, -1, 1, 0, 0, fun _ => 0, fun _ => 1⟩
def exS : Syms := ⟨fun v _ => decide (v < 2), fun v s => [(v, s), (v + 2, s)], fun _ _ _ => relCyl ⟨0, 1, -1, 1⟩⟩
def exIdx2 (b : Bin) : Nat := ((b.view * 2 + b.ax) * 3 + (b.tang + 1)).toNat

/-- the hypotheses of `C04_adjoint_subset` / `C04_fwd_subset_value` hold for subset 1 of 2 of that data set (it consists of
    the related viewgrams {1, 3}), in both branches -/
example : InjOn exIdx2 (stepBins (stepZ exG exS) (stepP exG exS false) (subsetSteps exG exS 1 2))
    ∧ StepsDisjoint (stepZ exG exS) (stepP exG exS false) (subsetSteps exG exS 1 2)
    ∧ (∀ b ∈ stepBins (stepZ exG exS) (stepP exG exS false) (subsetSteps exG exS 1 2), exIdx2 b < 24)
    ∧ subsetSteps exG exS 1 2 = [(1, 0, 0)] := by
  unfold InjOn StepsDisjoint; decide

/-- … and for the whole data (1 subset): two disjoint steps -/
example : InjOn exIdx2 (stepBins (stepZ exG exS) (stepP exG exS true) (subsetSteps exG exS 0 1))
    ∧ StepsDisjoint (stepZ exG exS) (stepP exG exS true) (subsetSteps exG exS 0 1)
    ∧ subsetSteps exG exS 0 1 = [(0, 0, 0), (1, 0, 0)] := by
  unfold InjOn StepsDisjoint; decide

/-- the hypothesis of `C04_additive_over_subsets_bck` holds for that data set and 2 subsets -/
example : ((List.range 2).map fun (i : Nat) => (subsetSteps exG exS i 2).flatMap (stepP exG exS false)).flatten.Perm
    ((subsetSteps exG exS 0 1).flatMap (stepP exG exS false)) := by decide

/-- frame: the places of views 0 and 2 are not touched when subset 1 of 2 is projected -/
example : (5 : Nat) ∉ touched exIdx2 (stepZ exG exS) (stepP exG exS true) (subsetSteps exG exS 1 2)
    ∧ (12 : Nat) ∉ touched exIdx2 (stepZ exG exS) (stepP exG exS true) (subsetSteps exG exS 1 2)
    ∧ (6 : Nat) ∈ touched exIdx2 (stepZ exG exS) (stepP exG exS true) (subsetSteps exG exS 1 2) := by decide

/-- a smaller data set inside `exG`: the same 4 views, tangential positions 0..1 only, axial position 1 only; its layout -/
def exG' : PDGeom := ⟨0, 0, 0, 3, 0, 1, 0, 0, fun _ => 1, fun _ => 1⟩
def exS' : Syms := ⟨fun v _ => decide (v < 2), fun v s => [(v, s), (v + 2, s)], fun _ _ _ => relCyl ⟨1, 1, 0, 1⟩⟩
def exIdx2' (b : Bin) : Nat := (b.view * 2 + b.tang).toNat

/-- the hypotheses of `C04_fwd_smaller_data_is_restriction` hold for the whole of `exG` and subset 1 of 2 of the smaller
    `exG'`, and the bin (view 3, axial 1, tangential 1) is processed by both calls (in step (1,0,0) of either) -/
example : InjOn exIdx2' (stepBins (stepZ exG' exS') (stepP exG' exS' false) (subsetSteps exG' exS' 1 2))
    ∧ StepsDisjoint (stepZ exG' exS') (stepP exG' exS' false) (subsetSteps exG' exS' 1 2)
    ∧ (∀ b ∈ stepBins (stepZ exG' exS') (stepP exG' exS' false) (subsetSteps exG' exS' 1 2), exIdx2' b < 8)
    ∧ (1, 0, 0) ∈ subsetSteps exG' exS' 1 2 ∧ (1, 0, 0) ∈ subsetSteps exG exS 0 1
    ∧ (⟨0, 3, 1, 1, 0⟩ : Bin) ∈ stepP exG' exS' false (1, 0, 0) ∧ (⟨0, 3, 1, 1, 0⟩ : Bin) ∈ stepP exG exS true (1, 0, 0) := by
  unfold InjOn StepsDisjoint; decide

/-- the processors: `set_input` with the scaling processor on numbers, a failing processor, `get_output` with a processor -/
example : setInput (some (procScale (3 : Int))) #[1, -2] = some #[3, -6]
    ∧ setInput (some fun _ => none) #[(1 : Int), -2] = none
    ∧ setInput none #[(1 : Int), -2] = some #[1, -2]
    ∧ (BackProj.mk #[(1 : Int), 2]).getOutputPost (some (procScale 2)) = some #[2, 4] := by
  simp [setInput, procScale, BackProj.getOutputPost]

/-! ## one matrix object, several geometries -/

section Matrix
variable {G R : Type} [DecidableEq G]

/-- "For every matched forward/back projector pair … ⟨A x, y⟩ = ⟨x, Aᵀ y⟩ … for the full data set and for every subset …"
    is a statement about the pair *as it is when it is used*, whatever it was used for before.  For the matrix object behind
    the pair: after **any** history `pre` of `set_up`s (base-class or ray-tracing version, for any geometries) and row
    requests, a `set_up` for `g` followed by any row requests `bs` leaves an object whose
    `get_proj_matrix_elems_for_one_bin(bin)` returns the row of `bin` for `g` — in every cache mode.  `K` plays no role
    (`R` is any type of rows' values).  Hypothesis: the symmetries are coherent (the basic bin of a basic bin is itself and
    its operation is the identity — `find_symmetry_operation_from_basic_bin` returns a `TrivialSymmetryOperation`). -/
theorem C04_reused_matrix_gives_rows_of_last_set_up (D : MatrixData G R) (hD : D.Coherent) (cacheEnabled onlyBasic : Bool)
    (pre : List (MOp G)) (rayTracing : Bool) (g : G) (bs : List Bin) (bin : Bin) :
    ((MatrixObj.new cacheEnabled onlyBasic).exec D
        (pre ++ [if rayTracing then MOp.setUpRT g else MOp.setUp g] ++ bs.map MOp.get)).rowNow D bin
      = some (D.rowOf g bin) := by
  rw [MatrixObj.exec_append, MatrixObj.exec_append]
  have h0 := MatrixObj.inv_exec D hD pre _ (MatrixObj.inv_new D cacheEnabled onlyBasic)
  generalize (MatrixObj.new cacheEnabled onlyBasic).exec D pre = m0 at h0
  have h1 : ((m0.exec D [if rayTracing then MOp.setUpRT g else MOp.setUp g]).Inv D)
      ∧ (m0.exec D [if rayTracing then MOp.setUpRT g else MOp.setUp g]).geom = some g := by
    cases rayTracing
    · exact ⟨MatrixObj.inv_setUp D m0 g, rfl⟩
    · exact ⟨MatrixObj.inv_setUpRT D m0 h0 g, MatrixObj.geom_setUpRT m0 g⟩
  generalize m0.exec D [if rayTracing then MOp.setUpRT g else MOp.setUp g] = m1 at h1
  obtain ⟨h2, hg2⟩ := MatrixObj.geom_exec_gets D hD bs m1 g h1.1 h1.2
  obtain ⟨m', hrow, _⟩ := MatrixObj.getRow_spec D hD _ h2 g hg2 bin
  simp [MatrixObj.rowNow, hrow]

/-- … hence **a re-used matrix = a fresh matrix**: the object with the history returns what an object that was constructed
    with the same flags and set up for `g` only returns. -/
theorem C04_reused_matrix_eq_fresh_matrix (D : MatrixData G R) (hD : D.Coherent) (cacheEnabled onlyBasic : Bool)
    (pre : List (MOp G)) (rayTracing : Bool) (g : G) (bs : List Bin) (bin : Bin) :
    ((MatrixObj.new cacheEnabled onlyBasic).exec D
        (pre ++ [if rayTracing then MOp.setUpRT g else MOp.setUp g] ++ bs.map MOp.get)).rowNow D bin
      = ((MatrixObj.new cacheEnabled onlyBasic).exec D [MOp.setUp g]).rowNow D bin := by
  rw [C04_reused_matrix_gives_rows_of_last_set_up D hD]
  have := C04_reused_matrix_gives_rows_of_last_set_up D hD cacheEnabled onlyBasic [] false g [] bin
  simpa using this.symm

/-- the cache is what makes this a property: a `set_up` that keeps the cache (`recycle()` / `clear_cache()` dropped, the
    defect seeded in round 2) returns the row of the *previous* geometry.  Two geometries `0`, `1` whose rows differ, every
    bin basic: -/
def exD : MatrixData Nat Int := ⟨fun g b => [((0, 0, 0), (g : Int) + b.ax)], fun _ b => b, fun _ _ r => r⟩

example : exD.Coherent := ⟨fun _ _ => rfl, fun _ _ _ _ => rfl⟩

def exA : Bin := ⟨0, 0, 5, 0, 0⟩

/-- non-vacuity: the history "set up for 0, request bin a, set up for 1, request bin a" on `exD` — the second request returns
    the row of geometry 1 although the row of geometry 0 was cached, in all four cache modes and with either `set_up`;
    with the ray-tracing shortcut a second `set_up` for the *same* geometry keeps the cached row (still the right one) -/
example (ce ob rt : Bool) :
    ((MatrixObj.new ce ob).exec exD [MOp.setUp 0, MOp.get exA, if rt then MOp.setUpRT 1 else MOp.setUp 1]).rowNow exD exA
        = some [((0, 0, 0), 6)] := by
  cases ce <;> cases ob <;> cases rt <;> decide

example :
    ((MatrixObj.new true true).exec exD [MOp.setUp 0, MOp.get exA] : MatrixObj Nat Int).cache.lookup exA = some [((0, 0, 0), 5)]
    ∧ ((MatrixObj.new true true).exec exD [MOp.setUp 0, MOp.get exA, MOp.setUpRT 0] : MatrixObj Nat Int).cache.lookup exA = some [((0, 0, 0), 5)]
    ∧ ((MatrixObj.new true true).exec exD [MOp.setUp 0, MOp.get exA, MOp.setUp 0] : MatrixObj Nat Int).cache.length = 0 := by
  decide

/-- **negative witness for the seeded defect**: a `set_up` that only replaces the geometry and keeps the cache returns the
    stale row (5 instead of 6) -/
theorem C04_set_up_keeping_the_cache_fails :
    ({ (MatrixObj.new true true).exec exD [MOp.setUp 0, MOp.get exA] with geom := some 1 } : MatrixObj Nat Int).rowNow exD exA
        = some [((0, 0, 0), 5)]
      ∧ exD.rowOf 1 exA = [((0, 0, 0), 6)] := by
  decide

end Matrix

/-- the whole chain evaluated on numbers (`K = ℤ`): one row through two voxels, forward and back -/
example : fwdRow ⟨0, 0, fun v => v.2.2.toNat⟩ [((0, 0, 0), (2 : Int)), ((0, 0, 1), 3), ((5, 0, 1), 7)] #[10, 100] 0 = 320
    ∧ bckRow ⟨0, 0, fun v => v.2.2.toNat⟩ [((0, 0, 0), (2 : Int)), ((0, 0, 1), 3), ((5, 0, 1), 7)] 4 #[1, 1] = #[9, 13] := by
  decide


/-! ### the end points of the ray tracing: the part of the LOR inside the field of view

"The on-the-fly ray-tracing forward projector gives the same data as forward projection through the ray-tracing matrix
with the same settings": both trace the LOR `X = s cos φ + a sin φ`, `Y = s sin φ − a cos φ` between the points where it
enters and leaves the field of view.  For the matrix these are `min_a`, `max_a` of `ray_trace_one_lor`
(`squareEnds`, `squareChord`, `cylChordSq`); the theorems hold for every sign of `cos φ`, `sin φ`, i.e. for every view —
beyond 90 degrees too, where the rows are computed directly only when the view symmetries are off. -/

/-- the point `a` of the LOR lies in the square field of view `|X| ≤ F`, `|Y| ≤ F` -/
def InSquare (fov s c sn a : Rat) : Prop := |s * c + a * sn| ≤ fov ∧ |s * sn - a * c| ≤ fov

/-- the point `a` of the LOR lies in the cylindrical field of view `X² + Y² ≤ F²` -/
def InCylinder (fov s c sn a : Rat) : Prop :=
  (s * c + a * sn) * (s * c + a * sn) + (s * sn - a * c) * (s * sn - a * c) ≤ fov * fov

/-- Square field of view, general case (`ray_trace_one_lor`, :519-521): `[min_a, max_a]` is EXACTLY the set of points of
    the LOR inside the square, whatever the signs of `cos φ` and `sin φ` (all four quadrants of view angles), the size of
    the field of view and the position `s` of the LOR (empty interval = the LOR misses the square). -/
theorem C04_square_fov_ends_are_exact (fov s c sn : Rat) (hc : c ≠ 0) (hs : sn ≠ 0) (a : Rat) :
    ((squareEnds fov s c sn).1 ≤ a ∧ a ≤ (squareEnds fov s c sn).2) ↔ InSquare fov s c sn a :=
  squareEnds_inside_iff fov s c sn a hc hs

/-- Square field of view, the function as a whole away from the multiples of 90 degrees: when it returns end points, the
    points of the LOR between them are exactly those inside the square. -/
theorem C04_square_fov_chord_exact (fov s c sn vx lo hi : Rat) (hgen : ¬(rabs c < milli ∨ rabs sn < milli))
    (h : squareChord fov s c sn vx = some (lo, hi)) (a : Rat) :
    (lo ≤ a ∧ a ≤ hi) ↔ InSquare fov s c sn a := by
  have hc : c ≠ 0 := by
    rintro rfl
    exact hgen (Or.inl (by unfold rabs milli; norm_num))
  have hs : sn ≠ 0 := by
    rintro rfl
    exact hgen (Or.inr (by unfold rabs milli; norm_num))
  unfold squareChord at h
  rw [if_neg hgen] at h
  simp only at h
  split_ifs at h with h1
  have e : squareEnds fov s c sn = (lo, hi) := Option.some.inj h
  have := C04_square_fov_ends_are_exact fov s c sn hc hs a
  rw [e] at this
  exact this

/-- ... and when it returns without end points (`none`: the bin gets no element from this ray), the part of the LOR inside
    the square is shorter than a thousandth of a voxel (`1.E-3 * voxel_size.x()`): empty rows only for LORs that miss the
    field of view or graze a corner. -/
theorem C04_square_fov_none_only_if_shorter_than_a_milli_voxel (fov s c sn vx : Rat)
    (hgen : ¬(rabs c < milli ∨ rabs sn < milli)) (h : squareChord fov s c sn vx = none) (a a' : Rat)
    (ha : InSquare fov s c sn a) (ha' : InSquare fov s c sn a') : a' - a < milli * vx := by
  have hc : c ≠ 0 := by
    rintro rfl
    exact hgen (Or.inl (by unfold rabs milli; norm_num))
  have hs : sn ≠ 0 := by
    rintro rfl
    exact hgen (Or.inr (by unfold rabs milli; norm_num))
  unfold squareChord at h
  rw [if_neg hgen] at h
  simp only at h
  split_ifs at h with h1
  have h2 := (C04_square_fov_ends_are_exact fov s c sn hc hs a).mpr ha
  have h3 := (C04_square_fov_ends_are_exact fov s c sn hc hs a').mpr ha'
  linarith [h2.1, h3.2]

/-- Square field of view, views at a multiple of 90 degrees exactly (`sin φ = 0`, `cos φ = ±1`; the code takes this branch
    for `|sin φ| < 1.E-3`): end points `∓F` iff `|s| ≤ F`, and then the points between them are exactly those inside. -/
theorem C04_square_fov_axis_parallel (fov s c vx : Rat) (hc : c * c = 1) :
    (squareChord fov s c 0 vx = none ↔ fov < |s|) ∧
      (squareChord fov s c 0 vx ≠ none → squareChord fov s c 0 vx = some (-fov, fov) ∧
        ∀ a, (-fov ≤ a ∧ a ≤ fov) ↔ InSquare fov s c 0 a) := by
  have hnear : rabs c < milli ∨ rabs (0 : Rat) < milli := Or.inr (by unfold rabs milli; norm_num)
  have habs : |c| = 1 := by
    have : |c| * |c| = 1 := by rw [← abs_mul, hc, abs_one]
    nlinarith [abs_nonneg c]
  unfold squareChord
  rw [if_pos hnear, rabs_eq_abs]
  constructor
  · split_ifs with h
    · exact ⟨fun _ => h, fun _ => rfl⟩
    · exact ⟨fun e => (by cases e), fun e => absurd e h⟩
  · split_ifs with h
    · intro e; exact absurd rfl e
    · intro _
      refine ⟨rfl, fun a => ?_⟩
      unfold InSquare
      have e1 : |s * c + a * 0| = |s| := by rw [mul_zero, add_zero, abs_mul, habs, mul_one]
      have e2 : |s * 0 - a * c| = |a| := by rw [mul_zero, zero_sub, abs_neg, abs_mul, habs, mul_one]
      rw [e1, e2]
      constructor
      · intro h2; exact ⟨not_lt.mp h, abs_le.mpr h2⟩
      · intro h2; exact abs_le.mp h2.2

/-- Cylindrical field of view (:481-500), `cos²φ + sin²φ = 1`: the code returns without end points exactly when no point
    of the LOR is inside (`|s| > F`), otherwise `max_a² = F² − s²` and the points with `a² ≤ max_a²` (`−max_a ≤ a ≤ max_a`)
    are exactly those inside — for every view angle. -/
theorem C04_cylindrical_fov_chord_exact (fov s c sn : Rat) (hfov : 0 ≤ fov) (h1 : c * c + sn * sn = 1) :
    (cylChordSq fov s = none → ∀ a, ¬InCylinder fov s c sn a) ∧
      (∀ m, cylChordSq fov s = some m → ∀ a, a * a ≤ m ↔ InCylinder fov s c sn a) := by
  unfold cylChordSq InCylinder
  rw [rabs_eq_abs]
  constructor
  · intro h a
    split_ifs at h with h2
    rw [lor_radius_sq s c sn a h1]
    have : fov * fov < s * s := by
      have h3 : fov * fov < |s| * |s| := by nlinarith [abs_nonneg s]
      rwa [abs_mul_abs_self] at h3
    nlinarith [mul_self_nonneg a]
  · intro m h a
    split_ifs at h with h2
    have e : fov * fov - s * s = m := Option.some.inj h
    rw [lor_radius_sq s c sn a h1, ← e]
    constructor <;> intro h3 <;> linarith

/-- non-vacuity, a view beyond 90 degrees (`cos φ = −3/5 < 0 < sin φ = 4/5`, field of view 3, `s = 1`): the LOR crosses the
    square between `a = −3` and `a = 11/3`; with `s = 5` it misses it; a view at 90 degrees; the cylinder -/
example : squareChord 3 1 (-3/5) (4/5) 1 = some (-3, 11/3) := by
  unfold squareChord squareEnds sgn rabs milli; norm_num
example : squareChord 3 5 (-3/5) (4/5) 1 = none := by
  unfold squareChord squareEnds sgn rabs milli; norm_num
example : InSquare 3 1 (-3/5) (4/5) 2 ∧ ¬InSquare 3 1 (-3/5) (4/5) 4 := by
  unfold InSquare; norm_num [abs_le]
example : squareChord 3 1 (-1) 0 1 = some (-3, 3) ∧ squareChord 3 4 (-1) 0 1 = none := by
  unfold squareChord rabs milli; norm_num
example : cylChordSq 3 1 = some 8 ∧ cylChordSq 3 4 = none := by
  unfold cylChordSq rabs; norm_num
example : ¬(rabs (-3/5 : Rat) < milli ∨ rabs (4/5 : Rat) < milli) := by
  unfold rabs milli; norm_num

end StirVerif.C04
