import StirVerif.C04.Model
namespace StirVerif.C04
end StirVerif.C04
