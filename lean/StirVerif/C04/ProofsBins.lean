/-
C04 — helper lemmas, part 2: forward / back projection of a sequence of bins (`fwdBins`, `bckBins`):
frame and value of the forward projection, closed form of the back projection, adjointness, permutations.
-/
import StirVerif.C04.ProofsRow
import Mathlib.Data.List.Perm.Basic

set_option linter.unusedSectionVars false
set_option linter.unusedSimpArgs false

namespace StirVerif.C04

variable {K : Type} [CommRing K] [DecidableEq K]
variable (rows : Bin → Row K) (ig : ImgGeom) (idx : Bin → Nat)

/-- the storage layout does not map two different bins of the list to the same place -/
def InjOn (idx : Bin → Nat) (bins : List Bin) : Prop := ∀ b ∈ bins, ∀ b' ∈ bins, idx b = idx b' → b = b'

theorem InjOn.tail {idx : Bin → Nat} {a : Bin} {l : List Bin} (h : InjOn idx (a :: l)) : InjOn idx l :=
  fun b hb b' hb' e => h b (List.mem_cons_of_mem _ hb) b' (List.mem_cons_of_mem _ hb') e

theorem InjOn.sublist {idx : Bin → Nat} {l l' : List Bin} (h : InjOn idx l) (hs : ∀ b ∈ l', b ∈ l) : InjOn idx l' :=
  fun b hb b' hb' e => h b (hs b hb) b' (hs b' hb') e

/-! ### forward -/

theorem fwdBins_nil (img d : Array K) : fwdBins rows ig idx img [] d = d := rfl

theorem fwdBins_cons (img d : Array K) (a : Bin) (l : List Bin) :
    fwdBins rows ig idx img (a :: l) d = fwdBins rows ig idx img l (d.setIfInBounds (idx a) (fwdRow ig (rows a) img 0)) := rfl

theorem fwdBins_append (img d : Array K) (l l' : List Bin) :
    fwdBins rows ig idx img (l ++ l') d = fwdBins rows ig idx img l' (fwdBins rows ig idx img l d) := by
  simp [fwdBins, List.foldl_append]

theorem size_fwdBins (img d : Array K) (bins : List Bin) : (fwdBins rows ig idx img bins d).size = d.size := by
  induction bins generalizing d with
  | nil => rfl
  | cons a l ih => rw [fwdBins_cons, ih]; simp

/-- frame: a place that is not the place of a processed bin keeps its value -/
theorem getD_fwdBins_not_mem (img d : Array K) (bins : List Bin) (j : Nat) (hj : j ∉ bins.map idx) :
    (fwdBins rows ig idx img bins d).getD j 0 = d.getD j 0 := by
  induction bins generalizing d with
  | nil => rfl
  | cons a l ih =>
    rw [fwdBins_cons, ih _ (fun h => hj (by simp only [List.map_cons, List.mem_cons]; exact Or.inr h)), getD_setIfInBounds]
    have : idx a ≠ j := fun h => hj (by simp [h])
    simp [this]

/-- value: the place of a processed bin holds the forward projection of its row -/
theorem getD_fwdBins_mem (img d : Array K) (bins : List Bin) (hinj : InjOn idx bins) (b : Bin) (hb : b ∈ bins)
    (hsz : idx b < d.size) :
    (fwdBins rows ig idx img bins d).getD (idx b) 0 = fwdRow ig (rows b) img 0 := by
  induction bins generalizing d with
  | nil => cases hb
  | cons a l ih =>
    rw [fwdBins_cons]
    by_cases hbl : b ∈ l
    · exact ih _ hinj.tail hbl (by simpa using hsz)
    · have hba : b = a := by
        rcases List.mem_cons.mp hb with h | h
        · exact h
        · exact absurd h hbl
      subst hba
      have hnot : idx b ∉ l.map idx := by
        intro hm
        rcases List.mem_map.mp hm with ⟨b', hb', e⟩
        have : b = b' := hinj b (List.mem_cons_self) b' (List.mem_cons_of_mem _ hb') e.symm
        exact hbl (this ▸ hb')
      rw [getD_fwdBins_not_mem _ _ _ _ _ _ _ hnot, getD_setIfInBounds]
      simp [hsz]

/-! ### zeroing (`get_empty_related_viewgrams` written back) -/

theorem zeroBins_cons (d : Array K) (a : Bin) (l : List Bin) :
    zeroBins idx (a :: l) d = zeroBins idx l (d.setIfInBounds (idx a) 0) := rfl

theorem size_zeroBins (d : Array K) (bins : List Bin) : (zeroBins idx bins d).size = d.size := by
  induction bins generalizing d with
  | nil => rfl
  | cons a l ih => rw [zeroBins_cons, ih]; simp

theorem getD_zeroBins_not_mem (d : Array K) (bins : List Bin) (j : Nat) (hj : j ∉ bins.map idx) :
    (zeroBins idx bins d).getD j 0 = d.getD j 0 := by
  induction bins generalizing d with
  | nil => rfl
  | cons a l ih =>
    rw [zeroBins_cons, ih _ (fun h => hj (by simp only [List.map_cons, List.mem_cons]; exact Or.inr h)), getD_setIfInBounds]
    have : idx a ≠ j := fun h => hj (by simp [h])
    simp [this]

theorem getD_zeroBins_mem (d : Array K) (bins : List Bin) (j : Nat) (hj : j ∈ bins.map idx) :
    (zeroBins idx bins d).getD j 0 = 0 := by
  induction bins generalizing d with
  | nil => cases hj
  | cons a l ih =>
    rw [zeroBins_cons]
    by_cases hl : j ∈ l.map idx
    · exact ih _ hl
    · rw [getD_zeroBins_not_mem _ _ _ _ hl, getD_setIfInBounds]
      have hja : idx a = j := by
        simp only [List.map_cons, List.mem_cons] at hj
        rcases hj with h | h
        · exact h.symm
        · exact absurd h hl
      by_cases hs : j < d.size
      · simp [hja, hs]
      · simp [hja, hs, getD_of_ge d (Nat.not_lt.mp hs)]

/-! ### back -/

theorem bckBins_nil (y im : Array K) : bckBins rows ig idx y [] im = im := rfl

theorem bckBins_cons (y im : Array K) (a : Bin) (l : List Bin) :
    bckBins rows ig idx y (a :: l) im = bckBins rows ig idx y l (bckRow ig (rows a) (y.getD (idx a) 0) im) := rfl

theorem bckBins_append (y im : Array K) (l l' : List Bin) :
    bckBins rows ig idx y (l ++ l') im = bckBins rows ig idx y l' (bckBins rows ig idx y l im) := by
  simp [bckBins, List.foldl_append]

theorem size_bckBins (y im : Array K) (bins : List Bin) : (bckBins rows ig idx y bins im).size = im.size := by
  induction bins generalizing im with
  | nil => rfl
  | cons a l ih => rw [bckBins_cons, ih, size_bckRow]

/-- contribution of the bins of a list to voxel `i`: `Σ_b column_b(i) · y_b` -/
def bckSum (y : Array K) (bins : List Bin) (i : Nat) : K :=
  (bins.map fun b => colTerms (rowTerms ig (rows b)) i * y.getD (idx b) 0).sum

/-- closed form of the back projection of a sequence of bins: what was there, plus the contributions -/
theorem getD_bckBins (y im : Array K) (bins : List Bin) (i : Nat) (hi : i < im.size) :
    (bckBins rows ig idx y bins im).getD i 0 = im.getD i 0 + bckSum rows ig idx y bins i := by
  induction bins generalizing im with
  | nil => simp [bckBins_nil, bckSum]
  | cons a l ih =>
    rw [bckBins_cons, ih _ (by rw [size_bckRow]; exact hi), getD_bckRow _ _ _ _ _ hi]
    simp only [bckSum, List.map_cons, List.sum_cons]; ring

theorem bckSum_append (y : Array K) (l l' : List Bin) (i : Nat) :
    bckSum rows ig idx y (l ++ l') i = bckSum rows ig idx y l i + bckSum rows ig idx y l' i := by
  simp [bckSum, List.sum_append]

theorem bckSum_perm (y : Array K) {l l' : List Bin} (h : l.Perm l') (i : Nat) :
    bckSum rows ig idx y l i = bckSum rows ig idx y l' i :=
  (h.map _).sum_eq

theorem bckSum_axpy (c : K) (y y' : Array K) (h : y.size = y'.size) (bins : List Bin) (i : Nat) :
    bckSum rows ig idx (axpy c y y') bins i = c * bckSum rows ig idx y bins i + bckSum rows ig idx y' bins i := by
  induction bins with
  | nil => simp [bckSum]
  | cons a l ih =>
    simp only [bckSum, List.map_cons, List.sum_cons] at ih ⊢
    rw [ih, getD_axpy c y y' h]; ring

/-! ### inner products -/

theorem dotBins_eq (u v : Array K) (bins : List Bin) :
    dotBins idx u v bins = (bins.map fun b => u.getD (idx b) 0 * v.getD (idx b) 0).sum := by
  unfold dotBins
  have : ∀ (a : K), bins.foldl (fun s b => s + u.getD (idx b) 0 * v.getD (idx b) 0) a
      = a + (bins.map fun b => u.getD (idx b) 0 * v.getD (idx b) 0).sum := by
    induction bins with
    | nil => intro a; simp
    | cons b l ih => intro a; rw [List.foldl_cons, ih]; simp [add_assoc]
  rw [this]; simp

theorem sum_map_mul_const {β : Type} (l : List β) (h : β → K) (c : K) : (l.map fun i => h i * c).sum = (l.map h).sum * c := by
  induction l with
  | nil => simp
  | cons a l ih => simp [ih, add_mul]

theorem sum_swap {β : Type} (n : Nat) (f : Nat → K) (bins : List β) (g : β → Nat → K) :
    ((List.range n).map fun i => f i * (bins.map fun b => g b i).sum).sum
      = (bins.map fun b => ((List.range n).map fun i => f i * g b i).sum).sum := by
  induction bins with
  | nil => simp
  | cons b l ih =>
    simp only [List.map_cons, List.sum_cons, mul_add]
    rw [List.sum_map_add, ih]

/-- **adjointness for any finite sequence of bins** (any rows): `⟨A x, y⟩ = ⟨x, Aᵀ y⟩` -/
theorem adjoint_bins (x y d : Array K) (bins : List Bin) (hinj : InjOn idx bins) (hsz : ∀ b ∈ bins, idx b < d.size) :
    dotBins idx (fwdBins rows ig idx x bins d) y bins
      = dotImg x (bckBins rows ig idx y bins (zeroImg x.size)) := by
  rw [dotBins_eq, dotImg_eq]
  have hL : (bins.map fun b => (fwdBins rows ig idx x bins d).getD (idx b) 0 * y.getD (idx b) 0)
      = bins.map fun b => dotTerms (rowTerms ig (rows b)) x * y.getD (idx b) 0 := by
    apply List.map_congr_left
    intro b hb
    rw [getD_fwdBins_mem rows ig idx x d bins hinj b hb (hsz b hb), fwdRow_eq]; simp
  have hR : ((List.range x.size).map fun i => x.getD i 0 * (bckBins rows ig idx y bins (zeroImg x.size)).getD i 0)
      = (List.range x.size).map fun i => x.getD i 0 * (bins.map fun b => colTerms (rowTerms ig (rows b)) i * y.getD (idx b) 0).sum := by
    apply List.map_congr_left
    intro i hi
    rw [getD_bckBins rows ig idx y _ bins i (by rw [size_zeroImg]; exact List.mem_range.mp hi), getD_zeroImg]
    simp [bckSum]
  rw [hL, hR, sum_swap]
  congr 1
  apply List.map_congr_left
  intro b _
  rw [← sum_range_colTerms (rowTerms ig (rows b)) x, ← sum_map_mul_const]
  congr 1
  apply List.map_congr_left
  intro i _
  ring

end StirVerif.C04
