/-
C01 — proofs (part: ring pairs ↔ (segment, axial position)).  Statements are fixed; re-exported by `Props.lean`.
-/
import StirVerif.C01.Model

namespace StirVerif.C01

/-- the arithmetic condition under which the axial position of a single-ring-difference segment is exact
    (otherwise the source only prints "LORs shifted with respect to the physical rings") -/
def Seg.Exact (s : Seg) (off : Int) : Prop := s.minRD = s.maxRD → (s.minRD - off) % 2 = 0

/-- **one segment**: the ring pairs listed for axial position `a` are exactly the ring pairs of the scanner
    whose ring difference lies in the segment and whose computed axial position is `a` -/
theorem Seg.mem_ringPairsOf_iff (R : Int) (s : Seg) (off a : Int) (hle : s.minRD ≤ s.maxRD) (hex : s.Exact off)
    (r1 r2 : Int) :
    (r1, r2) ∈ s.ringPairsOf R off a ↔
      (0 ≤ r1 ∧ r1 < R ∧ 0 ≤ r2 ∧ r2 < R ∧ s.minRD ≤ r2 - r1 ∧ r2 - r1 ≤ s.maxRD ∧ s.axOf off r1 r2 = a) := by
  sorry

/-- no ring pair is listed twice -/
theorem Seg.ringPairsOf_nodup (R : Int) (s : Seg) (off a : Int) : (s.ringPairsOf R off a).Nodup := by
  sorry

/-- decidable well-formedness of a geometry's segment table: ranges are non-empty and pairwise disjoint,
    offsets are integers, single-ring-difference segments are exact, and every ring pair of a covered ring
    difference gets an axial position inside the segment's range -/
def Geom.WFb (g : Geom) : Bool :=
  g.segs.all (fun s => decide (s.minRD ≤ s.maxRD)) &&
  (List.range g.segs.length).all (fun i => (List.range g.segs.length).all fun j =>
    i == j || (match g.segs[i]?, g.segs[j]? with
      | some a, some b => decide (a.maxRD < b.minRD ∨ b.maxRD < a.minRD)
      | _, _ => true)) &&
  g.segs.all (fun s => match s.axOff g.R with
    | none => false
    | some off =>
      (s.minRD != s.maxRD || (s.minRD - off) % 2 == 0) &&
      (List.range g.R.toNat).all fun r1 => (List.range g.R.toNat).all fun r2 =>
        let rd := (r2 : Int) - (r1 : Int)
        !(s.minRD ≤ rd && rd ≤ s.maxRD) || (0 ≤ s.axOf off r1 r2 && s.axOf off r1 r2 < s.numAx))

/-- **whole table**: for a well-formed geometry, a ring pair of the scanner is assigned to `(s, a)` iff it is
    listed for `(s, a)`; in particular every ring pair with a covered ring difference lies in exactly one
    `(segment, axial position)`, and that axial position is inside the segment's range. -/
theorem Geom.ringpair_partition (g : Geom) (h : g.WFb = true) (r1 r2 : Int)
    (h1 : 0 ≤ r1 ∧ r1 < g.R) (h2 : 0 ≤ r2 ∧ r2 < g.R) (s a : Int) :
    g.segAxOfRingPair r1 r2 = some (s, a) ↔ (r1, r2) ∈ g.ringPairsOf s a := by
  sorry

/-- covered ring difference ⇒ assigned, with the axial position in range -/
theorem Geom.covered_assigned (g : Geom) (h : g.WFb = true) (r1 r2 : Int)
    (h1 : 0 ≤ r1 ∧ r1 < g.R) (h2 : 0 ≤ r2 ∧ r2 < g.R)
    (hc : ∃ sg ∈ g.segs, sg.minRD ≤ r2 - r1 ∧ r2 - r1 ≤ sg.maxRD) :
    ∃ s a sg, g.segAxOfRingPair r1 r2 = some (s, a) ∧ g.seg? s = some sg ∧ 0 ≤ a ∧ a < sg.numAx := by
  sorry

end StirVerif.C01
