/-
C01 — proofs (part: ring pairs ↔ (segment, axial position)).  Statements are fixed; re-exported by `Props.lean`.
-/
import StirVerif.C01.Model

namespace StirVerif.C01


/-! ### C division / remainder by 2, in a form `omega` can use -/

theorem tdiv2_spec (x : Int) :
    (0 ≤ x → x.tdiv 2 = x / 2) ∧ (x < 0 → x.tdiv 2 = -((-x) / 2)) := by
  constructor
  · intro h
    exact Int.tdiv_eq_ediv_of_nonneg h
  · intro h
    have h' : x = -(-x) := by omega
    rw [h', Int.neg_tdiv, Int.tdiv_eq_ediv_of_nonneg (by omega)]
    simp

theorem tmod2_spec (x : Int) : x.tmod 2 = x - 2 * x.tdiv 2 := Int.tmod_def x 2

/-- the stepping loop, for an arbitrary ring sum -/
theorem Seg.mem_loop_iff (R : Int) (s : Seg) (off a : Int) (r1 r2 : Int) :
    (r1, r2) ∈ s.ringPairsOf R off a ↔
      (0 ≤ r1 ∧ r1 < R ∧ 0 ≤ r2 ∧ r2 < R ∧ s.minRD ≤ r2 - r1 ∧ r2 - r1 ≤ s.maxRD ∧
        r1 + r2 = s.ringSum off a) := by
  unfold Seg.ringPairsOf
  generalize s.ringSum off a = sum
  simp only [List.mem_filterMap, List.mem_range]
  have hm := tmod2_spec (s.minRD + sum)
  have hq := tdiv2_spec (s.minRD + sum)
  generalize (s.minRD + sum).tmod 2 = m at *
  generalize (s.minRD + sum).tdiv 2 = q at *
  constructor
  · rintro ⟨k, hk, h⟩
    split at h
    · exact absurd h (by simp)
    · rename_i hn
      simp only [Option.some.injEq, Prod.mk.injEq] at h
      have hx := tdiv2_spec (sum - (s.minRD + m + 2 * (k : Int)))
      have hy := tdiv2_spec (sum + (s.minRD + m + 2 * (k : Int)))
      obtain ⟨h1, h2⟩ := h
      rw [h1, h2] at hn
      rw [h1] at hx
      rw [h2] at hy
      split at hk
      · omega
      · omega
  · rintro ⟨h1, h2, h3, h4, h5, h6, h7⟩
    refine ⟨((r2 - r1 - (s.minRD + m)) / 2).toNat, ?_, ?_⟩
    · split
      · omega
      · omega
    · have hk : (((r2 - r1 - (s.minRD + m)) / 2).toNat : Int) = (r2 - r1 - (s.minRD + m)) / 2 := by omega
      rw [hk]
      have e1 : sum - (s.minRD + m + 2 * ((r2 - r1 - (s.minRD + m)) / 2)) = 2 * r1 := by omega
      have e2 : sum + (s.minRD + m + 2 * ((r2 - r1 - (s.minRD + m)) / 2)) = 2 * r2 := by omega
      rw [e1, e2]
      have hx := tdiv2_spec (2 * r1)
      have hy := tdiv2_spec (2 * r2)
      have e3 : (2 * r1).tdiv 2 = r1 := by omega
      have e4 : (2 * r2).tdiv 2 = r2 := by omega
      rw [e3, e4, if_neg (by omega)]

/-- **one segment**: the ring pairs listed for axial position `a` are exactly the ring pairs of the scanner
    whose ring difference lies in the segment and whose computed axial position is `a` -/
theorem Seg.mem_ringPairsOf_iff (R : Int) (s : Seg) (off a : Int) (hle : s.minRD ≤ s.maxRD) (hex : s.Exact off)
    (r1 r2 : Int) :
    (r1, r2) ∈ s.ringPairsOf R off a ↔
      (0 ≤ r1 ∧ r1 < R ∧ 0 ≤ r2 ∧ r2 < R ∧ s.minRD ≤ r2 - r1 ∧ r2 - r1 ≤ s.maxRD ∧ s.axOf off r1 r2 = a) := by
  have _ := hle
  rw [Seg.mem_loop_iff]
  unfold Seg.axOf Seg.ringSum Seg.inc
  unfold Seg.Exact at hex
  by_cases hne : s.maxRD = s.minRD
  · simp only [hne, bne_self_eq_false, Bool.false_eq_true, if_false, Int.tdiv_one, Int.mul_one]
    have hx := tdiv2_spec (r1 + r2 - off)
    constructor
    · rintro ⟨h1, h2, h3, h4, h5, h6, h7⟩
      refine ⟨h1, h2, h3, h4, h5, h6, ?_⟩
      omega
    · rintro ⟨h1, h2, h3, h4, h5, h6, h7⟩
      refine ⟨h1, h2, h3, h4, h5, h6, ?_⟩
      have := hex hne.symm
      omega
  · have hb : (s.maxRD != s.minRD) = true := by simpa using hne
    simp only [hb, if_true]
    have hx := tdiv2_spec ((r1 + r2 - off) * 2)
    have hy := tdiv2_spec (2 * a)
    constructor
    · rintro ⟨h1, h2, h3, h4, h5, h6, h7⟩
      refine ⟨h1, h2, h3, h4, h5, h6, ?_⟩
      omega
    · rintro ⟨h1, h2, h3, h4, h5, h6, h7⟩
      refine ⟨h1, h2, h3, h4, h5, h6, ?_⟩
      omega

/-- no ring pair is listed twice -/
theorem Seg.ringPairsOf_nodup (R : Int) (s : Seg) (off a : Int) : (s.ringPairsOf R off a).Nodup := by
  unfold Seg.ringPairsOf
  generalize s.ringSum off a = sum
  dsimp only
  have hm := tmod2_spec (s.minRD + sum)
  have hq := tdiv2_spec (s.minRD + sum)
  generalize (s.minRD + sum).tmod 2 = m at *
  generalize (s.minRD + sum).tdiv 2 = q at *
  unfold List.Nodup
  rw [List.pairwise_filterMap]
  refine List.Pairwise.imp ?_ List.nodup_range
  intro k k' hkk b hb b' hb' hbb
  subst hbb
  split at hb
  · exact absurd hb (by simp)
  split at hb'
  · exact absurd hb' (by simp)
  simp only [Option.some.injEq] at hb hb'
  rw [← hb'] at hb
  simp only [Prod.mk.injEq] at hb
  have hx := tdiv2_spec (sum - (s.minRD + m + 2 * (k : Int)))
  have hx' := tdiv2_spec (sum - (s.minRD + m + 2 * (k' : Int)))
  omega



/-- `WFp` as propositions -/
theorem Geom.WFp_spec (g : Geom) (h : g.WFp = true) :
    (∀ s ∈ g.segs, s.minRD ≤ s.maxRD) ∧
    (∀ (i j : Nat) (hi : i < g.segs.length) (hj : j < g.segs.length), i ≠ j →
      g.segs[i].maxRD < g.segs[j].minRD ∨ g.segs[j].maxRD < g.segs[i].minRD) ∧
    (∀ s ∈ g.segs, ∃ off, s.axOff g.R = some off ∧ s.Exact off) ∧
    (∀ first last, g.segs.head? = some first → g.segs.getLast? = some last →
      ∀ s ∈ g.segs, first.minRD ≤ s.minRD ∧ s.maxRD ≤ last.maxRD) := by
  unfold Geom.WFp at h
  simp only [Bool.and_eq_true] at h
  obtain ⟨⟨⟨hA, hB⟩, hC⟩, hD⟩ := h
  refine ⟨?_, ?_, ?_, ?_⟩
  · intro s hs
    have := List.all_eq_true.mp hA s hs
    simpa using this
  · intro i j hi hj hij
    have := List.all_eq_true.mp (List.all_eq_true.mp hB i (List.mem_range.mpr hi)) j (List.mem_range.mpr hj)
    rw [List.getElem?_eq_getElem hi, List.getElem?_eq_getElem hj] at this
    simpa [hij] using this
  · intro s hs
    have hs' := List.all_eq_true.mp hC s hs
    cases hoff : s.axOff g.R with
    | none => rw [hoff] at hs'; exact absurd hs' (by simp)
    | some off =>
      rw [hoff] at hs'
      refine ⟨off, rfl, ?_⟩
      intro he
      simp only [Bool.or_eq_true, bne_iff_ne, ne_eq, beq_iff_eq] at hs'
      rcases hs' with hE | hE
      · exact absurd he hE
      · exact hE
  · intro first last hf hl s hs
    rw [hf, hl] at hD
    have := List.all_eq_true.mp hD s hs
    simpa using this

/-- `WFb` as propositions -/
theorem Geom.WFb_spec (g : Geom) (h : g.WFb = true) :
    (∀ s ∈ g.segs, s.minRD ≤ s.maxRD) ∧
    (∀ (i j : Nat) (hi : i < g.segs.length) (hj : j < g.segs.length), i ≠ j →
      g.segs[i].maxRD < g.segs[j].minRD ∨ g.segs[j].maxRD < g.segs[i].minRD) ∧
    (∀ s ∈ g.segs, ∃ off, s.axOff g.R = some off ∧ s.Exact off ∧
      ∀ r1 r2 : Int, 0 ≤ r1 → r1 < g.R → 0 ≤ r2 → r2 < g.R → s.minRD ≤ r2 - r1 → r2 - r1 ≤ s.maxRD →
        0 ≤ s.axOf off r1 r2 ∧ s.axOf off r1 r2 < s.numAx) ∧
    (∀ first last, g.segs.head? = some first → g.segs.getLast? = some last →
      ∀ s ∈ g.segs, first.minRD ≤ s.minRD ∧ s.maxRD ≤ last.maxRD) := by
  unfold Geom.WFb at h
  simp only [Bool.and_eq_true] at h
  obtain ⟨⟨⟨hA, hB⟩, hC⟩, hD⟩ := h
  refine ⟨?_, ?_, ?_, ?_⟩
  · intro s hs
    have := List.all_eq_true.mp hA s hs
    simpa using this
  · intro i j hi hj hij
    have := List.all_eq_true.mp (List.all_eq_true.mp hB i (List.mem_range.mpr hi)) j (List.mem_range.mpr hj)
    rw [List.getElem?_eq_getElem hi, List.getElem?_eq_getElem hj] at this
    simpa [hij] using this
  · intro s hs
    have hs' := List.all_eq_true.mp hC s hs
    cases hoff : s.axOff g.R with
    | none => rw [hoff] at hs'; exact absurd hs' (by simp)
    | some off =>
      rw [hoff] at hs'
      simp only [Bool.and_eq_true] at hs'
      obtain ⟨hE, hF⟩ := hs'
      refine ⟨off, rfl, ?_, ?_⟩
      · intro he
        simp only [Bool.or_eq_true, bne_iff_ne, ne_eq, beq_iff_eq] at hE
        rcases hE with hE | hE
        · exact absurd he hE
        · exact hE
      · intro r1 r2 h1 h1' h2 h2' h3 h4
        have := List.all_eq_true.mp (List.all_eq_true.mp hF r1.toNat (List.mem_range.mpr (by omega)))
          r2.toNat (List.mem_range.mpr (by omega))
        have e1 : (r1.toNat : Int) = r1 := by omega
        have e2 : (r2.toNat : Int) = r2 := by omega
        simp only [e1, e2] at this
        simpa [h3, h4] using this
  · intro first last hf hl s hs
    rw [hf, hl] at hD
    have := List.all_eq_true.mp hD s hs
    simpa using this

/-- the ring-pair part of the well-formedness is contained in `WFb` -/
theorem Geom.WFp_of_WFb (g : Geom) (h : g.WFb = true) : g.WFp = true := by
  unfold Geom.WFb at h
  unfold Geom.WFp
  simp only [Bool.and_eq_true] at h ⊢
  obtain ⟨⟨⟨hA, hB⟩, hC⟩, hD⟩ := h
  refine ⟨⟨⟨hA, hB⟩, ?_⟩, hD⟩
  rw [List.all_eq_true] at hC ⊢
  intro s hs
  have := hC s hs
  cases hoff : s.axOff g.R with
  | none => rw [hoff] at this; exact absurd this (by simp)
  | some off =>
    rw [hoff] at this
    simp only [Bool.and_eq_true] at this
    exact this.1


/-- `seg?` is indexing of `segs` shifted by `minSeg` -/
theorem Geom.seg?_eq_some (g : Geom) (s : Int) (sg : Seg) :
    g.seg? s = some sg ↔ ∃ k : Nat, ∃ hk : k < g.segs.length, s = g.minSeg + k ∧ g.segs[k] = sg := by
  unfold Geom.seg?
  constructor
  · intro h
    split at h
    · exact absurd h (by simp)
    · rw [List.getElem?_eq_some_iff] at h
      obtain ⟨hk, he⟩ := h
      exact ⟨(s - g.minSeg).toNat, hk, by omega, he⟩
  · rintro ⟨k, hk, rfl, he⟩
    rw [if_neg (by omega)]
    have : (g.minSeg + (k : Int) - g.minSeg).toNat = k := by omega
    rw [this, List.getElem?_eq_getElem hk, he]

/-- for a well-formed table `segOfRingDiff` finds the (unique) segment whose range contains `rd` -/
theorem Geom.segOfRingDiff_eq_some_p (g : Geom) (h : g.WFp = true) (rd s : Int) :
    g.segOfRingDiff rd = some s ↔ ∃ sg, g.seg? s = some sg ∧ sg.minRD ≤ rd ∧ rd ≤ sg.maxRD := by
  obtain ⟨_, hdisj, _, hord⟩ := g.WFp_spec h
  constructor
  · intro hs
    unfold Geom.segOfRingDiff at hs
    split at hs
    · split at hs
      · exact absurd hs (by simp)
      · rw [Option.map_eq_some_iff] at hs
        obtain ⟨k', hk, rfl⟩ := hs
        simp only [Option.bind_eq_bind, Option.pure_def, Option.bind_eq_some_iff, Option.some.injEq] at hk
        obtain ⟨k, hk, rfl⟩ := hk
        rw [List.findIdx?_eq_some_iff_getElem] at hk
        obtain ⟨hk, hp, _⟩ := hk
        refine ⟨g.segs[k], (g.seg?_eq_some _ _).mpr ⟨k, hk, rfl, rfl⟩, ?_⟩
        simpa using hp
    · exact absurd hs (by simp)
  · rintro ⟨sg, hsg, h1, h2⟩
    obtain ⟨k, hk, rfl, he⟩ := (g.seg?_eq_some _ _).mp hsg
    have hne : g.segs ≠ [] := by
      intro h0; rw [h0] at hk; exact absurd hk (by simp)
    have hmem : sg ∈ g.segs := he ▸ List.getElem_mem hk
    unfold Geom.segOfRingDiff
    rw [List.getLast?_eq_some_getLast hne, List.head?_eq_some_head hne]
    have ho := hord _ _ (List.head?_eq_some_head hne) (List.getLast?_eq_some_getLast hne) sg hmem
    simp only []
    rw [if_neg (by omega), Option.map_eq_some_iff]
    refine ⟨(k : Int), ?_, rfl⟩
    simp only [Option.bind_eq_bind, Option.pure_def, Option.bind_eq_some_iff, Option.some.injEq]
    refine ⟨k, ?_, rfl⟩
    rw [List.findIdx?_eq_some_iff_getElem]
    refine ⟨hk, ?_, ?_⟩
    · rw [he]; simpa using ⟨h1, h2⟩
    · intro j hj
      have := hdisj j k (by omega) hk (by omega)
      rw [he] at this
      simp only [Bool.and_eq_true, decide_eq_true_eq, not_and]
      omega

theorem Geom.segOfRingDiff_eq_some (g : Geom) (h : g.WFb = true) (rd s : Int) :
    g.segOfRingDiff rd = some s ↔ ∃ sg, g.seg? s = some sg ∧ sg.minRD ≤ rd ∧ rd ≤ sg.maxRD :=
  g.segOfRingDiff_eq_some_p (g.WFp_of_WFb h) rd s

/-- **whole table** (hypothesis `WFp`: also for a sampling whose axial ranges were shortened): a ring pair of the
    scanner is assigned to `(s, a)` iff it is listed for `(s, a)`; in particular every ring pair with a covered ring
    difference lies in exactly one `(segment, axial position)`. -/
theorem Geom.ringpair_partition_p (g : Geom) (h : g.WFp = true) (r1 r2 : Int)
    (h1 : 0 ≤ r1 ∧ r1 < g.R) (h2 : 0 ≤ r2 ∧ r2 < g.R) (s a : Int) :
    g.segAxOfRingPair r1 r2 = some (s, a) ↔ (r1, r2) ∈ g.ringPairsOf s a := by
  obtain ⟨hle, _, hax, _⟩ := g.WFp_spec h
  unfold Geom.segAxOfRingPair Geom.ringPairsOf
  simp only [Option.bind_eq_bind, Option.pure_def, Option.bind_eq_some_iff, Option.some.injEq, Prod.mk.injEq]
  constructor
  · rintro ⟨s', hs', sg, hsg, off, hoff, rfl, rfl⟩
    rw [g.segOfRingDiff_eq_some_p h] at hs'
    obtain ⟨sg', hsg', hr1, hr2⟩ := hs'
    rw [hsg] at hsg'
    cases hsg'
    obtain ⟨k, hk, _, he⟩ := (g.seg?_eq_some _ _).mp hsg
    have hmem : sg ∈ g.segs := he ▸ List.getElem_mem hk
    obtain ⟨off', hoff', hex⟩ := hax sg hmem
    rw [hoff] at hoff'
    cases hoff'
    simp only [hsg, hoff]
    rw [Seg.mem_ringPairsOf_iff g.R sg off _ (hle sg hmem) hex]
    exact ⟨h1.1, h1.2, h2.1, h2.2, hr1, hr2, rfl⟩
  · intro hm
    cases hsg : g.seg? s with
    | none => rw [hsg] at hm; exact absurd hm (by simp)
    | some sg =>
      obtain ⟨k, hk, _, he⟩ := (g.seg?_eq_some _ _).mp hsg
      have hmem : sg ∈ g.segs := he ▸ List.getElem_mem hk
      obtain ⟨off, hoff, hex⟩ := hax sg hmem
      simp only [hsg, hoff] at hm
      rw [Seg.mem_ringPairsOf_iff _ sg off _ (hle sg hmem) hex] at hm
      obtain ⟨_, _, _, _, hr1, hr2, ha⟩ := hm
      exact ⟨s, (g.segOfRingDiff_eq_some_p h _ _).mpr ⟨sg, hsg, hr1, hr2⟩, sg, hsg, off, hoff, rfl, ha⟩

/-- **whole table**: for a well-formed geometry, a ring pair of the scanner is assigned to `(s, a)` iff it is
    listed for `(s, a)`; in particular every ring pair with a covered ring difference lies in exactly one
    `(segment, axial position)`, and that axial position is inside the segment's range. -/
theorem Geom.ringpair_partition (g : Geom) (h : g.WFb = true) (r1 r2 : Int)
    (h1 : 0 ≤ r1 ∧ r1 < g.R) (h2 : 0 ≤ r2 ∧ r2 < g.R) (s a : Int) :
    g.segAxOfRingPair r1 r2 = some (s, a) ↔ (r1, r2) ∈ g.ringPairsOf s a :=
  g.ringpair_partition_p (g.WFp_of_WFb h) r1 r2 h1 h2 s a

/-- covered ring difference ⇒ assigned, with the axial position in range -/
theorem Geom.covered_assigned (g : Geom) (h : g.WFb = true) (r1 r2 : Int)
    (h1 : 0 ≤ r1 ∧ r1 < g.R) (h2 : 0 ≤ r2 ∧ r2 < g.R)
    (hc : ∃ sg ∈ g.segs, sg.minRD ≤ r2 - r1 ∧ r2 - r1 ≤ sg.maxRD) :
    ∃ s a sg, g.segAxOfRingPair r1 r2 = some (s, a) ∧ g.seg? s = some sg ∧ 0 ≤ a ∧ a < sg.numAx := by
  obtain ⟨_, _, hax, _⟩ := g.WFb_spec h
  obtain ⟨sg, hmem, hr1, hr2⟩ := hc
  obtain ⟨k, hk, he⟩ := List.mem_iff_getElem.mp hmem
  have hsg : g.seg? (g.minSeg + k) = some sg := (g.seg?_eq_some _ _).mpr ⟨k, hk, rfl, he⟩
  obtain ⟨off, hoff, _, hrange⟩ := hax sg hmem
  have ha := hrange r1 r2 h1.1 h1.2 h2.1 h2.2 hr1 hr2
  refine ⟨g.minSeg + k, sg.axOf off r1 r2, sg, ?_, hsg, ha.1, ha.2⟩
  unfold Geom.segAxOfRingPair
  simp only [Option.bind_eq_bind, Option.pure_def, Option.bind_eq_some_iff, Option.some.injEq, Prod.mk.injEq]
  exact ⟨_, (g.segOfRingDiff_eq_some h _ _).mpr ⟨sg, hsg, hr1, hr2⟩, sg, hsg, off, hoff, rfl, rfl⟩

end StirVerif.C01
