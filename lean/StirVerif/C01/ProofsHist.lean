/-
C01 — proofs (part: sampling changed after construction, and the spatial bin lists).

`CylState` (Model.lean) is the stored sampling of a `ProjDataInfoCylindrical`; every look-up goes through
`CylState.geom`.  Here:
* a freshly constructed state is the constructed geometry (`CylState.geom_ofGeom`);
* the tangential / view setters do not enter the ring tables (`rfl` lemmas);
* for a state whose geometry satisfies `WFp` the rebuild of the lazy tables does not call `error` and the look-up is
  the one of the geometry (`CylState.segAxOfRingPair_eq`), so the `WFp` theorems apply;
* `reduce_segment_range` of a sorted well-formed table is sorted and well-formed (`CylState.reduce_WFp`), and the
  tables of `ProjDataInfoCTI` / `ProjDataInfoGE` are sorted (`cti_sorted`, `ge_sorted`);
* `get_all_det_pos_pairs_for_bin(…, ignore_non_spatial_dimensions = true)`: length, no duplicates, relation to the
  full list.
-/
import StirVerif.C01.ProofsBins
import StirVerif.C01.ProofsGE

namespace StirVerif.C01

theorem AxSeg.seg_ofSeg (s : Seg) : (AxSeg.ofSeg s).seg = s := by
  cases s
  simp only [AxSeg.ofSeg, AxSeg.seg, Seg.mk.injEq, true_and]
  omega

theorem CylState.geom_ofGeom (g : Geom) (a b : Int) : (CylState.ofGeom g a b).geom = g := by
  cases g
  simp only [CylState.ofGeom, CylState.geom, List.map_map, Geom.mk.injEq, true_and, and_true]
  rw [List.map_congr_left (g := id)]
  · simp
  · intro s _
    exact AxSeg.seg_ofSeg s

/-- the rebuild of the lazy tables succeeds for a well-formed sampling -/
theorem CylState.initErr_of_WFp (c : CylState) (h : c.geom.WFp = true) : c.initErr = false := by
  obtain ⟨hle, _, hax, _⟩ := c.geom.WFp_spec h
  unfold CylState.initErr
  rw [Bool.or_eq_false_iff]
  constructor
  · rw [List.any_eq_false]
    intro s hs
    have := hle s.seg (by simp only [CylState.geom, List.mem_map]; exact ⟨s, hs, rfl⟩)
    simp only [AxSeg.seg] at this
    simp only [decide_eq_true_eq]
    omega
  · rw [List.any_eq_false]
    intro s hs
    obtain ⟨off, ho, _⟩ := hax s.seg (by simp only [CylState.geom, List.mem_map]; exact ⟨s, hs, rfl⟩)
    have hR : c.geom.R = c.R := rfl
    rw [hR] at ho
    simp [ho]

/-- `get_segment_axial_pos_num_for_ring_pair` on a well-formed changed sampling is the look-up of its geometry -/
theorem CylState.segAxOfRingPair_eq (c : CylState) (h : c.geom.WFp = true) (r1 r2 : Int) :
    c.segAxOfRingPair r1 r2 = .ok (c.geom.segAxOfRingPair r1 r2) := by
  unfold CylState.segAxOfRingPair
  cases hl : c.segs.getLast? with
  | none =>
    have hnil : c.segs = [] := List.getLast?_eq_none_iff.mp hl
    simp [Geom.segAxOfRingPair, Geom.segOfRingDiff, CylState.geom, hnil]
  | some last =>
    cases hh : c.segs.head? with
    | none =>
      have hnil : c.segs = [] := List.head?_eq_none_iff.mp hh
      rw [hnil] at hl
      simp at hl
    | some first =>
      simp only
      split
      · rename_i hr
        have hg : c.geom.segOfRingDiff (r2 - r1) = none := by
          unfold Geom.segOfRingDiff
          have e1 : c.geom.segs.getLast? = some last.seg := by
            simp only [CylState.geom, List.getLast?_map, hl, Option.map_some]
          have e2 : c.geom.segs.head? = some first.seg := by
            simp only [CylState.geom, List.head?_map, hh, Option.map_some]
          rw [e1, e2]
          have hr' : r2 - r1 > last.seg.maxRD ∨ r2 - r1 < first.seg.minRD := hr
          simp only []
          rw [if_pos hr']
        simp [Geom.segAxOfRingPair, hg]
      · rw [c.initErr_of_WFp h]
        simp

/-! ### sorted tables and `reduce_segment_range` -/

/-- the ring-difference ranges increase with the segment number -/
def SegsSorted (l : List Seg) : Prop := l.Pairwise (fun a b => a.maxRD < b.minRD)

theorem Geom.WFp_of_sorted (g : Geom)
    (hA : ∀ s ∈ g.segs, s.minRD ≤ s.maxRD)
    (hB : SegsSorted g.segs)
    (hC : ∀ s ∈ g.segs, ∃ off, s.axOff g.R = some off ∧ s.Exact off) : g.WFp = true := by
  unfold SegsSorted at hB
  unfold Geom.WFp
  simp only [Bool.and_eq_true]
  refine ⟨⟨⟨?_, ?_⟩, ?_⟩, ?_⟩
  · rw [List.all_eq_true]
    intro s hs
    simpa using hA s hs
  · rw [List.all_eq_true]
    intro i hi
    rw [List.all_eq_true]
    intro j hj
    rw [List.mem_range] at hi hj
    rw [List.getElem?_eq_getElem hi, List.getElem?_eq_getElem hj]
    rw [List.pairwise_iff_getElem] at hB
    by_cases hij : i = j
    · simp [hij]
    · rcases Nat.lt_or_gt_of_ne hij with h | h
      · have := hB i j hi hj h
        simp [this]
      · have := hB j i hj hi h
        simp [this]
  · rw [List.all_eq_true]
    intro s hs
    obtain ⟨off, hoff, hex⟩ := hC s hs
    rw [hoff]
    unfold Seg.Exact at hex
    by_cases he : s.minRD = s.maxRD
    · simp [hex he]
    · simp [he]
  · cases hh : g.segs.head? with
    | none => simp
    | some first =>
      cases hl : g.segs.getLast? with
      | none => simp
      | some last =>
        simp only
        rw [List.all_eq_true]
        intro s hs
        simp only [Bool.and_eq_true, decide_eq_true_eq]
        constructor
        · obtain ⟨tl, htl⟩ := List.head?_eq_some_iff.mp hh
          rw [htl] at hB hs
          rw [List.pairwise_cons] at hB
          rcases List.mem_cons.mp hs with rfl | hs'
          · exact Int.le_refl _
          · have := hB.1 s hs'
            have := hA first (by rw [htl]; exact List.mem_cons_self)
            omega
        · obtain ⟨ini, hini⟩ := List.getLast?_eq_some_iff.mp hl
          rw [hini] at hB hs
          rw [List.pairwise_append] at hB
          rcases List.mem_append.mp hs with hs' | hs'
          · have := hB.2.2 s hs' last (by simp)
            have := hA last (by rw [hini]; simp)
            omega
          · simp only [List.mem_singleton] at hs'
            subst hs'
            exact Int.le_refl _

theorem CylState.reduce_geom_segs (c : CylState) (lo hi : Int) :
    (c.reduceSegmentRange lo hi).geom.segs = (c.geom.segs.drop (lo - c.minSeg).toNat).take (hi - lo + 1).toNat := by
  simp only [CylState.reduceSegmentRange, CylState.geom, List.map_take, List.map_drop]

/-- **reduced segment range**: `reduce_segment_range` of a sorted well-formed table is sorted and well-formed,
    whatever sub-range of segments is kept -/
theorem CylState.reduce_WFp (c : CylState) (h : c.geom.WFp = true) (hs : SegsSorted c.geom.segs) (lo hi : Int) :
    (c.reduceSegmentRange lo hi).geom.WFp = true ∧ SegsSorted (c.reduceSegmentRange lo hi).geom.segs := by
  obtain ⟨hle, _, hax, _⟩ := c.geom.WFp_spec h
  have hsub : List.Sublist (c.reduceSegmentRange lo hi).geom.segs c.geom.segs := by
    rw [c.reduce_geom_segs]
    exact (List.take_sublist _ _).trans (List.drop_sublist _ _)
  have hsorted : SegsSorted (c.reduceSegmentRange lo hi).geom.segs := List.Pairwise.sublist hsub hs
  refine ⟨?_, hsorted⟩
  apply Geom.WFp_of_sorted _ _ hsorted
  · intro s hs'
    exact hax s (hsub.subset hs')
  · intro s hs'
    exact hle s (hsub.subset hs')

/-- the table of `ProjDataInfoCTI` is sorted -/
theorem cti_sorted (span maxDelta R minSeg : Int) (segs : List Seg)
    (h : ctiSegments span maxDelta R = some (minSeg, segs)) : SegsSorted segs := by
  obtain ⟨hb, n, _, hs, hlt, _⟩ := ctiSegments_shape span maxDelta R minSeg segs h
  have hpw : ((List.range n).map (ctiSegK span maxDelta R)).Pairwise (fun a b => a.maxRD < b.minRD) := by
    rw [List.pairwise_map]
    refine List.Pairwise.imp_of_mem ?_ List.pairwise_lt_range
    intro i j hi hj hij
    rw [List.mem_range] at hi hj
    have : ((i : Int) + 1) * span ≤ (j : Int) * span :=
      Int.mul_le_mul_of_nonneg_right (by omega) (by omega)
    simp only [ctiSegK]
    omega
  have hmin : ∀ j : Nat, j < n → (ctiSegK span maxDelta R j).minRD ≤ (ctiSegK span maxDelta R j).maxRD := by
    intro j hj
    have := hlt j hj
    have hmul : ((j : Int) + 1) * span = (j : Int) * span + span := by rw [Int.add_mul, Int.one_mul]
    simp only [ctiSegK]
    omega
  unfold SegsSorted
  rw [hs, List.pairwise_append]
  refine ⟨?_, ?_, ?_⟩
  · rw [List.pairwise_map, List.pairwise_reverse]
    refine List.Pairwise.imp ?_ hpw
    intro a b hab
    simp only [Seg.mirror]
    omega
  · rw [List.pairwise_cons]
    refine ⟨?_, hpw⟩
    intro s hs'
    simp only [List.mem_map, List.mem_range] at hs'
    obtain ⟨j, _, rfl⟩ := hs'
    have : 0 ≤ (j : Int) * span := Int.mul_nonneg (by omega) (by omega)
    simp only [ctiSeg0, ctiSegK]
    omega
  · intro a ha b hb'
    simp only [List.mem_map, List.mem_reverse, List.mem_range] at ha
    obtain ⟨a', ⟨i, hi, rfl⟩, rfl⟩ := ha
    have hi0 : 0 ≤ (i : Int) * span := Int.mul_nonneg (by omega) (by omega)
    have hmi := hmin i hi
    simp only [List.mem_cons, List.mem_map, List.mem_range] at hb'
    rcases hb' with rfl | ⟨j, _, rfl⟩
    · simp only [ctiSeg0, ctiSegK, Seg.mirror] at hmi ⊢
      omega
    · have : 0 ≤ (j : Int) * span := Int.mul_nonneg (by omega) (by omega)
      simp only [ctiSegK, Seg.mirror] at hmi ⊢
      omega

/-- the table of `ProjDataInfoGE` is sorted -/
theorem ge_sorted (maxDelta R minSeg : Int) (segs : List Seg)
    (h : geSegments maxDelta R = some (minSeg, segs)) : SegsSorted segs := by
  obtain ⟨_, n, _, _, hs⟩ := geSegments_shape maxDelta R minSeg segs h
  have hpw : ((List.range n).map (geSegK R)).Pairwise (fun a b => a.maxRD < b.minRD) := by
    rw [List.pairwise_map]
    refine List.Pairwise.imp ?_ List.pairwise_lt_range
    intro i j hij
    simp only [geSegK]
    omega
  unfold SegsSorted
  rw [hs, List.pairwise_append]
  refine ⟨?_, ?_, ?_⟩
  · rw [List.pairwise_map, List.pairwise_reverse]
    refine List.Pairwise.imp ?_ hpw
    intro a b hab
    simp only [Seg.mirror]
    omega
  · rw [List.pairwise_cons]
    refine ⟨?_, hpw⟩
    intro s hs'
    simp only [List.mem_map, List.mem_range] at hs'
    obtain ⟨j, _, rfl⟩ := hs'
    simp only [geSeg0, geSegK]
    omega
  · intro a ha b hb'
    simp only [List.mem_map, List.mem_reverse, List.mem_range] at ha
    obtain ⟨a', ⟨i, _, rfl⟩, rfl⟩ := ha
    simp only [List.mem_cons, List.mem_map, List.mem_range] at hb'
    rcases hb' with rfl | ⟨j, _, rfl⟩
    · simp only [geSeg0, geSegK, Seg.mirror]
      omega
    · simp only [geSegK, Seg.mirror]
      omega

/-! ### the spatial list of a bin (`ignore_non_spatial_dimensions = true`) -/

theorem spatial_eq (g : Geom) (b : Bin) : g.spatialDetPairsForBin b =
  ((List.range g.viewMash.toNat).map fun (k : Nat) => b.view * g.viewMash + (k : Int)).flatMap fun uv =>
    (g.ringPairsOf b.seg b.ax).map fun rp =>
      (⟨(viewTangToDet g.N uv b.tang).1, rp.1, (viewTangToDet g.N uv b.tang).2, rp.2, 0⟩ : DetPair) := rfl

theorem mem_spatial_iff' (g : Geom) (b : Bin) (p : DetPair) : p ∈ g.spatialDetPairsForBin b ↔
    ∃ j : Nat, j < g.viewMash.toNat ∧ ∃ rp ∈ g.ringPairsOf b.seg b.ax,
      p = ⟨(viewTangToDet g.N (b.view * g.viewMash + (j : Int)) b.tang).1, rp.1,
           (viewTangToDet g.N (b.view * g.viewMash + (j : Int)) b.tang).2, rp.2, 0⟩ := by
  rw [spatial_eq]
  simp only [List.mem_flatMap, List.mem_map, List.mem_range]
  constructor
  · rintro ⟨_, ⟨j, hj, rfl⟩, rp, hrp, rfl⟩
    exact ⟨j, hj, rp, hrp, rfl⟩
  · rintro ⟨j, hj, rp, hrp, rfl⟩
    exact ⟨_, ⟨j, hj, rfl⟩, rp, hrp, rfl⟩

/-- the reported spatial count is the length of the spatial list -/
theorem spatial_length (g : Geom) (b : Bin) :
    (g.spatialDetPairsForBin b).length = g.numSpatialDetPairsForBin b := by
  rw [spatial_eq, length_flatMap_const _ _ (g.ringPairsOf b.seg b.ax).length]
  · simp only [List.length_map, List.length_range, Geom.numSpatialDetPairsForBin]
    exact Nat.mul_comm _ _
  · intro uv _
    simp

/-- the spatial list consists of the detector/ring parts of the full list, each once, with timing position 0 -/
theorem mem_spatial_iff (g : Geom) (b : Bin) (p : DetPair) (ht : 0 ≤ g.tofMash) :
    p ∈ g.spatialDetPairsForBin b ↔
      p.t = 0 ∧ ∃ t, (⟨p.d1, p.r1, p.d2, p.r2, t⟩ : DetPair) ∈ g.allDetPairsForBin b := by
  rw [mem_spatial_iff']
  constructor
  · rintro ⟨j, hj, rp, hrp, rfl⟩
    refine ⟨rfl, b.tof * g.tofMash - g.tofMash.tdiv 2 + ((0 : Nat) : Int), ?_⟩
    rw [mem_all_iff]
    refine ⟨j, hj, rp, hrp, 0, ?_, rfl⟩
    have hh : g.tofMash.tdiv 2 = g.tofMash / 2 := Int.tdiv_eq_ediv_of_nonneg ht
    rw [hh]
    omega
  · rintro ⟨h0, t, hm⟩
    rw [mem_all_iff] at hm
    obtain ⟨j, hj, rp, hrp, i, _, he⟩ := hm
    simp only [DetPair.mk.injEq] at he
    refine ⟨j, hj, rp, hrp, ?_⟩
    cases p
    simp only at h0 he
    simp only [DetPair.mk.injEq]
    exact ⟨he.1, he.2.1, he.2.2.1, he.2.2.2.1, h0⟩

/-- no detector / ring pair is listed twice in the spatial list -/
theorem spatial_nodup (g : Geom) (m : Int) (hN : g.N = 2 * m) (hm : 0 < m)
    (hmash : 0 < g.viewMash ∧ m % g.viewMash = 0) (b : Bin) (hb : g.binInRange m b) :
    (g.spatialDetPairsForBin b).Nodup := by
  obtain ⟨hk, hdiv⟩ := hmash
  obtain ⟨hv0, hv1, ht0, ht1, _⟩ := hb
  rw [spatial_eq]
  apply nodup_flatMap_of_inj _ _ (nodup_offsets _ _)
  · intro uv _
    refine List.Nodup.map ?_ (ringPairs_nodup g _ _)
    intro rp rp' h
    simp only [DetPair.mk.injEq] at h
    exact Prod.ext h.2.1 h.2.2.2.1
  · intro uv huv uv' huv' x hx hx'
    simp only [List.mem_map, List.mem_range] at huv huv'
    obtain ⟨j, hj, rfl⟩ := huv
    obtain ⟨j', hj', rfl⟩ := huv'
    simp only [List.mem_map] at hx hx'
    obtain ⟨rp, _, rfl⟩ := hx
    obtain ⟨rp', _, h⟩ := hx'
    simp only [DetPair.mk.injEq] at h
    have vw := view_fwd (j := (j : Int)) hk hdiv hv0 hv1 (by omega) (by omega)
    have vw' := view_fwd (j := (j' : Int)) hk hdiv hv0 hv1 (by omega) (by omega)
    have rt := vt_det_roundtrip m _ b.tang hm ⟨vw.1, vw.2.1⟩ ⟨ht0, ht1⟩
    have rt' := vt_det_roundtrip m _ b.tang hm ⟨vw'.1, vw'.2.1⟩ ⟨ht0, ht1⟩
    rw [← hN] at rt rt'
    rw [h.1, h.2.2.1, rt] at rt'
    exact (Prod.mk.inj rt').1

end StirVerif.C01
