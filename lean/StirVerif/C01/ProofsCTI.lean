/-
C01 — proofs (part: the segment table built by `ProjDataInfo::ProjDataInfoCTI` is well-formed).

`ctiPositive` / `ctiSegments` (Model.lean) transcribe the constructor, including the clipping of the last
segment to `max_delta` with its unchanged number of axial positions.  Here: a closed form of the table
(`ctiSegments_shape`), the converse of `Geom.WFb_spec` for sorted tables (`Geom.WFb_of_sorted`), and
`g.WFb = true` for every table the constructor builds outside the defect class `ctiDefect`
(`cti_WF`), and `g.WFb = false` inside it (`cti_not_WF_of_defect`).
-/
import StirVerif.C01.ProofsAxial

namespace StirVerif.C01

/-! ### from propositions back to `WFb` -/

theorem Geom.WFb_of_sorted (g : Geom)
    (hA : ∀ s ∈ g.segs, s.minRD ≤ s.maxRD)
    (hB : g.segs.Pairwise (fun a b => a.maxRD < b.minRD))
    (hC : ∀ s ∈ g.segs, ∃ off, s.axOff g.R = some off ∧ s.Exact off ∧
      ∀ r1 r2 : Int, 0 ≤ r1 → r1 < g.R → 0 ≤ r2 → r2 < g.R → s.minRD ≤ r2 - r1 → r2 - r1 ≤ s.maxRD →
        0 ≤ s.axOf off r1 r2 ∧ s.axOf off r1 r2 < s.numAx) : g.WFb = true := by
  unfold Geom.WFb
  simp only [Bool.and_eq_true]
  refine ⟨⟨⟨?_, ?_⟩, ?_⟩, ?_⟩
  · rw [List.all_eq_true]
    intro s hs
    simpa using hA s hs
  · rw [List.all_eq_true]
    intro i hi
    rw [List.all_eq_true]
    intro j hj
    rw [List.mem_range] at hi hj
    rw [List.getElem?_eq_getElem hi, List.getElem?_eq_getElem hj]
    rw [List.pairwise_iff_getElem] at hB
    by_cases hij : i = j
    · simp [hij]
    · rcases Nat.lt_or_gt_of_ne hij with h | h
      · have := hB i j hi hj h
        simp [this]
      · have := hB j i hj hi h
        simp [this]
  · rw [List.all_eq_true]
    intro s hs
    obtain ⟨off, hoff, hex, hr⟩ := hC s hs
    rw [hoff]
    simp only [Bool.and_eq_true]
    constructor
    · unfold Seg.Exact at hex
      by_cases he : s.minRD = s.maxRD
      · simp [hex he]
      · simp [he]
    · rw [List.all_eq_true]
      intro r1 h1
      rw [List.all_eq_true]
      intro r2 h2
      rw [List.mem_range] at h1 h2
      by_cases hin : s.minRD ≤ (r2 : Int) - (r1 : Int) ∧ (r2 : Int) - (r1 : Int) ≤ s.maxRD
      · have := hr r1 r2 (by omega) (by omega) (by omega) (by omega) hin.1 hin.2
        simp [this.1, this.2]
      · have : (decide (s.minRD ≤ (r2 : Int) - (r1 : Int)) && decide ((r2 : Int) - (r1 : Int) ≤ s.maxRD)) = false := by
          simpa using hin
        simp only [this]
        simp
  · cases hh : g.segs.head? with
    | none => simp
    | some first =>
      cases hl : g.segs.getLast? with
      | none => simp
      | some last =>
        simp only
        rw [List.all_eq_true]
        intro s hs
        simp only [Bool.and_eq_true, decide_eq_true_eq]
        constructor
        · obtain ⟨tl, htl⟩ := List.head?_eq_some_iff.mp hh
          rw [htl] at hB hs
          rw [List.pairwise_cons] at hB
          rcases List.mem_cons.mp hs with rfl | hs'
          · exact Int.le_refl _
          · have := hB.1 s hs'
            have := hA first (by rw [htl]; exact List.mem_cons_self)
            omega
        · obtain ⟨ini, hini⟩ := List.getLast?_eq_some_iff.mp hl
          rw [hini] at hB hs
          rw [List.pairwise_append] at hB
          rcases List.mem_append.mp hs with hs' | hs'
          · have := hB.2.2 s hs' last (by simp)
            have := hA last (by rw [hini]; simp)
            omega
          · simp only [List.mem_singleton] at hs'
            subst hs'
            exact Int.le_refl _

/-! ### closed form of the `while` loop -/

/-- number of iterations of the `while (RDmax[seg] < max_delta)` loop (with the model's fuel) -/
def ctiSteps (span maxDelta : Int) : Nat → Int → Nat
  | 0, _ => 0
  | fuel + 1, c => if c < maxDelta then ctiSteps span maxDelta fuel (c + span) + 1 else 0

theorem ctiGo_eq (span maxDelta : Int) (fuel : Nat) (acc : List (Int × Int)) (c : Int) :
    ctiPositive.go span maxDelta fuel acc c =
      acc ++ (List.range (ctiSteps span maxDelta fuel c)).map
        (fun j : Nat => (c + 1 + (j : Int) * span, c + ((j : Int) + 1) * span)) := by
  induction fuel generalizing acc c with
  | zero => simp [ctiPositive.go, ctiSteps]
  | succ fuel ih =>
    rw [ctiPositive.go.eq_2]
    unfold ctiSteps
    by_cases h : c < maxDelta
    · rw [if_pos h, if_pos h, ih, List.range_succ_eq_map, List.append_assoc]
      congr 1
      simp only [List.singleton_append, List.map_cons, List.map_map, Int.natCast_zero, Int.zero_mul,
        Int.add_zero, Int.zero_add, Int.one_mul]
      congr 1
      apply List.map_congr_left
      intro j _
      simp only [Function.comp, Nat.succ_eq_add_one, Int.natCast_add, Int.natCast_one, Int.add_mul, Int.one_mul,
        Prod.mk.injEq]
      constructor <;> omega
    · rw [if_neg h, if_neg h]
      simp

theorem ctiSteps_lt (span maxDelta : Int) (fuel : Nat) (c : Int) (j : Nat)
    (hj : j < ctiSteps span maxDelta fuel c) : c + (j : Int) * span < maxDelta := by
  induction fuel generalizing c j with
  | zero => simp [ctiSteps] at hj
  | succ fuel ih =>
    unfold ctiSteps at hj
    by_cases h : c < maxDelta
    · rw [if_pos h] at hj
      cases j with
      | zero => simpa using h
      | succ j =>
        have := ih (c + span) j (by omega)
        simp only [Int.natCast_add, Int.natCast_one, Int.add_mul, Int.one_mul]
        omega
    · rw [if_neg h] at hj
      omega

theorem ctiSteps_stop (span maxDelta : Int) (hs : 1 ≤ span) (fuel : Nat) (c : Int)
    (hf : maxDelta - c < fuel) : maxDelta ≤ c + (ctiSteps span maxDelta fuel c : Int) * span := by
  induction fuel generalizing c with
  | zero => simp [ctiSteps]; omega
  | succ fuel ih =>
    unfold ctiSteps
    by_cases h : c < maxDelta
    · rw [if_pos h]
      have := ih (c + span) (by omega)
      simp only [Int.natCast_add, Int.natCast_one, Int.add_mul, Int.one_mul]
      omega
    · rw [if_neg h]
      simp; omega


/-- segment 0 of `ProjDataInfoCTI` -/
def ctiSeg0 (span R : Int) : Seg :=
  { minRD := -(span / 2), maxRD := span / 2, numAx := if span = 1 then R else 2 * R - 1 }

/-- segment `j+1` of `ProjDataInfoCTI` (the `min` is the clipping of the last segment) -/
def ctiSegK (span maxDelta R : Int) (j : Nat) : Seg :=
  { minRD := span / 2 + 1 + (j : Int) * span,
    maxRD := min (span / 2 + ((j : Int) + 1) * span) maxDelta,
    numAx := if span = 1 then R - ((j : Int) + 1) else 2 * R - 1 - 2 * (span / 2 + 1 + (j : Int) * span) }

theorem mapIdx_map_range {α β : Type} (g : Nat → α → β) (f : Nat → α) (n : Nat) :
    List.mapIdx g ((List.range n).map f) = (List.range n).map (fun j => g j (f j)) := by
  apply List.ext_getElem
  · simp
  · intro i h1 h2
    simp

theorem ctiPositive_closed (span maxDelta R : Int) (pos : List Seg)
    (h : ctiPositive span maxDelta R = some pos) :
    (1 ≤ span ∧ span / 2 ≤ maxDelta ∧ maxDelta ≤ R - 1) ∧
    ∃ n : Nat, pos = ctiSeg0 span R :: (List.range n).map (ctiSegK span maxDelta R) ∧
      (∀ j : Nat, j < n → span / 2 + (j : Int) * span < maxDelta) ∧
      maxDelta ≤ span / 2 + (n : Int) * span := by
  unfold ctiPositive at h
  split at h
  · exact absurd h (by simp)
  rename_i hg
  have ht := tdiv2_spec span
  have ht1 := tdiv2_spec (span - 1)
  have hm := tmod2_spec span
  have hbounds : 1 ≤ span ∧ span / 2 ≤ maxDelta ∧ maxDelta ≤ R - 1 := by omega
  refine ⟨hbounds, ?_⟩
  -- min0 = -(span/2), max0 = span/2
  have hmin0 : (if (span.tmod 2 == 1) = true then -(span - 1).tdiv 2 else -span.tdiv 2) = -(span / 2) := by
    split
    · rename_i h1
      have : span.tmod 2 = 1 := by simpa using h1
      omega
    · omega
  simp only [hmin0] at h
  have hmax0 : (if (span.tmod 2 == 1) = true then -(span / 2) + span - 1 else -(span / 2) + span) = span / 2 := by
    split
    · rename_i h1
      have : span.tmod 2 = 1 := by simpa using h1
      omega
    · rename_i h1
      have : ¬ span.tmod 2 = 1 := by simpa using h1
      omega
  simp only [hmax0, ctiGo_eq] at h
  generalize hn : ctiSteps span maxDelta R.toNat (span / 2) = n at h
  have hlt : ∀ j : Nat, j < n → span / 2 + (j : Int) * span < maxDelta := by
    intro j hj
    exact ctiSteps_lt span maxDelta R.toNat (span / 2) j (hn ▸ hj)
  have hstop : maxDelta ≤ span / 2 + (n : Int) * span := by
    have := ctiSteps_stop span maxDelta hbounds.1 R.toNat (span / 2) (by omega)
    rw [hn] at this
    exact this
  refine ⟨n, ?_, hlt, hstop⟩
  cases n with
  | zero =>
    simp only [List.range_zero, List.map_nil, List.append_nil, List.getLast?_singleton] at h
    rw [if_neg (by omega)] at h
    simp only [List.mapIdx_cons, List.mapIdx_nil, Option.some.injEq] at h
    subst h
    simp [ctiSeg0]
  | succ m =>
    rw [List.range_succ, List.map_append, ← List.append_assoc] at h
    simp only [Int.natCast_add, Int.natCast_one] at hstop
    simp only [List.map_cons, List.map_nil, List.getLast?_concat, List.dropLast_concat] at h
    have hpre : List.map (fun j : Nat => (span / 2 + 1 + (j : Int) * span, span / 2 + ((j : Int) + 1) * span)) (List.range m)
        = List.map (fun j : Nat => (span / 2 + 1 + (j : Int) * span, min (span / 2 + ((j : Int) + 1) * span) maxDelta)) (List.range m) := by
      apply List.map_congr_left
      intro j hj
      rw [List.mem_range] at hj
      have := hlt (j + 1) (by omega)
      simp only [Int.natCast_add, Int.natCast_one] at this
      simp only [Prod.mk.injEq, true_and]
      omega
    have hfin : (if span / 2 + ((m : Int) + 1) * span > maxDelta then
          ([(-(span / 2), span / 2)] ++
            List.map (fun j : Nat => (span / 2 + 1 + (j : Int) * span, span / 2 + ((j : Int) + 1) * span)) (List.range m)) ++
              [(span / 2 + 1 + (m : Int) * span, maxDelta)]
        else
          ([(-(span / 2), span / 2)] ++
            List.map (fun j : Nat => (span / 2 + 1 + (j : Int) * span, span / 2 + ((j : Int) + 1) * span)) (List.range m)) ++
              [(span / 2 + 1 + (m : Int) * span, span / 2 + ((m : Int) + 1) * span)]) =
        (-(span / 2), span / 2) :: List.map (fun j : Nat => (span / 2 + 1 + (j : Int) * span, min (span / 2 + ((j : Int) + 1) * span) maxDelta)) (List.range (m + 1)) := by
      rw [List.range_succ, List.map_append, hpre]
      split
      · have : min (span / 2 + ((m : Int) + 1) * span) maxDelta = maxDelta := by omega
        simp [this]
      · have : min (span / 2 + ((m : Int) + 1) * span) maxDelta = span / 2 + ((m : Int) + 1) * span := by omega
        simp [this]
    rw [hfin, List.mapIdx_cons, mapIdx_map_range] at h
    simp only [Option.some.injEq] at h
    subst h
    simp [ctiSeg0, ctiSegK]


/-! ### one segment: the two shapes (compressed, single ring difference) -/

/-- a segment with more than one ring difference and `numAx = 2R-1-2L` where every ring difference of the
    segment has absolute value at least `L` -/
theorem Seg.ok_wide (R : Int) (s : Seg) (L : Int) (hlt : s.minRD < s.maxRD) (hn : s.numAx = 2 * R - 1 - 2 * L)
    (hL : ∀ rd, s.minRD ≤ rd → rd ≤ s.maxRD → L ≤ rd ∨ L ≤ -rd) :
    ∃ off, s.axOff R = some off ∧ s.Exact off ∧
      ∀ r1 r2 : Int, 0 ≤ r1 → r1 < R → 0 ≤ r2 → r2 < R → s.minRD ≤ r2 - r1 → r2 - r1 ≤ s.maxRD →
        0 ≤ s.axOf off r1 r2 ∧ s.axOf off r1 r2 < s.numAx := by
  have hinc : s.inc = 2 := by
    unfold Seg.inc
    have : (s.maxRD != s.minRD) = true := by simp; omega
    rw [if_pos this]
  refine ⟨L, ?_, ?_, ?_⟩
  · unfold Seg.axOff
    rw [hinc, hn]
    have h1 := tmod2_spec (2 * R - 1 - 2 * L - 1)
    have h2 := tdiv2_spec (2 * R - 1 - 2 * L - 1)
    have : (2 * R - 1 - 2 * L - 1).tmod 2 = 0 := by omega
    simp only [this, bne_self_eq_false, Bool.false_eq_true, if_false, Option.some.injEq]
    omega
  · intro h; omega
  · intro r1 r2 h1 h1' h2 h2' h3 h4
    unfold Seg.axOf
    rw [hinc, hn]
    have hx := tdiv2_spec ((r1 + r2 - L) * 2)
    have := hL (r2 - r1) h3 h4
    omega

/-- a segment with a single ring difference -/
theorem Seg.ok_single (R : Int) (s : Seg) (hd : s.minRD = s.maxRD)
    (hpar : (s.minRD - (R - s.numAx)) % 2 = 0)
    (hr : ∀ r1 : Int, 0 ≤ r1 → r1 < R → 0 ≤ r1 + s.minRD → r1 + s.minRD < R →
      0 ≤ 2 * r1 + s.minRD - (R - s.numAx) ∧ 2 * r1 + s.minRD - (R - s.numAx) < 2 * s.numAx) :
    ∃ off, s.axOff R = some off ∧ s.Exact off ∧
      ∀ r1 r2 : Int, 0 ≤ r1 → r1 < R → 0 ≤ r2 → r2 < R → s.minRD ≤ r2 - r1 → r2 - r1 ≤ s.maxRD →
        0 ≤ s.axOf off r1 r2 ∧ s.axOf off r1 r2 < s.numAx := by
  have hinc : s.inc = 1 := by
    unfold Seg.inc
    rw [hd]
    simp
  refine ⟨R - s.numAx, ?_, ?_, ?_⟩
  · unfold Seg.axOff
    rw [hinc]
    simp only [Int.tmod_one, bne_self_eq_false, Bool.false_eq_true, if_false, Int.tdiv_one, Option.some.injEq]
    omega
  · intro _; exact hpar
  · intro r1 r2 h1 h1' h2 h2' h3 h4
    unfold Seg.axOf
    rw [hinc, Int.mul_one]
    have hx := tdiv2_spec (r1 + r2 - (R - s.numAx))
    have := hr r1 h1 h1' (by omega) (by omega)
    omega


/-- segment `-i` mirrors segment `i` -/
def Seg.mirror (s : Seg) : Seg := { s with minRD := -s.maxRD, maxRD := -s.minRD }

/-- **the defect class** of `ProjDataInfoCTI`: axial compression (`span > 1`), and the outermost segment is
    clipped by `max_delta` to its *first* ring difference (`max_delta = span/2 + 1 + k·span`) while
    `num_rings - 1 - max_delta` is odd. -/
def ctiDefect (span maxDelta R : Int) : Prop :=
  1 < span ∧ span / 2 < maxDelta ∧ (maxDelta - span / 2 - 1) % span = 0 ∧ (R - 1 - maxDelta) % 2 = 1

instance (span maxDelta R : Int) : Decidable (ctiDefect span maxDelta R) := by
  unfold ctiDefect; infer_instance

/-- what the ring-pair theorems need of one segment -/
def Seg.Ok (R : Int) (s : Seg) : Prop :=
  s.minRD ≤ s.maxRD ∧ ∃ off, s.axOff R = some off ∧ s.Exact off ∧
    ∀ r1 r2 : Int, 0 ≤ r1 → r1 < R → 0 ≤ r2 → r2 < R → s.minRD ≤ r2 - r1 → r2 - r1 ≤ s.maxRD →
      0 ≤ s.axOf off r1 r2 ∧ s.axOf off r1 r2 < s.numAx

theorem ctiSeg0_ok (span R : Int) (hs : 1 ≤ span) (hR : span / 2 ≤ R - 1) : (ctiSeg0 span R).Ok R := by
  by_cases h1 : span = 1
  · subst h1
    refine ⟨by simp [ctiSeg0], ?_⟩
    apply Seg.ok_single
    · simp [ctiSeg0]
    · simp [ctiSeg0]
    · simp only [ctiSeg0]
      intro r1 _ _ _ _
      simp
      omega
  · refine ⟨by simp only [ctiSeg0]; omega, ?_⟩
    apply Seg.ok_wide R _ 0
    · simp only [ctiSeg0]; omega
    · simp only [ctiSeg0, if_neg h1]; omega
    · intro rd _ _; omega

theorem ctiSegK_ok (span maxDelta R : Int) (hs : 1 ≤ span) (hR : maxDelta ≤ R - 1) (j : Nat)
    (hj : span / 2 + (j : Int) * span < maxDelta) (hnd : ¬ ctiDefect span maxDelta R) :
    (ctiSegK span maxDelta R j).Ok R ∧ (ctiSegK span maxDelta R j).mirror.Ok R := by
  have ha : 0 ≤ (j : Int) * span := Int.mul_nonneg (by omega) (by omega)
  have hmul : ((j : Int) + 1) * span = (j : Int) * span + span := by rw [Int.add_mul, Int.one_mul]
  by_cases h1 : span = 1
  · subst h1
    simp only [Int.mul_one] at hj
    constructor
    · refine ⟨by simp only [ctiSegK]; omega, ?_⟩
      apply Seg.ok_single
      · simp only [ctiSegK]; omega
      · simp only [ctiSegK, if_true]; omega
      · simp only [ctiSegK, if_true]
        intro r1 _ _ _ _
        omega
    · refine ⟨by simp only [ctiSegK, Seg.mirror]; omega, ?_⟩
      apply Seg.ok_single
      · simp only [ctiSegK, Seg.mirror]; omega
      · simp only [ctiSegK, Seg.mirror, if_true]; omega
      · simp only [ctiSegK, Seg.mirror, if_true]
        intro r1 _ _ _ _
        omega
  · by_cases hw : span / 2 + 1 + (j : Int) * span < min (span / 2 + ((j : Int) + 1) * span) maxDelta
    · constructor
      · refine ⟨by simp only [ctiSegK]; omega, ?_⟩
        apply Seg.ok_wide R _ (span / 2 + 1 + (j : Int) * span)
        · simp only [ctiSegK]; omega
        · simp only [ctiSegK, if_neg h1]
        · simp only [ctiSegK]; intro rd _ _; omega
      · refine ⟨by simp only [ctiSegK, Seg.mirror]; omega, ?_⟩
        apply Seg.ok_wide R _ (span / 2 + 1 + (j : Int) * span)
        · simp only [ctiSegK, Seg.mirror]; omega
        · simp only [ctiSegK, Seg.mirror, if_neg h1]
        · simp only [ctiSegK, Seg.mirror]; intro rd _ _; omega
    · -- single ring difference: it is `maxDelta`, and we are not in the defect class
      have hlo : span / 2 + 1 + (j : Int) * span = maxDelta := by omega
      have hmod : (maxDelta - span / 2 - 1) % span = 0 := by
        have : maxDelta - span / 2 - 1 = (j : Int) * span := by omega
        rw [this]
        exact Int.mul_emod_left _ _
      have hpar : (R - 1 - maxDelta) % 2 = 0 := by
        unfold ctiDefect at hnd
        have : ¬ (R - 1 - maxDelta) % 2 = 1 := fun h => hnd ⟨by omega, by omega, hmod, h⟩
        omega
      constructor
      · refine ⟨by simp only [ctiSegK]; omega, ?_⟩
        apply Seg.ok_single
        · simp only [ctiSegK]; omega
        · simp only [ctiSegK, if_neg h1]; omega
        · simp only [ctiSegK, if_neg h1]
          intro r1 _ _ _ _
          omega
      · refine ⟨by simp only [ctiSegK, Seg.mirror]; omega, ?_⟩
        apply Seg.ok_single
        · simp only [ctiSegK, Seg.mirror]; omega
        · simp only [ctiSegK, Seg.mirror, if_neg h1]; omega
        · simp only [ctiSegK, Seg.mirror, if_neg h1]
          intro r1 _ _ _ _
          omega


theorem ctiSegments_closed (span maxDelta R minSeg : Int) (segs : List Seg)
    (h : ctiSegments span maxDelta R = some (minSeg, segs)) :
    ∃ pos, ctiPositive span maxDelta R = some pos ∧ minSeg = -((pos.length : Int) - 1) ∧
      segs = ((pos.drop 1).reverse.map Seg.mirror) ++ pos := by
  unfold ctiSegments at h
  rw [Option.map_eq_some_iff] at h
  obtain ⟨pos, hp, he⟩ := h
  simp only [Prod.mk.injEq] at he
  exact ⟨pos, hp, he.1.symm, he.2.symm⟩

/-- the table built by `ProjDataInfoCTI`, in closed form -/
theorem ctiSegments_shape (span maxDelta R minSeg : Int) (segs : List Seg)
    (h : ctiSegments span maxDelta R = some (minSeg, segs)) :
    (1 ≤ span ∧ span / 2 ≤ maxDelta ∧ maxDelta ≤ R - 1) ∧
    ∃ n : Nat, minSeg = -(n : Int) ∧
      segs = ((List.range n).map (ctiSegK span maxDelta R)).reverse.map Seg.mirror ++
        ctiSeg0 span R :: (List.range n).map (ctiSegK span maxDelta R) ∧
      (∀ j : Nat, j < n → span / 2 + (j : Int) * span < maxDelta) ∧
      maxDelta ≤ span / 2 + (n : Int) * span := by
  obtain ⟨pos, hp, hm, hs⟩ := ctiSegments_closed span maxDelta R minSeg segs h
  obtain ⟨hb, n, hpos, hlt, hstop⟩ := ctiPositive_closed span maxDelta R pos hp
  refine ⟨hb, n, ?_, ?_, hlt, hstop⟩
  · rw [hm, hpos]; simp
  · rw [hs, hpos]; simp

theorem cti_WF_of_shape (span maxDelta R : Int) (n : Nat) (hb : 1 ≤ span ∧ span / 2 ≤ maxDelta ∧ maxDelta ≤ R - 1)
    (hlt : ∀ j : Nat, j < n → span / 2 + (j : Int) * span < maxDelta)
    (hnd : ¬ ctiDefect span maxDelta R) (g : Geom) (hR : g.R = R)
    (hsegs : g.segs = ((List.range n).map (ctiSegK span maxDelta R)).reverse.map Seg.mirror ++
        ctiSeg0 span R :: (List.range n).map (ctiSegK span maxDelta R)) : g.WFb = true := by
  have hok : ∀ s ∈ g.segs, s.Ok g.R := by
    intro s hs
    rw [hsegs] at hs
    rw [hR]
    simp only [List.mem_append, List.mem_map, List.mem_reverse, List.mem_cons, List.mem_range] at hs
    rcases hs with ⟨s', ⟨j, hj, rfl⟩, rfl⟩ | rfl | ⟨j, hj, rfl⟩
    · exact (ctiSegK_ok span maxDelta R hb.1 hb.2.2 j (hlt j hj) hnd).2
    · exact ctiSeg0_ok span R hb.1 (by omega)
    · exact (ctiSegK_ok span maxDelta R hb.1 hb.2.2 j (hlt j hj) hnd).1
  have hpw : ((List.range n).map (ctiSegK span maxDelta R)).Pairwise (fun a b => a.maxRD < b.minRD) := by
    rw [List.pairwise_map]
    refine List.Pairwise.imp ?_ List.pairwise_lt_range
    intro i j hij
    have : ((i : Int) + 1) * span ≤ (j : Int) * span :=
      Int.mul_le_mul_of_nonneg_right (by omega) (by omega)
    simp only [ctiSegK]
    omega
  apply Geom.WFb_of_sorted
  · intro s hs; exact (hok s hs).1
  · rw [hsegs, List.pairwise_append]
    refine ⟨?_, ?_, ?_⟩
    · rw [List.pairwise_map, List.pairwise_reverse]
      refine List.Pairwise.imp ?_ hpw
      intro a b hab
      simp only [Seg.mirror]
      omega
    · rw [List.pairwise_cons]
      refine ⟨?_, hpw⟩
      intro s hs
      simp only [List.mem_map, List.mem_range] at hs
      obtain ⟨j, _, rfl⟩ := hs
      have : 0 ≤ (j : Int) * span := Int.mul_nonneg (by omega) (by omega)
      simp only [ctiSeg0, ctiSegK]
      omega
    · intro a ha b hb'
      simp only [List.mem_map, List.mem_reverse, List.mem_range] at ha
      obtain ⟨a', ⟨i, _, rfl⟩, rfl⟩ := ha
      have hi0 : 0 ≤ (i : Int) * span := Int.mul_nonneg (by omega) (by omega)
      simp only [List.mem_cons, List.mem_map, List.mem_range] at hb'
      rcases hb' with rfl | ⟨j, _, rfl⟩
      · simp only [ctiSeg0, ctiSegK, Seg.mirror]
        omega
      · have : 0 ≤ (j : Int) * span := Int.mul_nonneg (by omega) (by omega)
        simp only [ctiSegK, Seg.mirror]
        omega
  · intro s hs; exact (hok s hs).2

/-- **the segment table built by `ProjDataInfoCTI` is well-formed outside the defect class** -/
theorem cti_WF (span maxDelta R minSeg : Int) (segs : List Seg)
    (h : ctiSegments span maxDelta R = some (minSeg, segs)) (hnd : ¬ ctiDefect span maxDelta R)
    (g : Geom) (hR : g.R = R) (hsegs : g.segs = segs) : g.WFb = true := by
  obtain ⟨hb, n, _, hs, hlt, _⟩ := ctiSegments_shape span maxDelta R minSeg segs h
  exact cti_WF_of_shape span maxDelta R n hb hlt hnd g hR (hsegs.trans hs)


/-- **inside the defect class the table is not well-formed**: the outermost segment consists of the single ring
    difference `max_delta` but keeps the axial count `2R-1-2·max_delta` of a compressed segment, so its axial
    offset `2·max_delta-R+1` has the wrong parity (`Seg.Exact` fails). -/
theorem cti_not_WF_of_defect (span maxDelta R minSeg : Int) (segs : List Seg)
    (h : ctiSegments span maxDelta R = some (minSeg, segs)) (hd : ctiDefect span maxDelta R)
    (g : Geom) (hR : g.R = R) (hsegs : g.segs = segs) : g.WFb = false := by
  obtain ⟨hb, n, _, hs, hlt, hstop⟩ := ctiSegments_shape span maxDelta R minSeg segs h
  obtain ⟨hd1, hd2, hd3, hd4⟩ := hd
  cases hwf : g.WFb with
  | false => rfl
  | true =>
    exfalso
    cases n with
    | zero => simp at hstop; omega
    | succ m =>
      have hl := hlt m (by omega)
      simp only [Int.natCast_add, Int.natCast_one, Int.add_mul, Int.one_mul] at hstop
      -- the last segment starts at `maxDelta`
      have hy : (maxDelta - span / 2 - 1 - (m : Int) * span) % span = 0 := by
        rw [Int.sub_mul_emod_self_right]; exact hd3
      rw [Int.emod_eq_of_lt (by omega) (by omega)] at hy
      have hmem : ctiSegK span maxDelta R m ∈ g.segs := by
        rw [hsegs, hs]
        simp only [List.mem_append, List.mem_cons, List.mem_map, List.mem_range]
        exact Or.inr (Or.inr ⟨m, by omega, rfl⟩)
      obtain ⟨_, _, hC, _⟩ := g.WFb_spec hwf
      obtain ⟨off, hoff, hex, _⟩ := hC _ hmem
      have hmul : ((m : Int) + 1) * span = (m : Int) * span + span := by rw [Int.add_mul, Int.one_mul]
      have hmin : (ctiSegK span maxDelta R m).minRD = maxDelta := by simp only [ctiSegK]; omega
      have hmax : (ctiSegK span maxDelta R m).maxRD = maxDelta := by simp only [ctiSegK]; omega
      have hnum : (ctiSegK span maxDelta R m).numAx = 2 * R - 1 - 2 * maxDelta := by
        simp only [ctiSegK, if_neg (show ¬ span = 1 by omega)]; omega
      unfold Seg.Exact at hex
      rw [hmin, hmax] at hex
      have hex := hex rfl
      unfold Seg.axOff Seg.inc at hoff
      rw [hmin, hmax, hnum, hR] at hoff
      simp only [bne_self_eq_false, Bool.false_eq_true, if_false, Int.tmod_one, Int.tdiv_one,
        Option.some.injEq] at hoff
      omega

end StirVerif.C01
