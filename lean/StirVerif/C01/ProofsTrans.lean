/-
C01 — proofs (part: transaxial interleaving).  Statements are fixed; re-exported by `Props.lean`.
-/
import StirVerif.C01.Model

namespace StirVerif.C01

/-- bin → detectors → bin is the identity (and reports "not swapped") -/
theorem vt_det_roundtrip (m v tp : Int) (hm : 0 < m) (hv : 0 ≤ v ∧ v < m) (ht : -m < tp ∧ tp < m) :
    detToViewTang (2 * m) (viewTangToDet (2 * m) v tp).1 (viewTangToDet (2 * m) v tp).2 = (v, tp, true) := by
  sorry

/-- the detectors of a bin are two different detectors of the ring -/
theorem viewTangToDet_range (m v tp : Int) (hm : 0 < m) (hv : 0 ≤ v ∧ v < m) (ht : -m < tp ∧ tp < m) :
    0 ≤ (viewTangToDet (2 * m) v tp).1 ∧ (viewTangToDet (2 * m) v tp).1 < 2 * m ∧
    0 ≤ (viewTangToDet (2 * m) v tp).2 ∧ (viewTangToDet (2 * m) v tp).2 < 2 * m ∧
    (viewTangToDet (2 * m) v tp).1 ≠ (viewTangToDet (2 * m) v tp).2 := by
  sorry

/-- detectors → bin → detectors gives the pair back, exchanged exactly when the flag says so;
    view and tangential position are in range -/
theorem det_vt_roundtrip (m d1 d2 : Int) (hm : 0 < m) (h1 : 0 ≤ d1 ∧ d1 < 2 * m) (h2 : 0 ≤ d2 ∧ d2 < 2 * m)
    (hne : d1 ≠ d2) :
    0 ≤ (detToViewTang (2 * m) d1 d2).1 ∧ (detToViewTang (2 * m) d1 d2).1 < m ∧
    -m < (detToViewTang (2 * m) d1 d2).2.1 ∧ (detToViewTang (2 * m) d1 d2).2.1 < m ∧
    viewTangToDet (2 * m) (detToViewTang (2 * m) d1 d2).1 (detToViewTang (2 * m) d1 d2).2.1 =
      (if (detToViewTang (2 * m) d1 d2).2.2 then (d1, d2) else (d2, d1)) := by
  sorry

/-- exchanging the two detectors gives the same view and tangential position and the opposite flag -/
theorem swap_exchanges (m d1 d2 : Int) (hm : 0 < m) (h1 : 0 ≤ d1 ∧ d1 < 2 * m) (h2 : 0 ≤ d2 ∧ d2 < 2 * m)
    (hne : d1 ≠ d2) :
    detToViewTang (2 * m) d2 d1 =
      ((detToViewTang (2 * m) d1 d2).1, (detToViewTang (2 * m) d1 d2).2.1, !(detToViewTang (2 * m) d1 d2).2.2) := by
  sorry

end StirVerif.C01
