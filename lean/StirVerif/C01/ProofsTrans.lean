/-
C01 — proofs (part: transaxial interleaving).  Statements are fixed; re-exported by `Props.lean`.
-/
import StirVerif.C01.Model

namespace StirVerif.C01

/-! ## helper lemmas: reduce `shr1`, `tdiv 2` and `tmod (2*m)` to linear arithmetic -/

/-- `>> 1` is Euclidean/floor division by 2 (the form `omega` understands) -/
theorem shr1_eq (x : Int) : shr1 x = x / 2 := by
  unfold shr1
  exact Int.fdiv_eq_ediv_of_nonneg x (by omega)

theorem tdiv_two_m (m : Int) (hm : 0 < m) : (2 * m).tdiv 2 = m := by
  rw [Int.tdiv_eq_ediv_of_nonneg (by omega)]; omega

theorem tdiv_three_m (m : Int) (hm : 0 < m) : (3 * (2 * m)).tdiv 2 = 3 * m := by
  rw [Int.tdiv_eq_ediv_of_nonneg (by omega)]; omega

/-- C `%` on an argument in `[0, 3n)`: the three possible reductions -/
theorem tmod_cases (x n : Int) (h0 : 0 ≤ x) (h3 : x < 3 * n) :
    (x < n ∧ x.tmod n = x) ∨ (n ≤ x ∧ x < 2 * n ∧ x.tmod n = x - n) ∨
    (2 * n ≤ x ∧ x.tmod n = x - 2 * n) := by
  rw [Int.tmod_eq_emod_of_nonneg h0]
  by_cases h1 : x < n
  · left; exact ⟨h1, Int.emod_eq_of_lt h0 h1⟩
  · by_cases h2 : x < 2 * n
    · right; left
      refine ⟨by omega, h2, ?_⟩
      rw [← Int.sub_emod_right]
      exact Int.emod_eq_of_lt (by omega) (by omega)
    · right; right
      refine ⟨by omega, ?_⟩
      rw [← Int.sub_mul_emod_self_left x n 2, Int.mul_comm n 2]
      exact Int.emod_eq_of_lt (by omega) (by omega)

/-- converse form of `tmod_cases`, to discharge goals `x.tmod n = r` by `omega` -/
theorem tmod_eq_of (x n r : Int) (h0 : 0 ≤ x) (h3 : x < 3 * n)
    (h : (x < n ∧ x = r) ∨ (n ≤ x ∧ x < 2 * n ∧ x - n = r) ∨ (2 * n ≤ x ∧ x - 2 * n = r)) :
    x.tmod n = r := by
  have := tmod_cases x n h0 h3
  omega

/-- `viewTangToDet` at `N = 2m`, with `shr1`/`tdiv` rewritten to `omega`-friendly terms -/
theorem viewTangToDet_eq (m v tp : Int) (hm : 0 < m) :
    viewTangToDet (2 * m) v tp =
      ((v + tp / 2 + 2 * m).tmod (2 * m), (v - (tp + 1) / 2 + m).tmod (2 * m)) := by
  simp only [viewTangToDet, shr1_eq, tdiv_two_m m hm]

/-- `detToViewTang` at `N = 2m` with the two `tmod` values named -/
theorem detToViewTang_eq (m d1 d2 tang view : Int) (hm : 0 < m)
    (htang : (d1 - d2 + 3 * m).tmod (2 * m) = tang)
    (hview : (d1 - tang / 2 + 2 * m).tmod (2 * m) = view) :
    detToViewTang (2 * m) d1 d2 =
      if view < m then
        if tang ≥ m then (view, 2 * m - tang, false) else (view, tang, true)
      else
        if tang ≥ m then (view - m, tang - 2 * m, true) else (view - m, -tang, false) := by
  simp only [detToViewTang, shr1_eq, tdiv_two_m m hm, tdiv_three_m m hm, htang, hview]

/-! ## the four properties -/

/-- bin → detectors → bin is the identity (and reports "not swapped") -/
theorem vt_det_roundtrip (m v tp : Int) (hm : 0 < m) (hv : 0 ≤ v ∧ v < m) (ht : -m < tp ∧ tp < m) :
    detToViewTang (2 * m) (viewTangToDet (2 * m) v tp).1 (viewTangToDet (2 * m) v tp).2 = (v, tp, true) := by
  rw [viewTangToDet_eq m v tp hm]
  simp only []
  have ha := tmod_cases (v + tp / 2 + 2 * m) (2 * m) (by omega) (by omega)
  have hb := tmod_cases (v - (tp + 1) / 2 + m) (2 * m) (by omega) (by omega)
  generalize (v + tp / 2 + 2 * m).tmod (2 * m) = a at *
  generalize (v - (tp + 1) / 2 + m).tmod (2 * m) = b at *
  have hc := tmod_cases (a - b + 3 * m) (2 * m) (by omega) (by omega)
  generalize htang : (a - b + 3 * m).tmod (2 * m) = tang at *
  have hd := tmod_cases (a - tang / 2 + 2 * m) (2 * m) (by omega) (by omega)
  generalize hview : (a - tang / 2 + 2 * m).tmod (2 * m) = view at *
  rw [detToViewTang_eq m a b tang view hm htang hview]
  split <;> split <;> simp only [Prod.mk.injEq, Bool.false_eq_true, and_false, and_true] <;> omega

/-- the detectors of a bin are two different detectors of the ring -/
theorem viewTangToDet_range (m v tp : Int) (hm : 0 < m) (hv : 0 ≤ v ∧ v < m) (ht : -m < tp ∧ tp < m) :
    0 ≤ (viewTangToDet (2 * m) v tp).1 ∧ (viewTangToDet (2 * m) v tp).1 < 2 * m ∧
    0 ≤ (viewTangToDet (2 * m) v tp).2 ∧ (viewTangToDet (2 * m) v tp).2 < 2 * m ∧
    (viewTangToDet (2 * m) v tp).1 ≠ (viewTangToDet (2 * m) v tp).2 := by
  rw [viewTangToDet_eq m v tp hm]
  simp only []
  have ha := tmod_cases (v + tp / 2 + 2 * m) (2 * m) (by omega) (by omega)
  have hb := tmod_cases (v - (tp + 1) / 2 + m) (2 * m) (by omega) (by omega)
  generalize (v + tp / 2 + 2 * m).tmod (2 * m) = a at *
  generalize (v - (tp + 1) / 2 + m).tmod (2 * m) = b at *
  omega

/-- detectors → bin → detectors gives the pair back, exchanged exactly when the flag says so;
    view and tangential position are in range -/
theorem det_vt_roundtrip (m d1 d2 : Int) (hm : 0 < m) (h1 : 0 ≤ d1 ∧ d1 < 2 * m) (h2 : 0 ≤ d2 ∧ d2 < 2 * m)
    (hne : d1 ≠ d2) :
    0 ≤ (detToViewTang (2 * m) d1 d2).1 ∧ (detToViewTang (2 * m) d1 d2).1 < m ∧
    -m < (detToViewTang (2 * m) d1 d2).2.1 ∧ (detToViewTang (2 * m) d1 d2).2.1 < m ∧
    viewTangToDet (2 * m) (detToViewTang (2 * m) d1 d2).1 (detToViewTang (2 * m) d1 d2).2.1 =
      (if (detToViewTang (2 * m) d1 d2).2.2 then (d1, d2) else (d2, d1)) := by
  have hc := tmod_cases (d1 - d2 + 3 * m) (2 * m) (by omega) (by omega)
  generalize htang : (d1 - d2 + 3 * m).tmod (2 * m) = tang at *
  have hd := tmod_cases (d1 - tang / 2 + 2 * m) (2 * m) (by omega) (by omega)
  generalize hview : (d1 - tang / 2 + 2 * m).tmod (2 * m) = view at *
  rw [detToViewTang_eq m d1 d2 tang view hm htang hview]
  split <;> split <;> simp only [Bool.false_eq_true, if_false, if_true] <;>
    rw [viewTangToDet_eq _ _ _ hm] <;>
    (refine ⟨by omega, by omega, by omega, by omega, ?_⟩) <;>
    simp only [Prod.mk.injEq]
  all_goals
    clear htang hview
    exact ⟨tmod_eq_of _ _ _ (by omega) (by omega) (by omega),
      tmod_eq_of _ _ _ (by omega) (by omega) (by omega)⟩

/-- exchanging the two detectors gives the same view and tangential position and the opposite flag -/
theorem swap_exchanges (m d1 d2 : Int) (hm : 0 < m) (h1 : 0 ≤ d1 ∧ d1 < 2 * m) (h2 : 0 ≤ d2 ∧ d2 < 2 * m)
    (hne : d1 ≠ d2) :
    detToViewTang (2 * m) d2 d1 =
      ((detToViewTang (2 * m) d1 d2).1, (detToViewTang (2 * m) d1 d2).2.1, !(detToViewTang (2 * m) d1 d2).2.2) := by
  have hc := tmod_cases (d1 - d2 + 3 * m) (2 * m) (by omega) (by omega)
  generalize htang : (d1 - d2 + 3 * m).tmod (2 * m) = tang at *
  have hd := tmod_cases (d1 - tang / 2 + 2 * m) (2 * m) (by omega) (by omega)
  generalize hview : (d1 - tang / 2 + 2 * m).tmod (2 * m) = view at *
  have hc' := tmod_cases (d2 - d1 + 3 * m) (2 * m) (by omega) (by omega)
  generalize htang' : (d2 - d1 + 3 * m).tmod (2 * m) = tang' at *
  have hd' := tmod_cases (d2 - tang' / 2 + 2 * m) (2 * m) (by omega) (by omega)
  generalize hview' : (d2 - tang' / 2 + 2 * m).tmod (2 * m) = view' at *
  rw [detToViewTang_eq m d1 d2 tang view hm htang hview,
    detToViewTang_eq m d2 d1 tang' view' hm htang' hview']
  clear htang hview htang' hview'
  rcases hc with hc | hc | hc <;> rcases hc' with hc' | hc' | hc' <;> (try (exfalso; omega)) <;>
  rcases hd with hd | hd | hd <;> (try (exfalso; omega)) <;>
  rcases hd' with hd' | hd' | hd' <;> (try (exfalso; omega)) <;>
  split <;> split <;> split <;> split <;>
    simp only [Prod.mk.injEq, Bool.false_eq_true, Bool.not_false, Bool.not_true, and_false, and_true,
      Bool.true_eq_false] <;> omega

end StirVerif.C01
