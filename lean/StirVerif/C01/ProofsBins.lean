/-
C01 — proofs (part: full bins: detector-position pairs ↔ bins with view / TOF mashing).
Statements are fixed; re-exported by `Props.lean`.
-/
import StirVerif.C01.ProofsTrans
import StirVerif.C01.ProofsAxial

namespace StirVerif.C01

/-- the configurations the library accepts: even number of detectors `2m`, view mashing factor dividing `m`,
    non-TOF (`tofMash = 0`) or odd TOF mashing factor, well-formed segment table -/
structure Geom.Cfg (g : Geom) (m : Int) : Prop where
  hN : g.N = 2 * m
  hm : 0 < m
  hmash : 0 < g.viewMash ∧ m % g.viewMash = 0
  htof : g.tofMash = 0 ∨ (0 < g.tofMash ∧ g.tofMash % 2 = 1)
  wf : g.WFb = true

def Geom.binInRange (g : Geom) (m : Int) (b : Bin) : Prop :=
  0 ≤ b.view ∧ b.view < m / g.viewMash ∧ -m < b.tang ∧ b.tang < m ∧ (g.tofMash = 0 → b.tof = 0)

def DetPair.valid (g : Geom) (p : DetPair) : Prop :=
  0 ≤ p.d1 ∧ p.d1 < g.N ∧ 0 ≤ p.d2 ∧ p.d2 < g.N ∧ p.d1 ≠ p.d2 ∧
  0 ≤ p.r1 ∧ p.r1 < g.R ∧ 0 ≤ p.r2 ∧ p.r2 < g.R ∧ (g.tofMash = 0 → p.t = 0)

/-- exchange the two detection positions and negate the TOF index -/
def DetPair.swapped (p : DetPair) : DetPair := ⟨p.d2, p.r2, p.d1, p.r1, -p.t⟩

/-- **soundness of a bin's list**: every pair the bin reports is assigned to that bin -/
theorem all_sound (g : Geom) (m : Int) (c : g.Cfg m) (b : Bin) (hb : g.binInRange m b) (p : DetPair)
    (hp : p ∈ g.allDetPairsForBin b) : g.binForDetPair p = some b ∧ p.valid g := by
  sorry

/-- **completeness**: every pair assigned to the bin is reported by it, in one of its two orientations -/
theorem all_complete (g : Geom) (m : Int) (c : g.Cfg m) (b : Bin) (p : DetPair) (hp : p.valid g)
    (h : g.binForDetPair p = some b) :
    g.binInRange m b ∧ (p ∈ g.allDetPairsForBin b ∨ p.swapped ∈ g.allDetPairsForBin b) := by
  sorry

/-- **count**: the list has no duplicates and the reported number is its length -/
theorem all_nodup_count (g : Geom) (m : Int) (c : g.Cfg m) (b : Bin) (hb : g.binInRange m b) :
    (g.allDetPairsForBin b).Nodup ∧ (g.allDetPairsForBin b).length = g.numDetPairsForBin b := by
  sorry

/-- **exchange**: swapping the detectors gives the same spatial bin with the TOF index negated -/
theorem swapped_same_bin (g : Geom) (m : Int) (c : g.Cfg m) (p : DetPair) (hp : p.valid g) (b : Bin)
    (h : g.binForDetPair p = some b) : g.binForDetPair p.swapped = some b := by
  sorry

/-- **uncompressed data**: bin → pair → bin is the identity (no view mashing, TOF mashing ≤ 1) -/
theorem uncompressed_inverse (g : Geom) (m : Int) (c : g.Cfg m) (h1 : g.viewMash = 1) (ht : g.tofMash ≤ 1)
    (b : Bin) (hb : g.binInRange m b) (p : DetPair) (h : g.detPairForBin b = some p)
    (hr : 0 ≤ p.r1 ∧ p.r1 < g.R ∧ 0 ≤ p.r2 ∧ p.r2 < g.R) : g.binForDetPair p = some b := by
  sorry

end StirVerif.C01
