/-
C01 — proofs (part: full bins: detector-position pairs ↔ bins with view / TOF mashing).
Statements are fixed; re-exported by `Props.lean`.
-/
import StirVerif.C01.ProofsTrans
import StirVerif.C01.ProofsAxial
import Mathlib.Data.List.Nodup

namespace StirVerif.C01

/-- the configurations the library accepts: even number of detectors `2m`, view mashing factor dividing `m`,
    non-TOF (`tofMash = 0`) or odd TOF mashing factor, well-formed segment table -/
structure Geom.Cfg (g : Geom) (m : Int) : Prop where
  hN : g.N = 2 * m
  hm : 0 < m
  hmash : 0 < g.viewMash ∧ m % g.viewMash = 0
  htof : g.tofMash = 0 ∨ (0 < g.tofMash ∧ g.tofMash % 2 = 1)
  wf : g.WFb = true

/-- the same with the ring-pair part `WFp` of the well-formedness only: also satisfied by a sampling whose axial ranges
    were shortened after construction (`set_min_axial_pos_num`, …), for which the clause "every covered ring pair gets
    an axial position inside the range" of `WFb` is false by design -/
structure Geom.CfgP (g : Geom) (m : Int) : Prop where
  hN : g.N = 2 * m
  hm : 0 < m
  hmash : 0 < g.viewMash ∧ m % g.viewMash = 0
  htof : g.tofMash = 0 ∨ (0 < g.tofMash ∧ g.tofMash % 2 = 1)
  wf : g.WFp = true

theorem Geom.Cfg.toP {g : Geom} {m : Int} (c : g.Cfg m) : g.CfgP m :=
  { hN := c.hN, hm := c.hm, hmash := c.hmash, htof := c.htof, wf := g.WFp_of_WFb c.wf }

def Geom.binInRange (g : Geom) (m : Int) (b : Bin) : Prop :=
  0 ≤ b.view ∧ b.view < m / g.viewMash ∧ -m < b.tang ∧ b.tang < m ∧ (g.tofMash = 0 → b.tof = 0)

def DetPair.valid (g : Geom) (p : DetPair) : Prop :=
  0 ≤ p.d1 ∧ p.d1 < g.N ∧ 0 ≤ p.d2 ∧ p.d2 < g.N ∧ p.d1 ≠ p.d2 ∧
  0 ≤ p.r1 ∧ p.r1 < g.R ∧ 0 ≤ p.r2 ∧ p.r2 < g.R ∧ (g.tofMash = 0 → p.t = 0)

/-- exchange the two detection positions and negate the TOF index -/
def DetPair.swapped (p : DetPair) : DetPair := ⟨p.d2, p.r2, p.d1, p.r1, -p.t⟩

/-! ## helper lemmas -/


theorem ediv_eq_of_bounds {x d q : Int} (hd : 0 < d) (h1 : d * q ≤ x) (h2 : x < d * q + d) : x / d = q :=
  ((Int.ediv_emod_unique (r := x - d * q) hd).2 ⟨by omega, by omega, by omega⟩).1

/-- characterisation of `roundDiv` for odd mashing factors -/
theorem roundDiv_eq_iff (t M q : Int) (hM : 0 < M) (hodd : M % 2 = 1) :
    roundDiv t M = q ↔ (q * M - M.tdiv 2 ≤ t ∧ t ≤ q * M + M.tdiv 2) := by
  have hh : M.tdiv 2 = M / 2 := Int.tdiv_eq_ediv_of_nonneg (by omega)
  rw [hh]
  have key : ∀ q x : Int, 0 ≤ x → ((2 * x + M).tdiv (2 * M) = q ↔ (q * M - M / 2 ≤ x ∧ x ≤ q * M + M / 2)) := by
    intro q x hx
    rw [Int.tdiv_eq_ediv_of_nonneg (by omega)]
    have e : (2 * M) * q = 2 * (q * M) := by rw [Int.mul_assoc, Int.mul_comm M q]
    constructor
    · intro hq
      have a1 := Int.mul_ediv_self_le (x := 2 * x + M) (k := 2 * M) (by omega)
      have a2 := Int.lt_mul_ediv_self_add (x := 2 * x + M) (k := 2 * M) (by omega)
      rw [hq, e] at a1 a2
      omega
    · intro ⟨h1, h2⟩
      apply ediv_eq_of_bounds (by omega) <;> rw [e] <;> omega
  unfold roundDiv
  split
  · exact key q t (by omega)
  · have hk := key (-q) (-t) (by omega)
    rw [Int.neg_mul] at hk
    constructor
    · intro h
      have := hk.1 (by omega)
      omega
    · intro h
      have := hk.2 (by omega)
      omega

theorem roundDiv_neg (t M : Int) (hM : 0 < M) (hodd : M % 2 = 1) : roundDiv (-t) M = -roundDiv t M := by
  have h := (roundDiv_eq_iff t M _ hM hodd).1 rfl
  rw [roundDiv_eq_iff _ _ _ hM hodd, Int.neg_mul]
  omega

/-- the TOF bin index computed by `binForDetPair` -/
def tofOf (g : Geom) (t : Int) : Int := if g.tofMash == 0 then 0 else roundDiv t g.tofMash

theorem tofOf_neg (g : Geom) (htof : g.tofMash = 0 ∨ (0 < g.tofMash ∧ g.tofMash % 2 = 1)) (t : Int) :
    tofOf g (-t) = -tofOf g t := by
  unfold tofOf
  rcases htof with h | ⟨h1, h2⟩
  · simp [h]
  · have : g.tofMash ≠ 0 := by omega
    simp [this, roundDiv_neg _ _ h1 h2]

/-- view mashing: the unmashed views of a mashed view -/
theorem view_fwd {m k view j : Int} (hk : 0 < k) (hdiv : m % k = 0) (hv0 : 0 ≤ view) (hv1 : view < m / k)
    (hj0 : 0 ≤ j) (hj1 : j < k) :
    0 ≤ view * k + j ∧ view * k + j < m ∧ (view * k + j).tdiv k = view := by
  have hm : k * (m / k) = m := Int.mul_ediv_cancel' (Int.dvd_of_emod_eq_zero hdiv)
  have h1 : k * (view + 1) ≤ k * (m / k) := Int.mul_le_mul_of_nonneg_left (by omega) (by omega)
  rw [Int.mul_add, Int.mul_one, Int.mul_comm k view] at h1
  have h0 : 0 ≤ view * k := Int.mul_nonneg hv0 (by omega)
  refine ⟨by omega, by omega, ?_⟩
  rw [Int.tdiv_eq_ediv_of_nonneg (by omega)]
  apply ediv_eq_of_bounds hk <;> rw [Int.mul_comm k view] <;> omega

theorem view_bwd {m k v : Int} (hk : 0 < k) (hdiv : m % k = 0) (hv0 : 0 ≤ v) (hv1 : v < m) :
    0 ≤ v.tdiv k ∧ v.tdiv k < m / k ∧ v = v.tdiv k * k + ((v % k).toNat : Int) ∧ (v % k).toNat < k.toNat := by
  have hm : k * (m / k) = m := Int.mul_ediv_cancel' (Int.dvd_of_emod_eq_zero hdiv)
  rw [Int.tdiv_eq_ediv_of_nonneg hv0]
  have a1 := Int.ediv_nonneg hv0 (Int.le_of_lt hk)
  have a2 : v / k < m / k := Int.ediv_lt_of_lt_mul hk (by rw [Int.mul_comm]; omega)
  have a3 := Int.emod_nonneg v (Int.ne_of_gt hk)
  have a4 := Int.emod_lt_of_pos v hk
  have a5 := Int.mul_ediv_add_emod v k
  rw [Int.mul_comm] at a5
  refine ⟨a1, a2, by omega, by omega⟩


theorem all_eq (g : Geom) (b : Bin) : g.allDetPairsForBin b =
  ((List.range g.viewMash.toNat).map fun (k : Nat) => b.view * g.viewMash + (k : Int)).flatMap fun uv =>
    (g.ringPairsOf b.seg b.ax).flatMap fun rp =>
      ((List.range ((b.tof * g.tofMash + g.tofMash.tdiv 2) - (b.tof * g.tofMash - g.tofMash.tdiv 2) + 1).toNat).map
        fun (k : Nat) => (b.tof * g.tofMash - g.tofMash.tdiv 2) + (k : Int)).map fun t =>
        (⟨(viewTangToDet g.N uv b.tang).1, rp.1, (viewTangToDet g.N uv b.tang).2, rp.2, t⟩ : DetPair) := rfl

theorem mem_all_iff (g : Geom) (b : Bin) (p : DetPair) : p ∈ g.allDetPairsForBin b ↔
    ∃ j : Nat, j < g.viewMash.toNat ∧ ∃ rp ∈ g.ringPairsOf b.seg b.ax, ∃ i : Nat,
      i < ((b.tof * g.tofMash + g.tofMash.tdiv 2) - (b.tof * g.tofMash - g.tofMash.tdiv 2) + 1).toNat ∧
      p = ⟨(viewTangToDet g.N (b.view * g.viewMash + (j : Int)) b.tang).1, rp.1,
           (viewTangToDet g.N (b.view * g.viewMash + (j : Int)) b.tang).2, rp.2,
           (b.tof * g.tofMash - g.tofMash.tdiv 2) + (i : Int)⟩ := by
  rw [all_eq]
  simp only [List.mem_flatMap, List.mem_map, List.mem_range]
  constructor
  · rintro ⟨_, ⟨j, hj, rfl⟩, rp, hrp, _, ⟨i, hi, rfl⟩, rfl⟩
    exact ⟨j, hj, rp, hrp, i, hi, rfl⟩
  · rintro ⟨j, hj, rp, hrp, i, hi, rfl⟩
    exact ⟨_, ⟨j, hj, rfl⟩, rp, hrp, _, ⟨i, hi, rfl⟩, rfl⟩

theorem ring_valid_of_mem (g : Geom) (s a r1 r2 : Int) (h : (r1, r2) ∈ g.ringPairsOf s a) :
    0 ≤ r1 ∧ r1 < g.R ∧ 0 ≤ r2 ∧ r2 < g.R := by
  unfold Geom.ringPairsOf at h
  cases hs : g.seg? s with
  | none => simp [hs] at h
  | some sg =>
    cases ho : sg.axOff g.R with
    | none => simp [hs, ho] at h
    | some off =>
      simp only [hs, ho, Seg.ringPairsOf, List.mem_filterMap] at h
      obtain ⟨k, _, hk⟩ := h
      split at hk
      · simp at hk
      · simp only [Option.some.injEq, Prod.mk.injEq] at hk
        omega

theorem ringPairs_nodup (g : Geom) (s a : Int) : (g.ringPairsOf s a).Nodup := by
  unfold Geom.ringPairsOf
  split
  · exact List.nodup_nil
  · split
    · exact List.nodup_nil
    · exact Seg.ringPairsOf_nodup _ _ _ _

theorem bin_eq (g : Geom) (p : DetPair) : g.binForDetPair p =
  (if (detToViewTang g.N p.d1 p.d2).2.2 then
    (g.segAxOfRingPair p.r1 p.r2).map fun sa => (⟨sa.1, (detToViewTang g.N p.d1 p.d2).1.tdiv g.viewMash, sa.2,
       (detToViewTang g.N p.d1 p.d2).2.1, tofOf g p.t⟩ : Bin)
   else
    (g.segAxOfRingPair p.r2 p.r1).map fun sa => (⟨sa.1, (detToViewTang g.N p.d1 p.d2).1.tdiv g.viewMash, sa.2,
       (detToViewTang g.N p.d1 p.d2).2.1, -tofOf g p.t⟩ : Bin)) := rfl

theorem bin_of_keep (g : Geom) (d1 r1 d2 r2 t : Int) (v tp : Int) (h : detToViewTang g.N d1 d2 = (v, tp, true)) :
    g.binForDetPair ⟨d1, r1, d2, r2, t⟩ =
      (g.segAxOfRingPair r1 r2).map fun sa => (⟨sa.1, v.tdiv g.viewMash, sa.2, tp, tofOf g t⟩ : Bin) := by
  rw [bin_eq, h]; rfl

theorem bin_of_swap (g : Geom) (d1 r1 d2 r2 t : Int) (v tp : Int) (h : detToViewTang g.N d1 d2 = (v, tp, false)) :
    g.binForDetPair ⟨d1, r1, d2, r2, t⟩ =
      (g.segAxOfRingPair r2 r1).map fun sa => (⟨sa.1, v.tdiv g.viewMash, sa.2, tp, -tofOf g t⟩ : Bin) := by
  rw [bin_eq, h]; rfl

/-- the TOF indices listed for a bin are mapped back to the bin's TOF index -/
theorem tofOf_of_range (g : Geom) (htof : g.tofMash = 0 ∨ (0 < g.tofMash ∧ g.tofMash % 2 = 1)) (q : Int)
    (hz : g.tofMash = 0 → q = 0) (i : Nat)
    (hi : i < ((q * g.tofMash + g.tofMash.tdiv 2) - (q * g.tofMash - g.tofMash.tdiv 2) + 1).toNat) :
    tofOf g ((q * g.tofMash - g.tofMash.tdiv 2) + (i : Int)) = q ∧
    (g.tofMash = 0 → (q * g.tofMash - g.tofMash.tdiv 2) + (i : Int) = 0) := by
  unfold tofOf
  rcases htof with h | ⟨h1, h2⟩
  · have : (0 : Int).tdiv 2 = 0 := by decide
    simp only [h, this, Int.mul_zero] at hi ⊢
    simp [hz h]; omega
  · have : g.tofMash ≠ 0 := by omega
    refine ⟨?_, fun h => absurd h this⟩
    simp only [beq_iff_eq, this, if_false]
    rw [roundDiv_eq_iff _ _ _ h1 h2]
    have hh : g.tofMash.tdiv 2 = g.tofMash / 2 := Int.tdiv_eq_ediv_of_nonneg (by omega)
    rw [hh] at hi ⊢
    omega


/-- every TOF index is listed for the TOF bin it is mapped to -/
theorem tofOf_mem (g : Geom) (htof : g.tofMash = 0 ∨ (0 < g.tofMash ∧ g.tofMash % 2 = 1)) (t : Int)
    (hz : g.tofMash = 0 → t = 0) :
    (g.tofMash = 0 → tofOf g t = 0) ∧
    ∃ i : Nat, i < ((tofOf g t * g.tofMash + g.tofMash.tdiv 2) - (tofOf g t * g.tofMash - g.tofMash.tdiv 2) + 1).toNat ∧
      t = (tofOf g t * g.tofMash - g.tofMash.tdiv 2) + (i : Int) := by
  rcases htof with h | ⟨h1, h2⟩
  · have h0 : (0 : Int).tdiv 2 = 0 := by decide
    have hq : tofOf g t = 0 := by simp [tofOf, h]
    refine ⟨fun _ => hq, 0, ?_, ?_⟩
    · simp [h, h0]
    · simp [h, h0, hz h]
  · have hne : g.tofMash ≠ 0 := by omega
    refine ⟨fun h => absurd h hne, ?_⟩
    have hq : tofOf g t = roundDiv t g.tofMash := by simp [tofOf, hne]
    have hb := (roundDiv_eq_iff t g.tofMash _ h1 h2).1 rfl
    rw [hq]
    have hh : g.tofMash.tdiv 2 = g.tofMash / 2 := Int.tdiv_eq_ediv_of_nonneg (by omega)
    rw [hh] at hb ⊢
    refine ⟨(t - (roundDiv t g.tofMash * g.tofMash - g.tofMash / 2)).toNat, by omega, by omega⟩

/-- **exchange**, in the stronger form "the two orientations get the same bin" -/
theorem swapped_bin_eq_p (g : Geom) (m : Int) (c : g.CfgP m) (p : DetPair) (hp : p.valid g) :
    g.binForDetPair p.swapped = g.binForDetPair p := by
  obtain ⟨d1, r1, d2, r2, t⟩ := p
  obtain ⟨a1, a2, a3, a4, a5, -⟩ := hp
  simp only at a1 a2 a3 a4 a5
  rw [c.hN] at a2 a4
  have sw := swap_exchanges m d1 d2 c.hm ⟨a1, a2⟩ ⟨a3, a4⟩ a5
  rw [← c.hN] at sw
  show g.binForDetPair ⟨d2, r2, d1, r1, -t⟩ = _
  rcases hx : detToViewTang g.N d1 d2 with ⟨v, tp, keep⟩
  rw [hx] at sw
  cases keep
  · rw [bin_of_swap g _ _ _ _ _ _ _ hx, bin_of_keep g _ _ _ _ _ _ _ sw, tofOf_neg g c.htof]
  · rw [bin_of_keep g _ _ _ _ _ _ _ hx, bin_of_swap g _ _ _ _ _ _ _ sw, tofOf_neg g c.htof, Int.neg_neg]

theorem swapped_valid (g : Geom) (p : DetPair) (hp : p.valid g) : p.swapped.valid g := by
  obtain ⟨a1, a2, a3, a4, a5, a6, a7, a8, a9, a10⟩ := hp
  refine ⟨a3, a4, a1, a2, fun h => a5 h.symm, a8, a9, a6, a7, fun h => ?_⟩
  show -p.t = 0
  rw [a10 h]; rfl

theorem complete_keep_p (g : Geom) (m : Int) (c : g.CfgP m) (b : Bin) (d1 r1 d2 r2 t : Int)
    (hp : DetPair.valid g ⟨d1, r1, d2, r2, t⟩) (v tp : Int) (hx : detToViewTang g.N d1 d2 = (v, tp, true))
    (h : g.binForDetPair ⟨d1, r1, d2, r2, t⟩ = some b) :
    g.binInRange m b ∧ (⟨d1, r1, d2, r2, t⟩ : DetPair) ∈ g.allDetPairsForBin b := by
  obtain ⟨a1, a2, a3, a4, a5, a6, a7, a8, a9, a10⟩ := hp
  simp only at a1 a2 a3 a4 a5 a6 a7 a8 a9 a10
  obtain ⟨hk, hdiv⟩ := c.hmash
  have dv := det_vt_roundtrip m d1 d2 c.hm ⟨a1, by rw [← c.hN]; exact a2⟩ ⟨a3, by rw [← c.hN]; exact a4⟩ a5
  rw [← c.hN, hx] at dv
  simp only [if_true] at dv
  obtain ⟨v0, v1, t0, t1, hvt⟩ := dv
  rw [bin_of_keep g _ _ _ _ _ _ _ hx, Option.map_eq_some_iff] at h
  obtain ⟨⟨s, a⟩, hs, rfl⟩ := h
  have vb := view_bwd hk hdiv v0 v1
  have tm := tofOf_mem g c.htof t a10
  have hrp := (g.ringpair_partition_p c.wf r1 r2 ⟨a6, a7⟩ ⟨a8, a9⟩ s a).1 hs
  refine ⟨⟨vb.1, vb.2.1, t0, t1, tm.1⟩, ?_⟩
  rw [mem_all_iff]
  obtain ⟨i, hi, hti⟩ := tm.2
  refine ⟨_, vb.2.2.2, (r1, r2), hrp, i, hi, ?_⟩
  dsimp only
  rw [← vb.2.2.1, hvt, ← hti]


theorem length_flatMap_const {α β : Type} (l : List α) (f : α → List β) (n : Nat)
    (h : ∀ a ∈ l, (f a).length = n) : (l.flatMap f).length = l.length * n := by
  induction l with
  | nil => simp
  | cons x xs ih =>
    rw [List.flatMap_cons, List.length_append, h x (List.mem_cons_self ..),
      ih (fun a ha => h a (List.mem_cons_of_mem _ ha)), List.length_cons, Nat.succ_mul, Nat.add_comm]

theorem nodup_flatMap_of_inj {α β : Type} (l : List α) (f : α → List β) (hl : l.Nodup)
    (hf : ∀ a ∈ l, (f a).Nodup)
    (hd : ∀ a ∈ l, ∀ a' ∈ l, ∀ x, x ∈ f a → x ∈ f a' → a = a') : (l.flatMap f).Nodup := by
  rw [List.nodup_flatMap]
  refine ⟨hf, ?_⟩
  refine List.Pairwise.imp_of_mem (R := (· ≠ ·)) ?_ hl
  intro a a' ha ha' hne
  show List.Disjoint (f a) (f a')
  intro x hx hx'
  exact hne (hd a ha a' ha' x hx hx')

theorem nodup_offsets (c : Int) (n : Nat) : ((List.range n).map fun (k : Nat) => c + (k : Int)).Nodup := by
  refine List.Nodup.map ?_ List.nodup_range
  intro a b h
  simp only at h
  omega


theorem seg?_mem (g : Geom) (s : Int) (sg : Seg) (h : g.seg? s = some sg) : sg ∈ g.segs := by
  unfold Geom.seg? at h
  split at h
  · exact absurd h (by simp)
  · exact List.mem_of_getElem? h

set_option linter.unusedTactic false in
set_option linter.unreachableTactic false in
/-- the only fact read off `WFb` directly: single-ring-difference segments are exact -/
theorem wfb_exact (g : Geom) (h : g.WFb = true) (sg : Seg) (hs : sg ∈ g.segs) (off : Int)
    (ho : sg.axOff g.R = some off) : sg.Exact off := by
  unfold Geom.WFb at h
  simp only [Bool.and_eq_true, List.all_eq_true] at h
  intro heq
  first
  | (have h3 := h.2 sg hs
     rw [ho] at h3
     simp only [Bool.and_eq_true, Bool.or_eq_true, bne_iff_ne, beq_iff_eq] at h3
     exact h3.1.resolve_left (fun hne => hne heq))
  | (have h3 := h.1.2 sg hs
     rw [ho] at h3
     simp only [Bool.and_eq_true, Bool.or_eq_true, bne_iff_ne, beq_iff_eq] at h3
     exact h3.1.resolve_left (fun hne => hne heq))
  | (have h3 := h.1.1.2 sg hs
     rw [ho] at h3
     simp only [Bool.and_eq_true, Bool.or_eq_true, bne_iff_ne, beq_iff_eq] at h3
     exact h3.1.resolve_left (fun hne => hne heq))
  | (have h3 := h.1.1.1.2 sg hs
     rw [ho] at h3
     simp only [Bool.and_eq_true, Bool.or_eq_true, bne_iff_ne, beq_iff_eq] at h3
     exact h3.1.resolve_left (fun hne => hne heq))

theorem wfp_exact (g : Geom) (h : g.WFp = true) (sg : Seg) (hs : sg ∈ g.segs) (off : Int)
    (ho : sg.axOff g.R = some off) : sg.Exact off := by
  obtain ⟨_, _, hax, _⟩ := g.WFp_spec h
  obtain ⟨off', ho', hex⟩ := hax sg hs
  rw [ho] at ho'
  cases ho'
  exact hex

/-- a single-ring-difference segment lists the ring pair computed by `detPairForBin` -/
theorem ring_mem_single (R : Int) (sg : Seg) (off a : Int) (heq : sg.minRD = sg.maxRD) (hex : sg.Exact off)
    (hr : 0 ≤ (sg.ringSum off a - sg.maxRD).tdiv 2 ∧ (sg.ringSum off a - sg.maxRD).tdiv 2 < R ∧
          0 ≤ (sg.ringSum off a + sg.maxRD).tdiv 2 ∧ (sg.ringSum off a + sg.maxRD).tdiv 2 < R) :
    ((sg.ringSum off a - sg.maxRD).tdiv 2, (sg.ringSum off a + sg.maxRD).tdiv 2) ∈ sg.ringPairsOf R off a := by
  have hinc : sg.inc = 1 := by simp [Seg.inc, heq]
  have hsum : sg.ringSum off a = 2 * a + off := by simp [Seg.ringSum, hinc]
  have hpar : (sg.minRD + sg.ringSum off a).tmod 2 = 0 := by
    have := hex heq
    obtain ⟨e, he⟩ : ∃ e, sg.minRD + sg.ringSum off a = 2 * e :=
      ⟨(sg.minRD + sg.ringSum off a) / 2, by omega⟩
    rw [he, Int.mul_tmod_right]
  unfold Seg.ringPairsOf
  simp only [hpar, Int.add_zero, List.mem_filterMap, List.mem_range]
  refine ⟨0, ?_, ?_⟩
  · rw [if_neg (by omega)]; omega
  · have e0 : sg.minRD + 2 * ((0 : Nat) : Int) = sg.maxRD := by omega
    rw [e0, if_neg (by omega)]

/-- TOF index of the representative computed by `detPairForBin` (TOF mashing factor 0 or 1) -/
theorem tofOf_abs (g : Geom) (htof : g.tofMash = 0 ∨ (0 < g.tofMash ∧ g.tofMash % 2 = 1)) (ht : g.tofMash ≤ 1)
    (q : Int) (hz : g.tofMash = 0 → q = 0) : tofOf g ((q.natAbs : Int) * g.tofMash) = (q.natAbs : Int) := by
  unfold tofOf
  rcases htof with h | ⟨h1, h2⟩
  · simp [h, hz h]
  · have hM : g.tofMash = 1 := by omega
    have h0 : (1 : Int).tdiv 2 = 0 := by decide
    rw [hM]
    simp only [show ((1 : Int) == 0) = false from rfl, Bool.false_eq_true, if_false]
    rw [roundDiv_eq_iff _ _ _ (by omega) (by omega), h0]
    omega


/-! ## the five properties -/

/-- **soundness of a bin's list**: every pair the bin reports is assigned to that bin -/
theorem all_sound_p (g : Geom) (m : Int) (c : g.CfgP m) (b : Bin) (hb : g.binInRange m b) (p : DetPair)
    (hp : p ∈ g.allDetPairsForBin b) : g.binForDetPair p = some b ∧ p.valid g := by
  obtain ⟨j, hj, rp, hrp, i, hi, rfl⟩ := (mem_all_iff g b p).1 hp
  obtain ⟨hk, hdiv⟩ := c.hmash
  obtain ⟨hv0, hv1, ht0, ht1, htz⟩ := hb
  have vw := view_fwd (j := (j : Int)) hk hdiv hv0 hv1 (by omega) (by omega)
  have rt := vt_det_roundtrip m _ b.tang c.hm ⟨vw.1, vw.2.1⟩ ⟨ht0, ht1⟩
  have rg := viewTangToDet_range m _ b.tang c.hm ⟨vw.1, vw.2.1⟩ ⟨ht0, ht1⟩
  rw [← c.hN] at rt rg
  have rv := ring_valid_of_mem g _ _ rp.1 rp.2 hrp
  have sg := (g.ringpair_partition_p c.wf rp.1 rp.2 ⟨rv.1, rv.2.1⟩ ⟨rv.2.2.1, rv.2.2.2⟩ b.seg b.ax).2 hrp
  have tf := tofOf_of_range g c.htof b.tof htz i hi
  constructor
  · rw [bin_of_keep g _ _ _ _ _ _ _ rt]
    simp only [sg, Option.map_some, vw.2.2, tf.1]
  · exact ⟨rg.1, rg.2.1, rg.2.2.1, rg.2.2.2.1, rg.2.2.2.2, rv.1, rv.2.1, rv.2.2.1, rv.2.2.2, tf.2⟩

/-- **completeness**: every pair assigned to the bin is reported by it, in one of its two orientations -/
theorem all_complete_p (g : Geom) (m : Int) (c : g.CfgP m) (b : Bin) (p : DetPair) (hp : p.valid g)
    (h : g.binForDetPair p = some b) :
    g.binInRange m b ∧ (p ∈ g.allDetPairsForBin b ∨ p.swapped ∈ g.allDetPairsForBin b) := by
  have hs := swapped_bin_eq_p g m c p hp
  have hpv := swapped_valid g p hp
  obtain ⟨d1, r1, d2, r2, t⟩ := p
  rcases hx : detToViewTang g.N d1 d2 with ⟨v, tp, keep⟩
  cases keep
  · have sw := swap_exchanges m d1 d2 c.hm ⟨hp.1, by rw [← c.hN]; exact hp.2.1⟩
      ⟨hp.2.2.1, by rw [← c.hN]; exact hp.2.2.2.1⟩ hp.2.2.2.2.1
    rw [← c.hN, hx] at sw
    have := complete_keep_p g m c b d2 r2 d1 r1 (-t) hpv v tp sw (hs.trans h)
    exact ⟨this.1, Or.inr this.2⟩
  · have := complete_keep_p g m c b d1 r1 d2 r2 t hp v tp hx h
    exact ⟨this.1, Or.inl this.2⟩

/-- **count**: the list has no duplicates and the reported number is its length -/
theorem all_nodup_count_p (g : Geom) (m : Int) (c : g.CfgP m) (b : Bin) (hb : g.binInRange m b) :
    (g.allDetPairsForBin b).Nodup ∧ (g.allDetPairsForBin b).length = g.numDetPairsForBin b := by
  obtain ⟨hk, hdiv⟩ := c.hmash
  obtain ⟨hv0, hv1, ht0, ht1, htz⟩ := hb
  rw [all_eq]
  constructor
  · apply nodup_flatMap_of_inj _ _ (nodup_offsets _ _)
    · intro uv _
      apply nodup_flatMap_of_inj _ _ (ringPairs_nodup g _ _)
      · intro rp _
        refine List.Nodup.map ?_ (nodup_offsets _ _)
        intro t t' h
        simp only [DetPair.mk.injEq] at h
        exact h.2.2.2.2
      · intro rp _ rp' _ x hx hx'
        simp only [List.mem_map] at hx hx'
        obtain ⟨t, _, rfl⟩ := hx
        obtain ⟨t', _, h⟩ := hx'
        simp only [DetPair.mk.injEq] at h
        exact Prod.ext h.2.1.symm h.2.2.2.1.symm
    · intro uv huv uv' huv' x hx hx'
      simp only [List.mem_map, List.mem_range] at huv huv'
      obtain ⟨j, hj, rfl⟩ := huv
      obtain ⟨j', hj', rfl⟩ := huv'
      simp only [List.mem_flatMap, List.mem_map] at hx hx'
      obtain ⟨rp, _, t, _, rfl⟩ := hx
      obtain ⟨rp', _, t', _, h⟩ := hx'
      simp only [DetPair.mk.injEq] at h
      have vw := view_fwd (j := (j : Int)) hk hdiv hv0 hv1 (by omega) (by omega)
      have vw' := view_fwd (j := (j' : Int)) hk hdiv hv0 hv1 (by omega) (by omega)
      have rt := vt_det_roundtrip m _ b.tang c.hm ⟨vw.1, vw.2.1⟩ ⟨ht0, ht1⟩
      have rt' := vt_det_roundtrip m _ b.tang c.hm ⟨vw'.1, vw'.2.1⟩ ⟨ht0, ht1⟩
      rw [← c.hN] at rt rt'
      rw [h.1, h.2.2.1, rt] at rt'
      exact (Prod.mk.inj rt').1
  · rw [length_flatMap_const _ _ ((g.ringPairsOf b.seg b.ax).length * (max 1 g.tofMash).toNat)]
    · simp only [List.length_map, List.length_range, Geom.numDetPairsForBin]
      rw [Nat.mul_comm, Nat.mul_right_comm]
    · intro uv _
      rw [length_flatMap_const _ _ (max 1 g.tofMash).toNat]
      intro rp _
      simp only [List.length_map, List.length_range]
      rcases c.htof with h | ⟨h1, h2⟩
      · have h0 : (0 : Int).tdiv 2 = 0 := by decide
        rw [h, h0]; omega
      · have hh : g.tofMash.tdiv 2 = g.tofMash / 2 := Int.tdiv_eq_ediv_of_nonneg (by omega)
        rw [hh]
        omega

/-- **exchange**: swapping the detectors gives the same spatial bin with the TOF index negated -/
theorem swapped_same_bin_p (g : Geom) (m : Int) (c : g.CfgP m) (p : DetPair) (hp : p.valid g) (b : Bin)
    (h : g.binForDetPair p = some b) : g.binForDetPair p.swapped = some b :=
  (swapped_bin_eq_p g m c p hp).trans h

/-- **uncompressed data**: bin → pair → bin is the identity (no view mashing, TOF mashing ≤ 1) -/
theorem uncompressed_inverse_p (g : Geom) (m : Int) (c : g.CfgP m) (h1 : g.viewMash = 1) (ht : g.tofMash ≤ 1)
    (b : Bin) (hb : g.binInRange m b) (p : DetPair) (h : g.detPairForBin b = some p)
    (hr : 0 ≤ p.r1 ∧ p.r1 < g.R ∧ 0 ≤ p.r2 ∧ p.r2 < g.R) : g.binForDetPair p = some b := by
  obtain ⟨hv0, hv1, ht0, ht1, htz⟩ := hb
  rw [h1, Int.ediv_one] at hv1
  have rt := vt_det_roundtrip m b.view b.tang c.hm ⟨hv0, hv1⟩ ⟨ht0, ht1⟩
  have rg := viewTangToDet_range m b.view b.tang c.hm ⟨hv0, hv1⟩ ⟨ht0, ht1⟩
  have sw := swap_exchanges m _ _ c.hm ⟨rg.1, rg.2.1⟩ ⟨rg.2.2.1, rg.2.2.2.1⟩ rg.2.2.2.2
  rw [rt] at sw
  rw [← c.hN] at rt sw
  unfold Geom.detPairForBin at h
  cases hs : g.seg? b.seg with
  | none => rw [hs] at h; simp at h
  | some sg =>
    rw [hs] at h
    simp only [Option.bind_eq_bind, Option.bind_some] at h
    split at h
    · simp at h
    · rename_i hne
      have heq : sg.minRD = sg.maxRD := by simpa using hne
      cases ho : sg.axOff g.R with
      | none => rw [ho] at h; simp at h
      | some off =>
        rw [ho] at h
        simp only [Option.bind_some] at h
        have hex := wfp_exact g c.wf sg (seg?_mem g _ _ hs) off ho
        have hgr : g.ringPairsOf b.seg b.ax = sg.ringPairsOf g.R off b.ax := by
          simp only [Geom.ringPairsOf, hs, ho]
        split at h
        · rename_i htof
          simp only [Option.pure_def, Option.some.injEq] at h
          subst h
          simp only at hr
          have hmem := ring_mem_single g.R sg off b.ax heq hex hr
          rw [← hgr] at hmem
          have hsa := (g.ringpair_partition_p c.wf _ _ ⟨hr.1, hr.2.1⟩ ⟨hr.2.2.1, hr.2.2.2⟩ b.seg b.ax).2 hmem
          rw [bin_of_keep g _ _ _ _ _ _ _ rt, hsa, h1, Int.tdiv_one]
          rw [tofOf_abs g c.htof ht b.tof htz, show (b.tof.natAbs : Int) = b.tof by omega]
          rfl
        · rename_i htof
          simp only [Option.pure_def, Option.some.injEq] at h
          subst h
          simp only at hr
          have hmem := ring_mem_single g.R sg off b.ax heq hex ⟨hr.2.2.1, hr.2.2.2, hr.1, hr.2.1⟩
          rw [← hgr] at hmem
          have hsa := (g.ringpair_partition_p c.wf _ _ ⟨hr.2.2.1, hr.2.2.2⟩ ⟨hr.1, hr.2.1⟩ b.seg b.ax).2 hmem
          have sw' : detToViewTang g.N (viewTangToDet g.N b.view b.tang).snd (viewTangToDet g.N b.view b.tang).fst
              = (b.view, b.tang, false) := sw
          rw [bin_of_swap g _ _ _ _ _ _ _ sw', hsa, h1, Int.tdiv_one]
          rw [tofOf_abs g c.htof ht b.tof htz, show -(b.tof.natAbs : Int) = b.tof by omega]
          rfl

/-! ### the same statements under the full hypothesis `Cfg` (as re-exported by `Props.lean` from the beginning) -/

theorem all_sound (g : Geom) (m : Int) (c : g.Cfg m) (b : Bin) (hb : g.binInRange m b) (p : DetPair)
    (hp : p ∈ g.allDetPairsForBin b) : g.binForDetPair p = some b ∧ p.valid g :=
  all_sound_p g m c.toP b hb p hp

theorem all_complete (g : Geom) (m : Int) (c : g.Cfg m) (b : Bin) (p : DetPair) (hp : p.valid g)
    (h : g.binForDetPair p = some b) :
    g.binInRange m b ∧ (p ∈ g.allDetPairsForBin b ∨ p.swapped ∈ g.allDetPairsForBin b) :=
  all_complete_p g m c.toP b p hp h

theorem all_nodup_count (g : Geom) (m : Int) (c : g.Cfg m) (b : Bin) (hb : g.binInRange m b) :
    (g.allDetPairsForBin b).Nodup ∧ (g.allDetPairsForBin b).length = g.numDetPairsForBin b :=
  all_nodup_count_p g m c.toP b hb

theorem swapped_same_bin (g : Geom) (m : Int) (c : g.Cfg m) (p : DetPair) (hp : p.valid g) (b : Bin)
    (h : g.binForDetPair p = some b) : g.binForDetPair p.swapped = some b :=
  swapped_same_bin_p g m c.toP p hp b h

theorem uncompressed_inverse (g : Geom) (m : Int) (c : g.Cfg m) (h1 : g.viewMash = 1) (ht : g.tofMash ≤ 1)
    (b : Bin) (hb : g.binInRange m b) (p : DetPair) (h : g.detPairForBin b = some p)
    (hr : 0 ≤ p.r1 ∧ p.r1 < g.R ∧ 0 ≤ p.r2 ∧ p.r2 < g.R) : g.binForDetPair p = some b :=
  uncompressed_inverse_p g m c.toP h1 ht b hb p h hr

end StirVerif.C01
