/-
C01 — proofs (part: the segment table built by `ProjDataInfo::ProjDataInfoGE` is well-formed).

`geSegments` (Model.lean) transcribes the constructor: segment 0 = ring differences -1, 0, 1 with `2R-1` axial
positions, segment `±(j+1)` = the single ring difference `±(j+2)` with `R-j-2` axial positions, for
`j + 2 ≤ max_delta`.  Unlike `ProjDataInfoCTI` there is no defect class: every table is well-formed, for every
`max_delta ≥ 1` and every number of rings (the source does not compare `max_delta` with the number of rings; a
segment whose ring difference exceeds `R-1` simply contains no ring pair).
-/
import StirVerif.C01.ProofsCTI

namespace StirVerif.C01

/-- closed form of the table -/
theorem geSegments_shape (maxDelta R minSeg : Int) (segs : List Seg)
    (h : geSegments maxDelta R = some (minSeg, segs)) :
    1 ≤ maxDelta ∧ ∃ n : Nat, (n : Int) = maxDelta - 1 ∧ minSeg = -(n : Int) ∧
      segs = ((List.range n).map (geSegK R)).reverse.map Seg.mirror ++ geSeg0 R :: (List.range n).map (geSegK R) := by
  unfold geSegments at h
  split at h
  · exact absurd h (by simp)
  · rename_i hlt
    simp only [Option.some.injEq, Prod.mk.injEq] at h
    refine ⟨by omega, (maxDelta - 1).toNat, by omega, h.1.symm, ?_⟩
    rw [← h.2]
    rfl

theorem geSeg0_ok (R : Int) : (geSeg0 R).Ok R := by
  refine ⟨by simp [geSeg0], ?_⟩
  apply Seg.ok_wide R _ 0
  · simp [geSeg0]
  · simp only [geSeg0]; omega
  · intro rd _ _; omega

theorem geSegK_ok (R : Int) (j : Nat) : (geSegK R j).Ok R ∧ (geSegK R j).mirror.Ok R := by
  constructor
  · refine ⟨by simp [geSegK], ?_⟩
    apply Seg.ok_single
    · simp [geSegK]
    · simp only [geSegK]
      have : (j : Int) + 2 - (R - (R - (j : Int) - 2)) = 0 := by omega
      rw [this]; rfl
    · simp only [geSegK]
      intro r1 _ _ _ _
      omega
  · refine ⟨by simp only [geSegK, Seg.mirror]; omega, ?_⟩
    apply Seg.ok_single
    · simp only [geSegK, Seg.mirror]
    · simp only [geSegK, Seg.mirror]
      have : -((j : Int) + 2) - (R - (R - (j : Int) - 2)) = 2 * (-((j : Int) + 2)) := by omega
      rw [this]
      exact Int.mul_emod_right 2 _
    · simp only [geSegK, Seg.mirror]
      intro r1 _ _ _ _
      omega

theorem ge_WF_of_shape (R : Int) (n : Nat) (g : Geom) (hR : g.R = R)
    (hsegs : g.segs = ((List.range n).map (geSegK R)).reverse.map Seg.mirror ++
        geSeg0 R :: (List.range n).map (geSegK R)) : g.WFb = true := by
  have hok : ∀ s ∈ g.segs, s.Ok g.R := by
    intro s hs
    rw [hsegs] at hs
    rw [hR]
    simp only [List.mem_append, List.mem_map, List.mem_reverse, List.mem_cons, List.mem_range] at hs
    rcases hs with ⟨s', ⟨j, _, rfl⟩, rfl⟩ | rfl | ⟨j, _, rfl⟩
    · exact (geSegK_ok R j).2
    · exact geSeg0_ok R
    · exact (geSegK_ok R j).1
  have hpw : ((List.range n).map (geSegK R)).Pairwise (fun a b => a.maxRD < b.minRD) := by
    rw [List.pairwise_map]
    refine List.Pairwise.imp ?_ List.pairwise_lt_range
    intro i j hij
    simp only [geSegK]
    omega
  apply Geom.WFb_of_sorted
  · intro s hs; exact (hok s hs).1
  · rw [hsegs, List.pairwise_append]
    refine ⟨?_, ?_, ?_⟩
    · rw [List.pairwise_map, List.pairwise_reverse]
      refine List.Pairwise.imp ?_ hpw
      intro a b hab
      simp only [Seg.mirror]
      omega
    · rw [List.pairwise_cons]
      refine ⟨?_, hpw⟩
      intro s hs
      simp only [List.mem_map, List.mem_range] at hs
      obtain ⟨j, _, rfl⟩ := hs
      simp only [geSeg0, geSegK]
      omega
    · intro a ha b hb'
      simp only [List.mem_map, List.mem_reverse, List.mem_range] at ha
      obtain ⟨a', ⟨i, _, rfl⟩, rfl⟩ := ha
      simp only [List.mem_cons, List.mem_map, List.mem_range] at hb'
      rcases hb' with rfl | ⟨j, _, rfl⟩
      · simp only [geSeg0, geSegK, Seg.mirror]
        omega
      · simp only [geSegK, Seg.mirror]
        omega
  · intro s hs; exact (hok s hs).2

/-- **every segment table built by `ProjDataInfoGE` is well-formed** -/
theorem ge_WF (maxDelta R minSeg : Int) (segs : List Seg)
    (h : geSegments maxDelta R = some (minSeg, segs))
    (g : Geom) (hR : g.R = R) (hsegs : g.segs = segs) : g.WFb = true := by
  obtain ⟨_, n, _, _, hs⟩ := geSegments_shape maxDelta R minSeg segs h
  exact ge_WF_of_shape R n g hR (hsegs.trans hs)

end StirVerif.C01
