/-
C01 — "Detector pairs and sinogram bins form a consistent partition".
Property theorems over the model of `Model.lean`; all for every even number of detectors `N = 2m`,
every number of rings, every well-formed segment table, every view-mashing factor dividing `m`,
non-TOF or odd TOF mashing — no bound on sizes.
-/
import StirVerif.C01.ProofsBins
import StirVerif.C01.ProofsCTI
import StirVerif.C01.ProofsGE
import StirVerif.C01.ProofsHist

namespace StirVerif.C01

/-- uncompressed transaxial maps are mutual inverses (bin → detectors → bin) -/
theorem C01_vt_det_roundtrip (m v tp : Int) (hm : 0 < m) (hv : 0 ≤ v ∧ v < m) (ht : -m < tp ∧ tp < m) :
    detToViewTang (2 * m) (viewTangToDet (2 * m) v tp).1 (viewTangToDet (2 * m) v tp).2 = (v, tp, true) :=
  vt_det_roundtrip m v tp hm hv ht

theorem C01_viewTangToDet_range (m v tp : Int) (hm : 0 < m) (hv : 0 ≤ v ∧ v < m) (ht : -m < tp ∧ tp < m) :
    0 ≤ (viewTangToDet (2 * m) v tp).1 ∧ (viewTangToDet (2 * m) v tp).1 < 2 * m ∧
    0 ≤ (viewTangToDet (2 * m) v tp).2 ∧ (viewTangToDet (2 * m) v tp).2 < 2 * m ∧
    (viewTangToDet (2 * m) v tp).1 ≠ (viewTangToDet (2 * m) v tp).2 :=
  viewTangToDet_range m v tp hm hv ht

/-- … and (detectors → bin → detectors), up to the exchange the flag reports -/
theorem C01_det_vt_roundtrip (m d1 d2 : Int) (hm : 0 < m) (h1 : 0 ≤ d1 ∧ d1 < 2 * m) (h2 : 0 ≤ d2 ∧ d2 < 2 * m)
    (hne : d1 ≠ d2) :
    0 ≤ (detToViewTang (2 * m) d1 d2).1 ∧ (detToViewTang (2 * m) d1 d2).1 < m ∧
    -m < (detToViewTang (2 * m) d1 d2).2.1 ∧ (detToViewTang (2 * m) d1 d2).2.1 < m ∧
    viewTangToDet (2 * m) (detToViewTang (2 * m) d1 d2).1 (detToViewTang (2 * m) d1 d2).2.1 =
      (if (detToViewTang (2 * m) d1 d2).2.2 then (d1, d2) else (d2, d1)) :=
  det_vt_roundtrip m d1 d2 hm h1 h2 hne

theorem C01_swap_exchanges (m d1 d2 : Int) (hm : 0 < m) (h1 : 0 ≤ d1 ∧ d1 < 2 * m) (h2 : 0 ≤ d2 ∧ d2 < 2 * m)
    (hne : d1 ≠ d2) :
    detToViewTang (2 * m) d2 d1 =
      ((detToViewTang (2 * m) d1 d2).1, (detToViewTang (2 * m) d1 d2).2.1, !(detToViewTang (2 * m) d1 d2).2.2) :=
  swap_exchanges m d1 d2 hm h1 h2 hne

/-- ring pairs of one segment -/
theorem C01_mem_ringPairsOf_iff (R : Int) (s : Seg) (off a : Int) (hle : s.minRD ≤ s.maxRD) (hex : s.Exact off)
    (r1 r2 : Int) :
    (r1, r2) ∈ s.ringPairsOf R off a ↔
      (0 ≤ r1 ∧ r1 < R ∧ 0 ≤ r2 ∧ r2 < R ∧ s.minRD ≤ r2 - r1 ∧ r2 - r1 ≤ s.maxRD ∧ s.axOf off r1 r2 = a) :=
  Seg.mem_ringPairsOf_iff R s off a hle hex r1 r2

theorem C01_ringPairsOf_nodup (R : Int) (s : Seg) (off a : Int) : (s.ringPairsOf R off a).Nodup :=
  Seg.ringPairsOf_nodup R s off a

/-- **ring pairs are partitioned over (segment, axial position)**.  The hypothesis is satisfied by every table of
    `ProjDataInfoCTI` outside the defect class (`C01_cti_WF`) and by every table of `ProjDataInfoGE` (`C01_ge_WF`);
    `C01_ringpair_partition_p` / `C01_state_ringpair_partition` below need only the part `WFp` of it and so also cover a
    sampling changed by the setters. -/
theorem C01_ringpair_partition (g : Geom) (h : g.WFb = true) (r1 r2 : Int)
    (h1 : 0 ≤ r1 ∧ r1 < g.R) (h2 : 0 ≤ r2 ∧ r2 < g.R) (s a : Int) :
    g.segAxOfRingPair r1 r2 = some (s, a) ↔ (r1, r2) ∈ g.ringPairsOf s a :=
  Geom.ringpair_partition g h r1 r2 h1 h2 s a

theorem C01_covered_assigned (g : Geom) (h : g.WFb = true) (r1 r2 : Int)
    (h1 : 0 ≤ r1 ∧ r1 < g.R) (h2 : 0 ≤ r2 ∧ r2 < g.R)
    (hc : ∃ sg ∈ g.segs, sg.minRD ≤ r2 - r1 ∧ r2 - r1 ≤ sg.maxRD) :
    ∃ s a sg, g.segAxOfRingPair r1 r2 = some (s, a) ∧ g.seg? s = some sg ∧ 0 ≤ a ∧ a < sg.numAx :=
  Geom.covered_assigned g h r1 r2 h1 h2 hc

/-- **the pairs a bin reports are exactly the pairs assigned to it, with the reported count**.
    (`binInRange` only asks `|tang| < N/2`: the statements hold for every tangential range, also one reduced by
    `set_min/max_tangential_pos_num` / `set_num_tangential_poss`.  `g.Cfg m` holds for the tables of `ProjDataInfoCTI`
    (`C01_cti_Cfg`) and of `ProjDataInfoGE` (`C01_ge_Cfg`); the `_p` versions below need only `g.CfgP m`.) -/
theorem C01_all_sound (g : Geom) (m : Int) (c : g.Cfg m) (b : Bin) (hb : g.binInRange m b) (p : DetPair)
    (hp : p ∈ g.allDetPairsForBin b) : g.binForDetPair p = some b ∧ p.valid g :=
  all_sound g m c b hb p hp

theorem C01_all_complete (g : Geom) (m : Int) (c : g.Cfg m) (b : Bin) (p : DetPair) (hp : p.valid g)
    (h : g.binForDetPair p = some b) :
    g.binInRange m b ∧ (p ∈ g.allDetPairsForBin b ∨ p.swapped ∈ g.allDetPairsForBin b) :=
  all_complete g m c b p hp h

theorem C01_all_nodup_count (g : Geom) (m : Int) (c : g.Cfg m) (b : Bin) (hb : g.binInRange m b) :
    (g.allDetPairsForBin b).Nodup ∧ (g.allDetPairsForBin b).length = g.numDetPairsForBin b :=
  all_nodup_count g m c b hb

/-- **exchanging the two detectors gives the same spatial bin with the TOF index negated** -/
theorem C01_swapped_same_bin (g : Geom) (m : Int) (c : g.Cfg m) (p : DetPair) (hp : p.valid g) (b : Bin)
    (h : g.binForDetPair p = some b) : g.binForDetPair p.swapped = some b :=
  swapped_same_bin g m c p hp b h

/-- **uncompressed data: the two maps are mutual inverses** -/
theorem C01_uncompressed_inverse (g : Geom) (m : Int) (c : g.Cfg m) (h1 : g.viewMash = 1) (ht : g.tofMash ≤ 1)
    (b : Bin) (hb : g.binInRange m b) (p : DetPair) (h : g.detPairForBin b = some p)
    (hr : 0 ≤ p.r1 ∧ p.r1 < g.R ∧ 0 ≤ p.r2 ∧ p.r2 < g.R) : g.binForDetPair p = some b :=
  uncompressed_inverse g m c h1 ht b hb p h hr

/-! ### the known finding: a last segment truncated to one ring difference of the wrong parity

`span = 3, max_delta = 2` on 4 rings: segment 1 is clipped to ring difference 2 only but keeps the
axial count of a compressed segment; ring pair (0,2) is assigned to (segment 1, axial position 0) while
every list of segment 1 is empty.  `WFb` is false for this table, so the theorems above do not apply;
the harness reports the class as a KNOWN-FINDING. -/

def witnessGeom : Geom :=
  { N := 16, R := 4, minSeg := -1,
    segs := [⟨-2, -2, 3⟩, ⟨-1, 1, 7⟩, ⟨2, 2, 3⟩], viewMash := 1, tofMash := 0 }

theorem C01_F3_witness_table : ctiSegments 3 2 4 = some (witnessGeom.minSeg, witnessGeom.segs) := by decide

theorem C01_F3_truncated_segment_not_partitioned :
    witnessGeom.WFb = false ∧ witnessGeom.segAxOfRingPair 0 2 = some (1, 0) ∧
      witnessGeom.segAxOfRingPair 1 3 = some (1, 1) ∧ (List.range 3).all (fun a => witnessGeom.ringPairsOf 1 a == []) = true := by decide

/-- non-vacuity: an ordinary compressed geometry satisfies the hypotheses of the theorems -/
example : ∃ g : Geom, ctiSegments 3 4 5 = some (g.minSeg, g.segs) ∧ g.Cfg 8 :=
  ⟨{ N := 16, R := 5, minSeg := -1, segs := [⟨-4, -2, 5⟩, ⟨-1, 1, 9⟩, ⟨2, 4, 5⟩], viewMash := 2, tofMash := 3 },
   by decide, { hN := by decide, hm := by decide, hmash := by decide, htof := by decide, wf := by decide }⟩

/-! ### the segment table built by `ProjDataInfo::ProjDataInfoCTI` satisfies the well-formedness hypothesis

`ctiDefect span max_delta R` (ProofsCTI.lean) is the decidable arithmetic condition
`1 < span ∧ span/2 < max_delta ∧ (max_delta - span/2 - 1) % span = 0 ∧ (R - 1 - max_delta) % 2 = 1`:
axial compression, the outermost segment clipped by `max_delta` to its first ring difference, and
`num_rings - 1 - max_delta` odd (the class of `C01_F3_truncated_segment_not_partitioned`). -/

/-- closed form of the table: segments `-n … n`; segment 0 is `[-span/2, span/2]`, segment `j+1` is
    `[span/2+1+j·span, min (span/2+(j+1)·span) max_delta]` with `R-(j+1)` (span 1) resp.
    `2R-1-2·minRD` axial positions, segment `-(j+1)` its mirror image; `n` is the least number with
    `max_delta ≤ span/2 + n·span`.  The arguments the constructor accepts satisfy
    `1 ≤ span`, `span/2 ≤ max_delta ≤ R-1`. -/
theorem C01_cti_table_shape (span maxDelta R minSeg : Int) (segs : List Seg)
    (h : ctiSegments span maxDelta R = some (minSeg, segs)) :
    (1 ≤ span ∧ span / 2 ≤ maxDelta ∧ maxDelta ≤ R - 1) ∧
    ∃ n : Nat, minSeg = -(n : Int) ∧
      segs = ((List.range n).map (ctiSegK span maxDelta R)).reverse.map Seg.mirror ++
        ctiSeg0 span R :: (List.range n).map (ctiSegK span maxDelta R) ∧
      (∀ j : Nat, j < n → span / 2 + (j : Int) * span < maxDelta) ∧
      maxDelta ≤ span / 2 + (n : Int) * span :=
  ctiSegments_shape span maxDelta R minSeg segs h

/-- **every segment table `ProjDataInfoCTI` builds outside the defect class is well-formed**, for all spans,
    maximal ring differences and numbers of rings (and any number of detectors, view / TOF mashing: `WFb` does
    not look at them) — so the ring-pair and bin theorems above apply to it -/
theorem C01_cti_WF (span maxDelta R minSeg : Int) (segs : List Seg)
    (h : ctiSegments span maxDelta R = some (minSeg, segs)) (hnd : ¬ ctiDefect span maxDelta R)
    (N viewMash tofMash : Int) :
    ({ N := N, R := R, minSeg := minSeg, segs := segs, viewMash := viewMash, tofMash := tofMash } : Geom).WFb = true :=
  cti_WF span maxDelta R minSeg segs h hnd _ rfl rfl

/-- … and the condition is exact: **inside the defect class the table is never well-formed** -/
theorem C01_cti_defect_not_WF (span maxDelta R minSeg : Int) (segs : List Seg)
    (h : ctiSegments span maxDelta R = some (minSeg, segs)) (hd : ctiDefect span maxDelta R)
    (N viewMash tofMash : Int) :
    ({ N := N, R := R, minSeg := minSeg, segs := segs, viewMash := viewMash, tofMash := tofMash } : Geom).WFb = false :=
  cti_not_WF_of_defect span maxDelta R minSeg segs h hd _ rfl rfl

/-- the constructed geometry is a configuration in the sense of the bin theorems -/
theorem C01_cti_Cfg (span maxDelta R minSeg : Int) (segs : List Seg)
    (h : ctiSegments span maxDelta R = some (minSeg, segs)) (hnd : ¬ ctiDefect span maxDelta R)
    (m viewMash tofMash : Int) (hm : 0 < m) (hmash : 0 < viewMash ∧ m % viewMash = 0)
    (htof : tofMash = 0 ∨ (0 < tofMash ∧ tofMash % 2 = 1)) :
    Geom.Cfg { N := 2 * m, R := R, minSeg := minSeg, segs := segs, viewMash := viewMash, tofMash := tofMash } m :=
  { hN := rfl, hm := hm, hmash := hmash, htof := htof,
    wf := cti_WF span maxDelta R minSeg segs h hnd _ rfl rfl }

/-- the witness of the known finding lies in the defect class … -/
example : ctiDefect 3 2 4 := by decide

/-- … while the same span and `max_delta` on 5 rings (last segment clipped to ring difference 2, right parity),
    span 3 / `max_delta` 4 on 5 rings, an even span (segment 0 = `[-1,1]`), and an even span with a clipped last
    segment (span 4, `max_delta` 5, 8 rings: segment 1 = `[3,5]`) are covered by the theorem -/
example : ∀ N vm tm : Int, (Geom.mk N 5 (-1) [⟨-2, -2, 5⟩, ⟨-1, 1, 9⟩, ⟨2, 2, 5⟩] vm tm).WFb = true :=
  C01_cti_WF 3 2 5 (-1) _ (by decide) (by decide)

example : ∀ N vm tm : Int, (Geom.mk N 5 (-1) [⟨-4, -2, 5⟩, ⟨-1, 1, 9⟩, ⟨2, 4, 5⟩] vm tm).WFb = true :=
  C01_cti_WF 3 4 5 (-1) _ (by decide) (by decide)

example : ∀ N vm tm : Int, (Geom.mk N 5 (-1) [⟨-3, -2, 5⟩, ⟨-1, 1, 9⟩, ⟨2, 3, 5⟩] vm tm).WFb = true :=
  C01_cti_WF 2 3 5 (-1) _ (by decide) (by decide)

example : ∀ N vm tm : Int, (Geom.mk N 8 (-1) [⟨-5, -3, 9⟩, ⟨-2, 2, 15⟩, ⟨3, 5, 9⟩] vm tm).WFb = true :=
  C01_cti_WF 4 5 8 (-1) _ (by decide) (by decide)

example : ∃ g : Geom, ctiSegments 2 3 5 = some (g.minSeg, g.segs) ∧ g.Cfg 8 :=
  ⟨{ N := 2 * 8, R := 5, minSeg := -1, segs := [⟨-3, -2, 5⟩, ⟨-1, 1, 9⟩, ⟨2, 3, 5⟩], viewMash := 2, tofMash := 3 },
   by decide, C01_cti_Cfg 2 3 5 (-1) _ (by decide) (by decide) 8 2 3 (by decide) (by decide) (by decide)⟩

/-! ### `ProjDataInfo::ProjDataInfoGE` ("even 'GE-style' span": segment 0 = ring differences -1, 0, 1, every other
segment a single ring difference) -/

/-- closed form of the table: segments `-(max_delta-1) … max_delta-1`; the constructor refuses `max_delta < 1` only -/
theorem C01_ge_table_shape (maxDelta R minSeg : Int) (segs : List Seg)
    (h : geSegments maxDelta R = some (minSeg, segs)) :
    1 ≤ maxDelta ∧ ∃ n : Nat, (n : Int) = maxDelta - 1 ∧ minSeg = -(n : Int) ∧
      segs = ((List.range n).map (geSegK R)).reverse.map Seg.mirror ++ geSeg0 R :: (List.range n).map (geSegK R) :=
  geSegments_shape maxDelta R minSeg segs h

/-- **every segment table `ProjDataInfoGE` builds is well-formed** — for every `max_delta ≥ 1` and every number of
    rings, without exception (there is no clipping of a compressed segment in this constructor), so the ring-pair and
    bin theorems above apply to it -/
theorem C01_ge_WF (maxDelta R minSeg : Int) (segs : List Seg)
    (h : geSegments maxDelta R = some (minSeg, segs)) (N viewMash tofMash : Int) :
    ({ N := N, R := R, minSeg := minSeg, segs := segs, viewMash := viewMash, tofMash := tofMash } : Geom).WFb = true :=
  ge_WF maxDelta R minSeg segs h _ rfl rfl

theorem C01_ge_Cfg (maxDelta R minSeg : Int) (segs : List Seg)
    (h : geSegments maxDelta R = some (minSeg, segs))
    (m viewMash tofMash : Int) (hm : 0 < m) (hmash : 0 < viewMash ∧ m % viewMash = 0)
    (htof : tofMash = 0 ∨ (0 < tofMash ∧ tofMash % 2 = 1)) :
    Geom.Cfg { N := 2 * m, R := R, minSeg := minSeg, segs := segs, viewMash := viewMash, tofMash := tofMash } m :=
  { hN := rfl, hm := hm, hmash := hmash, htof := htof, wf := ge_WF maxDelta R minSeg segs h _ rfl rfl }

/-- non-vacuity: `max_delta = 3` on 5 rings -/
example : ∃ g : Geom, geSegments 3 5 = some (g.minSeg, g.segs) ∧ g.Cfg 8 :=
  ⟨{ N := 2 * 8, R := 5, minSeg := -2, segs := [⟨-3, -3, 2⟩, ⟨-2, -2, 3⟩, ⟨-1, 1, 9⟩, ⟨2, 2, 3⟩, ⟨3, 3, 2⟩], viewMash := 4, tofMash := 5 },
   by decide, C01_ge_Cfg 3 5 (-2) _ (by decide) 8 4 5 (by decide) (by decide) (by decide)⟩

/-! ### sampling changed after construction ("reduced segment or tangential range")

`CylState` is what `reduce_segment_range`, `set_min/max_ring_difference`, `set_min/max_axial_pos_num`,
`set_min/max_tangential_pos_num`, `set_num_tangential_poss`, `set_num_views` store; the lazy tables are rebuilt from
it, i.e. every look-up is the look-up of `CylState.geom`. -/

/-- a freshly constructed object looks up in the constructed geometry -/
theorem C01_state_fresh (g : Geom) (minTang maxTang : Int) : (CylState.ofGeom g minTang maxTang).geom = g :=
  CylState.geom_ofGeom g minTang maxTang

/-- **reduced tangential range**: no table depends on the tangential range … -/
theorem C01_state_tang_indep (c : CylState) (a b n : Int) :
    ({ c with minTang := a } : CylState).geom = c.geom ∧ ({ c with maxTang := b } : CylState).geom = c.geom ∧
      (c.setNumTang n).geom = c.geom :=
  ⟨rfl, rfl, rfl⟩

/-- … and `set_num_views` changes the view mashing factor only -/
theorem C01_state_views (c : CylState) (k : Int) :
    ({ c with viewMash := k } : CylState).geom = { c.geom with viewMash := k } := rfl

/-- for a sampling whose geometry satisfies `WFp` the rebuild of the tables does not call `error` and
    `get_segment_axial_pos_num_for_ring_pair` is the look-up of the geometry -/
theorem C01_state_lookup (c : CylState) (h : c.geom.WFp = true) (r1 r2 : Int) :
    c.initErr = false ∧ c.segAxOfRingPair r1 r2 = .ok (c.geom.segAxOfRingPair r1 r2) :=
  ⟨c.initErr_of_WFp h, c.segAxOfRingPair_eq h r1 r2⟩

/-- `WFp` is the part of `WFb` that does not mention the axial range -/
theorem C01_WFp_of_WFb (g : Geom) (h : g.WFb = true) : g.WFp = true := g.WFp_of_WFb h

/-- **ring pairs are partitioned over (segment, axial position)**, hypothesis `WFp` only -/
theorem C01_ringpair_partition_p (g : Geom) (h : g.WFp = true) (r1 r2 : Int)
    (h1 : 0 ≤ r1 ∧ r1 < g.R) (h2 : 0 ≤ r2 ∧ r2 < g.R) (s a : Int) :
    g.segAxOfRingPair r1 r2 = some (s, a) ↔ (r1, r2) ∈ g.ringPairsOf s a :=
  g.ringpair_partition_p h r1 r2 h1 h2 s a

/-- **… on the changed sampling**: a ring pair is assigned to `(s, a)` by the object iff the object lists it for `(s, a)` -/
theorem C01_state_ringpair_partition (c : CylState) (h : c.geom.WFp = true) (r1 r2 : Int)
    (h1 : 0 ≤ r1 ∧ r1 < c.R) (h2 : 0 ≤ r2 ∧ r2 < c.R) (s a : Int) :
    c.segAxOfRingPair r1 r2 = .ok (some (s, a)) ↔ (r1, r2) ∈ c.geom.ringPairsOf s a := by
  rw [c.segAxOfRingPair_eq h]
  constructor
  · intro he
    have : c.geom.segAxOfRingPair r1 r2 = some (s, a) := by injection he
    exact (c.geom.ringpair_partition_p h r1 r2 h1 h2 s a).1 this
  · intro hm
    rw [(c.geom.ringpair_partition_p h r1 r2 h1 h2 s a).2 hm]

/-- the bin theorems under `CfgP` (even number of detectors, view mashing dividing `N/2`, non-TOF or odd TOF mashing,
    `WFp`): **the pairs a bin reports are exactly the pairs assigned to it, with the reported count; exchange;
    uncompressed inverse** — for every geometry a `CylState` with `WFp` looks up in -/
theorem C01_all_sound_p (g : Geom) (m : Int) (c : g.CfgP m) (b : Bin) (hb : g.binInRange m b) (p : DetPair)
    (hp : p ∈ g.allDetPairsForBin b) : g.binForDetPair p = some b ∧ p.valid g :=
  all_sound_p g m c b hb p hp

theorem C01_all_complete_p (g : Geom) (m : Int) (c : g.CfgP m) (b : Bin) (p : DetPair) (hp : p.valid g)
    (h : g.binForDetPair p = some b) :
    g.binInRange m b ∧ (p ∈ g.allDetPairsForBin b ∨ p.swapped ∈ g.allDetPairsForBin b) :=
  all_complete_p g m c b p hp h

theorem C01_all_nodup_count_p (g : Geom) (m : Int) (c : g.CfgP m) (b : Bin) (hb : g.binInRange m b) :
    (g.allDetPairsForBin b).Nodup ∧ (g.allDetPairsForBin b).length = g.numDetPairsForBin b :=
  all_nodup_count_p g m c b hb

theorem C01_swapped_same_bin_p (g : Geom) (m : Int) (c : g.CfgP m) (p : DetPair) (hp : p.valid g) (b : Bin)
    (h : g.binForDetPair p = some b) : g.binForDetPair p.swapped = some b :=
  swapped_same_bin_p g m c p hp b h

theorem C01_uncompressed_inverse_p (g : Geom) (m : Int) (c : g.CfgP m) (h1 : g.viewMash = 1) (ht : g.tofMash ≤ 1)
    (b : Bin) (hb : g.binInRange m b) (p : DetPair) (h : g.detPairForBin b = some p)
    (hr : 0 ≤ p.r1 ∧ p.r1 < g.R ∧ 0 ≤ p.r2 ∧ p.r2 < g.R) : g.binForDetPair p = some b :=
  uncompressed_inverse_p g m c h1 ht b hb p h hr

/-- the tables of both constructors are sorted by ring difference … -/
theorem C01_cti_sorted (span maxDelta R minSeg : Int) (segs : List Seg)
    (h : ctiSegments span maxDelta R = some (minSeg, segs)) : SegsSorted segs :=
  cti_sorted span maxDelta R minSeg segs h

theorem C01_ge_sorted (maxDelta R minSeg : Int) (segs : List Seg)
    (h : geSegments maxDelta R = some (minSeg, segs)) : SegsSorted segs :=
  ge_sorted maxDelta R minSeg segs h

/-- … and **`reduce_segment_range` of a sorted table satisfying `WFp` is again sorted and satisfies `WFp`**, whatever
    range of segments is kept (also an asymmetric one, also one that does not contain segment 0) -/
theorem C01_reduce_WFp (c : CylState) (h : c.geom.WFp = true) (hs : SegsSorted c.geom.segs) (lo hi : Int) :
    (c.reduceSegmentRange lo hi).geom.WFp = true ∧ SegsSorted (c.reduceSegmentRange lo hi).geom.segs :=
  c.reduce_WFp h hs lo hi

/-- a freshly constructed object: `2m` detectors per ring, the given segment table and tangential range -/
def builtState (R minSeg : Int) (segs : List Seg) (m viewMash tofMash minTang maxTang : Int) : CylState :=
  CylState.ofGeom ⟨2 * m, R, minSeg, segs, viewMash, tofMash⟩ minTang maxTang

/-- hence every object built by `ProjDataInfoCTI` outside the defect class whose segment range was reduced (and whose
    tangential range is arbitrary) is a configuration of the bin theorems -/
theorem C01_reduced_cti_CfgP (span maxDelta R minSeg : Int) (segs : List Seg)
    (h : ctiSegments span maxDelta R = some (minSeg, segs)) (hnd : ¬ ctiDefect span maxDelta R)
    (m viewMash tofMash : Int) (hm : 0 < m) (hmash : 0 < viewMash ∧ m % viewMash = 0)
    (htof : tofMash = 0 ∨ (0 < tofMash ∧ tofMash % 2 = 1)) (minTang maxTang lo hi : Int) :
    Geom.CfgP ((builtState R minSeg segs m viewMash tofMash minTang maxTang).reduceSegmentRange lo hi).geom m := by
  have hg : (builtState R minSeg segs m viewMash tofMash minTang maxTang).geom = ⟨2 * m, R, minSeg, segs, viewMash, tofMash⟩ :=
    CylState.geom_ofGeom ⟨2 * m, R, minSeg, segs, viewMash, tofMash⟩ minTang maxTang
  have hwf := Geom.WFp_of_WFb _ (cti_WF span maxDelta R minSeg segs h hnd
    (builtState R minSeg segs m viewMash tofMash minTang maxTang).geom (by rw [hg]) (by rw [hg]))
  have hsorted : SegsSorted (builtState R minSeg segs m viewMash tofMash minTang maxTang).geom.segs := by
    rw [hg]; exact cti_sorted span maxDelta R minSeg segs h
  exact { hN := rfl, hm := hm, hmash := hmash, htof := htof,
          wf := (CylState.reduce_WFp _ hwf hsorted lo hi).1 }

/-- the same for `ProjDataInfoGE` (no exception) -/
theorem C01_reduced_ge_CfgP (maxDelta R minSeg : Int) (segs : List Seg)
    (h : geSegments maxDelta R = some (minSeg, segs))
    (m viewMash tofMash : Int) (hm : 0 < m) (hmash : 0 < viewMash ∧ m % viewMash = 0)
    (htof : tofMash = 0 ∨ (0 < tofMash ∧ tofMash % 2 = 1)) (minTang maxTang lo hi : Int) :
    Geom.CfgP ((builtState R minSeg segs m viewMash tofMash minTang maxTang).reduceSegmentRange lo hi).geom m := by
  have hg : (builtState R minSeg segs m viewMash tofMash minTang maxTang).geom = ⟨2 * m, R, minSeg, segs, viewMash, tofMash⟩ :=
    CylState.geom_ofGeom ⟨2 * m, R, minSeg, segs, viewMash, tofMash⟩ minTang maxTang
  have hwf := Geom.WFp_of_WFb _ (ge_WF maxDelta R minSeg segs h
    (builtState R minSeg segs m viewMash tofMash minTang maxTang).geom (by rw [hg]) (by rw [hg]))
  have hsorted : SegsSorted (builtState R minSeg segs m viewMash tofMash minTang maxTang).geom.segs := by
    rw [hg]; exact ge_sorted maxDelta R minSeg segs h
  exact { hN := rfl, hm := hm, hmash := hmash, htof := htof,
          wf := (CylState.reduce_WFp _ hwf hsorted lo hi).1 }

/-- non-vacuity: span 3, `max_delta` 4 on 5 rings, reduced to segments 0 … 1, tangential range -3 … 2 -/
def reducedExample : CylState :=
  (CylState.ofGeom { N := 16, R := 5, minSeg := -1, segs := [⟨-4, -2, 5⟩, ⟨-1, 1, 9⟩, ⟨2, 4, 5⟩], viewMash := 2, tofMash := 3 }
    (-3) 2).reduceSegmentRange 0 1

example : reducedExample.geom.CfgP 8 ∧ reducedExample.geom.segs = [⟨-1, 1, 9⟩, ⟨2, 4, 5⟩] ∧ reducedExample.minSeg = 0 ∧
    reducedExample.segAxOfRingPair 0 3 = .ok (some (1, 1)) ∧ reducedExample.geom.ringPairsOf 1 1 = [(0, 3)] ∧
    reducedExample.segAxOfRingPair 3 0 = .ok none :=
  ⟨C01_reduced_cti_CfgP 3 4 5 (-1) _ (by decide) (by decide) 8 2 3 (by decide) (by decide) (by decide) (-3) 2 0 1,
   by decide, by decide, by decide, by decide, by decide⟩

/-! ### the setters can leave a single-ring-difference segment with an axial range of the wrong parity

(known finding `ringpairs:setters-leave-single-ring-difference-segment-with-axial-range-of-odd-parity`, same root cause
as `C01_F3_truncated_segment_not_partitioned`): 3 rings, span 1, `max_delta` 0, then `set_min_axial_pos_num(1, 0)`.
`m_offset` re-centres the two remaining axial positions half a ring spacing away from the rings: ring pairs (1,1), (2,2)
are assigned to axial positions 1, 2 while both lists are empty.  `WFp` is false, so no theorem applies. -/

def setterWitness : CylState :=
  (CylState.ofGeom { N := 8, R := 3, minSeg := 0, segs := [⟨0, 0, 3⟩], viewMash := 1, tofMash := 0 } (-1) 1).setMinAx 0 1

theorem C01_F4_setter_parity :
    ctiSegments 1 0 3 = some (0, [⟨0, 0, 3⟩]) ∧ setterWitness.segs = [⟨0, 0, 1, 2⟩] ∧ setterWitness.initErr = false ∧
    setterWitness.geom.WFp = false ∧
    setterWitness.segAxOfRingPair 1 1 = .ok (some (0, 1)) ∧ setterWitness.segAxOfRingPair 2 2 = .ok (some (0, 2)) ∧
    setterWitness.geom.ringPairsOf 0 1 = [] ∧ setterWitness.geom.ringPairsOf 0 2 = [] := by decide

/-! ### the spatial list of a bin (`get_all_det_pos_pairs_for_bin(…, ignore_non_spatial_dimensions = true)`,
`get_num_det_pos_pairs_for_bin(bin, true)`) — "with the reported count", TOF data included -/

/-- the reported spatial count is the length of the spatial list, and the full count is the spatial count times the TOF
    mashing factor (1 for non-TOF data) -/
theorem C01_spatial_count (g : Geom) (b : Bin) :
    (g.spatialDetPairsForBin b).length = g.numSpatialDetPairsForBin b ∧
      g.numDetPairsForBin b = g.numSpatialDetPairsForBin b * (max 1 g.tofMash).toNat :=
  ⟨spatial_length g b, rfl⟩

/-- the spatial list contains exactly the detector / ring parts of the pairs of the full list, with timing position 0 -/
theorem C01_spatial_mem (g : Geom) (b : Bin) (p : DetPair) (ht : 0 ≤ g.tofMash) :
    p ∈ g.spatialDetPairsForBin b ↔
      p.t = 0 ∧ ∃ t, (⟨p.d1, p.r1, p.d2, p.r2, t⟩ : DetPair) ∈ g.allDetPairsForBin b :=
  mem_spatial_iff g b p ht

/-- … each once -/
theorem C01_spatial_nodup (g : Geom) (m : Int) (c : g.CfgP m) (b : Bin) (hb : g.binInRange m b) :
    (g.spatialDetPairsForBin b).Nodup :=
  spatial_nodup g m c.hN c.hm c.hmash b hb

/-- non-vacuity: a TOF geometry (mashing 3) with view mashing 2; the bin (1, 1, 2, -2, 1) has 2 ring pairs, hence lists
    2 x 2 spatial pairs, 12 in all -/
example : reducedExample.geom.numSpatialDetPairsForBin ⟨1, 1, 2, -2, 1⟩ = 4 ∧
    reducedExample.geom.numDetPairsForBin ⟨1, 1, 2, -2, 1⟩ = 12 ∧
    (reducedExample.geom.spatialDetPairsForBin ⟨1, 1, 2, -2, 1⟩).length = 4 ∧
    (reducedExample.geom.allDetPairsForBin ⟨1, 1, 2, -2, 1⟩).length = 12 := by decide

/-! ### even TOF mashing factors (known finding `tofmash:even-factor`; the bin theorems assume an odd factor)

8 detectors, 2 rings, span 1, TOF mashing factor 2: the central TOF bin of the bin (0,0,0,0) lists the timing positions
-1, 0, 1 — three entries for a reported count of 2 (the real code writes the third entry past the end of the vector) — and
the pairs with timing positions ±1 are assigned to the TOF bins ±1, whose lists (1, 2, 3) overlap the central one. -/

def evenTofWitness : Geom := { N := 8, R := 2, minSeg := 0, segs := [⟨0, 0, 2⟩], viewMash := 1, tofMash := 2 }

theorem C01_F5_even_tof_mashing_not_partitioned :
    evenTofWitness.WFb = true ∧
    evenTofWitness.allDetPairsForBin ⟨0, 0, 0, 0, 0⟩ = [⟨0, 0, 4, 0, -1⟩, ⟨0, 0, 4, 0, 0⟩, ⟨0, 0, 4, 0, 1⟩] ∧
    evenTofWitness.numDetPairsForBin ⟨0, 0, 0, 0, 0⟩ = 2 ∧
    evenTofWitness.binForDetPair ⟨0, 0, 4, 0, 1⟩ = some ⟨0, 0, 0, 0, 1⟩ ∧
    evenTofWitness.binForDetPair ⟨0, 0, 4, 0, -1⟩ = some ⟨0, 0, 0, 0, -1⟩ ∧
    (⟨0, 0, 4, 0, 1⟩ : DetPair) ∈ evenTofWitness.allDetPairsForBin ⟨0, 0, 0, 0, 1⟩ := by decide

end StirVerif.C01
