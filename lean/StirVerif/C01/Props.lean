/-
C01 — "Detector pairs and sinogram bins form a consistent partition".
Property theorems over the model of `Model.lean`; all for every even number of detectors `N = 2m`,
every number of rings, every well-formed segment table, every view-mashing factor dividing `m`,
non-TOF or odd TOF mashing — no bound on sizes.
-/
import StirVerif.C01.ProofsBins

namespace StirVerif.C01

/-- uncompressed transaxial maps are mutual inverses (bin → detectors → bin) -/
theorem C01_vt_det_roundtrip (m v tp : Int) (hm : 0 < m) (hv : 0 ≤ v ∧ v < m) (ht : -m < tp ∧ tp < m) :
    detToViewTang (2 * m) (viewTangToDet (2 * m) v tp).1 (viewTangToDet (2 * m) v tp).2 = (v, tp, true) :=
  vt_det_roundtrip m v tp hm hv ht

theorem C01_viewTangToDet_range (m v tp : Int) (hm : 0 < m) (hv : 0 ≤ v ∧ v < m) (ht : -m < tp ∧ tp < m) :
    0 ≤ (viewTangToDet (2 * m) v tp).1 ∧ (viewTangToDet (2 * m) v tp).1 < 2 * m ∧
    0 ≤ (viewTangToDet (2 * m) v tp).2 ∧ (viewTangToDet (2 * m) v tp).2 < 2 * m ∧
    (viewTangToDet (2 * m) v tp).1 ≠ (viewTangToDet (2 * m) v tp).2 :=
  viewTangToDet_range m v tp hm hv ht

/-- … and (detectors → bin → detectors), up to the exchange the flag reports -/
theorem C01_det_vt_roundtrip (m d1 d2 : Int) (hm : 0 < m) (h1 : 0 ≤ d1 ∧ d1 < 2 * m) (h2 : 0 ≤ d2 ∧ d2 < 2 * m)
    (hne : d1 ≠ d2) :
    0 ≤ (detToViewTang (2 * m) d1 d2).1 ∧ (detToViewTang (2 * m) d1 d2).1 < m ∧
    -m < (detToViewTang (2 * m) d1 d2).2.1 ∧ (detToViewTang (2 * m) d1 d2).2.1 < m ∧
    viewTangToDet (2 * m) (detToViewTang (2 * m) d1 d2).1 (detToViewTang (2 * m) d1 d2).2.1 =
      (if (detToViewTang (2 * m) d1 d2).2.2 then (d1, d2) else (d2, d1)) :=
  det_vt_roundtrip m d1 d2 hm h1 h2 hne

theorem C01_swap_exchanges (m d1 d2 : Int) (hm : 0 < m) (h1 : 0 ≤ d1 ∧ d1 < 2 * m) (h2 : 0 ≤ d2 ∧ d2 < 2 * m)
    (hne : d1 ≠ d2) :
    detToViewTang (2 * m) d2 d1 =
      ((detToViewTang (2 * m) d1 d2).1, (detToViewTang (2 * m) d1 d2).2.1, !(detToViewTang (2 * m) d1 d2).2.2) :=
  swap_exchanges m d1 d2 hm h1 h2 hne

/-- ring pairs of one segment -/
theorem C01_mem_ringPairsOf_iff (R : Int) (s : Seg) (off a : Int) (hle : s.minRD ≤ s.maxRD) (hex : s.Exact off)
    (r1 r2 : Int) :
    (r1, r2) ∈ s.ringPairsOf R off a ↔
      (0 ≤ r1 ∧ r1 < R ∧ 0 ≤ r2 ∧ r2 < R ∧ s.minRD ≤ r2 - r1 ∧ r2 - r1 ≤ s.maxRD ∧ s.axOf off r1 r2 = a) :=
  Seg.mem_ringPairsOf_iff R s off a hle hex r1 r2

theorem C01_ringPairsOf_nodup (R : Int) (s : Seg) (off a : Int) : (s.ringPairsOf R off a).Nodup :=
  Seg.ringPairsOf_nodup R s off a

/-- **ring pairs are partitioned over (segment, axial position)** -/
theorem C01_ringpair_partition (g : Geom) (h : g.WFb = true) (r1 r2 : Int)
    (h1 : 0 ≤ r1 ∧ r1 < g.R) (h2 : 0 ≤ r2 ∧ r2 < g.R) (s a : Int) :
    g.segAxOfRingPair r1 r2 = some (s, a) ↔ (r1, r2) ∈ g.ringPairsOf s a :=
  Geom.ringpair_partition g h r1 r2 h1 h2 s a

theorem C01_covered_assigned (g : Geom) (h : g.WFb = true) (r1 r2 : Int)
    (h1 : 0 ≤ r1 ∧ r1 < g.R) (h2 : 0 ≤ r2 ∧ r2 < g.R)
    (hc : ∃ sg ∈ g.segs, sg.minRD ≤ r2 - r1 ∧ r2 - r1 ≤ sg.maxRD) :
    ∃ s a sg, g.segAxOfRingPair r1 r2 = some (s, a) ∧ g.seg? s = some sg ∧ 0 ≤ a ∧ a < sg.numAx :=
  Geom.covered_assigned g h r1 r2 h1 h2 hc

/-- **the pairs a bin reports are exactly the pairs assigned to it, with the reported count** -/
theorem C01_all_sound (g : Geom) (m : Int) (c : g.Cfg m) (b : Bin) (hb : g.binInRange m b) (p : DetPair)
    (hp : p ∈ g.allDetPairsForBin b) : g.binForDetPair p = some b ∧ p.valid g :=
  all_sound g m c b hb p hp

theorem C01_all_complete (g : Geom) (m : Int) (c : g.Cfg m) (b : Bin) (p : DetPair) (hp : p.valid g)
    (h : g.binForDetPair p = some b) :
    g.binInRange m b ∧ (p ∈ g.allDetPairsForBin b ∨ p.swapped ∈ g.allDetPairsForBin b) :=
  all_complete g m c b p hp h

theorem C01_all_nodup_count (g : Geom) (m : Int) (c : g.Cfg m) (b : Bin) (hb : g.binInRange m b) :
    (g.allDetPairsForBin b).Nodup ∧ (g.allDetPairsForBin b).length = g.numDetPairsForBin b :=
  all_nodup_count g m c b hb

/-- **exchanging the two detectors gives the same spatial bin with the TOF index negated** -/
theorem C01_swapped_same_bin (g : Geom) (m : Int) (c : g.Cfg m) (p : DetPair) (hp : p.valid g) (b : Bin)
    (h : g.binForDetPair p = some b) : g.binForDetPair p.swapped = some b :=
  swapped_same_bin g m c p hp b h

/-- **uncompressed data: the two maps are mutual inverses** -/
theorem C01_uncompressed_inverse (g : Geom) (m : Int) (c : g.Cfg m) (h1 : g.viewMash = 1) (ht : g.tofMash ≤ 1)
    (b : Bin) (hb : g.binInRange m b) (p : DetPair) (h : g.detPairForBin b = some p)
    (hr : 0 ≤ p.r1 ∧ p.r1 < g.R ∧ 0 ≤ p.r2 ∧ p.r2 < g.R) : g.binForDetPair p = some b :=
  uncompressed_inverse g m c h1 ht b hb p h hr

/-! ### the known finding: a last segment truncated to one ring difference of the wrong parity

`span = 3, max_delta = 2` on 4 rings: segment 1 is clipped to ring difference 2 only but keeps the
axial count of a compressed segment; ring pair (0,2) is assigned to (segment 1, axial position 0) while
every list of segment 1 is empty.  `WFb` is false for this table, so the theorems above do not apply;
the harness reports the class as a KNOWN-FINDING. -/

def witnessGeom : Geom :=
  { N := 16, R := 4, minSeg := -1,
    segs := [⟨-2, -2, 3⟩, ⟨-1, 1, 7⟩, ⟨2, 2, 3⟩], viewMash := 1, tofMash := 0 }

theorem C01_F3_witness_table : ctiSegments 3 2 4 = some (witnessGeom.minSeg, witnessGeom.segs) := by decide

theorem C01_F3_truncated_segment_not_partitioned :
    witnessGeom.WFb = false ∧ witnessGeom.segAxOfRingPair 0 2 = some (1, 0) ∧
      witnessGeom.segAxOfRingPair 1 3 = some (1, 1) ∧ (List.range 3).all (fun a => witnessGeom.ringPairsOf 1 a == []) = true := by decide

/-- non-vacuity: an ordinary compressed geometry satisfies the hypotheses of the theorems -/
example : ∃ g : Geom, ctiSegments 3 4 5 = some (g.minSeg, g.segs) ∧ g.Cfg 8 :=
  ⟨{ N := 16, R := 5, minSeg := -1, segs := [⟨-4, -2, 5⟩, ⟨-1, 1, 9⟩, ⟨2, 4, 5⟩], viewMash := 2, tofMash := 3 },
   by decide, { hN := by decide, hm := by decide, hmash := by decide, htof := by decide, wf := by decide }⟩

end StirVerif.C01
