/-
C01 — "Detector pairs and sinogram bins form a consistent partition".
Property theorems over the model of `Model.lean`; all for every even number of detectors `N = 2m`,
every number of rings, every well-formed segment table, every view-mashing factor dividing `m`,
non-TOF or odd TOF mashing — no bound on sizes.
-/
import StirVerif.C01.ProofsBins
import StirVerif.C01.ProofsCTI

namespace StirVerif.C01

/-- uncompressed transaxial maps are mutual inverses (bin → detectors → bin) -/
theorem C01_vt_det_roundtrip (m v tp : Int) (hm : 0 < m) (hv : 0 ≤ v ∧ v < m) (ht : -m < tp ∧ tp < m) :
    detToViewTang (2 * m) (viewTangToDet (2 * m) v tp).1 (viewTangToDet (2 * m) v tp).2 = (v, tp, true) :=
  vt_det_roundtrip m v tp hm hv ht

theorem C01_viewTangToDet_range (m v tp : Int) (hm : 0 < m) (hv : 0 ≤ v ∧ v < m) (ht : -m < tp ∧ tp < m) :
    0 ≤ (viewTangToDet (2 * m) v tp).1 ∧ (viewTangToDet (2 * m) v tp).1 < 2 * m ∧
    0 ≤ (viewTangToDet (2 * m) v tp).2 ∧ (viewTangToDet (2 * m) v tp).2 < 2 * m ∧
    (viewTangToDet (2 * m) v tp).1 ≠ (viewTangToDet (2 * m) v tp).2 :=
  viewTangToDet_range m v tp hm hv ht

/-- … and (detectors → bin → detectors), up to the exchange the flag reports -/
theorem C01_det_vt_roundtrip (m d1 d2 : Int) (hm : 0 < m) (h1 : 0 ≤ d1 ∧ d1 < 2 * m) (h2 : 0 ≤ d2 ∧ d2 < 2 * m)
    (hne : d1 ≠ d2) :
    0 ≤ (detToViewTang (2 * m) d1 d2).1 ∧ (detToViewTang (2 * m) d1 d2).1 < m ∧
    -m < (detToViewTang (2 * m) d1 d2).2.1 ∧ (detToViewTang (2 * m) d1 d2).2.1 < m ∧
    viewTangToDet (2 * m) (detToViewTang (2 * m) d1 d2).1 (detToViewTang (2 * m) d1 d2).2.1 =
      (if (detToViewTang (2 * m) d1 d2).2.2 then (d1, d2) else (d2, d1)) :=
  det_vt_roundtrip m d1 d2 hm h1 h2 hne

theorem C01_swap_exchanges (m d1 d2 : Int) (hm : 0 < m) (h1 : 0 ≤ d1 ∧ d1 < 2 * m) (h2 : 0 ≤ d2 ∧ d2 < 2 * m)
    (hne : d1 ≠ d2) :
    detToViewTang (2 * m) d2 d1 =
      ((detToViewTang (2 * m) d1 d2).1, (detToViewTang (2 * m) d1 d2).2.1, !(detToViewTang (2 * m) d1 d2).2.2) :=
  swap_exchanges m d1 d2 hm h1 h2 hne

/-- ring pairs of one segment -/
theorem C01_mem_ringPairsOf_iff (R : Int) (s : Seg) (off a : Int) (hle : s.minRD ≤ s.maxRD) (hex : s.Exact off)
    (r1 r2 : Int) :
    (r1, r2) ∈ s.ringPairsOf R off a ↔
      (0 ≤ r1 ∧ r1 < R ∧ 0 ≤ r2 ∧ r2 < R ∧ s.minRD ≤ r2 - r1 ∧ r2 - r1 ≤ s.maxRD ∧ s.axOf off r1 r2 = a) :=
  Seg.mem_ringPairsOf_iff R s off a hle hex r1 r2

theorem C01_ringPairsOf_nodup (R : Int) (s : Seg) (off a : Int) : (s.ringPairsOf R off a).Nodup :=
  Seg.ringPairsOf_nodup R s off a

/-- **ring pairs are partitioned over (segment, axial position)** -/
theorem C01_ringpair_partition (g : Geom) (h : g.WFb = true) (r1 r2 : Int)
    (h1 : 0 ≤ r1 ∧ r1 < g.R) (h2 : 0 ≤ r2 ∧ r2 < g.R) (s a : Int) :
    g.segAxOfRingPair r1 r2 = some (s, a) ↔ (r1, r2) ∈ g.ringPairsOf s a :=
  Geom.ringpair_partition g h r1 r2 h1 h2 s a

theorem C01_covered_assigned (g : Geom) (h : g.WFb = true) (r1 r2 : Int)
    (h1 : 0 ≤ r1 ∧ r1 < g.R) (h2 : 0 ≤ r2 ∧ r2 < g.R)
    (hc : ∃ sg ∈ g.segs, sg.minRD ≤ r2 - r1 ∧ r2 - r1 ≤ sg.maxRD) :
    ∃ s a sg, g.segAxOfRingPair r1 r2 = some (s, a) ∧ g.seg? s = some sg ∧ 0 ≤ a ∧ a < sg.numAx :=
  Geom.covered_assigned g h r1 r2 h1 h2 hc

/-- **the pairs a bin reports are exactly the pairs assigned to it, with the reported count** -/
theorem C01_all_sound (g : Geom) (m : Int) (c : g.Cfg m) (b : Bin) (hb : g.binInRange m b) (p : DetPair)
    (hp : p ∈ g.allDetPairsForBin b) : g.binForDetPair p = some b ∧ p.valid g :=
  all_sound g m c b hb p hp

theorem C01_all_complete (g : Geom) (m : Int) (c : g.Cfg m) (b : Bin) (p : DetPair) (hp : p.valid g)
    (h : g.binForDetPair p = some b) :
    g.binInRange m b ∧ (p ∈ g.allDetPairsForBin b ∨ p.swapped ∈ g.allDetPairsForBin b) :=
  all_complete g m c b p hp h

theorem C01_all_nodup_count (g : Geom) (m : Int) (c : g.Cfg m) (b : Bin) (hb : g.binInRange m b) :
    (g.allDetPairsForBin b).Nodup ∧ (g.allDetPairsForBin b).length = g.numDetPairsForBin b :=
  all_nodup_count g m c b hb

/-- **exchanging the two detectors gives the same spatial bin with the TOF index negated** -/
theorem C01_swapped_same_bin (g : Geom) (m : Int) (c : g.Cfg m) (p : DetPair) (hp : p.valid g) (b : Bin)
    (h : g.binForDetPair p = some b) : g.binForDetPair p.swapped = some b :=
  swapped_same_bin g m c p hp b h

/-- **uncompressed data: the two maps are mutual inverses** -/
theorem C01_uncompressed_inverse (g : Geom) (m : Int) (c : g.Cfg m) (h1 : g.viewMash = 1) (ht : g.tofMash ≤ 1)
    (b : Bin) (hb : g.binInRange m b) (p : DetPair) (h : g.detPairForBin b = some p)
    (hr : 0 ≤ p.r1 ∧ p.r1 < g.R ∧ 0 ≤ p.r2 ∧ p.r2 < g.R) : g.binForDetPair p = some b :=
  uncompressed_inverse g m c h1 ht b hb p h hr

/-! ### the known finding: a last segment truncated to one ring difference of the wrong parity

`span = 3, max_delta = 2` on 4 rings: segment 1 is clipped to ring difference 2 only but keeps the
axial count of a compressed segment; ring pair (0,2) is assigned to (segment 1, axial position 0) while
every list of segment 1 is empty.  `WFb` is false for this table, so the theorems above do not apply;
the harness reports the class as a KNOWN-FINDING. -/

def witnessGeom : Geom :=
  { N := 16, R := 4, minSeg := -1,
    segs := [⟨-2, -2, 3⟩, ⟨-1, 1, 7⟩, ⟨2, 2, 3⟩], viewMash := 1, tofMash := 0 }

theorem C01_F3_witness_table : ctiSegments 3 2 4 = some (witnessGeom.minSeg, witnessGeom.segs) := by decide

theorem C01_F3_truncated_segment_not_partitioned :
    witnessGeom.WFb = false ∧ witnessGeom.segAxOfRingPair 0 2 = some (1, 0) ∧
      witnessGeom.segAxOfRingPair 1 3 = some (1, 1) ∧ (List.range 3).all (fun a => witnessGeom.ringPairsOf 1 a == []) = true := by decide

/-- non-vacuity: an ordinary compressed geometry satisfies the hypotheses of the theorems -/
example : ∃ g : Geom, ctiSegments 3 4 5 = some (g.minSeg, g.segs) ∧ g.Cfg 8 :=
  ⟨{ N := 16, R := 5, minSeg := -1, segs := [⟨-4, -2, 5⟩, ⟨-1, 1, 9⟩, ⟨2, 4, 5⟩], viewMash := 2, tofMash := 3 },
   by decide, { hN := by decide, hm := by decide, hmash := by decide, htof := by decide, wf := by decide }⟩

/-! ### the segment table built by `ProjDataInfo::ProjDataInfoCTI` satisfies the well-formedness hypothesis

`ctiDefect span max_delta R` (ProofsCTI.lean) is the decidable arithmetic condition
`1 < span ∧ span/2 < max_delta ∧ (max_delta - span/2 - 1) % span = 0 ∧ (R - 1 - max_delta) % 2 = 1`:
axial compression, the outermost segment clipped by `max_delta` to its first ring difference, and
`num_rings - 1 - max_delta` odd (the class of `C01_F3_truncated_segment_not_partitioned`). -/

/-- closed form of the table: segments `-n … n`; segment 0 is `[-span/2, span/2]`, segment `j+1` is
    `[span/2+1+j·span, min (span/2+(j+1)·span) max_delta]` with `R-(j+1)` (span 1) resp.
    `2R-1-2·minRD` axial positions, segment `-(j+1)` its mirror image; `n` is the least number with
    `max_delta ≤ span/2 + n·span`.  The arguments the constructor accepts satisfy
    `1 ≤ span`, `span/2 ≤ max_delta ≤ R-1`. -/
theorem C01_cti_table_shape (span maxDelta R minSeg : Int) (segs : List Seg)
    (h : ctiSegments span maxDelta R = some (minSeg, segs)) :
    (1 ≤ span ∧ span / 2 ≤ maxDelta ∧ maxDelta ≤ R - 1) ∧
    ∃ n : Nat, minSeg = -(n : Int) ∧
      segs = ((List.range n).map (ctiSegK span maxDelta R)).reverse.map Seg.mirror ++
        ctiSeg0 span R :: (List.range n).map (ctiSegK span maxDelta R) ∧
      (∀ j : Nat, j < n → span / 2 + (j : Int) * span < maxDelta) ∧
      maxDelta ≤ span / 2 + (n : Int) * span :=
  ctiSegments_shape span maxDelta R minSeg segs h

/-- **every segment table `ProjDataInfoCTI` builds outside the defect class is well-formed**, for all spans,
    maximal ring differences and numbers of rings (and any number of detectors, view / TOF mashing: `WFb` does
    not look at them) — so the ring-pair and bin theorems above apply to it -/
theorem C01_cti_WF (span maxDelta R minSeg : Int) (segs : List Seg)
    (h : ctiSegments span maxDelta R = some (minSeg, segs)) (hnd : ¬ ctiDefect span maxDelta R)
    (N viewMash tofMash : Int) :
    ({ N := N, R := R, minSeg := minSeg, segs := segs, viewMash := viewMash, tofMash := tofMash } : Geom).WFb = true :=
  cti_WF span maxDelta R minSeg segs h hnd _ rfl rfl

/-- … and the condition is exact: **inside the defect class the table is never well-formed** -/
theorem C01_cti_defect_not_WF (span maxDelta R minSeg : Int) (segs : List Seg)
    (h : ctiSegments span maxDelta R = some (minSeg, segs)) (hd : ctiDefect span maxDelta R)
    (N viewMash tofMash : Int) :
    ({ N := N, R := R, minSeg := minSeg, segs := segs, viewMash := viewMash, tofMash := tofMash } : Geom).WFb = false :=
  cti_not_WF_of_defect span maxDelta R minSeg segs h hd _ rfl rfl

/-- the constructed geometry is a configuration in the sense of the bin theorems -/
theorem C01_cti_Cfg (span maxDelta R minSeg : Int) (segs : List Seg)
    (h : ctiSegments span maxDelta R = some (minSeg, segs)) (hnd : ¬ ctiDefect span maxDelta R)
    (m viewMash tofMash : Int) (hm : 0 < m) (hmash : 0 < viewMash ∧ m % viewMash = 0)
    (htof : tofMash = 0 ∨ (0 < tofMash ∧ tofMash % 2 = 1)) :
    Geom.Cfg { N := 2 * m, R := R, minSeg := minSeg, segs := segs, viewMash := viewMash, tofMash := tofMash } m :=
  { hN := rfl, hm := hm, hmash := hmash, htof := htof,
    wf := cti_WF span maxDelta R minSeg segs h hnd _ rfl rfl }

/-- the witness of the known finding lies in the defect class … -/
example : ctiDefect 3 2 4 := by decide

/-- … while the same span and `max_delta` on 5 rings (last segment clipped to ring difference 2, right parity),
    span 3 / `max_delta` 4 on 5 rings, an even span (segment 0 = `[-1,1]`), and an even span with a clipped last
    segment (span 4, `max_delta` 5, 8 rings: segment 1 = `[3,5]`) are covered by the theorem -/
example : ∀ N vm tm : Int, (Geom.mk N 5 (-1) [⟨-2, -2, 5⟩, ⟨-1, 1, 9⟩, ⟨2, 2, 5⟩] vm tm).WFb = true :=
  C01_cti_WF 3 2 5 (-1) _ (by decide) (by decide)

example : ∀ N vm tm : Int, (Geom.mk N 5 (-1) [⟨-4, -2, 5⟩, ⟨-1, 1, 9⟩, ⟨2, 4, 5⟩] vm tm).WFb = true :=
  C01_cti_WF 3 4 5 (-1) _ (by decide) (by decide)

example : ∀ N vm tm : Int, (Geom.mk N 5 (-1) [⟨-3, -2, 5⟩, ⟨-1, 1, 9⟩, ⟨2, 3, 5⟩] vm tm).WFb = true :=
  C01_cti_WF 2 3 5 (-1) _ (by decide) (by decide)

example : ∀ N vm tm : Int, (Geom.mk N 8 (-1) [⟨-5, -3, 9⟩, ⟨-2, 2, 15⟩, ⟨3, 5, 9⟩] vm tm).WFb = true :=
  C01_cti_WF 4 5 8 (-1) _ (by decide) (by decide)

example : ∃ g : Geom, ctiSegments 2 3 5 = some (g.minSeg, g.segs) ∧ g.Cfg 8 :=
  ⟨{ N := 2 * 8, R := 5, minSeg := -1, segs := [⟨-3, -2, 5⟩, ⟨-1, 1, 9⟩, ⟨2, 3, 5⟩], viewMash := 2, tofMash := 3 },
   by decide, C01_cti_Cfg 2 3 5 (-1) _ (by decide) (by decide) 8 2 3 (by decide) (by decide) (by decide)⟩

end StirVerif.C01
