/-
C01 — executable model of the detector-pair ↔ bin bookkeeping of
`ProjDataInfoCylindricalNoArcCorr` / `ProjDataInfoCylindrical` / `ProjDataInfo::ProjDataInfoCTI` /
`ProjDataInfo::ProjDataInfoGE`, and of the sampling setters of `ProjDataInfoCylindrical` / `ProjDataInfo`
(`CylState`, end of the file).

Sources (pinned tree):
* interleaving tables: src/buildblock/ProjDataInfoCylindricalNoArcCorr.cxx:165 (`initialise_uncompressed_view_tangpos_to_det1det2`),
  :220 (`initialise_det1det2_to_uncompressed_view_tangpos`);
* `get_bin_for_det_pair`, `get_det_pos_pair_for_bin`, `get_bin_for_det_pos_pair`: src/include/stir/ProjDataInfoCylindricalNoArcCorr.inl:117-200;
* `get_all_det_pos_pairs_for_bin`, `get_num_det_pos_pairs_for_bin`: ProjDataInfoCylindricalNoArcCorr.cxx:318-375;
* ring-difference tables: src/buildblock/ProjDataInfoCylindrical.cxx:122 (`initialise_ring_diff_arrays`),
  :388 (`compute_segment_axial_pos_to_ring_pair`), src/include/stir/ProjDataInfoCylindrical.inl:218-262;
* segment tables: src/buildblock/ProjDataInfo.cxx:485 (`ProjDataInfoCTI`), :619 (`ProjDataInfoGE`);
* setters: src/buildblock/ProjDataInfoCylindrical.cxx:383-510 (`set_min/max_ring_difference`, `set_min/max_axial_pos_num`,
  `reduce_segment_range`), src/buildblock/ProjDataInfo.cxx:117-170, :331 (`set_num_views`, `set_num_tangential_poss`,
  `set_min/max_tangential_pos_num`, `reduce_segment_range`).

C semantics: `/`,`%` on possibly negative operands are `Int.tdiv`/`Int.tmod`; `>> 1` is floor division by 2
(the source asserts `-1 >> 1 == -1`), written `Int.fdiv · 2`.  32-bit overflow is not modelled.
The float computation of `m_offset`/`ax_pos_num_offset` is replaced by exact integer arithmetic, with the
"must be an integer" check of the source as an `Option`.
Core Lean only.
-/
namespace StirVerif.C01

/-- arithmetic shift right by one -/
def shr1 (x : Int) : Int := Int.fdiv x 2

/-! ## transaxial part: view / tangential position ↔ detector pair (uncompressed) -/

/-- `uncompressed_view_tangpos_to_det1det2[v][tp]` -/
def viewTangToDet (N v tp : Int) : Int × Int :=
  ((v + shr1 tp + N).tmod N, (v - shr1 (tp + 1) + N.tdiv 2).tmod N)

/-- `det1det2_to_uncompressed_view_tangpos[d1][d2]`: (view, tang, flag) where the flag is the value
    *returned* by `get_view_tangential_pos_num_for_det_num_pair` (`true` = detectors not swapped) -/
def detToViewTang (N d1 d2 : Int) : Int × Int × Bool :=
  let half := N.tdiv 2
  let tang := (d1 - d2 + (3 * N).tdiv 2).tmod N
  let view := (d1 - shr1 tang + N).tmod N
  if view < half then
    if tang ≥ half then (view, N - tang, false) else (view, tang, true)
  else
    if tang ≥ half then (view - half, tang - N, true) else (view - half, -tang, false)

/-! ## axial part: ring pair ↔ (segment, axial position) -/

structure Seg where
  minRD : Int
  maxRD : Int
  numAx : Int        -- axial positions 0 … numAx-1
  deriving Repr, DecidableEq, Inhabited

/-- `get_num_axial_poss_per_ring_inc` -/
def Seg.inc (s : Seg) : Int := if s.maxRD != s.minRD then 2 else 1

/-- `ax_pos_num_offset[segment]` = `(num_rings-1) - 2*m_offset/ring_spacing` with
    `m_offset = (max_ax+min_ax)*ring_spacing/inc/2`, i.e. `(R-1) - (numAx-1)/inc`; the source calls
    `error` when this is not an integer (Cylindrical geometry): `none`. -/
def Seg.axOff (R : Int) (s : Seg) : Option Int :=
  if (s.numAx - 1).tmod s.inc != 0 then none else some ((R - 1) - (s.numAx - 1).tdiv s.inc)

/-- `segment_axial_pos_to_ring1_plus_ring2[s][a]` (given the offset) -/
def Seg.ringSum (s : Seg) (off a : Int) : Int := (2 * a).tdiv s.inc + off

/-- axial position computed by `get_segment_axial_pos_num_for_ring_pair` (no range check in the source) -/
def Seg.axOf (s : Seg) (off r1 r2 : Int) : Int := ((r1 + r2 - off) * s.inc).tdiv 2

/-- `compute_segment_axial_pos_to_ring_pair`: the loop `for (rd = start; rd <= maxRD; rd += 2)` -/
def Seg.ringPairsOf (R : Int) (s : Seg) (off a : Int) : List (Int × Int) :=
  let sum := s.ringSum off a
  let start := s.minRD + (s.minRD + sum).tmod 2
  let cnt := if start > s.maxRD then 0 else ((s.maxRD - start) / 2).toNat + 1
  (List.range cnt).filterMap fun (k : Nat) =>
    let rd := start + 2 * (k : Int)
    let r1 := (sum - rd).tdiv 2
    let r2 := (sum + rd).tdiv 2
    if r1 < 0 ∨ r2 < 0 ∨ r1 ≥ R ∨ r2 ≥ R then none else some (r1, r2)

/-- `ProjDataInfoCTI`: ring-difference ranges and axial counts of segments `0, 1, …` (positive side);
    `none` for the argument combinations the source rejects with `error`. -/
def ctiPositive (span maxDelta R : Int) : Option (List Seg) :=
  if maxDelta > R - 1 ∨ span < 1 ∨ span > 2 * R - 1 ∨ maxDelta < span.tdiv 2 then none
  else
    let min0 := if span.tmod 2 == 1 then -((span - 1).tdiv 2) else -(span.tdiv 2)
    let max0 := if span.tmod 2 == 1 then min0 + span - 1 else min0 + span
    -- while (RDmax[seg] < max_delta) { seg++; RDmin[seg] = RDmax[seg-1]+1; RDmax[seg] = RDmin[seg]+span-1; }
    let rec go (fuel : Nat) (acc : List (Int × Int)) (curMax : Int) : List (Int × Int) :=
      match fuel with
      | 0 => acc
      | fuel + 1 =>
        if curMax < maxDelta then go fuel (acc ++ [(curMax + 1, curMax + span)]) (curMax + span) else acc
    let ranges := go R.toNat [(min0, max0)] max0
    -- "check if we went one too far": the last max is clipped to max_delta
    let ranges := match ranges.getLast? with
      | some (lo, hi) => if hi > maxDelta then ranges.dropLast ++ [(lo, maxDelta)] else ranges
      | none => ranges
    some (ranges.mapIdx fun i (lo, hi) =>
      { minRD := lo, maxRD := hi,
        numAx := if span == 1 then R - i else if i == 0 then 2 * R - 1 else 2 * R - 1 - 2 * lo })

/-- the full segment table `-k … k` (segment `-i` mirrors segment `i`) -/
def ctiSegments (span maxDelta R : Int) : Option (Int × List Seg) :=
  (ctiPositive span maxDelta R).map fun pos =>
    let neg := (pos.drop 1).reverse.map fun s => { s with minRD := -s.maxRD, maxRD := -s.minRD }
    (-(pos.length - 1 : Int), neg ++ pos)

structure Geom where
  N : Int                 -- detectors per ring (even)
  R : Int                 -- rings
  minSeg : Int
  segs : List Seg         -- segment `minSeg + k` is `segs[k]`
  viewMash : Int          -- N/2/num_views
  tofMash : Int           -- 0: non-TOF
  deriving Repr

def Geom.seg? (g : Geom) (s : Int) : Option Seg :=
  if s < g.minSeg then none else g.segs[(s - g.minSeg).toNat]?

def Geom.maxSeg (g : Geom) : Int := g.minSeg + g.segs.length - 1

/-- `get_segment_num_for_ring_difference`: first segment (in increasing order) whose range contains `rd`;
    also the preliminary range test against the outermost segments -/
def Geom.segOfRingDiff (g : Geom) (rd : Int) : Option Int :=
  match g.segs.getLast?, g.segs.head? with
  | some last, some first =>
    if rd > last.maxRD ∨ rd < first.minRD then none
    else
      (g.segs.findIdx? fun s => rd ≥ s.minRD && rd ≤ s.maxRD).map fun k => g.minSeg + k
  | _, _ => none

/-- `get_segment_axial_pos_num_for_ring_pair` -/
def Geom.segAxOfRingPair (g : Geom) (r1 r2 : Int) : Option (Int × Int) := do
  let s ← g.segOfRingDiff (r2 - r1)
  let sg ← g.seg? s
  let off ← sg.axOff g.R
  pure (s, sg.axOf off r1 r2)

/-- `get_all_ring_pairs_for_segment_axial_pos_num` -/
def Geom.ringPairsOf (g : Geom) (s a : Int) : List (Int × Int) :=
  match g.seg? s with
  | none => []
  | some sg =>
    match sg.axOff g.R with
    | none => []
    | some off => sg.ringPairsOf g.R off a

structure Bin where
  seg : Int
  view : Int
  ax : Int
  tang : Int
  tof : Int
  deriving Repr, DecidableEq, Inhabited

structure DetPair where
  d1 : Int
  r1 : Int
  d2 : Int
  r2 : Int
  t : Int          -- unmashed TOF index
  deriving Repr, DecidableEq, Inhabited

/-- `stir::round(float)` on the quotient `t / mash` (round half away from zero) for integer `t`, odd or even `mash > 0` -/
def roundDiv (t mash : Int) : Int :=
  if t ≥ 0 then (2 * t + mash).tdiv (2 * mash) else -((2 * (-t) + mash).tdiv (2 * mash))

/-- `get_bin_for_det_pos_pair` → `get_bin_for_det_pair` -/
def Geom.binForDetPair (g : Geom) (p : DetPair) : Option Bin :=
  let t := if g.tofMash == 0 then 0 else roundDiv p.t g.tofMash
  let (v, tp, keep) := detToViewTang g.N p.d1 p.d2
  let view := v.tdiv g.viewMash
  if keep then
    (g.segAxOfRingPair p.r1 p.r2).map fun (s, a) => ⟨s, view, a, tp, t⟩
  else
    (g.segAxOfRingPair p.r2 p.r1).map fun (s, a) => ⟨s, view, a, tp, -t⟩

/-- `get_all_det_pos_pairs_for_bin` (with `ignore_non_spatial_dimensions = false`) -/
def Geom.allDetPairsForBin (g : Geom) (b : Bin) : List DetPair :=
  let tmin := b.tof * g.tofMash - g.tofMash.tdiv 2
  let tmax := b.tof * g.tofMash + g.tofMash.tdiv 2
  let ts : List Int := (List.range (tmax - tmin + 1).toNat).map fun (k : Nat) => tmin + (k : Int)
  let views : List Int := (List.range g.viewMash.toNat).map fun (k : Nat) => b.view * g.viewMash + (k : Int)
  views.flatMap fun uv =>
    let (d1, d2) := viewTangToDet g.N uv b.tang
    (g.ringPairsOf b.seg b.ax).flatMap fun (r1, r2) =>
      ts.map fun t => ⟨d1, r1, d2, r2, t⟩

/-- `get_num_det_pos_pairs_for_bin` -/
def Geom.numDetPairsForBin (g : Geom) (b : Bin) : Nat :=
  (g.ringPairsOf b.seg b.ax).length * g.viewMash.toNat * (max 1 g.tofMash).toNat

/-- `get_det_pos_pair_for_bin` (uncompressed data only; `none` when the source calls `error`) -/
def Geom.detPairForBin (g : Geom) (b : Bin) : Option DetPair := do
  let sg ← g.seg? b.seg
  if sg.minRD != sg.maxRD then none
  let off ← sg.axOff g.R
  let sum := sg.ringSum off b.ax
  let r1 := (sum - sg.maxRD).tdiv 2
  let r2 := (sum + sg.maxRD).tdiv 2
  let (d1, d2) := viewTangToDet g.N b.view b.tang
  let t := b.tof.natAbs * g.tofMash
  if b.tof ≥ 0 then pure ⟨d1, r1, d2, r2, t⟩ else pure ⟨d2, r2, d1, r1, t⟩

/-! ## well-formedness of a segment table (hypothesis of the ring-pair theorems; evaluated by the driver) -/

/-- the arithmetic condition under which the axial position of a single-ring-difference segment is exact
    (otherwise the source only prints "LORs shifted with respect to the physical rings") -/
def Seg.Exact (s : Seg) (off : Int) : Prop := s.minRD = s.maxRD → (s.minRD - off) % 2 = 0

/-- decidable well-formedness of a geometry's segment table: ranges are non-empty and pairwise disjoint,
    offsets are integers, single-ring-difference segments are exact, every ring pair of a covered ring
    difference gets an axial position inside the segment's range, and (last clause) the first segment has the
    smallest `minRD` and the last segment the largest `maxRD`.

    The last clause is needed because `segOfRingDiff` (like the source) first tests `rd` against the *last*
    segment's `maxRD` and the *first* segment's `minRD` only: without it the table
    `[⟨5,6,13⟩, ⟨0,1,13⟩]` on 7 rings satisfies the other clauses, lists ring pair `(0,5)` for `(0,5)`, but
    `segAxOfRingPair 0 5 = none`. -/
def Geom.WFb (g : Geom) : Bool :=
  g.segs.all (fun s => decide (s.minRD ≤ s.maxRD)) &&
  (List.range g.segs.length).all (fun i => (List.range g.segs.length).all fun j =>
    i == j || (match g.segs[i]?, g.segs[j]? with
      | some a, some b => decide (a.maxRD < b.minRD ∨ b.maxRD < a.minRD)
      | _, _ => true)) &&
  g.segs.all (fun s => match s.axOff g.R with
    | none => false
    | some off =>
      (s.minRD != s.maxRD || (s.minRD - off) % 2 == 0) &&
      (List.range g.R.toNat).all fun r1 => (List.range g.R.toNat).all fun r2 =>
        let rd := (r2 : Int) - (r1 : Int)
        !(s.minRD ≤ rd && rd ≤ s.maxRD) || (0 ≤ s.axOf off r1 r2 && s.axOf off r1 r2 < s.numAx)) &&
  (match g.segs.head?, g.segs.getLast? with
    | some first, some last =>
      g.segs.all fun s => decide (first.minRD ≤ s.minRD) && decide (s.maxRD ≤ last.maxRD)
    | _, _ => true)

/-- `WFb` without the clause "every ring pair of a covered ring difference gets an axial position inside the
    segment's range": what the ring-pair ↔ (segment, axial position) equivalence and the bin theorems actually
    use (`Geom.WFp_of_WFb`, ProofsAxial.lean).  After `set_min_axial_pos_num` / `set_max_axial_pos_num` /
    `set_max_ring_difference` the range clause is false by design (positions were cut off) while this part
    still holds. -/
def Geom.WFp (g : Geom) : Bool :=
  g.segs.all (fun s => decide (s.minRD ≤ s.maxRD)) &&
  (List.range g.segs.length).all (fun i => (List.range g.segs.length).all fun j =>
    i == j || (match g.segs[i]?, g.segs[j]? with
      | some a, some b => decide (a.maxRD < b.minRD ∨ b.maxRD < a.minRD)
      | _, _ => true)) &&
  g.segs.all (fun s => match s.axOff g.R with
    | none => false
    | some off => (s.minRD != s.maxRD || (s.minRD - off) % 2 == 0)) &&
  (match g.segs.head?, g.segs.getLast? with
    | some first, some last =>
      g.segs.all fun s => decide (first.minRD ≤ s.minRD) && decide (s.maxRD ≤ last.maxRD)
    | _, _ => true)

/-! ## `ProjDataInfo::ProjDataInfoGE` (src/buildblock/ProjDataInfo.cxx:619): the "mixed span" table -/

/-- segment `j+1` of `ProjDataInfoGE`: the single ring difference `j+2`, `num_rings - (j+1) - 1` axial positions -/
def geSegK (R : Int) (j : Nat) : Seg := ⟨(j : Int) + 2, (j : Int) + 2, R - (j : Int) - 2⟩

/-- segment 0 of `ProjDataInfoGE`: ring differences -1, 0, 1 and `2*num_rings-1` axial positions -/
def geSeg0 (R : Int) : Seg := ⟨-1, 1, 2 * R - 1⟩

/-- `ProjDataInfoGE(scanner, max_delta, …)`: segments `-(max_delta-1) … max_delta-1`; `none` when the source calls
    `error` (`max_delta < 1`).  No other argument check exists in the source (in particular none against the
    number of rings). -/
def geSegments (maxDelta R : Int) : Option (Int × List Seg) :=
  if maxDelta < 1 then none
  else
    let n := (maxDelta - 1).toNat
    let pos := (List.range n).map (geSegK R)
    let neg := pos.reverse.map fun s => { s with minRD := -s.maxRD, maxRD := -s.minRD }
    some (-(n : Int), neg ++ geSeg0 R :: pos)

/-! ## sampling changed after construction (`reduce_segment_range`, `set_min/max_ring_difference`,
`set_min/max_axial_pos_num`, `set_min/max_tangential_pos_num`, `set_num_tangential_poss`, `set_num_views`)

The setters of `ProjDataInfoCylindrical` (src/buildblock/ProjDataInfoCylindrical.cxx:383-510) only store the
new value and clear `ring_diff_arrays_computed`; the next query rebuilds `m_offset`, `ax_pos_num_offset`,
`ring_diff_to_segment_num` and the ring-pair lists from the stored ranges (`initialise_ring_diff_arrays`, :122).
The tangential setters (`ProjDataInfo.cxx:124,161,167`) touch nothing else: the detector tables always cover
the full tangential range. -/

/-- the stored sampling of one segment -/
structure AxSeg where
  minRD : Int
  maxRD : Int
  minAx : Int
  maxAx : Int
  deriving Repr, DecidableEq, Inhabited

/-- `m_offset[s] = (max_ax + min_ax) * axial_sampling / 2`: only the SUM of the axial range enters the offset
    `ax_pos_num_offset[s] = (R-1) - (max_ax+min_ax)/inc`, i.e. the tables of the segment are those of a
    0-based segment with `max_ax + min_ax + 1` axial positions (`Seg.axOff`). -/
def AxSeg.seg (s : AxSeg) : Seg := ⟨s.minRD, s.maxRD, s.maxAx + s.minAx + 1⟩

/-- a freshly constructed segment: axial positions `0 … numAx-1` (`set_num_axial_poss_per_segment`) -/
def AxSeg.ofSeg (s : Seg) : AxSeg := ⟨s.minRD, s.maxRD, 0, s.numAx - 1⟩

structure CylState where
  N : Int
  R : Int
  minSeg : Int
  segs : List AxSeg
  viewMash : Int
  tofMash : Int
  minTang : Int
  maxTang : Int
  deriving Repr

/-- the geometry all look-ups use (`Geom.segAxOfRingPair`, `Geom.ringPairsOf`, `Geom.binForDetPair`, …) -/
def CylState.geom (c : CylState) : Geom :=
  { N := c.N, R := c.R, minSeg := c.minSeg, segs := c.segs.map AxSeg.seg, viewMash := c.viewMash, tofMash := c.tofMash }

def CylState.ofGeom (g : Geom) (minTang maxTang : Int) : CylState :=
  { N := g.N, R := g.R, minSeg := g.minSeg, segs := g.segs.map AxSeg.ofSeg, viewMash := g.viewMash, tofMash := g.tofMash,
    minTang := minTang, maxTang := maxTang }

def CylState.seg? (c : CylState) (s : Int) : Option AxSeg :=
  if s < c.minSeg then none else c.segs[(s - c.minSeg).toNat]?

/-- `ProjDataInfoCylindrical::reduce_segment_range(lo, hi)` (the source only asserts `minSeg ≤ lo`, `hi ≤ maxSeg`) -/
def CylState.reduceSegmentRange (c : CylState) (lo hi : Int) : CylState :=
  { c with minSeg := lo, segs := (c.segs.drop (lo - c.minSeg).toNat).take (hi - lo + 1).toNat }

def CylState.modSeg (c : CylState) (s : Int) (f : AxSeg → AxSeg) : CylState :=
  if s < c.minSeg then c
  else { c with segs := c.segs.mapIdx fun i x => if i == (s - c.minSeg).toNat then f x else x }

def CylState.setMinRD (c : CylState) (s v : Int) : CylState := c.modSeg s fun x => { x with minRD := v }
def CylState.setMaxRD (c : CylState) (s v : Int) : CylState := c.modSeg s fun x => { x with maxRD := v }
def CylState.setMinAx (c : CylState) (s v : Int) : CylState := c.modSeg s fun x => { x with minAx := v }
def CylState.setMaxAx (c : CylState) (s v : Int) : CylState := c.modSeg s fun x => { x with maxAx := v }

/-- `ProjDataInfo::set_num_tangential_poss` -/
def CylState.setNumTang (c : CylState) (n : Int) : CylState :=
  { c with minTang := -(n.tdiv 2), maxTang := -(n.tdiv 2) + n - 1 }

/-- `initialise_ring_diff_arrays` calls `error`: some `min_ring_diff > max_ring_diff`, or (Cylindrical
    geometry) an axial offset that is not an integer -/
def CylState.initErr (c : CylState) : Bool :=
  c.segs.any (fun s => decide (s.minRD > s.maxRD)) || c.segs.any fun s => (s.seg.axOff c.R).isNone

/-- `get_segment_axial_pos_num_for_ring_pair` on the changed sampling: `get_segment_num_for_ring_difference`
    tests the ring difference against the outermost segments BEFORE the lazy tables are (re)built, so a ring
    difference outside that range is `Succeeded::no` even when the rebuild would call `error`. -/
def CylState.segAxOfRingPair (c : CylState) (r1 r2 : Int) : Except Unit (Option (Int × Int)) :=
  match c.segs.getLast?, c.segs.head? with
  | some last, some first =>
    if r2 - r1 > last.maxRD ∨ r2 - r1 < first.minRD then .ok none
    else if c.initErr then .error ()
    else .ok (c.geom.segAxOfRingPair r1 r2)
  | _, _ => .ok none

/-- a bin of the current sampling (segment, axial and tangential position, view inside the stored ranges) -/
def CylState.inRange (c : CylState) (b : Bin) : Bool :=
  match c.seg? b.seg with
  | none => false
  | some s => decide (s.minAx ≤ b.ax ∧ b.ax ≤ s.maxAx ∧ c.minTang ≤ b.tang ∧ b.tang ≤ c.maxTang ∧
      0 ≤ b.view ∧ b.view * c.viewMash < c.N.tdiv 2)

/-- `get_all_det_pos_pairs_for_bin(dps, bin, ignore_non_spatial_dimensions = true)`: one entry (timing position 0)
    per unmashed view and ring pair -/
def Geom.spatialDetPairsForBin (g : Geom) (b : Bin) : List DetPair :=
  let views : List Int := (List.range g.viewMash.toNat).map fun (k : Nat) => b.view * g.viewMash + (k : Int)
  views.flatMap fun uv =>
    let (d1, d2) := viewTangToDet g.N uv b.tang
    (g.ringPairsOf b.seg b.ax).map fun (r1, r2) => ⟨d1, r1, d2, r2, 0⟩

/-- `get_num_det_pos_pairs_for_bin(bin, ignore_non_spatial_dimensions = true)` -/
def Geom.numSpatialDetPairsForBin (g : Geom) (b : Bin) : Nat :=
  (g.ringPairsOf b.seg b.ax).length * g.viewMash.toNat

end StirVerif.C01
