/-
C18 — "Multi-threaded execution gives the single-thread result under every schedule".
What is a theorem here is the *protocol level*: the synchronisation patterns of the library, transcribed as
interleaving semantics in `Model.lean`, are safe for every number of threads and every schedule.  What the
OpenMP runtime and the hardware do is not a theorem (see the check's exploration part).
-/
import StirVerif.C18.Proofs
import StirVerif.C18.ProofsRethread
import StirVerif.C18.ProofsCacheComplete

namespace StirVerif.C18

theorem C18_dcl_safe (K n : Nat) (sched : List Nat) :
    (Dcl.run K (Dcl.init n) sched).sawIncomplete = false ∧
    (Dcl.run K (Dcl.init n) sched).builds ≤ 1 ∧
    ((Dcl.run K (Dcl.init n) sched).flag = true → (Dcl.run K (Dcl.init n) sched).cells = K) :=
  dcl_safe K n sched

theorem C18_dcl_no_deadlock (K n : Nat) (sched : List Nat)
    (h : (Dcl.run K (Dcl.init n) sched).allDone = false) :
    ∃ t, t < n ∧ ((Dcl.run K (Dcl.init n) sched).step K t).isSome = true :=
  dcl_no_deadlock K n sched h

theorem C18_dcl_built_once_when_done (K n : Nat) (sched : List Nat) (hn : 0 < n)
    (h : (Dcl.run K (Dcl.init n) sched).allDone = true) :
    (Dcl.run K (Dcl.init n) sched).builds = 1 ∧ (Dcl.run K (Dcl.init n) sched).cells = K :=
  dcl_built_once_when_done K n sched hn h

/-- "the system-matrix cache may be used concurrently from the first call on, without lost or duplicated contributions":
    every row handed out and every row stored is the row of its key, for every schedule.  The requests come from the
    projectors' parallel loops and — exercised by the check since the list-mode scenarios were added — from the event loop of
    `LM_distributable_computation`.  The model has find / compute / insert only: `clear_cache()` running at the same time is
    NOT covered by this theorem (in the code it does not take the locks this model assumes; see the check's `clear_cache`
    scenario and its finding). -/
theorem C18_cache_returns_spec (spec : Nat → Int) (reqs : List (List Nat)) (sched : List Nat) :
    (∀ e ∈ (Cache.run spec (Cache.init reqs) sched).returned, e.2.2 = spec e.2.1) ∧
    (∀ e ∈ (Cache.run spec (Cache.init reqs) sched).store, e.2 = spec e.1) :=
  cache_returns_spec spec reqs sched

/-- "without lost or duplicated contributions", the other half: under every schedule and at every moment the requests a
    thread has been answered are an initial part of the requests it made, in the order it made them — no row request is
    answered twice, skipped or overtaken, however the other threads' finds, computations and inserts are interleaved
    (same model and same exclusion of a concurrent `clear_cache()` as `C18_cache_returns_spec`). -/
theorem C18_cache_answers_in_order (spec : Nat → Int) (reqs : List (List Nat)) (sched : List Nat) (u : Nat)
    (hu : u < reqs.length) :
    ∃ rest, reqs[u]? = some ((Cache.run spec (Cache.init reqs) sched).answered u ++ rest) :=
  cache_answers_prefix spec reqs sched u hu

/-- a thread that has come to the end of its loop has been answered exactly its requests, each once -/
theorem C18_cache_all_answered (spec : Nat → Int) (reqs : List (List Nat)) (sched : List Nat) (u : Nat)
    (hf : (Cache.run spec (Cache.init reqs) sched).threadFinished u = true) :
    reqs[u]? = some ((Cache.run spec (Cache.init reqs) sched).answered u) :=
  cache_all_answered_when_finished spec reqs sched u hf

/-- "… or deadlock": in every state of the cache protocol (reachable or not) a thread that has requests left can take its
    next step; the locks are only held inside the atomic `find` / `insert` steps, so no thread ever waits for another -/
theorem C18_cache_never_blocked (spec : Nat → Int) (s : Cache) (u : Nat) (hu : u < s.pcs.length)
    (hf : s.threadFinished u = false) : (s.step spec u).isSome = true :=
  cache_never_blocked spec s u hu hf

/-- non-vacuity: two threads asking for the same two rows in opposite order both finish, each answered in its own order -/
example :
    let s := Cache.run (fun k => (k : Int)) (Cache.init [[1, 2], [2, 1]]) [0, 1, 0, 1, 0, 1, 0, 1, 0, 1, 0, 1, 0, 1]
    s.threadFinished 0 = true ∧ s.threadFinished 1 = true ∧ s.answered 0 = [1, 2] ∧ s.answered 1 = [2, 1] := by
  decide

/-- a broken variant for comparison: a `find` that, on a miss, waits for "whoever is computing the row" instead of computing
    it itself loses the request when nobody is (the thread goes straight to its next request) -/
def Cache.stepSkipOnMiss (spec : Nat → Int) (s : Cache) (t : Nat) : Option Cache :=
  match s.pcs[t]? with
  | some (todo, .find k) =>
    match s.store.lookup k with
    | some _ => s.step spec t
    | none => some { s with pcs := s.pcs.set t (todo, .ret 0) }
  | _ => s.step spec t

def Cache.runSkipOnMiss (spec : Nat → Int) (s : Cache) : List Nat → Cache
  | [] => s
  | t :: ts => Cache.runSkipOnMiss spec ((s.stepSkipOnMiss spec t).getD s) ts

theorem C18_cache_skip_on_miss_loses_requests :
    let s := Cache.runSkipOnMiss (fun k => (k : Int)) (Cache.init [[1, 2]]) [0, 0, 0, 0, 0, 0]
    s.threadFinished 0 = true ∧ s.answered 0 = [] := by
  decide

/-- the trace validator that ties the per-thread request machine to the recorded events accepts a racing double computation
    (two threads miss the same key, both insert, the second insert finds the entry present) … -/
example : validateCacheProtocol [⟨0, "pm.cache.find", 7, 0⟩, ⟨1, "pm.cache.find", 7, 0⟩, ⟨0, "pm.cache.insert", 7, 0⟩,
    ⟨1, "pm.cache.insert", 7, 1⟩, ⟨0, "pm.cache.find", 7, 1⟩] = none := by decide
/-- … and rejects a request abandoned after a miss, an insert without a miss, and a miss that is never followed by an insert -/
example : (validateCacheProtocol [⟨0, "pm.cache.find", 7, 0⟩, ⟨0, "pm.cache.find", 8, 1⟩, ⟨0, "pm.cache.find", 9, 0⟩]).isSome = true := by decide
example : (validateCacheProtocol [⟨0, "pm.cache.insert", 7, 0⟩]).isSome = true := by decide
example : (validateCacheProtocol [⟨0, "pm.cache.find", 7, 0⟩]).isSome = true := by decide

/-- "up to floating-point reassociation of the per-thread partial sums … without lost or duplicated contributions":
    whatever thread each work item is given to, the sum over the threads of the per-thread sums is the sum over the items.
    The same pattern (per-thread accumulator indexed by `omp_get_thread_num()`, sequential reduction afterwards) is
    `BackProjectorByBin::get_output`, the `local_log_likelihoods` of `distributable_computation`, and — exercised by the
    check since the list-mode scenarios were added — the `local_output_image_sptrs` / `local_double_outs` of
    `LM_distributable_computation` (distributable.txx:76-143). -/
theorem C18_reduction_any_assignment (n : Nat) (owner : Nat → Nat) (items : List Nat) (f : Nat → Int)
    (h : ∀ i ∈ items, owner i < n) : reduceResult n owner items f = (items.map f).sum :=
  reduction_any_assignment n owner items f h

/-- non-vacuity: a schedule in which three threads race for a 2-cell table and all finish -/
example : (Dcl.run 2 (Dcl.init 3) [0, 1, 2, 1, 1, 0, 1, 1, 1, 1, 1, 1, 0, 0, 0, 0, 2, 2, 2, 2, 2]).allDone = true := by decide

/-- a broken variant for comparison: without the re-check inside the critical section two builds happen
    (this is what the second `if (!flag)` protects against) -/
def Dcl.stepNoRecheck (K : Nat) (s : Dcl) (t : Nat) : Option Dcl :=
  match s.pcs[t]? with
  | some .checkIn => some { s with builds := s.builds + 1, cells := 0, pcs := s.pcs.set t (.build 0) }
  | _ => s.step K t

def Dcl.runNoRecheck (K : Nat) (s : Dcl) : List Nat → Dcl
  | [] => s
  | t :: ts => Dcl.runNoRecheck K ((Dcl.stepNoRecheck K s t).getD s) ts

theorem C18_recheck_is_needed :
    (Dcl.runNoRecheck 1 (Dcl.init 2) [0, 1, 0, 0, 0, 0, 0, 0, 1, 1, 1]).builds = 2 := by decide

/-! ### state that outlives a parallel pass: thread-count changes on live objects -/

/-- "back projection of whole data sets, … gradient, sensitivity and Hessian products … give, for any number of threads …,
    the result of the single-threaded computation … without lost or duplicated contributions", for an object that is used
    again: in WHATEVER state the per-thread images of a back projector are (i.e. after any history of passes with any numbers of
    threads and any repeated `set_up`), a pass in which every participating thread has a slot returns exactly the sum of the
    contributions of that pass — nothing of an earlier pass, nothing of a thread that no longer runs. -/
theorem C18_accum_pass_any_state (a : Accum) (work : List (Nat × Int)) (h : ∀ w ∈ work, w.1 < a.slots.length) :
    ∃ a', a.pass work = some a' ∧ a'.output = (work.map (·.2)).sum :=
  let ⟨a', e, o, _⟩ := accum_pass_sum a work h
  ⟨a', e, o⟩

/-- the same after `set_up` with `n` threads (the call that re-sizes the vector of per-thread images): any `m ≤ n` threads -/
theorem C18_accum_after_setUp (a : Accum) (n m : Nat) (work : List (Nat × Int)) (hm : m ≤ n) (h : ∀ w ∈ work, w.1 < m) :
    ∃ a', (a.setUp n).pass work = some a' ∧ a'.output = (work.map (·.2)).sum :=
  C18_accum_pass_any_state (a.setUp n) work (by
    intro w hw
    rw [accum_setUp_length]
    exact Nat.lt_of_lt_of_le (h w hw) hm)

/-- every state reached by a history of `set_up`s and passes is covered by the two theorems above (they hold for all states) -/
example (h : List AccOp) (a : Accum) (_ : Accum.new.run h = some a) (work : List (Nat × Int))
    (hw : ∀ w ∈ work, w.1 < a.slots.length) : ∃ a', a.pass work = some a' ∧ a'.output = (work.map (·.2)).sum :=
  C18_accum_pass_any_state a work hw

/-- non-vacuity: set up with 3 threads, a pass by 3 threads, then a pass by 2 threads: 8 + 16 and nothing else -/
example : (((Accum.new.setUp 3).pass [(0, 1), (1, 2), (2, 4)]).bind (·.pass [(0, 8), (1, 16)])).map (·.output) = some 24 := by
  decide

/-- more threads than slots is outside the model's defined behaviour (the C++ indexes the vector unchecked) -/
example : (Accum.new.setUp 2).pass [(0, 1), (5, 2)] = none := by decide

def Accum.passFirst (a : Accum) (m : Nat) (work : List (Nat × Int)) : Option Accum := (a.startFirst m).addAll work

/-- a broken variant for comparison: zeroing only the images of the threads that can take part in the next pass is wrong as
    soon as the number of threads goes down (3 threads, then 1: the old contributions 2 and 4 of threads 1 and 2 come back) -/
theorem C18_partial_reset_is_wrong :
    (((Accum.new.setUp 3).pass [(0, 1), (1, 2), (2, 4)]).bind (·.passFirst 1 [(0, 8)])).map (·.output) = some 14 := by
  decide

/-! ### scatter simulation: caches indexed by detector numbers given in order of first use -/

/-- "scatter simulation give[s], for any number of threads and any interleaving of the threads, the result of the
    single-threaded computation": the detectors are numbered in the order in which the threads meet them and the caches are
    indexed by that number; for every order of the requests (every schedule) and every number of
    `set_template_proj_data_info` calls in between, every request is answered with the value of the detector asked for. -/
theorem C18_scatter_cache_any_order (spec : Nat → Nat → Int) (ops : List ScOp) :
    ScCache.run spec ScCache.init ops =
      ops.filterMap fun o => match o with | .get sp d => some (spec sp d) | .setTemplate => none :=
  sc_run spec ops ScCache.init (scInv_init spec)

/-- non-vacuity: two detectors met in one order, the template set again, met in the other order -/
example : ScCache.run (fun sp d => 10 * sp + d) ScCache.init [.get 1 5, .get 1 7, .setTemplate, .get 1 7, .get 1 5] = [15, 17, 17, 15] := by
  decide

/-- a broken variant for comparison: forgetting the numbering but keeping the caches answers with the value of another
    detector as soon as the detectors are met in another order (which only happens with more than one thread) -/
theorem C18_scatter_cache_kept_is_wrong :
    ScCache.runKeepCache (fun sp d => 10 * sp + d) ScCache.init [.get 1 5, .get 1 7, .setTemplate, .get 1 7, .get 1 5] = [15, 17, 15, 17] := by
  decide

/-! ### number of threads -/

/-- `stir::set_num_threads(n)`, `n ≥ 1`: from then on `get_max_num_threads()` is `n` -/
theorem C18_set_num_threads (s : NumThreads) (n d : Int) (h : 0 < n) :
    s.set n d = some { alreadySetOnce := true, maxThreads := n } := by
  have h0 : (n == 0) = false := by
    simp only [beq_eq_false_iff_ne, ne_eq]
    omega
  simp only [NumThreads.set, h0, ompSetNumThreads]
  simp [h]

/-- `stir::set_num_threads()` after any earlier call keeps the number of threads -/
theorem C18_set_num_threads_zero_keeps (s : NumThreads) (d : Int) (h : s.alreadySetOnce = true) : s.set 0 d = some s := by
  simp [NumThreads.set, h]

/-- the first `set_num_threads()` takes the default (`OMP_NUM_THREADS`, else 90 % of the processors, at least 2) -/
example : (NumThreads.set ⟨false, 16⟩ 0 (getDefaultNumThreads 16 none)) = some ⟨true, 14⟩ := by decide
example : (NumThreads.set ⟨false, 16⟩ 0 (getDefaultNumThreads 16 (some 5))) = some ⟨true, 5⟩ := by decide

end StirVerif.C18
