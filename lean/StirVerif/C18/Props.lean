/-
C18 — "Multi-threaded execution gives the single-thread result under every schedule".
What is a theorem here is the *protocol level*: the synchronisation patterns of the library, transcribed as
interleaving semantics in `Model.lean`, are safe for every number of threads and every schedule.  What the
OpenMP runtime and the hardware do is not a theorem (see the check's exploration part).
-/
import StirVerif.C18.Proofs

namespace StirVerif.C18

theorem C18_dcl_safe (K n : Nat) (sched : List Nat) :
    (Dcl.run K (Dcl.init n) sched).sawIncomplete = false ∧
    (Dcl.run K (Dcl.init n) sched).builds ≤ 1 ∧
    ((Dcl.run K (Dcl.init n) sched).flag = true → (Dcl.run K (Dcl.init n) sched).cells = K) :=
  dcl_safe K n sched

theorem C18_dcl_no_deadlock (K n : Nat) (sched : List Nat)
    (h : (Dcl.run K (Dcl.init n) sched).allDone = false) :
    ∃ t, t < n ∧ ((Dcl.run K (Dcl.init n) sched).step K t).isSome = true :=
  dcl_no_deadlock K n sched h

theorem C18_dcl_built_once_when_done (K n : Nat) (sched : List Nat) (hn : 0 < n)
    (h : (Dcl.run K (Dcl.init n) sched).allDone = true) :
    (Dcl.run K (Dcl.init n) sched).builds = 1 ∧ (Dcl.run K (Dcl.init n) sched).cells = K :=
  dcl_built_once_when_done K n sched hn h

theorem C18_cache_returns_spec (spec : Nat → Int) (reqs : List (List Nat)) (sched : List Nat) :
    (∀ e ∈ (Cache.run spec (Cache.init reqs) sched).returned, e.2.2 = spec e.2.1) ∧
    (∀ e ∈ (Cache.run spec (Cache.init reqs) sched).store, e.2 = spec e.1) :=
  cache_returns_spec spec reqs sched

theorem C18_reduction_any_assignment (n : Nat) (owner : Nat → Nat) (items : List Nat) (f : Nat → Int)
    (h : ∀ i ∈ items, owner i < n) : reduceResult n owner items f = (items.map f).sum :=
  reduction_any_assignment n owner items f h

/-- non-vacuity: a schedule in which three threads race for a 2-cell table and all finish -/
example : (Dcl.run 2 (Dcl.init 3) [0, 1, 2, 1, 1, 0, 1, 1, 1, 1, 1, 1, 0, 0, 0, 0, 2, 2, 2, 2, 2]).allDone = true := by decide

/-- a broken variant for comparison: without the re-check inside the critical section two builds happen
    (this is what the second `if (!flag)` protects against) -/
def Dcl.stepNoRecheck (K : Nat) (s : Dcl) (t : Nat) : Option Dcl :=
  match s.pcs[t]? with
  | some .checkIn => some { s with builds := s.builds + 1, cells := 0, pcs := s.pcs.set t (.build 0) }
  | _ => s.step K t

def Dcl.runNoRecheck (K : Nat) (s : Dcl) : List Nat → Dcl
  | [] => s
  | t :: ts => Dcl.runNoRecheck K ((Dcl.stepNoRecheck K s t).getD s) ts

theorem C18_recheck_is_needed :
    (Dcl.runNoRecheck 1 (Dcl.init 2) [0, 1, 0, 0, 0, 0, 0, 0, 1, 1, 1]).builds = 2 := by decide

end StirVerif.C18
