/-
C18 — proofs about state that outlives a parallel pass:
* `Accum`: the per-thread images of a back projector (set_up / start / add / get_output) under any history of passes,
  thread-count changes and repeated set_up;
* `ScCache`: the scatter simulation's caches indexed by detector numbers given in order of first use, under any order of
  requests (= any schedule) and any number of `set_template_proj_data_info` calls in between;
* `NumThreads`: `set_num_threads`.
Statements are re-exported by `Props.lean`.
-/
import StirVerif.C18.Model

namespace StirVerif.C18

/-! ## per-thread accumulators -/

theorem accum_setUp_length (a : Accum) (n : Nat) : (a.setUp n).slots.length = n := by
  simp only [Accum.setUp, List.length_append, List.length_take, List.length_replicate]
  omega

private theorem sum_start (l : List (Option Int)) :
    ((l.map (Option.map fun _ => (0 : Int))).map (·.getD 0)).sum = 0 := by
  induction l with
  | nil => rfl
  | cons x r ih =>
    cases x with
    | none => simpa using ih
    | some v => simpa using ih

theorem accum_start_output (a : Accum) : a.start.output = 0 := by
  simp only [Accum.start, Accum.output]
  exact sum_start a.slots

theorem accum_start_length (a : Accum) : a.start.slots.length = a.slots.length := by
  simp [Accum.start]

/-- value stored at `t`, as a function of the list -/
private def valAt (l : List (Option Int)) (t : Nat) : Int :=
  match l[t]? with
  | some (some x) => x
  | _ => 0

private theorem sum_set (l : List (Option Int)) (t : Nat) (v : Int) (h : t < l.length) :
    ((l.set t (some (valAt l t + v))).map (·.getD 0)).sum = (l.map (·.getD 0)).sum + v := by
  induction l generalizing t with
  | nil => simp at h
  | cons x r ih =>
    cases t with
    | zero =>
      cases x with
      | none => simp [valAt]; omega
      | some w => simp [valAt]; omega
    | succ k =>
      have hk : k < r.length := by simpa using h
      have e : valAt (x :: r) (k + 1) = valAt r k := by simp [valAt]
      simp only [List.set_cons_succ, List.map_cons, List.sum_cons, e, ih k hk]
      omega

theorem accum_add (a : Accum) (t : Nat) (v : Int) (h : t < a.slots.length) :
    ∃ a', a.add t v = some a' ∧ a'.output = a.output + v ∧ a'.slots.length = a.slots.length := by
  refine ⟨{ slots := a.slots.set t (some (a.valueAt t + v)) }, by simp [Accum.add, h], ?_, by simp⟩
  have : a.valueAt t = valAt a.slots t := rfl
  simp only [Accum.output, this]
  exact sum_set a.slots t v h

theorem accum_addAll (work : List (Nat × Int)) (a : Accum) (h : ∀ w ∈ work, w.1 < a.slots.length) :
    ∃ a', a.addAll work = some a' ∧ a'.output = a.output + (work.map (·.2)).sum ∧
          a'.slots.length = a.slots.length := by
  induction work generalizing a with
  | nil => exact ⟨a, rfl, by simp, rfl⟩
  | cons w r ih =>
    obtain ⟨a1, h1, o1, l1⟩ := accum_add a w.1 w.2 (h w (by simp))
    have hr : ∀ w' ∈ r, w'.1 < a1.slots.length := by
      intro w' hw'
      rw [l1]
      exact h w' (by simp [hw'])
    obtain ⟨a2, h2, o2, l2⟩ := ih a1 hr
    refine ⟨a2, by simp [Accum.addAll, h1, h2], ?_, by rw [l2, l1]⟩
    rw [o2, o1]
    simp only [List.map_cons, List.sum_cons]
    omega

/-- whatever happened to the accumulators before, a pass whose threads all have a slot returns exactly the sum of its own
    contributions -/
theorem accum_pass_sum (a : Accum) (work : List (Nat × Int)) (h : ∀ w ∈ work, w.1 < a.slots.length) :
    ∃ a', a.pass work = some a' ∧ a'.output = (work.map (·.2)).sum ∧ a'.slots.length = a.slots.length := by
  have h' : ∀ w ∈ work, w.1 < a.start.slots.length := by
    intro w hw
    rw [accum_start_length]
    exact h w hw
  obtain ⟨a', e, o, l⟩ := accum_addAll work a.start h'
  refine ⟨a', e, ?_, by rw [l, accum_start_length]⟩
  rw [o, accum_start_output]
  omega

/-! ## scatter cache under first-come detector numbering -/

/-- the invariant: detector numbers are given to distinct detectors, and every cache entry holds the value of the detector
    that currently owns its number -/
structure ScInv (spec : Nat → Nat → Int) (s : ScCache) : Prop where
  nodup : s.dets.Nodup
  ok : ∀ sp k v, ((sp, k), v) ∈ s.cache → k < s.dets.length ∧ v = spec sp (s.dets.getD k 0)

theorem scInv_init (spec : Nat → Nat → Int) : ScInv spec ScCache.init :=
  ⟨by simp [ScCache.init], by simp [ScCache.init]⟩

private theorem idxOf?_some {l : List Nat} {d k : Nat} (h : l.idxOf? d = some k) : k < l.length ∧ l.getD k 0 = d := by
  induction l generalizing k with
  | nil => simp [List.idxOf?] at h
  | cons x r ih =>
    by_cases e : x = d
    · subst e
      have : k = 0 := by simpa [List.idxOf?, List.findIdx?_cons] using h.symm
      subst this
      simp
    · have hx : (x == d) = false := by simpa using e
      simp only [List.idxOf?, List.findIdx?_cons, hx] at h
      cases hr : List.findIdx? (fun x => x == d) r with
      | none => simp [hr] at h
      | some j =>
        simp [hr] at h
        subst h
        have := ih (k := j) (by simpa [List.idxOf?] using hr)
        have h2 := this.2
        simp only [List.getD_eq_getElem?_getD, List.getElem?_eq_getElem this.1, Option.getD_some] at h2
        simp [this.1, h2]

private theorem idxOf?_none {l : List Nat} {d : Nat} (h : l.idxOf? d = none) : d ∉ l := by
  intro hm
  have : (l.idxOf? d).isSome := by
    simp only [List.idxOf?, List.findIdx?_isSome, List.any_eq_true]
    exact ⟨d, hm, by simp⟩
  simp [h] at this

/-- `find` keeps the invariant and returns a valid number of the detector asked for -/
theorem sc_find (spec : Nat → Nat → Int) (s : ScCache) (d : Nat) (h : ScInv spec s) :
    ScInv spec (s.find d).1 ∧ (s.find d).2 < (s.find d).1.dets.length ∧ (s.find d).1.dets.getD (s.find d).2 0 = d ∧
    (s.find d).1.cache = s.cache := by
  unfold ScCache.find
  cases hi : s.dets.idxOf? d with
  | some k =>
    have := idxOf?_some hi
    exact ⟨h, this.1, this.2, rfl⟩
  | none =>
    have hn := idxOf?_none hi
    refine ⟨⟨?_, ?_⟩, by simp, by simp, rfl⟩
    · simp only [List.nodup_append, List.nodup_cons, List.not_mem_nil, not_false_eq_true, List.nodup_nil, and_self,
        List.mem_singleton, true_and]
      refine ⟨h.nodup, ?_⟩
      intro a ha b hb
      subst hb
      intro e
      subst e
      exact hn ha
    · intro sp k v hm
      obtain ⟨hk, hv⟩ := h.ok sp k v hm
      refine ⟨by simp; omega, ?_⟩
      rw [hv]
      simp only [List.getD_eq_getElem?_getD]
      rw [List.getElem?_append_left hk]

private theorem lookup_mem {l : List ((Nat × Nat) × Int)} {key : Nat × Nat} {v : Int} (h : l.lookup key = some v) :
    (key, v) ∈ l := by
  induction l with
  | nil => simp at h
  | cons x r ih =>
    obtain ⟨k', v'⟩ := x
    by_cases e : key = k'
    · subst e
      simp [List.lookup] at h
      subst h
      simp
    · have : (key == k') = false := by simpa using e
      simp only [List.lookup, this] at h
      exact List.mem_cons_of_mem _ (ih h)

/-- one request: the invariant is kept and the answer is the value of the detector asked for -/
theorem sc_get (spec : Nat → Nat → Int) (s : ScCache) (sp d : Nat) (h : ScInv spec s) :
    ScInv spec (s.get spec sp d).1 ∧ (s.get spec sp d).2 = spec sp d := by
  obtain ⟨hinv, hk, hd, hc⟩ := sc_find spec s d h
  unfold ScCache.get
  generalize hf : s.find d = f at hinv hk hd hc
  obtain ⟨s1, k⟩ := f
  simp only at hinv hk hd hc ⊢
  cases hl : s1.cache.lookup (sp, k) with
  | some v =>
    simp only
    have hm := lookup_mem hl
    obtain ⟨_, hv⟩ := hinv.ok sp k v hm
    exact ⟨hinv, by rw [hv, hd]⟩
  | none =>
    simp only
    refine ⟨⟨hinv.nodup, ?_⟩, by rw [hd]⟩
    intro sp' k' v' hm
    simp only [List.mem_cons, Prod.mk.injEq] at hm
    rcases hm with ⟨⟨e1, e2⟩, e3⟩ | hm
    · subst e1 e2 e3
      exact ⟨hk, rfl⟩
    · exact hinv.ok sp' k' v' hm

/-- every answer of every history is the value asked for -/
theorem sc_run (spec : Nat → Nat → Int) (ops : List ScOp) (s : ScCache) (h : ScInv spec s) :
    ScCache.run spec s ops = ops.filterMap fun o => match o with | .get sp d => some (spec sp d) | .setTemplate => none := by
  induction ops generalizing s with
  | nil => rfl
  | cons o r ih =>
    cases o with
    | get sp d =>
      obtain ⟨hi, hv⟩ := sc_get spec s sp d h
      simp only [ScCache.run, List.filterMap_cons]
      rw [ih _ hi, hv]
    | setTemplate =>
      simp only [ScCache.run, List.filterMap_cons]
      exact ih _ (scInv_init spec)

end StirVerif.C18
