/-
C18 — synchronisation protocols of the multi-threaded (OpenMP) code as interleaving semantics
(sequentially consistent atomic steps, arbitrary number of threads, arbitrary schedules), and the
validator for event traces recorded from the real library through the UCL_STIR_VERIF schedule points.

Protocols (with the source they transcribe):
* `Dcl`   double-checked lazy initialisation: `atomic read flag; if (!flag) critical { if (!flag) build; flag = true }`
          (ProjDataInfoCylindrical.inl:38, ProjDataInfoCylindricalNoArcCorr.inl:31/:55, the builders in the .cxx files);
* `Cache` system-matrix cache under per-(view,segment) locks: `lock; find; unlock; [compute]; lock; insert; unlock`
          (ProjMatrixByBin.cxx:203-262, ProjMatrixByBin.inl:48), also the scatter cache's atomic read / recompute / atomic write
          (cached_single_scatter_integrals.cxx:73);
* `Reduce` dynamic work distribution to per-thread accumulators followed by a sequential reduction
          (BackProjectorByBin.cxx:202-335, distributable.cxx:418-535).

What is assumed and not modelled: OpenMP `atomic read/write` + `critical`/locks give sequentially consistent
behaviour for the flag and make the builder's writes visible before the flag; `libgomp` and the hardware.
Core Lean only.
-/
namespace StirVerif.C18

/-! ## double-checked lazy initialisation -/

inductive PC where
  | readFlag            -- about to do the atomic read of the flag
  | enterCrit           -- saw `false`: waiting for the critical section
  | checkIn             -- inside the critical section, about to re-check the flag
  | build (k : Nat)     -- building the table, `k` cells written so far
  | setFlag             -- table complete, about to write the flag
  | leave               -- about to leave the critical section
  | use                 -- about to use the table
  | done
  deriving Repr, DecidableEq, Inhabited

structure Dcl where
  flag : Bool
  cells : Nat              -- cells of the table written so far (complete when `= K`)
  builds : Nat             -- number of builds started
  lock : Option Nat        -- thread inside the critical section
  sawIncomplete : Bool     -- some thread used the table before it was complete
  pcs : List PC
  deriving Repr, DecidableEq

def Dcl.init (n : Nat) : Dcl :=
  { flag := false, cells := 0, builds := 0, lock := none, sawIncomplete := false, pcs := List.replicate n .readFlag }

/-- one atomic step of thread `t` (`none`: the thread is blocked or finished or does not exist) -/
def Dcl.step (K : Nat) (s : Dcl) (t : Nat) : Option Dcl :=
  match s.pcs[t]? with
  | none => none
  | some pc =>
    let setpc (s : Dcl) (p : PC) : Dcl := { s with pcs := s.pcs.set t p }
    match pc with
    | .readFlag => some (setpc s (if s.flag then .use else .enterCrit))
    | .enterCrit => if s.lock = none then some (setpc { s with lock := some t } .checkIn) else none
    | .checkIn =>
      if s.flag then some (setpc s .leave)
      else some (setpc { s with builds := s.builds + 1, cells := 0 } (.build 0))
    | .build k =>
      if k < K then some (setpc { s with cells := k + 1 } (.build (k + 1))) else some (setpc s .setFlag)
    | .setFlag => some (setpc { s with flag := true } .leave)
    | .leave => some (setpc { s with lock := none } .use)
    | .use => some (setpc { s with sawIncomplete := s.sawIncomplete || (s.cells != K) } .done)
    | .done => none

/-- run a schedule (a list of thread ids); steps of blocked / finished threads are skipped -/
def Dcl.run (K : Nat) (s : Dcl) : List Nat → Dcl
  | [] => s
  | t :: ts => Dcl.run K ((s.step K t).getD s) ts

def Dcl.allDone (s : Dcl) : Bool := s.pcs.all (· == .done)

/-! ## cache under a lock: `find` / `insert` are atomic; `compute` happens outside the lock -/

/-- an association list that, like `std::map::insert`, does not overwrite an existing key -/
def insertIfAbsent (m : List (Nat × Int)) (k : Nat) (v : Int) : List (Nat × Int) :=
  if (m.lookup k).isSome then m else (k, v) :: m

inductive CPC where
  | find (key : Nat)
  | insert (key : Nat) (v : Int)
  | ret (v : Int)
  deriving Repr, DecidableEq, Inhabited

structure Cache where
  store : List (Nat × Int)
  pcs : List (List Nat × CPC)           -- per thread: remaining requests, current pc
  returned : List (Nat × Nat × Int)     -- (thread, key, value) of every completed request
  deriving Repr

/-- one atomic step of thread `t`; `spec` is the (deterministic) computation of a row -/
def Cache.step (spec : Nat → Int) (s : Cache) (t : Nat) : Option Cache :=
  match s.pcs[t]? with
  | none => none
  | some (todo, pc) =>
    match pc with
    | .find k =>
      match s.store.lookup k with
      | some v => some { s with pcs := s.pcs.set t (todo, .ret v), returned := (t, k, v) :: s.returned }
      | none => some { s with pcs := s.pcs.set t (todo, .insert k (spec k)) }   -- compute outside the lock
    | .insert k v =>
      some { s with store := insertIfAbsent s.store k v, pcs := s.pcs.set t (todo, .ret v),
                    returned := (t, k, v) :: s.returned }
    | .ret _ =>
      match todo with
      | [] => none
      | k :: rest => some { s with pcs := s.pcs.set t (rest, .find k) }

def Cache.run (spec : Nat → Int) (s : Cache) : List Nat → Cache
  | [] => s
  | t :: ts => Cache.run spec ((s.step spec t).getD s) ts

def Cache.init (reqs : List (List Nat)) : Cache :=
  { store := [], pcs := reqs.map fun r => (r, .ret 0), returned := [] }

/-! ## dynamic work distribution + reduction -/

/-- thread-local accumulation of the contributions `f i` of the items each thread was given, then the
    sequential reduction over threads `0 … n-1` (as `get_output` / the log-likelihood reduction do) -/
def reduceResult (n : Nat) (owner : Nat → Nat) (items : List Nat) (f : Nat → Int) : Int :=
  ((List.range n).map fun t => ((items.filter fun i => owner i == t).map f).sum).sum

/-! ## per-thread accumulators that outlive a pass

`BackProjectorByBin::_local_output_image_sptrs` (BackProjectorByBin.cxx): `set_up` (:76) resizes the vector to the number
of threads of a parallel region, keeping the images that exist; `start_accumulating_in_new_target` (:306) zeroes every
existing image; `back_project(viewgrams)` (:271) creates / adds to the image of the calling thread;
`get_output` (:330) sums every existing image.  The vector outlives a pass, a change of the number of threads
(`stir::set_num_threads`) and a second `set_up`.  An image is abstracted to one `Int`. -/

structure Accum where
  slots : List (Option Int)          -- `none`: null pointer (no thread filled anything in yet)
  deriving Repr, DecidableEq

def Accum.new : Accum := { slots := [] }

/-- `_local_output_image_sptrs.resize(n, null)` (BackProjectorByBin.cxx:82) -/
def Accum.setUp (a : Accum) (n : Nat) : Accum :=
  { slots := a.slots.take n ++ List.replicate (n - a.slots.length) none }

/-- `start_accumulating_in_new_target` (:314): every image that exists is filled with 0 -/
def Accum.start (a : Accum) : Accum := { slots := a.slots.map (Option.map fun _ => 0) }

def Accum.valueAt (a : Accum) (t : Nat) : Int :=
  match a.slots[t]? with
  | some (some x) => x
  | _ => 0

/-- thread `t` adds `v` to its image (:277-281 and `actual_back_project`); `none`: index outside the vector, which the C++ does
    not check (undefined behaviour: more threads than the vector was sized for) -/
def Accum.add (a : Accum) (t : Nat) (v : Int) : Option Accum :=
  if t < a.slots.length then some { slots := a.slots.set t (some (a.valueAt t + v)) } else none

def Accum.addAll (a : Accum) : List (Nat × Int) → Option Accum
  | [] => some a
  | w :: r => (a.add w.1 w.2).bind (·.addAll r)

/-- one pass: `start_accumulating_in_new_target`, then the work items `(thread, contribution)` in any order -/
def Accum.pass (a : Accum) (work : List (Nat × Int)) : Option Accum := a.start.addAll work

/-- `get_output` (:339): the sum over every image that exists -/
def Accum.output (a : Accum) : Int := (a.slots.map (·.getD 0)).sum

/-- the slots `get_output` adds (the `bp.reduce` events) -/
def Accum.live (a : Accum) : List Nat :=
  (List.range a.slots.length).filter fun i => match a.slots[i]? with | some (some _) => true | _ => false

inductive AccOp where
  | setUp (n : Nat)
  | pass (work : List (Nat × Int))
  deriving Repr

def Accum.run (a : Accum) : List AccOp → Option Accum
  | [] => some a
  | .setUp n :: r => (a.setUp n).run r
  | .pass w :: r => (a.pass w).bind (·.run r)

/-- a variant for comparison that zeroes only the images of the first `m` threads ("only the threads that can take part") -/
def Accum.startFirst (a : Accum) (m : Nat) : Accum :=
  { slots := (a.slots.take m).map (Option.map fun _ => 0) ++ a.slots.drop m }

/-! ## number of threads (num_threads.cxx) -/

/-- `get_default_num_threads` (num_threads.cxx:70): `nprocs` = `omp_get_num_procs()`, `env` = `atoi(getenv("OMP_NUM_THREADS"))`
    when the variable is set.  `floor(nprocs * .9)` in double arithmetic is `9 * nprocs / 10` for every non-negative `int`
    (the double nearest to 0.9 lies above 0.9 by 2.2e-17). -/
def getDefaultNumThreads (nprocs : Int) (env : Option Int) : Int :=
  match env with
  | some e => e
  | none => if nprocs == 1 then 1 else max (Int.tdiv (9 * nprocs) 10) 2

/-- libgomp's `omp_set_num_threads`: `nthreads_var = n > 0 ? n : 1`; afterwards `omp_get_max_threads()` returns it -/
def ompSetNumThreads (n : Int) : Int := if n > 0 then n else 1

structure NumThreads where
  alreadySetOnce : Bool             -- the function-local static of `set_num_threads`
  maxThreads : Int                  -- what `omp_get_max_threads()` = `get_max_num_threads()` returns
  deriving Repr, DecidableEq

/-- `set_num_threads(n)` (num_threads.cxx:43); `dflt` = what `get_default_num_threads()` returns at that moment.
    `none`: `n = 0`, nothing was set before and the default is 0 (`OMP_NUM_THREADS` empty or not a number): the function and
    `set_default_num_threads` call each other without end (observed: stack overflow). -/
def NumThreads.set (s : NumThreads) (n : Int) (dflt : Int) : Option NumThreads :=
  if n == 0 then
    if !s.alreadySetOnce then
      if dflt == 0 then none else some { alreadySetOnce := true, maxThreads := ompSetNumThreads dflt }
    else some s
  else some { alreadySetOnce := true, maxThreads := ompSetNumThreads n }

/-- `set_default_num_threads()` (num_threads.cxx:88) = `set_num_threads(get_default_num_threads())` -/
def NumThreads.setDefault (s : NumThreads) (dflt : Int) : Option NumThreads := s.set dflt dflt

/-! ## scatter simulation: detector numbering in order of first use, caches indexed by that number

`ScatterSimulation::find_in_detection_points_vector` (scatter_detection_modelling.cxx:33, inside
`critical(SCATTERESTIMATIONFINDDETECTIONPOINTS)`): a detector gets the next free number when it is met for the first time;
with `schedule(dynamic)` the order in which detectors are met depends on the schedule.
`cached_*_integral_scattpoint_det[scatter point][detector number]` (cached_single_scatter_integrals.cxx:73, atomic read /
compute / atomic write).  `set_template_proj_data_info` (ScatterSimulation.cxx:725) forgets the numbering and removes the caches.
A request `(sp, d)` is one atomic step here (the numbering is append-only during a run and two threads that compute the same
entry write the same value). -/

structure ScCache where
  dets : List Nat                            -- `detection_points_vector`: detectors in the order of their numbers
  cache : List ((Nat × Nat) × Int)           -- (scatter point, detector number) ↦ cached value
  deriving Repr, DecidableEq

def ScCache.init : ScCache := { dets := [], cache := [] }

/-- `find_in_detection_points_vector`: the number of detector `d`, appended if new -/
def ScCache.find (s : ScCache) (d : Nat) : ScCache × Nat :=
  match s.dets.idxOf? d with
  | some k => (s, k)
  | none => ({ s with dets := s.dets ++ [d] }, s.dets.length)

/-- `cached_integral_over_activity_image_between_scattpoint_det(sp, find(d))`: the cached value if there is one, else
    `spec sp d` (the integral from scatter point `sp` to the detector stored under that number), which is then cached -/
def ScCache.get (spec : Nat → Nat → Int) (s : ScCache) (sp d : Nat) : ScCache × Int :=
  let (s1, k) := s.find d
  match s1.cache.lookup (sp, k) with
  | some v => (s1, v)
  | none => ({ s1 with cache := ((sp, k), spec sp (s1.dets.getD k 0)) :: s1.cache }, spec sp (s1.dets.getD k 0))

/-- `set_template_proj_data_info`: `detection_points_vector.clear()` and both caches removed -/
def ScCache.setTemplate (_ : ScCache) : ScCache := ScCache.init

/-- a variant for comparison that forgets the numbering but keeps the caches ("the size is still right") -/
def ScCache.setTemplateKeepCache (s : ScCache) : ScCache := { s with dets := [] }

inductive ScOp where
  | get (sp d : Nat)
  | setTemplate
  deriving Repr

/-- run a history; the answers of the `get`s in order -/
def ScCache.run (spec : Nat → Nat → Int) (s : ScCache) : List ScOp → List Int
  | [] => []
  | .get sp d :: r => let (s', v) := s.get spec sp d; v :: ScCache.run spec s' r
  | .setTemplate :: r => ScCache.run spec s.setTemplate r

def ScCache.runKeepCache (spec : Nat → Nat → Int) (s : ScCache) : List ScOp → List Int
  | [] => []
  | .get sp d :: r => let (s', v) := s.get spec sp d; v :: ScCache.runKeepCache spec s' r
  | .setTemplate :: r => ScCache.runKeepCache spec s.setTemplateKeepCache r

/-! ## validator for event traces recorded from the implementation

An event is `(thread, site, key, value)`.  Events emitted inside a critical section / under a lock appear in
the log in their true order; events emitted after an atomic read may be logged late, never early. -/

structure Ev where
  tid : Nat
  site : String
  key : Int
  val : Int
  deriving Repr, Inhabited

/-- lazily initialised table `tbl` of object `key`: `crit`/`built` events, in log order, must be
    `crit 0, built, crit 1, crit 1, …` with `built` by the thread of the first `crit`;
    no `read 1` before `built`; at most one `built`. -/
def validateDcl (tbl : String) (evs : List Ev) : Option String :=
  let mine := evs.filter fun e => e.site == tbl ++ ".read" || e.site == tbl ++ ".crit" || e.site == tbl ++ ".built"
  let keys := (mine.map (·.key)).eraseDups
  keys.findSome? fun k =>
    let es := mine.filter (·.key == k)
    let builtCount := (es.filter (·.site == tbl ++ ".built")).length
    let crits := es.filter fun e => e.site != tbl ++ ".read"
    let okOrder : Bool :=
      match crits with
      | [] => true
      | c0 :: rest =>
        c0.site == tbl ++ ".crit" && c0.val == 0 &&
        (match rest with
         | [] => false                      -- a build must follow
         | b :: later => b.site == tbl ++ ".built" && b.tid == c0.tid &&
                         later.all fun e => e.site == tbl ++ ".crit" && e.val == 1)
    -- no read of `true` before the build has been logged
    let rec noEarlyRead (l : List Ev) (built : Bool) : Bool :=
      match l with
      | [] => true
      | e :: r =>
        if e.site == tbl ++ ".built" then noEarlyRead r true
        else if e.site == tbl ++ ".read" && e.val == 1 && !built then false
        else noEarlyRead r built
    if builtCount > 1 then some s!"{tbl}: table of object {k} built {builtCount} times"
    else if builtCount == 0 then
      -- the table was built before the trace started (e.g. in the constructor): nobody may see the flag unset
      if es.any (fun e => e.val == 0) then some s!"{tbl}: object {k} seen uninitialised but no build was logged"
      else none
    else if !okOrder then some s!"{tbl}: critical-section events of object {k} are not `crit 0, built, crit 1*`"
    else if !noEarlyRead es false then some s!"{tbl}: flag of object {k} read as set before the table was built"
    else none

/-- cache events (all logged under the lock of their key's (view,segment)): per key, once an `insert` has been
    logged every later `find` must hit, and an `insert` reports `already present` (val 1) iff one was logged before. -/
def validateCache (evs : List Ev) : Option String :=
  let rec go (l : List Ev) (present : List Int) : Option String :=
    match l with
    | [] => none
    | e :: r =>
      if e.site == "pm.cache.clear" then go r []
      else if e.site == "pm.cache.find" then
        if present.contains e.key && e.val == 0 then some s!"cache: key {e.key} was inserted but a later find missed it (lost entry)"
        else if !present.contains e.key && e.val == 1 then some s!"cache: key {e.key} found before any insert"
        else go r present
      else if e.site == "pm.cache.insert" then
        if (present.contains e.key) != (e.val != 0) then some s!"cache: insert of key {e.key} disagrees with the logged history"
        else go r (if present.contains e.key then present else e.key :: present)
      else go r present
  go evs []

/-- per thread, the cache events follow the request machine of `Cache.step` (`find` hit, or `find` miss → compute → `insert`
    of the key that missed; with `cache_stores_only_basic_bins = false` one more `find`, of the basic bin, may come between the
    miss and the insert): no insert without a miss, no request abandoned after a miss, none begun before the last one ended.
    This is what ties `Cache.step`'s per-thread program counter — on which `C18_cache_answers_in_order` rests — to the code. -/
def validateCacheProtocol (evs : List Ev) : Option String :=
  let rec go (l : List Ev) (pend : List (Nat × Int × Nat)) : Option String :=
    match l with
    | [] =>
      match pend with
      | [] => none
      | (t, k, _) :: _ => some s!"cache: thread {t} missed key {k} and never inserted it (request lost)"
    | e :: r =>
      if e.site == "pm.cache.find" then
        match pend.find? (·.1 == e.tid) with
        | none => if e.val == 0 then go r ((e.tid, e.key, 0) :: pend) else go r pend
        | some (_, k, n) =>
          if n ≥ 1 then some s!"cache: thread {e.tid} began another request before inserting key {k}, which it had missed"
          else go r ((e.tid, k, 1) :: pend.filter (·.1 != e.tid))
      else if e.site == "pm.cache.insert" then
        match pend.find? (·.1 == e.tid) with
        | none => some s!"cache: thread {e.tid} inserted key {e.key} without having missed it"
        | some (_, k, _) =>
          if k != e.key then some s!"cache: thread {e.tid} missed key {k} but inserted key {e.key}"
          else go r (pend.filter (·.1 != e.tid))
      else go r pend
  go evs []

/-- work distribution: between two `begin` markers every work item key is processed exactly once -/
def validateWork (site : String) (expected : Nat) (evs : List Ev) : Option String :=
  let ks := (evs.filter (·.site == site)).map (·.key)
  if ks.length != expected then some s!"{site}: {ks.length} work items processed, expected {expected}"
  else if ks.eraseDups.length != ks.length then some s!"{site}: a work item was processed twice"
  else none

/-- after `stir::set_num_threads(T)` no event comes from a thread `≥ T`, and the work items report a thread number `< T` -/
def validateThreads (bound : Nat) (evs : List Ev) : Option String :=
  if bound == 0 then none
  else
    evs.findSome? fun e =>
      if e.tid ≥ bound then some s!"{e.site}: event from thread {e.tid} although only {bound} threads were asked for"
      else if (e.site == "bp.work" || e.site == "fp.work" || e.site == "dist.work") && (e.val < 0 || e.val.toNat ≥ bound) then
        some s!"{e.site}: work item done by thread {e.val} although only {bound} threads were asked for"
      else none

end StirVerif.C18
