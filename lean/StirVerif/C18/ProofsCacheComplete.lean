/-
C18 — the system-matrix cache protocol answers every request exactly once and in order ("without lost or
duplicated contributions"), and a thread that still has requests is never blocked ("without … deadlock").
`cache_returns_spec` (Proofs.lean) says that what is returned is right; this file says that nothing is
returned twice, skipped, or returned in another order than the thread asked for, under every schedule.
Core Lean only.
-/
import StirVerif.C18.Proofs

namespace StirVerif.C18

/-- the request a thread is working on (not yet answered) -/
def pendingOf : CPC → List Nat
  | .find k => [k]
  | .insert k _ => [k]
  | .ret _ => []

/-- keys of the requests of thread `u` that have been answered, oldest first -/
def Cache.answered (s : Cache) (u : Nat) : List Nat :=
  ((s.returned.filter fun e => e.1 == u).map fun e => e.2.1).reverse

/-- thread `u` has nothing left to do -/
def Cache.threadFinished (s : Cache) (u : Nat) : Bool :=
  match s.pcs[u]? with
  | some ([], .ret _) => true
  | _ => false

/-- per thread: answered ++ in flight ++ still to do = what the thread was asked to look up -/
structure CC (reqs : List (List Nat)) (s : Cache) : Prop where
  len : s.pcs.length = reqs.length
  acct : ∀ (u : Nat) (todo : List Nat) (pc : CPC), s.pcs[u]? = some (todo, pc) →
    reqs[u]? = some (s.answered u ++ (pendingOf pc ++ todo))

theorem answered_push (ret : List (Nat × Nat × Int)) (t k : Nat) (v : Int) (u : Nat) :
    ((((t, k, v) :: ret).filter fun e => e.1 == u).map fun e => e.2.1).reverse =
      ((ret.filter fun e => e.1 == u).map fun e => e.2.1).reverse ++ (if t = u then [k] else []) := by
  by_cases h : t = u
  · subst h
    simp
  · have hb : (t == u) = false := by simpa using h
    simp [hb, h]

theorem cc_update (reqs : List (List Nat)) (s s' : Cache) (t : Nat) (todo todo' : List Nat) (pc pc' : CPC)
    (extra : List Nat) (h : CC reqs s) (hpc : s.pcs[t]? = some (todo, pc))
    (hpcs : s'.pcs = s.pcs.set t (todo', pc'))
    (hans : ∀ u, s'.answered u = s.answered u ++ (if t = u then extra else []))
    (heq : extra ++ (pendingOf pc' ++ todo') = pendingOf pc ++ todo) : CC reqs s' := by
  refine ⟨by rw [hpcs, List.length_set]; exact h.len, ?_⟩
  intro u td p hu
  rw [hpcs, List.getElem?_set] at hu
  rw [hans u]
  by_cases htu : t = u
  · subst htu
    simp only [if_true] at hu ⊢
    split at hu
    · simp only [Option.some.injEq, Prod.mk.injEq] at hu
      obtain ⟨rfl, rfl⟩ := hu
      rw [h.acct t todo pc hpc, List.append_assoc, heq]
    · simp at hu
  · simp only [htu, if_false] at hu ⊢
    simpa using h.acct u td p hu

theorem cc_step (spec : Nat → Int) (reqs : List (List Nat)) (s s' : Cache) (t : Nat) (h : CC reqs s)
    (hs : Cache.step spec s t = some s') : CC reqs s' := by
  unfold Cache.step at hs
  split at hs
  · simp at hs
  · rename_i todo pc hpc
    cases pc with
    | find k =>
      simp only at hs
      split at hs
      · rename_i v hv
        simp only [Option.some.injEq] at hs
        subst hs
        exact cc_update reqs s _ t todo todo (.find k) (.ret v) [k] h hpc rfl
          (fun u => answered_push s.returned t k v u) (by simp [pendingOf])
      · simp only [Option.some.injEq] at hs
        subst hs
        exact cc_update reqs s _ t todo todo (.find k) (.insert k (spec k)) [] h hpc rfl
          (fun u => by simp [Cache.answered]) (by simp [pendingOf])
    | insert k v =>
      simp only [Option.some.injEq] at hs
      subst hs
      exact cc_update reqs s _ t todo todo (.insert k v) (.ret v) [k] h hpc rfl
        (fun u => answered_push s.returned t k v u) (by simp [pendingOf])
    | ret v =>
      simp only at hs
      split at hs
      · simp at hs
      · rename_i k rest
        simp only [Option.some.injEq] at hs
        subst hs
        exact cc_update reqs s _ t (k :: rest) rest (.ret v) (.find k) [] h hpc rfl
          (fun u => by simp [Cache.answered]) (by simp [pendingOf])

theorem cc_run (spec : Nat → Int) (reqs : List (List Nat)) (sched : List Nat) :
    ∀ s, CC reqs s → CC reqs (Cache.run spec s sched) := by
  induction sched with
  | nil => intro s h; exact h
  | cons t ts ih =>
    intro s h
    simp only [Cache.run]
    apply ih
    cases hs : Cache.step spec s t with
    | none => simpa using h
    | some s' => simpa using cc_step spec reqs s s' t h hs

theorem cc_init (reqs : List (List Nat)) : CC reqs (Cache.init reqs) := by
  refine ⟨by simp [Cache.init], ?_⟩
  intro u todo pc hu
  simp only [Cache.init, List.getElem?_map] at hu
  cases hr : reqs[u]? with
  | none => simp [hr] at hu
  | some r =>
    simp only [hr, Option.map_some, Option.some.injEq, Prod.mk.injEq] at hu
    obtain ⟨rfl, rfl⟩ := hu
    simp [Cache.answered, Cache.init, pendingOf]

/-- under every schedule, at every moment, what thread `u` has been answered so far is an initial part of what
    it asked for, in the order asked: no request is answered twice, skipped or overtaken -/
theorem cache_answers_prefix (spec : Nat → Int) (reqs : List (List Nat)) (sched : List Nat) (u : Nat)
    (hu : u < reqs.length) :
    ∃ rest, reqs[u]? = some ((Cache.run spec (Cache.init reqs) sched).answered u ++ rest) := by
  have h := cc_run spec reqs sched _ (cc_init reqs)
  have hl : u < (Cache.run spec (Cache.init reqs) sched).pcs.length := by rw [h.len]; exact hu
  obtain ⟨todo, pc⟩ := (Cache.run spec (Cache.init reqs) sched).pcs[u]
  exact ⟨_, h.acct u _ _ (List.getElem?_eq_getElem hl)⟩

/-- a thread that has finished has been answered exactly its requests, each once, in order -/
theorem cache_all_answered_when_finished (spec : Nat → Int) (reqs : List (List Nat)) (sched : List Nat) (u : Nat)
    (hf : (Cache.run spec (Cache.init reqs) sched).threadFinished u = true) :
    reqs[u]? = some ((Cache.run spec (Cache.init reqs) sched).answered u) := by
  have h := cc_run spec reqs sched _ (cc_init reqs)
  unfold Cache.threadFinished at hf
  split at hf
  · rename_i v hpc
    simpa [pendingOf] using h.acct u [] (.ret v) hpc
  · simp at hf

/-- no deadlock: a thread that exists and has not finished can always take its next step, whatever the others do -/
theorem cache_never_blocked (spec : Nat → Int) (s : Cache) (u : Nat) (hu : u < s.pcs.length)
    (hf : s.threadFinished u = false) : (s.step spec u).isSome = true := by
  unfold Cache.threadFinished at hf
  unfold Cache.step
  rw [List.getElem?_eq_getElem hu] at hf ⊢
  generalize s.pcs[u] = p at hf ⊢
  obtain ⟨todo, pc⟩ := p
  cases pc with
  | find k =>
    dsimp only
    split <;> rfl
  | insert k v => rfl
  | ret v =>
    cases todo with
    | nil => simp at hf
    | cons k rest => rfl

end StirVerif.C18
