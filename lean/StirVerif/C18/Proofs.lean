/-
C18 — proofs for the protocol theorems.  Statements are fixed; re-exported by `Props.lean`.

`Dcl`: one inductive invariant `Inv K n s` (shared-state facts + a per-thread obligation `PCInv` indexed by the
program counter + "the lock holder is inside the critical section"), preserved by every `Dcl.step`
(`inv_step`, via the generic `inv_update`), hence by `Dcl.run` (`inv_run`).
`Cache`: invariant `CInv` (every returned / stored / about-to-be-inserted value is `spec key`).
`Reduce`: exchange of the two sums by induction on the item list.
-/
import StirVerif.C18.Model

namespace StirVerif.C18

/-! ## double-checked lazy initialisation -/

def InCrit : PC → Prop
  | .checkIn | .build _ | .setFlag | .leave => True
  | _ => False

/-- per-thread obligation on the shared state, by program counter -/
def PCInv (K : Nat) (flag : Bool) (cells builds : Nat) (lock : Option Nat) (u : Nat) : PC → Prop
  | .readFlag => True
  | .enterCrit => True
  | .checkIn => lock = some u ∧ (flag = false → builds = 0)
  | .build k => lock = some u ∧ cells = k ∧ k ≤ K ∧ flag = false ∧ builds = 1
  | .setFlag => lock = some u ∧ cells = K ∧ flag = false ∧ builds = 1
  | .leave => lock = some u ∧ flag = true
  | .use => flag = true
  | .done => flag = true

structure Inv (K n : Nat) (s : Dcl) : Prop where
  len : s.pcs.length = n
  saw : s.sawIncomplete = false
  b1 : s.builds ≤ 1
  fl : s.flag = true → s.cells = K ∧ s.builds = 1
  free : s.flag = false → s.lock = none → s.builds = 0
  loc : ∀ (u : Nat) (pc : PC), s.pcs[u]? = some pc → PCInv K s.flag s.cells s.builds s.lock u pc
  holder : ∀ (u : Nat), s.lock = some u → ∃ pc, s.pcs[u]? = some pc ∧ InCrit pc

theorem inv_init (K n : Nat) : Inv K n (Dcl.init n) := by
  refine ⟨by simp [Dcl.init], rfl, by simp [Dcl.init], by simp [Dcl.init], by simp [Dcl.init], ?_, by simp [Dcl.init]⟩
  intro u pc h
  simp only [Dcl.init, List.getElem?_replicate] at h
  split at h
  · cases h; trivial
  · cases h

theorem inv_update (K n : Nat) (s : Dcl) (t : Nat) (pc0 p : PC) (h : Inv K n s)
    (hpc : s.pcs[t]? = some pc0)
    (flag' : Bool) (cells' builds' : Nat) (lock' : Option Nat) (saw' : Bool)
    (h1 : saw' = false) (h2 : builds' ≤ 1) (h3 : flag' = true → cells' = K ∧ builds' = 1)
    (h4 : flag' = false → lock' = none → builds' = 0)
    (h5 : PCInv K flag' cells' builds' lock' t p)
    (h6 : ∀ u, u ≠ t → ∀ pc, PCInv K s.flag s.cells s.builds s.lock u pc →
            PCInv K flag' cells' builds' lock' u pc)
    (h7 : ∀ u, lock' = some u → (u = t ∧ InCrit p) ∨ (u ≠ t ∧ s.lock = some u)) :
    Inv K n { flag := flag', cells := cells', builds := builds', lock := lock', sawIncomplete := saw',
              pcs := s.pcs.set t p } := by
  obtain ⟨hlen, hsaw, hb1, hfl, hfree, hloc, hhold⟩ := h
  have htlt : t < s.pcs.length := by
    rcases Nat.lt_or_ge t s.pcs.length with h | h
    · exact h
    · rw [List.getElem?_eq_none h] at hpc; cases hpc
  refine ⟨by simpa using hlen, h1, h2, h3, h4, ?_, ?_⟩
  · intro u pc hu
    by_cases hut : u = t
    · subst hut
      simp only [List.getElem?_set_self htlt, Option.some.injEq] at hu
      subst hu; exact h5
    · simp only [List.getElem?_set_ne (Ne.symm hut)] at hu
      exact h6 u hut pc (hloc u pc hu)
  · intro u hu
    rcases h7 u hu with ⟨rfl, hc⟩ | ⟨hne, hl⟩
    · exact ⟨p, by simp [List.getElem?_set_self htlt], hc⟩
    · obtain ⟨pc, hpc', hc⟩ := hhold u hl
      exact ⟨pc, by simp [List.getElem?_set_ne (Ne.symm hne), hpc'], hc⟩

theorem inv_step (K n : Nat) (s s' : Dcl) (t : Nat) (h : Inv K n s)
    (hs : Dcl.step K s t = some s') : Inv K n s' := by
  have h0 := h
  obtain ⟨hlen, hsaw, hb1, hfl, hfree, hloc, hhold⟩ := h
  unfold Dcl.step at hs
  split at hs
  · simp at hs
  · rename_i pc hpc
    have ht := hloc t pc hpc
    cases pc with
    | readFlag =>
      simp only [Option.some.injEq] at hs
      subst hs
      apply inv_update K n s t _ _ h0 hpc
      · exact hsaw
      · exact hb1
      · exact hfl
      · exact hfree
      · cases hf : s.flag <;> simp [PCInv]
      · intro u _ pc h; exact h
      · intro u hu
        right
        refine ⟨?_, hu⟩
        rintro rfl
        obtain ⟨pc, hpc', hc⟩ := hhold u hu
        rw [hpc] at hpc'; cases hpc'; exact hc
    | enterCrit =>
      dsimp only at hs
      split at hs
      · rename_i hl
        simp only [Option.some.injEq] at hs
        subst hs
        apply inv_update K n s t _ _ h0 hpc
        · exact hsaw
        · exact hb1
        · exact hfl
        · simp
        · exact ⟨rfl, fun hf => hfree hf hl⟩
        · intro u hne pc hP; cases pc <;> simp_all [PCInv]
        · intro u hu; left; simp only [Option.some.injEq] at hu; exact ⟨hu.symm, trivial⟩
      · simp at hs
    | checkIn =>
      obtain ⟨htl, htb⟩ := ht
      dsimp only at hs
      split at hs
      · rename_i hf
        simp only [Option.some.injEq] at hs
        subst hs
        apply inv_update K n s t _ _ h0 hpc
        · exact hsaw
        · exact hb1
        · exact hfl
        · exact hfree
        · exact ⟨htl, hf⟩
        · intro u _ pc h; exact h
        · intro u hu; left; rw [htl] at hu; simp only [Option.some.injEq] at hu; exact ⟨hu.symm, trivial⟩
      · rename_i hf
        simp only [Bool.not_eq_true] at hf
        have hb0 := htb hf
        simp only [Option.some.injEq] at hs
        subst hs
        apply inv_update K n s t _ _ h0 hpc
        · exact hsaw
        · omega
        · simp [hf]
        · simp [htl]
        · exact ⟨htl, rfl, Nat.zero_le _, hf, by omega⟩
        · intro u hne pc hP; cases pc <;> simp_all [PCInv]
        · intro u hu; left; rw [htl] at hu; simp only [Option.some.injEq] at hu; exact ⟨hu.symm, trivial⟩
    | build k =>
      obtain ⟨htl, htc, htk, htf, htb⟩ := ht
      dsimp only at hs
      split at hs
      · rename_i hk
        simp only [Option.some.injEq] at hs
        subst hs
        apply inv_update K n s t _ _ h0 hpc
        · exact hsaw
        · exact hb1
        · simp [htf]
        · simp [htl]
        · exact ⟨htl, rfl, hk, htf, htb⟩
        · intro u hne pc hP; cases pc <;> simp_all [PCInv]
        · intro u hu; left; rw [htl] at hu; simp only [Option.some.injEq] at hu; exact ⟨hu.symm, trivial⟩
      · rename_i hk
        simp only [Option.some.injEq] at hs
        subst hs
        apply inv_update K n s t _ _ h0 hpc
        · exact hsaw
        · exact hb1
        · exact hfl
        · exact hfree
        · exact ⟨htl, by omega, htf, htb⟩
        · intro u _ pc h; exact h
        · intro u hu; left; rw [htl] at hu; simp only [Option.some.injEq] at hu; exact ⟨hu.symm, trivial⟩
    | setFlag =>
      obtain ⟨htl, htc, htf, htb⟩ := ht
      simp only [Option.some.injEq] at hs
      subst hs
      apply inv_update K n s t _ _ h0 hpc
      · exact hsaw
      · exact hb1
      · intro _; exact ⟨htc, htb⟩
      · simp
      · exact ⟨htl, rfl⟩
      · intro u hne pc hP; cases pc <;> simp_all [PCInv]
      · intro u hu; left; rw [htl] at hu; simp only [Option.some.injEq] at hu; exact ⟨hu.symm, trivial⟩
    | leave =>
      obtain ⟨htl, htf⟩ := ht
      simp only [Option.some.injEq] at hs
      subst hs
      apply inv_update K n s t _ _ h0 hpc
      · exact hsaw
      · exact hb1
      · exact hfl
      · simp [htf]
      · exact htf
      · intro u hne pc hP; cases pc <;> simp_all [PCInv]
      · intro u hu; cases hu
    | use =>
      have htf : s.flag = true := ht
      simp only [Option.some.injEq] at hs
      subst hs
      apply inv_update K n s t _ _ h0 hpc
      · simp [hsaw, (hfl htf).1]
      · exact hb1
      · exact hfl
      · exact hfree
      · exact htf
      · intro u _ pc h; exact h
      · intro u hu
        right
        refine ⟨?_, hu⟩
        rintro rfl
        obtain ⟨pc, hpc', hc⟩ := hhold u hu
        rw [hpc] at hpc'; cases hpc'; exact hc
    | done => simp at hs

theorem inv_run (K n : Nat) (sched : List Nat) : ∀ s, Inv K n s → Inv K n (Dcl.run K s sched) := by
  induction sched with
  | nil => intro s h; exact h
  | cons t ts ih =>
    intro s h
    simp only [Dcl.run]
    apply ih
    cases hs : Dcl.step K s t with
    | none => simpa using h
    | some s' => simpa using inv_step K n s s' t h hs

theorem inv_reach (K n : Nat) (sched : List Nat) : Inv K n (Dcl.run K (Dcl.init n) sched) :=
  inv_run K n sched _ (inv_init K n)

/-- **lazy tables**: under every schedule of any number of threads the table is never used before it is
    complete, it is built at most once, and the flag is only set when the table is complete. -/
theorem dcl_safe (K n : Nat) (sched : List Nat) :
    (Dcl.run K (Dcl.init n) sched).sawIncomplete = false ∧
    (Dcl.run K (Dcl.init n) sched).builds ≤ 1 ∧
    ((Dcl.run K (Dcl.init n) sched).flag = true → (Dcl.run K (Dcl.init n) sched).cells = K) :=
  have h := inv_reach K n sched
  ⟨h.saw, h.b1, fun hf => (h.fl hf).1⟩

theorem step_isSome (K : Nat) (s : Dcl) (u : Nat) (pc : PC) (hpc : s.pcs[u]? = some pc)
    (hd : pc ≠ .done) (he : pc = .enterCrit → s.lock = none) : (Dcl.step K s u).isSome = true := by
  unfold Dcl.step
  rw [hpc]
  cases pc with
  | enterCrit => simp [he rfl]
  | done => exact absurd rfl hd
  | checkIn => dsimp only; split <;> rfl
  | build k => dsimp only; split <;> rfl
  | _ => rfl

theorem lt_of_getElem?_some {α : Type} (l : List α) (i : Nat) (a : α) (h : l[i]? = some a) :
    i < l.length := by
  rcases Nat.lt_or_ge i l.length with h' | h'
  · exact h'
  · rw [List.getElem?_eq_none h'] at h; cases h

/-- **no deadlock**: as long as some thread has not finished, some thread can take a step. -/
theorem dcl_no_deadlock (K n : Nat) (sched : List Nat)
    (h : (Dcl.run K (Dcl.init n) sched).allDone = false) :
    ∃ t, t < n ∧ ((Dcl.run K (Dcl.init n) sched).step K t).isSome = true := by
  have hi := inv_reach K n sched
  generalize Dcl.run K (Dcl.init n) sched = s at h hi
  unfold Dcl.allDone at h
  rw [List.all_eq_false] at h
  obtain ⟨pc, hmem, hnd⟩ := h
  have hnd' : pc ≠ .done := by simpa using hnd
  obtain ⟨u, hu⟩ := List.mem_iff_getElem?.mp hmem
  have hult : u < n := hi.len ▸ lt_of_getElem?_some _ _ _ hu
  cases hl : s.lock with
  | none => exact ⟨u, hult, step_isSome K s u pc hu hnd' (fun _ => hl)⟩
  | some v =>
    by_cases hec : pc = .enterCrit
    · obtain ⟨pcv, hv, hc⟩ := hi.holder v hl
      refine ⟨v, hi.len ▸ lt_of_getElem?_some _ _ _ hv, step_isSome K s v pcv hv ?_ ?_⟩
      · rintro rfl; exact hc
      · rintro rfl; exact absurd hc (by simp [InCrit])
    · exact ⟨u, hult, step_isSome K s u pc hu hnd' (fun h => absurd h hec)⟩

/-- when everybody has finished, the table was built exactly once -/
theorem dcl_built_once_when_done (K n : Nat) (sched : List Nat) (hn : 0 < n)
    (h : (Dcl.run K (Dcl.init n) sched).allDone = true) :
    (Dcl.run K (Dcl.init n) sched).builds = 1 ∧ (Dcl.run K (Dcl.init n) sched).cells = K := by
  have hi := inv_reach K n sched
  generalize Dcl.run K (Dcl.init n) sched = s at h hi
  unfold Dcl.allDone at h
  rw [List.all_eq_true] at h
  have h0 : 0 < s.pcs.length := hi.len ▸ hn
  have hpc : s.pcs[0]? = some s.pcs[0] := List.getElem?_eq_getElem h0
  have hd : s.pcs[0] = .done := by simpa using h _ (List.getElem_mem h0)
  rw [hd] at hpc
  have hf : s.flag = true := hi.loc 0 _ hpc
  exact ⟨(hi.fl hf).2, (hi.fl hf).1⟩

/-! ## cache -/

theorem lookup_some_mem (k : Nat) (v : Int) (m : List (Nat × Int)) (h : m.lookup k = some v) :
    (k, v) ∈ m := by
  induction m with
  | nil => simp at h
  | cons a m ih =>
    obtain ⟨a1, a2⟩ := a
    rw [List.lookup_cons] at h
    by_cases hk : (k == a1) = true
    · simp only [hk] at h
      have : k = a1 := by simpa using hk
      simp_all
    · simp only [hk] at h
      exact List.mem_cons_of_mem _ (ih h)

structure CInv (spec : Nat → Int) (s : Cache) : Prop where
  hret : ∀ e ∈ s.returned, e.2.2 = spec e.2.1
  hstore : ∀ e ∈ s.store, e.2 = spec e.1
  hpcs : ∀ (u : Nat) (todo : List Nat) (k : Nat) (v : Int),
    s.pcs[u]? = some (todo, CPC.insert k v) → v = spec k

theorem cinv_step (spec : Nat → Int) (s s' : Cache) (t : Nat) (h : CInv spec s)
    (hs : Cache.step spec s t = some s') : CInv spec s' := by
  obtain ⟨hr, hst, hp⟩ := h
  unfold Cache.step at hs
  split at hs
  · simp at hs
  · rename_i todo pc hpc
    cases pc with
    | find k =>
      simp only at hs
      split at hs
      · rename_i v hv
        simp only [Option.some.injEq] at hs
        subst hs
        have hm := hst _ (lookup_some_mem _ _ _ hv)
        refine ⟨?_, hst, ?_⟩
        · intro e he
          simp only [List.mem_cons] at he
          rcases he with rfl | he
          · exact hm
          · exact hr e he
        · intro u todo' k' v' hu
          simp only [List.getElem?_set] at hu
          split at hu
          · split at hu <;> simp at hu
          · exact hp _ _ _ _ hu
      · simp only [Option.some.injEq] at hs
        subst hs
        refine ⟨hr, hst, ?_⟩
        intro u todo' k' v' hu
        simp only [List.getElem?_set] at hu
        split at hu
        · split at hu
          · simp only [Option.some.injEq, Prod.mk.injEq, CPC.insert.injEq] at hu
            obtain ⟨_, rfl, rfl⟩ := hu
            rfl
          · simp at hu
        · exact hp _ _ _ _ hu
    | insert k v =>
      simp only [Option.some.injEq] at hs
      subst hs
      have hv := hp _ _ _ _ hpc
      refine ⟨?_, ?_, ?_⟩
      · intro e he
        simp only [List.mem_cons] at he
        rcases he with rfl | he
        · exact hv
        · exact hr e he
      · intro e he
        simp only [insertIfAbsent] at he
        split at he
        · exact hst e he
        · simp only [List.mem_cons] at he
          rcases he with rfl | he
          · exact hv
          · exact hst e he
      · intro u todo' k' v' hu
        simp only [List.getElem?_set] at hu
        split at hu
        · split at hu <;> simp at hu
        · exact hp _ _ _ _ hu
    | ret v =>
      simp only at hs
      split at hs
      · simp at hs
      · simp only [Option.some.injEq] at hs
        subst hs
        refine ⟨hr, hst, ?_⟩
        intro u todo' k' v' hu
        simp only [List.getElem?_set] at hu
        split at hu
        · split at hu <;> simp at hu
        · exact hp _ _ _ _ hu

theorem cinv_run (spec : Nat → Int) (sched : List Nat) : ∀ s, CInv spec s → CInv spec (Cache.run spec s sched) := by
  induction sched with
  | nil => intro s h; exact h
  | cons t ts ih =>
    intro s h
    simp only [Cache.run]
    apply ih
    cases hs : Cache.step spec s t with
    | none => simpa using h
    | some s' => simpa using cinv_step spec s s' t h hs

theorem cinv_init (spec : Nat → Int) (reqs : List (List Nat)) : CInv spec (Cache.init reqs) := by
  refine ⟨by simp [Cache.init], by simp [Cache.init], ?_⟩
  intro u todo k v hu
  simp [Cache.init, List.getElem?_map] at hu
  
/-- **cache**: under every schedule every completed request returned the specified row, and every stored
    entry is the specified row of its key (duplicated computation is possible, wrong or torn entries are not). -/
theorem cache_returns_spec (spec : Nat → Int) (reqs : List (List Nat)) (sched : List Nat) :
    (∀ e ∈ (Cache.run spec (Cache.init reqs) sched).returned, e.2.2 = spec e.2.1) ∧
    (∀ e ∈ (Cache.run spec (Cache.init reqs) sched).store, e.2 = spec e.1) :=
  have h := cinv_run spec sched _ (cinv_init spec reqs)
  ⟨h.hret, h.hstore⟩

/-! ## reduction -/

theorem sum_map_add' {α : Type} (l : List α) (g h : α → Int) :
    (l.map fun t => g t + h t).sum = (l.map g).sum + (l.map h).sum := by
  induction l with
  | nil => simp
  | cons a l ih => simp only [List.map_cons, List.sum_cons, ih]; omega

theorem sum_map_zero {α : Type} (l : List α) : (l.map fun _ => (0 : Int)).sum = 0 := by
  induction l with
  | nil => simp
  | cons a l ih => simp only [List.map_cons, List.sum_cons, ih]; omega

theorem sum_range_ite (a : Nat) (x : Int) (n : Nat) :
    ((List.range n).map fun t => if (a == t) = true then x else 0).sum = if a < n then x else 0 := by
  induction n with
  | zero => simp
  | succ n ih =>
    rw [List.range_succ, List.map_append, List.sum_append, ih]
    by_cases h1 : a < n
    · have : ¬ a = n := by omega
      simp [h1, this]; omega
    · by_cases h2 : a = n
      · subst h2; simp
      · have : ¬ a < n + 1 := by omega
        simp [h1, h2, this]

theorem reduce_filter (n : Nat) (owner : Nat → Nat) (f : Nat → Int) (items : List Nat) :
    ((List.range n).map fun t => ((items.filter fun i => owner i == t).map f).sum).sum
      = ((items.filter fun i => decide (owner i < n)).map f).sum := by
  induction items with
  | nil => simp [sum_map_zero]
  | cons i items ih =>
    have key : ∀ t, (((i :: items).filter fun j => owner j == t).map f).sum
        = (if (owner i == t) = true then f i else 0) + ((items.filter fun j => owner j == t).map f).sum := by
      intro t
      by_cases h : (owner i == t) = true <;> simp [h]
    simp only [key]
    rw [sum_map_add', ih, sum_range_ite]
    by_cases h : owner i < n <;> simp [h]

/-- **reduction**: whatever thread each work item is given to, the reduced result is the sum over all items
    (in ℤ, i.e. up to the re-association that floating point does not have). -/
theorem reduction_any_assignment (n : Nat) (owner : Nat → Nat) (items : List Nat) (f : Nat → Int)
    (h : ∀ i ∈ items, owner i < n) : reduceResult n owner items f = (items.map f).sum := by
  unfold reduceResult
  rw [reduce_filter]
  have : items.filter (fun i => decide (owner i < n)) = items := by
    rw [List.filter_eq_self]; intro i hi; simp [h i hi]
  rw [this]

end StirVerif.C18
