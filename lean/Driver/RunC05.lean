import Driver.C05
def main : IO Unit := Driver.C05.main
