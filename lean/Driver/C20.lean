import StirVerif.C20.Model
import Std.Data.HashMap
/-! Line-protocol driver for C20 (implementation side: harness/c20_mlnorm.cxx).

The model (`StirVerif.C20`) is executed at `K = Rat`: every `float` printed by the harness (`%a`) is parsed exactly.
Exceptions: `itereff flt` (the in-place sweep makes exact rationals explode: the same definition is run at binary64) and
`kl` (`log`: binary64).  Numeric answers are `n <k> v1 v2 …`: exact values `num/den` and the number `k` of `float`
operations on the longest path of the implementation's computation; `checks/c20.py` accepts
`|impl − exact| ≤ 4·k·2⁻²⁴·|exact|` (all terms are non-negative, so `Σ|terms| = |exact|`). -/
namespace Driver.C20
open StirVerif.C20

/-! ### exact parsing of C99 hex floats -/

def hexVal (c : Char) : Option Nat :=
  if '0' ≤ c ∧ c ≤ '9' then some (c.toNat - '0'.toNat)
  else if 'a' ≤ c ∧ c ≤ 'f' then some (c.toNat - 'a'.toNat + 10)
  else if 'A' ≤ c ∧ c ≤ 'F' then some (c.toNat - 'A'.toNat + 10)
  else none

def pow2 (e : Int) : Rat := if e ≥ 0 then ((2 ^ e.toNat : Nat) : Rat) else 1 / ((2 ^ (-e).toNat : Nat) : Rat)

def mant : List Char → Nat → Nat → Bool → Bool → Option (Nat × Nat × List Char)
  | [], _, _, _, _ => none
  | 'p' :: r, acc, frac, _, any => if any then some (acc, frac, r) else none
  | '.' :: r, acc, frac, seenDot, any => if seenDot then none else mant r acc frac true any
  | c :: r, acc, frac, seenDot, _ =>
    match hexVal c with
    | some d => mant r (acc * 16 + d) (if seenDot then frac + 1 else frac) seenDot true
    | none => none

/-- `[-]0x<hex>[.<hex>]p<±dec>` → exact rational; `none` for `inf`, `nan`, garbage -/
def parseHex (s : String) : Option Rat := do
  let cs := s.toList
  let (neg, cs) := match cs with
    | '-' :: r => (true, r)
    | r => (false, r)
  let cs ← match cs with
    | '0' :: 'x' :: r => some r
    | _ => none
  let (m, frac, rest) ← mant cs 0 0 false false
  let e ← match rest with
    | '+' :: r => (String.ofList r).toInt?
    | r => (String.ofList r).toInt?
  let q : Rat := (m : Rat) * pow2 (e - 4 * (frac : Int))
  some (if neg then -q else q)

def ratToFloat (q : Rat) : Float := Float.ofInt q.num / Float.ofNat q.den

/-- exact value of a finite binary64 -/
def floatToRat (x : Float) : Rat :=
  if x == 0 then 0
  else
    let neg := x < 0
    let (m, e) := (if neg then -x else x).frExp
    let mi : Nat := (m.scaleB 53).toUInt64.toNat
    let q : Rat := (mi : Rat) * pow2 (e - 53)
    if neg then -q else q

def fmtRat (q : Rat) : String := if q.den == 1 then toString q.num else s!"{q.num}/{q.den}"

def fmtList (n : Nat) (l : List Rat) : String := s!"n {n} " ++ " ".intercalate (l.map fmtRat)

/-! ### state -/

structure St where
  scn : Scn := ⟨0, 0, 1, 1, 0, 0, 1, 1, 0, 0, 0, true, 1, 0, false⟩
  d : Dims := ⟨1, 2, 0, 0⟩
  bd : Dims := ⟨1, 2, 0, 0⟩
  g : GeoDims := ⟨1, 1, 1, 2⟩
  F : Fan Rat := {}
  F2 : Fan Rat := {}
  E : Tab Rat := {}
  S : Tab Rat := {}
  B : Fan Rat := {}
  B2 : Fan Rat := {}
  G : Fan Rat := {}
  G2 : Fan Rat := {}
  /-- storage index ↦ the index tuple of the loop nest that addresses it -/
  names : Std.HashMap Key Key := {}

def fanOfList (d : Dims) (vals : List Rat) : Fan Rat :=
  (d.canon.zip vals).foldl (fun F cv => F.put d cv.1.1 cv.1.2.1 cv.1.2.2.1 cv.1.2.2.2 cv.2) {}

def fanToList (d : Dims) (F : Fan Rat) : List Rat :=
  d.canon.map fun c => F.at d c.1 c.2.1 c.2.2.1 c.2.2.2

def tabOfList (d : Dims) (vals : List Rat) : Tab Rat :=
  (d.dets.zip vals).foldl (fun T cv => T.set cv.1 cv.2) {}

def tabToList (d : Dims) (T : Tab Rat) : List Rat := d.dets.map T.get

def geoOfList (d : Dims) (g : GeoDims) (vals : List Rat) : Fan Rat :=
  ((geoLoop d g).zip vals).foldl (fun G cv => G.set (g.storeKey cv.1.1 cv.1.2.1 cv.1.2.2.1 cv.1.2.2.2) cv.2) {}

def geoToList (d : Dims) (g : GeoDims) (G : Fan Rat) : List Rat :=
  (geoLoop d g).map fun c => G.get (g.storeKey c.1 c.2.1 c.2.2.1 c.2.2.2)

def fanToFloat (d : Dims) (F : Fan Rat) : Fan Float :=
  d.canon.foldl (fun X c => X.put d c.1 c.2.1 c.2.2.1 c.2.2.2 (ratToFloat (F.at d c.1 c.2.1 c.2.2.1 c.2.2.2))) {}

def tabToFloat (d : Dims) (T : Tab Rat) : Tab Float :=
  d.dets.foldl (fun X k => X.set k (ratToFloat (T.get k))) {}

def fmtKey (k : Key) : String := s!"{k.1} {k.2.1} {k.2.2.1} {k.2.2.2}"

def keyLt (x y : Key) : Bool :=
  x.1 < y.1 || (x.1 == y.1 && (x.2.1 < y.2.1 || (x.2.1 == y.2.1 && (x.2.2.1 < y.2.2.1 || (x.2.2.1 == y.2.2.1 && x.2.2.2 < y.2.2.2)))))

def insertSorted (k : Key) : List Key → List Key
  | [] => [k]
  | x :: r => if keyLt k x then k :: x :: r else if k == x then x :: r else x :: insertSorted k r

/-- number of entries of the fan window of one detector: float additions of a fan sum -/
def fanTerms (d : Dims) : Nat := ((2 * d.md + 1) * (2 * d.h + 1)).toNat

def b2s (b : Bool) : String := if b then "1" else "0"

def stepLine (st : St) (line : String) : St × String :=
  let toks := (line.trimAscii.toString.splitOn " ").filter (· ≠ "")
  let I (s : String) : Int := s.toInt?.getD 0
  let Q (s : String) : Rat := (parseHex s).getD 0
  match toks with
  | ["cfg", n, r, tcpb, acpb, vt, va, ntb, nab, minT, maxT, maxS, cyl, mash, rd0, tof] =>
    let scn : Scn := ⟨I n, I r, I tcpb, I acpb, I vt, I va, I ntb, I nab, I minT, I maxT, I maxS, cyl == "1", I mash, I rd0, tof == "1"⟩
    match fanDimsOf scn with
    | .error _ => ({ st with scn := scn }, "err")
    | .ok d =>
      let names := d.canon.foldl (fun m c => m.insert (d.storeKey c.1 c.2.1 c.2.2.1 c.2.2.2) c) ({} : Std.HashMap Key Key)
      ({ st with scn := scn, d := d, names := names }, s!"{d.R} {d.N} {d.md} {d.h}")
  | ["fi"] =>
    match getFanInfo st.scn with
    | .error _ => (st, "err")
    | .ok (a, b, c, e) => (st, s!"{a} {b} {c} {e}")
  | ["pair", a, ra, b, rb] =>
    match newCoords st.scn ⟨I a, I ra, I b, I rb⟩ with
    | none => (st, "gap")
    | some (nra, na, nrb, nb) =>
      let l := insertSorted (nra, na, nrb, nb) (insertSorted (nrb, nb, nra, na) [])
      (st, " ".intercalate (l.map fun k => s!"{k.1},{k.2.1},{k.2.2.1},{k.2.2.2}"))
  | ["unpair", a, ra, b, rb] =>
    match newCoords st.scn ⟨I a, I ra, I b, I rb⟩ with
    | none => (st, "gap")
    | some (nra, na, nrb, nb) =>
      match st.names.get? (st.d.storeKey nra na nrb nb) with
      | some c => (st, fmtKey c)
      | none => (st, "unknown")
  | ["ent", ra, a, rb, b] =>
    let nm := match st.names.get? (st.d.storeKey (I ra) (I a) (I rb) (I b)) with
      | some c => fmtKey c
      | none => "unknown"
    (st, s!"{b2s (st.d.isInData (I ra) (I a) (I rb) (I b))} {nm}")
  | ["isin", ra, a, rb, b] => (st, b2s (st.d.isInData (I ra) (I a) (I rb) (I b)))
  | "fan" :: vals => ({ st with F := fanOfList st.d (vals.map Q) }, "ok")
  | "fan2" :: vals => ({ st with F2 := fanOfList st.d (vals.map Q) }, "ok")
  | "eff" :: vals => ({ st with E := tabOfList st.d (vals.map Q) }, "ok")
  | "sums" :: vals => ({ st with S := tabOfList st.d (vals.map Q) }, "ok")
  | ["bdims", r, n, md, fs] => ({ st with bd := Dims.ofCtor (I r) (I n) (I md) (I fs) }, "ok")
  | "blk" :: vals => ({ st with B := fanOfList st.bd (vals.map Q) }, "ok")
  | "blk2" :: vals => ({ st with B2 := fanOfList st.bd (vals.map Q) }, "ok")
  | ["gdims", acpb, half, r, n] => ({ st with g := ⟨I acpb, I half, I r, I n⟩ }, "ok")
  | "geo" :: vals => ({ st with G := geoOfList st.d st.g (vals.map Q) }, "ok")
  | "geo2" :: vals => ({ st with G2 := geoOfList st.d st.g (vals.map Q) }, "ok")
  | ["appeff", ap] => (st, fmtList 2 (fanToList st.d (applyEff st.d st.F st.E (ap == "1"))))
  | ["appblk", ap] => (st, fmtList 1 (fanToList st.d (applyBlock st.d st.bd st.F st.B (ap == "1"))))
  | ["appgeo", ap] => (st, fmtList 1 (fanToList st.d (applyGeo st.d st.g st.F st.G (ap == "1"))))
  | ["fansums"] => (st, fmtList (fanTerms st.d) (tabToList st.d (makeFanSums st.d st.F)))
  | ["itereff", mode] =>
    let n := (st.d.R * st.d.N).toNat * (fanTerms st.d + 3)
    if mode == "rat" then (st, fmtList n (tabToList st.d (iterateEff st.d st.E st.S st.F)))
    else
      let r := iterateEff st.d (tabToFloat st.d st.E) (tabToFloat st.d st.S) (fanToFloat st.d st.F)
      (st, fmtList n (st.d.dets.map fun k => floatToRat (r.get k)))
  | ["mkblk"] =>
    let cls := ((st.d.R.tdiv st.bd.R) * (st.d.R.tdiv st.bd.R) * (st.d.N.tdiv st.bd.N) * (st.d.N.tdiv st.bd.N)).toNat
    (st, fmtList (cls + 1) (fanToList st.bd (makeBlock st.d st.bd st.F)))
  | ["iterblk"] =>
    let cls := ((st.d.R.tdiv st.bd.R) * (st.d.R.tdiv st.bd.R) * (st.d.N.tdiv st.bd.N) * (st.d.N.tdiv st.bd.N)).toNat
    (st, fmtList (cls + 4) (fanToList st.bd (iterateBlock st.d st.bd st.B2 st.F)))
  | ["mkgeo"] =>
    let n := 4 * (blockShifts st.d st.g).length + 4
    (st, fmtList n (geoToList st.d st.g (makeGeo st.d st.g st.F)))
  | ["itergeo"] =>
    let n := 4 * (blockShifts st.d st.g).length + 8
    (st, fmtList n (geoToList st.d st.g (iterateGeo st.d st.g st.G2 st.F)))
  | ["kl", thr] =>
    let F1 := fanToFloat st.d st.F
    let F2 := fanToFloat st.d st.F2
    let v := klFan Float.log st.d F1 F2 (ratToFloat (Q thr))
    let mag := st.d.canon.foldl (fun s c => s + F1.at st.d c.1 c.2.1 c.2.2.1 c.2.2.2 + F2.at st.d c.1 c.2.1 c.2.2.1 c.2.2.2) (0 : Float)
    (st, s!"kl {fmtRat (floatToRat v)} {fmtRat (floatToRat mag)}")
  | _ => (st, "bad-op")

partial def loop (h : IO.FS.Stream) (st : St) : IO Unit := do
  let line ← h.getLine
  if line.isEmpty then return ()
  let (st', out) := stepLine st line
  IO.println out
  loop h st'

def main : IO Unit := do loop (← IO.getStdin) {}
end Driver.C20
