import StirVerif.C20.Model
import Std.Data.HashMap
/-! Line-protocol driver for C20 (implementation side: harness/c20_mlnorm.cxx).

The model (`StirVerif.C20`) is executed at `K = Rat`: every `float` printed by the harness (`%a`) is parsed exactly.
Exceptions: `itereff flt` (the in-place sweep makes exact rationals explode: the same definition is run at binary64) and
`kl` (`log`: binary64).  Numeric answers are `n <k> v1 v2 …`: exact values `num/den` and the number `k` of `float`
operations on the longest path of the implementation's computation; `checks/c20.py` accepts
`|impl − exact| ≤ 4·k·2⁻²⁴·|exact|` (all terms are non-negative, so `Σ|terms| = |exact|`). -/
namespace Driver.C20
open StirVerif.C20

/-! ### exact parsing of C99 hex floats -/

def hexVal (c : Char) : Option Nat :=
  if '0' ≤ c ∧ c ≤ '9' then some (c.toNat - '0'.toNat)
  else if 'a' ≤ c ∧ c ≤ 'f' then some (c.toNat - 'a'.toNat + 10)
  else if 'A' ≤ c ∧ c ≤ 'F' then some (c.toNat - 'A'.toNat + 10)
  else none

def pow2 (e : Int) : Rat := if e ≥ 0 then ((2 ^ e.toNat : Nat) : Rat) else 1 / ((2 ^ (-e).toNat : Nat) : Rat)

def mant : List Char → Nat → Nat → Bool → Bool → Option (Nat × Nat × List Char)
  | [], _, _, _, _ => none
  | 'p' :: r, acc, frac, _, any => if any then some (acc, frac, r) else none
  | '.' :: r, acc, frac, seenDot, any => if seenDot then none else mant r acc frac true any
  | c :: r, acc, frac, seenDot, _ =>
    match hexVal c with
    | some d => mant r (acc * 16 + d) (if seenDot then frac + 1 else frac) seenDot true
    | none => none

/-- `[-]0x<hex>[.<hex>]p<±dec>` → exact rational; `none` for `inf`, `nan`, garbage -/
def parseHex (s : String) : Option Rat := do
  let cs := s.toList
  let (neg, cs) := match cs with
    | '-' :: r => (true, r)
    | r => (false, r)
  let cs ← match cs with
    | '0' :: 'x' :: r => some r
    | _ => none
  let (m, frac, rest) ← mant cs 0 0 false false
  let e ← match rest with
    | '+' :: r => (String.ofList r).toInt?
    | r => (String.ofList r).toInt?
  let q : Rat := (m : Rat) * pow2 (e - 4 * (frac : Int))
  some (if neg then -q else q)

def ratToFloat (q : Rat) : Float := Float.ofInt q.num / Float.ofNat q.den

/-- exact value of a finite binary64 -/
def floatToRat (x : Float) : Rat :=
  if x == 0 then 0
  else
    let neg := x < 0
    let (m, e) := (if neg then -x else x).frExp
    let mi : Nat := (m.scaleB 53).toUInt64.toNat
    let q : Rat := (mi : Rat) * pow2 (e - 53)
    if neg then -q else q

def fmtRat (q : Rat) : String := if q.den == 1 then toString q.num else s!"{q.num}/{q.den}"

def fmtList (n : Nat) (l : List Rat) : String := s!"n {n} " ++ " ".intercalate (l.map fmtRat)

/-! ### state -/

structure St where
  scn : Scn := ⟨0, 0, 1, 1, 0, 0, 1, 1, 0, 0, 0, true, 1, 0, false⟩
  d : Dims := ⟨1, 2, 0, 0⟩
  bd : Dims := ⟨1, 2, 0, 0⟩
  g : GeoDims := ⟨1, 1, 1, 2⟩
  F : Fan Rat := {}
  F2 : Fan Rat := {}
  E : Tab Rat := {}
  S : Tab Rat := {}
  B : Fan Rat := {}
  B2 : Fan Rat := {}
  G : Fan Rat := {}
  G2 : Fan Rat := {}
  /-- storage index ↦ the index tuple of the loop nest that addresses it -/
  names : Std.HashMap Key Key := {}
  /-- `DetPairData` family: dimensions, two data sets, efficiencies / fan sums (1-d), block and geometric factors (2-d) -/
  dp : DPDims := ⟨2, 0⟩
  P : Fan Rat := {}
  P2 : Fan Rat := {}
  V : Tab Rat := {}
  V2 : Tab Rat := {}
  nb : Int := 1
  half : Int := 1
  TB : Tab Rat := {}
  TB2 : Tab Rat := {}
  TG : Tab Rat := {}
  TG2 : Tab Rat := {}

def fanOfList (d : Dims) (vals : List Rat) : Fan Rat :=
  (d.canon.zip vals).foldl (fun F cv => F.put d cv.1.1 cv.1.2.1 cv.1.2.2.1 cv.1.2.2.2 cv.2) {}

def fanToList (d : Dims) (F : Fan Rat) : List Rat :=
  d.canon.map fun c => F.at d c.1 c.2.1 c.2.2.1 c.2.2.2

def tabOfList (d : Dims) (vals : List Rat) : Tab Rat :=
  (d.dets.zip vals).foldl (fun T cv => T.set cv.1 cv.2) {}

def tabToList (d : Dims) (T : Tab Rat) : List Rat := d.dets.map T.get

def geoOfList (d : Dims) (g : GeoDims) (vals : List Rat) : Fan Rat :=
  ((geoLoop d g).zip vals).foldl (fun G cv => G.set (g.storeKey cv.1.1 cv.1.2.1 cv.1.2.2.1 cv.1.2.2.2) cv.2) {}

def geoToList (d : Dims) (g : GeoDims) (G : Fan Rat) : List Rat :=
  (geoLoop d g).map fun c => G.get (g.storeKey c.1 c.2.1 c.2.2.1 c.2.2.2)

def fanToFloat (d : Dims) (F : Fan Rat) : Fan Float :=
  d.canon.foldl (fun X c => X.put d c.1 c.2.1 c.2.2.1 c.2.2.2 (ratToFloat (F.at d c.1 c.2.1 c.2.2.1 c.2.2.2))) {}

def tabToFloat (d : Dims) (T : Tab Rat) : Tab Float :=
  d.dets.foldl (fun X k => X.set k (ratToFloat (T.get k))) {}

def dpOfList (d : DPDims) (vals : List Rat) : Fan Rat :=
  (d.canon.zip vals).foldl (fun F cv => F.set cv.1 cv.2) {}

def dpToList (d : DPDims) (F : Fan Rat) : List Rat := d.canon.map F.get

def vecOfList (n : Int) (vals : List Rat) : Tab Rat :=
  ((intRange 0 (n - 1)).zip vals).foldl (fun T av => T.set (0, av.1) av.2) {}

def vecToList (n : Int) (T : Tab Rat) : List Rat := (intRange 0 (n - 1)).map fun a => T.get (0, a)

def gridOfList (n m : Int) (vals : List Rat) : Tab Rat :=
  ((grid n m).zip vals).foldl (fun T kv => T.set kv.1 kv.2) {}

def gridToList (n m : Int) (T : Tab Rat) : List Rat := (grid n m).map T.get

def dpToFloat (d : DPDims) (F : Fan Rat) : Fan Float := d.canon.foldl (fun X c => X.set c (ratToFloat (F.get c))) {}

def vecToFloat (n : Int) (T : Tab Rat) : Tab Float := (intRange 0 (n - 1)).foldl (fun X a => X.set (0, a) (ratToFloat (T.get (0, a)))) {}

/-- `a b pos neg a b pos neg …` -/
def parseBins (I : String → Int) (Q : String → Rat) : List String → List ((Int × Int) × (Rat × Rat))
  | a :: b :: p :: n :: r => ((I a, I b), (Q p, Q n)) :: parseBins I Q r
  | _ => []

def parsePairs (I : String → Int) : List String → List (Int × Int)
  | a :: b :: r => (I a, I b) :: parsePairs I r
  | _ => []

def intToRat (i : Int) : Rat := (i : Rat)

def fmtKey (k : Key) : String := s!"{k.1} {k.2.1} {k.2.2.1} {k.2.2.2}"

def keyLt (x y : Key) : Bool :=
  x.1 < y.1 || (x.1 == y.1 && (x.2.1 < y.2.1 || (x.2.1 == y.2.1 && (x.2.2.1 < y.2.2.1 || (x.2.2.1 == y.2.2.1 && x.2.2.2 < y.2.2.2)))))

def insertSorted (k : Key) : List Key → List Key
  | [] => [k]
  | x :: r => if keyLt k x then k :: x :: r else if k == x then x :: r else x :: insertSorted k r

/-- number of entries of the fan window of one detector: float additions of a fan sum -/
def fanTerms (d : Dims) : Nat := ((2 * d.md + 1) * (2 * d.h + 1)).toNat

def b2s (b : Bool) : String := if b then "1" else "0"

def stepLine (st : St) (line : String) : St × String :=
  let toks := (line.trimAscii.toString.splitOn " ").filter (· ≠ "")
  let I (s : String) : Int := s.toInt?.getD 0
  let Q (s : String) : Rat := (parseHex s).getD 0
  match toks with
  | ["cfg", n, r, tcpb, acpb, vt, va, ntb, nab, minT, maxT, maxS, cyl, mash, rd0, tof] =>
    let scn : Scn := ⟨I n, I r, I tcpb, I acpb, I vt, I va, I ntb, I nab, I minT, I maxT, I maxS, cyl == "1", I mash, I rd0, tof == "1"⟩
    match fanDimsOf scn with
    | .error _ => ({ st with scn := scn }, "err")
    | .ok d =>
      let names := d.canon.foldl (fun m c => m.insert (d.storeKey c.1 c.2.1 c.2.2.1 c.2.2.2) c) ({} : Std.HashMap Key Key)
      ({ st with scn := scn, d := d, names := names }, s!"{d.R} {d.N} {d.md} {d.h}")
  | ["fi"] =>
    match getFanInfo st.scn with
    | .error _ => (st, "err")
    | .ok (a, b, c, e) => (st, s!"{a} {b} {c} {e}")
  | ["pair", a, ra, b, rb] =>
    match newCoords st.scn ⟨I a, I ra, I b, I rb⟩ with
    | none => (st, "gap")
    | some (nra, na, nrb, nb) =>
      let l := insertSorted (nra, na, nrb, nb) (insertSorted (nrb, nb, nra, na) [])
      (st, " ".intercalate (l.map fun k => s!"{k.1},{k.2.1},{k.2.2.1},{k.2.2.2}"))
  | ["unpair", a, ra, b, rb] =>
    match newCoords st.scn ⟨I a, I ra, I b, I rb⟩ with
    | none => (st, "gap")
    | some (nra, na, nrb, nb) =>
      match st.names.get? (st.d.storeKey nra na nrb nb) with
      | some c => (st, fmtKey c)
      | none => (st, "unknown")
  | ["ent", ra, a, rb, b] =>
    let nm := match st.names.get? (st.d.storeKey (I ra) (I a) (I rb) (I b)) with
      | some c => fmtKey c
      | none => "unknown"
    (st, s!"{b2s (st.d.isInData (I ra) (I a) (I rb) (I b))} {nm}")
  | ["isin", ra, a, rb, b] => (st, b2s (st.d.isInData (I ra) (I a) (I rb) (I b)))
  | "fan" :: vals => ({ st with F := fanOfList st.d (vals.map Q) }, "ok")
  | "fan2" :: vals => ({ st with F2 := fanOfList st.d (vals.map Q) }, "ok")
  | "eff" :: vals => ({ st with E := tabOfList st.d (vals.map Q) }, "ok")
  | "sums" :: vals => ({ st with S := tabOfList st.d (vals.map Q) }, "ok")
  | ["bdims", r, n, md, fs] => ({ st with bd := Dims.ofCtor (I r) (I n) (I md) (I fs) }, "ok")
  | "blk" :: vals => ({ st with B := fanOfList st.bd (vals.map Q) }, "ok")
  | "blk2" :: vals => ({ st with B2 := fanOfList st.bd (vals.map Q) }, "ok")
  | ["gdims", acpb, half, r, n] => ({ st with g := ⟨I acpb, I half, I r, I n⟩ }, "ok")
  | "geo" :: vals => ({ st with G := geoOfList st.d st.g (vals.map Q) }, "ok")
  | "geo2" :: vals => ({ st with G2 := geoOfList st.d st.g (vals.map Q) }, "ok")
  | ["appeff", ap] => (st, fmtList 2 (fanToList st.d (applyEff st.d st.F st.E (ap == "1"))))
  | ["appblk", ap] => (st, fmtList 1 (fanToList st.d (applyBlock st.d st.bd st.F st.B (ap == "1"))))
  | ["appgeo", ap] => (st, fmtList 1 (fanToList st.d (applyGeo st.d st.g st.F st.G (ap == "1"))))
  | ["fansums"] => (st, fmtList (fanTerms st.d) (tabToList st.d (makeFanSums st.d st.F)))
  | ["itereff", mode] =>
    let n := (st.d.R * st.d.N).toNat * (fanTerms st.d + 3)
    if mode == "rat" then (st, fmtList n (tabToList st.d (iterateEff st.d st.E st.S st.F)))
    else
      let r := iterateEff st.d (tabToFloat st.d st.E) (tabToFloat st.d st.S) (fanToFloat st.d st.F)
      (st, fmtList n (st.d.dets.map fun k => floatToRat (r.get k)))
  | ["mkblk"] =>
    let cls := ((st.d.R.tdiv st.bd.R) * (st.d.R.tdiv st.bd.R) * (st.d.N.tdiv st.bd.N) * (st.d.N.tdiv st.bd.N)).toNat
    (st, fmtList (cls + 1) (fanToList st.bd (makeBlock st.d st.bd st.F)))
  | ["iterblk"] =>
    let cls := ((st.d.R.tdiv st.bd.R) * (st.d.R.tdiv st.bd.R) * (st.d.N.tdiv st.bd.N) * (st.d.N.tdiv st.bd.N)).toNat
    (st, fmtList (cls + 4) (fanToList st.bd (iterateBlock st.d st.bd st.B2 st.F)))
  | ["mkgeo"] =>
    let n := 4 * (blockShifts st.d st.g).length + 4
    (st, fmtList n (geoToList st.d st.g (makeGeo st.d st.g st.F)))
  | ["itergeo"] =>
    let n := 4 * (blockShifts st.d st.g).length + 8
    (st, fmtList n (geoToList st.d st.g (iterateGeo st.d st.g st.G2 st.F)))
  | ["kl", thr] =>
    let F1 := fanToFloat st.d st.F
    let F2 := fanToFloat st.d st.F2
    let v := klFan Float.log st.d F1 F2 (ratToFloat (Q thr))
    let mag := st.d.canon.foldl (fun s c => s + F1.at st.d c.1 c.2.1 c.2.2.1 c.2.2.2 + F2.at st.d c.1 c.2.1 c.2.2.1 c.2.2.2) (0 : Float)
    (st, s!"kl {fmtRat (floatToRat v)} {fmtRat (floatToRat mag)}")
  | ["fansumsnm"] => (st, fmtList (fanTerms st.d + 1) (tabToList st.d (makeFanSumsNM st.d st.E)))
  | ["itereffnm", mode] =>
    let n := (st.d.R * st.d.N).toNat * (fanTerms st.d + 3)
    if mode == "rat" then (st, fmtList n (tabToList st.d (iterateEffNM st.d st.E st.S)))
    else
      let r := iterateEffNM st.d (tabToFloat st.d st.E) (tabToFloat st.d st.S)
      (st, fmtList n (st.d.dets.map fun k => floatToRat (r.get k)))
  | ["dpcfg", n, minT, maxT] =>
    let dp := dpDimsOf (I n) (I minT) (I maxT)
    ({ st with dp := dp }, s!"{dp.N} {dp.h}")
  | "mkdp" :: rest =>
    let F := makeDP st.dp (parseBins I Q rest)
    ({ st with P := F }, fmtList 0 (dpToList st.dp F))
  | "setdp" :: segnz :: rest =>
    let l := setDP st.dp st.P (segnz == "1") (parsePairs I rest)
    (st, fmtList 0 (l.flatMap fun pn => match pn.2 with
      | some n => [pn.1, n]
      | none => [pn.1]))
  | "dpfan" :: vals => ({ st with P := dpOfList st.dp (vals.map Q) }, "ok")
  | "dpfan2" :: vals => ({ st with P2 := dpOfList st.dp (vals.map Q) }, "ok")
  | "dpeff" :: vals => ({ st with V := vecOfList st.dp.N (vals.map Q) }, "ok")
  | "dpsums" :: vals => ({ st with V2 := vecOfList st.dp.N (vals.map Q) }, "ok")
  | "dpblk" :: nb :: vals => ({ st with nb := I nb, TB := gridOfList (I nb) (I nb) (vals.map Q) }, "ok")
  | "dpblk2" :: vals => ({ st with TB2 := gridOfList st.nb st.nb (vals.map Q) }, "ok")
  | "dpgeo" :: half :: vals => ({ st with half := I half, TG := gridOfList (I half) st.dp.N (vals.map Q) }, "ok")
  | "dpgeo2" :: vals => ({ st with TG2 := gridOfList st.half st.dp.N (vals.map Q) }, "ok")
  | ["dpappeff", ap] => (st, fmtList 2 (dpToList st.dp (dpApplyEff st.dp st.P st.V (ap == "1"))))
  | ["dpappblk", ap] => (st, fmtList 1 (dpToList st.dp (dpApplyBlock st.dp st.nb st.P st.TB (ap == "1"))))
  | ["dpappgeo", ap] => (st, fmtList 1 (dpToList st.dp (dpApplyGeo st.dp st.half st.P st.TG (ap == "1"))))
  | ["dpfansums"] => (st, fmtList (2 * st.dp.h + 1).toNat (vecToList st.dp.N (dpMakeFanSums st.dp st.P)))
  | ["dpmkgeo"] =>
    let n := 2 * (st.dp.N.tdiv (2 * st.half)).toNat + 3
    (st, fmtList n (gridToList st.half st.dp.N (dpMakeGeo intToRat st.dp st.half st.P)))
  | ["dpmkblk"] =>
    let cpb := (st.dp.N.tdiv st.nb).toNat
    (st, fmtList (cpb * cpb + 2) (gridToList st.nb st.nb (dpMakeBlock intToRat st.dp st.nb st.P)))
  | ["dpitereff", mode] =>
    let n := st.dp.N.toNat * ((2 * st.dp.h + 1).toNat + 3)
    if mode == "rat" then (st, fmtList n (vecToList st.dp.N (dpIterateEff st.dp st.V st.V2 st.P)))
    else
      let r := dpIterateEff st.dp (vecToFloat st.dp.N st.V) (vecToFloat st.dp.N st.V2) (dpToFloat st.dp st.P)
      (st, fmtList n ((intRange 0 (st.dp.N - 1)).map fun a => floatToRat (r.get (0, a))))
  | ["dpitergeo"] =>
    let n := 2 * (st.dp.N.tdiv (2 * st.half)).toNat + 6
    (st, fmtList n (gridToList st.half st.dp.N (dpIterateGeo intToRat st.dp st.half st.TG2 st.P)))
  | ["dpiterblk"] =>
    let cpb := (st.dp.N.tdiv st.nb).toNat
    (st, fmtList (cpb * cpb + 5) (gridToList st.nb st.nb (dpIterateBlock intToRat st.dp st.nb st.TB2 st.P)))
  | ["dpkl", thr] =>
    let F1 := dpToFloat st.dp st.P
    let F2 := dpToFloat st.dp st.P2
    let v := dpKL Float.log st.dp F1 F2 (ratToFloat (Q thr))
    let mag := st.dp.canon.foldl (fun s c => s + F1.get c + F2.get c) (0 : Float)
    (st, s!"kl {fmtRat (floatToRat v)} {fmtRat (floatToRat mag)}")
  | _ => (st, "bad-op")

partial def loop (h : IO.FS.Stream) (st : St) : IO Unit := do
  let line ← h.getLine
  if line.isEmpty then return ()
  let (st', out) := stepLine st line
  IO.println out
  loop h st'

def main : IO Unit := do loop (← IO.getStdin) {}
end Driver.C20
