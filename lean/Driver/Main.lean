import Driver.C17
import Driver.C15
import Driver.C12
import Driver.C09
import Driver.C08
import Driver.C07
import Driver.C03
import Driver.C05
import Driver.C04
import Driver.C19
import Driver.C20
import Driver.C10
import Driver.C16
import Driver.C02
import Driver.C14
import Driver.C13
import Driver.C18
import Driver.C11
import Driver.C06
import Driver.C01
/-! `stirdriver <property>`: reads the line protocol of that property on stdin, answers on stdout. -/
def main (args : List String) : IO UInt32 := do
  match args with
  | ["C11"] => Driver.C11.main; return 0
  | ["C06"] => Driver.C06.main; return 0
  | ["C01"] => Driver.C01.main; return 0
  | ["C18"] => Driver.C18.main; return 0
  | ["C13"] => Driver.C13.main; return 0
  | ["C14"] => Driver.C14.main; return 0
  | ["C02"] => Driver.C02.main; return 0
  | ["C16"] => Driver.C16.main; return 0
  | ["C10"] => Driver.C10.main; return 0
  | ["C20"] => Driver.C20.main; return 0
  | ["C19"] => Driver.C19.main; return 0
  | ["C04"] => Driver.C04.main; return 0
  | ["C05"] => Driver.C05.main; return 0
  | ["C03"] => Driver.C03.main; return 0
  | ["C07"] => Driver.C07.main; return 0
  | ["C08"] => Driver.C08.main; return 0
  | ["C09"] => Driver.C09.main; return 0
  | ["C12"] => Driver.C12.main; return 0
  | ["C15"] => Driver.C15.main; return 0
  | ["C17"] => Driver.C17.main; return 0
  | _ => IO.eprintln "usage: stirdriver <C01..C20>"; return 2
