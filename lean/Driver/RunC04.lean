import Driver.C04
def main : IO Unit := Driver.C04.main
