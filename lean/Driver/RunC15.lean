import Driver.C15
def main : IO Unit := Driver.C15.main
