import StirVerif.C02.Model
/-! Line-protocol driver for C02 (implementation side: harness/c02_projdata.cxx).

`cfg <backing> <order> <elemSize> <offset> <minSeg> <maxSeg> <minView> <numViews> <minTang> <numTang> <minTof> <maxTof>
     <numTof> <checkView> <checkTang> <setBinFlushes> <type> <byteorder> scale <p> <q> <setBinScaled> <segSizeChecked>
     <segTangChecked> seq <s…> ax <min:num …> tofseq <t…>`
fixes the layout, the on-disk number type and the scale factor `p/q`; the store (element slots holding the ON-DISK
numbers, initially 0) is kept here.  Values in operation lines are the API-level values (integers or fractions `n/q`).
Every write answers with the slots whose content changed (`d=`), a checksum of their new on-disk values and, for file
backings, whether the source flushes (`vis=`); every read answers with the values found at the addresses the model
computes, multiplied by the scale factor. -/
namespace Driver.C02
open StirVerif.C02

structure St where
  l : Layout
  backing : String
  fb : Bool
  total : Nat
  store : Array Rat
  ty : NumType
  scale : Rat
  binScaled : Bool
  segChecked : Bool
  segTangChecked : Bool

def I (s : String) : Int := s.toInt?.getD 0
def N (s : String) : Nat := s.toNat?.getD 0
/-- `n` or `n/q` -/
def R (s : String) : Rat :=
  match s.splitOn "/" with
  | [a] => (I a : Rat)
  | [a, b] => mkRat (I a) (N b)
  | _ => 0

def emptyLayout : Layout :=
  { segSeq := [], tofSeq := [], minSeg := 0, maxSeg := 0, minAx := fun _ => 0, numAx := fun _ => 0, minView := 0, numViews := 0,
    minTang := 0, numTang := 0, minTof := 0, maxTof := 0, numTof := 1, order := .savt, elemSize := 1, offset := 0, offset3d := 0,
    checkView := false, checkTang := false }

def parseCfg (t : List String) : Option St :=
  match t with
  | backing :: order :: size :: off :: minSeg :: maxSeg :: minView :: numViews :: minTang :: numTang :: minTof :: maxTof ::
      numTof :: chkv :: chkt :: fb :: ty :: _bo :: "scale" :: sp :: sq :: sbs :: chks :: chkst :: "seq" :: rest =>
    let seq := rest.takeWhile (· ≠ "ax")
    let rest := (rest.dropWhile (· ≠ "ax")).drop 1
    let ax := rest.takeWhile (· ≠ "tofseq")
    let tofseq := (rest.dropWhile (· ≠ "tofseq")).drop 1
    let axTab : Array (Int × Int) := (ax.map fun s =>
      match s.splitOn ":" with
      | [a, b] => (I a, I b)
      | _ => (0, 0)).toArray
    let mn := I minSeg
    let look (s : Int) : Int × Int := if s < mn then (0, 0) else axTab.getD (s - mn).toNat (0, 0)
    let l0 : Layout :=
      { segSeq := seq.map I, tofSeq := tofseq.map I, minSeg := mn, maxSeg := I maxSeg,
        minAx := fun s => (look s).1, numAx := fun s => (look s).2,
        minView := I minView, numViews := I numViews, minTang := I minTang, numTang := I numTang,
        minTof := I minTof, maxTof := I maxTof, numTof := I numTof,
        order := if order == "0" then .savt else .svat, elemSize := I size, offset := I off, offset3d := 0,
        checkView := chkv == "1", checkTang := chkt == "1" }
    -- offset_3d_data is computed as the source does (activate_TOF / ProjDataInMemory constructor)
    let l : Layout := { l0 with offset3d := stdOffset3d l0 }
    let total := (sizeAll l).toNat
    let nty : NumType := if ty == "short" then .short else if ty == "ushort" then .ushort else if ty == "int" then .int else .float
    some { l := l, backing := backing, fb := fb == "1", total := total, store := Array.replicate total 0,
           ty := nty, scale := mkRat (I sp) (N sq), binScaled := sbs == "1", segChecked := chks == "1",
           segTangChecked := chkst == "1" }
  | _ => none

def ranges (v : List Nat) : String :=
  if v.isEmpty then "-" else
  let rec go : List Nat → Nat → Nat → List String → List String
    | [], a, b, acc => (s!"{a}-{b}") :: acc
    | x :: xs, a, b, acc => if x == b + 1 then go xs a x acc else go xs x x ((s!"{a}-{b}") :: acc)
  match v with
  | [] => "-"
  | x :: xs => ",".intercalate (go xs x x []).reverse

def modulus : Int := 1000003

def slotsOf (st : St) (as : List Int) : Option (List Nat) :=
  let slots := as.map fun a => (a - st.l.offset) / st.l.elemSize
  if slots.any (fun k => k < 0 ∨ k ≥ (st.total : Int)) ∨ as.any (fun a => (a - st.l.offset) % st.l.elemSize ≠ 0) then none
  else some (slots.map Int.toNat)

/-- lay down ON-DISK numbers at the slots; answer line of a write -/
def commit (st : St) (slots : List Nat) (disk : List Rat) (isBin : Bool) : St × String :=
  let new := (slots.zip disk).foldl (fun (arr : Array Rat) (kv : Nat × Rat) => arr.set! kv.1 kv.2) st.store
  let touched := (slots.toArray.qsort (· < ·)).toList.eraseDups
  let changed := touched.filter fun (k : Nat) => new[k]! ≠ st.store[k]!
  let iv (q : Rat) : Int := if q.den = 1 then q.num else 999983
  let cs := changed.foldl (fun (acc : Int) (k : Nat) => (acc + (((k : Int) + 1) % modulus) * ((iv new[k]! + 1000) % modulus)) % modulus) 0
  let fileBacked := st.backing == "fs" || st.backing == "if"
  let flushed := !(isBin && !st.fb)        -- `flushes`: every set_* but set_bin_value (flag from the harness' probe)
  let vis := if fileBacked then (if flushed || changed.isEmpty then " vis=1" else " vis=0") else ""
  ({ st with store := new }, s!"ok d={ranges changed} cs={cs}{vis}")

/-- a write of API-level values through a path of kind `k`: `toDisk` with the scale that kind passes to `write_data` -/
def doWrite (st : St) (addrs : Except Err (List Int)) (vals : List Rat) (k : WriteKind) : St × String :=
  match addrs with
  | .error _ => (st, "err")
  | .ok as =>
    if as.length ≠ vals.length then (st, s!"bad-op values={vals.length} addresses={as.length}") else
    match slotsOf st as with
    | none => (st, "ok out-of-store")
    | some slots =>
      let sc := writeScale st.binScaled k st.scale
      commit st slots (vals.map (toDisk st.ty sc)) (!(flushes k))

def readVals (st : St) (addrs : Except Err (List Int)) : Except String (List Rat) :=
  match addrs with
  | .error _ => .error "err"
  | .ok as =>
    match slotsOf st as with
    | none => .error "out-of-store"
    | some slots => .ok (slots.map fun k => fromDisk st.scale st.store[k]!)

def showVals (vs : List Rat) : String :=
  if vs.isEmpty then "empty" else " ".intercalate (vs.map toString)

def doRead (st : St) (addrs : Except Err (List Int)) : String :=
  match readVals st addrs with
  | .error e => e
  | .ok vs => showVals vs

/-- pairs `view seg view seg …` -/
def pairsOf : List String → List (Int × Int)
  | v :: s :: rest => (I v, I s) :: pairsOf rest
  | _ => []

/-- split `… y v… x v… A v… B v…` into its sections -/
def sectionOf (toks : List String) (key : String) : List Rat :=
  let rest := (toks.dropWhile (· ≠ key)).drop 1
  (rest.takeWhile fun t => t ≠ "y" ∧ t ≠ "x" ∧ t ≠ "A" ∧ t ≠ "B").map R

def bulkKind (s : String) : Option BulkKind :=
  match s with
  | "sapyb" => some .sapyb | "xapyb" => some .xapyb | "axpby" => some .xapyb
  | "sapybv" => some .sapybv | "xapybv" => some .xapybv
  | "add" => some .add | "sub" => some .sub | "mul" => some .mul | "div" => some .div
  | "addf" => some .addf | "subf" => some .subf | "mulf" => some .mulf | "divf" => some .divf
  | _ => none

/-- bulk arithmetic.  Generic code (`ProjData::xapyb`, `apply_func`): per (TOF, segment) read the segment, combine with the
    operands' segments (listed in the op line in exactly that order), `set_segment`.  `fast` (all `ProjDataInMemory`):
    the same element-wise operation on the whole buffers; an in-memory operand's buffer is its values laid out by the
    in-memory layout (= this layout). -/
def doBulk (st : St) (kind : BulkKind) (fast : Bool) (a b : Rat) (toks : List String) : St × String :=
  let l := st.l
  let ys := sectionOf toks "y"; let xs := sectionOf toks "x"; let As := sectionOf toks "A"; let Bs := sectionOf toks "B"
  match addrsBulk l with
  | .error _ => (st, "err")
  | .ok as =>
    match slotsOf st as with
    | none => (st, "ok out-of-store")
    | some slots =>
      let n := slots.length
      let get (v : List Rat) (i : Nat) : Rat := v.getD i 0
      if (¬ ys.isEmpty ∧ ys.length ≠ n) ∨ (¬ xs.isEmpty ∧ xs.length ≠ n) then (st, s!"bad-op operands={ys.length} elements={n}") else
      if fast then
        -- buffers of the operands: value i of the list sits at slot slots[i]
        let buf (v : List Rat) : Array Rat := (slots.zip v).foldl (fun (arr : Array Rat) kv => arr.set! kv.1 kv.2) (Array.replicate st.total 0)
        let yb := buf ys; let xb := buf xs; let Ab := buf As; let Bb := buf Bs
        let all := List.range st.total
        let res := all.map fun k => bulkResult kind (fromDisk st.scale st.store[k]!) xb[k]! yb[k]! a b Ab[k]! Bb[k]!
        commit st all (res.map (toDisk st.ty st.scale)) false
      else
        let res := (List.range n).map fun i =>
          bulkResult kind (fromDisk st.scale st.store[slots.getD i 0]!) (get xs i) (get ys i) a b (get As i) (get Bs i)
        commit st slots (res.map (toDisk st.ty (writeScale st.binScaled .segment st.scale))) false

/-- values of a fresh in-memory object after copying (source address, buffer index) pairs, in buffer order -/
def copyOut (st : St) (pairs : Except Err (List (Int × Int))) (size : Nat) : String :=
  match pairs with
  | .error _ => "err"
  | .ok ps =>
    match readVals st (.ok (ps.map (·.1))) with
    | .error e => e
    | .ok vs =>
      if ps.any (fun p => p.2 < 0 ∨ p.2 ≥ (size : Int)) then "out-of-buffer" else
      let buf := ((ps.map (·.2)).zip vs).foldl (fun (arr : Array Rat) (kv : Int × Rat) => arr.set! kv.1.toNat kv.2) (Array.replicate size 0)
      showVals buf.toList

def stepLine (st : St) (line : String) : St × String :=
  let toks := (line.trimAscii.toString.splitOn " ").filter (· ≠ "")
  let l := st.l
  match toks with
  | "cfg" :: rest =>
    match parseCfg rest with
    | some st' => (st', s!"slots {st'.total}")
    | none => (st, "bad-cfg")
  | ["setb", s, v, a, t, k, x] => doWrite st (addrsBin l ⟨I s, I v, I a, I t, I k⟩) [R x] .bin
  | ["getb", s, v, a, t, k] => (st, doRead st (addrsBin l ⟨I s, I v, I a, I t, I k⟩))
  | "setv" :: s :: v :: k :: vals => doWrite st (addrsViewgram l (I s) (I v) (I k)) (vals.map R) .viewgram
  | ["getv", s, v, k] => (st, doRead st (addrsViewgram l (I s) (I v) (I k)))
  | "sets" :: s :: a :: k :: vals => doWrite st (addrsSinogram l (I s) (I a) (I k)) (vals.map R) .sinogram
  | ["gets", s, a, k] => (st, doRead st (addrsSinogram l (I s) (I a) (I k)))
  | "setsv" :: s :: k :: vals => doWrite st (addrsSegByView l (I s) (I k)) (vals.map R) .segment
  | ["getsv", s, k] => (st, doRead st (addrsSegByView l (I s) (I k)))
  | "setss" :: s :: k :: vals => doWrite st (addrsSegBySino l (I s) (I k)) (vals.map R) .segment
  | ["getss", s, k] => (st, doRead st (addrsSegBySino l (I s) (I k)))
  | "setrel" :: k :: n :: rest =>
    let ps := pairsOf (rest.take (2 * N n))
    doWrite st (addrsRelated l ps (I k)) ((rest.drop (2 * N n)).map R) .related
  | "getrel" :: k :: n :: rest => (st, doRead st (addrsRelated l (pairsOf (rest.take (2 * N n))) (I k)))
  | ["fill", x] =>
    if st.backing == "mem" then
      -- ProjDataInMemory::fill(float) is std::fill over the whole buffer
      doWrite st (.ok ((List.range st.total).map fun (k : Nat) => (k : Int))) (List.replicate st.total (R x)) .fill
    else
      match addrsFill l with
      | .ok as => doWrite st (.ok as) (List.replicate as.length (R x)) .fill
      | .error e => doWrite st (.error e) [] .fill
  | "fillfrom" :: vals => doWrite st (addrsAll l) (vals.map R) .fill
  | "fillpd" :: vals =>
    -- ProjData::fill(const ProjData&) from an in-memory source of the same geometry: modelled by its meaning, bin by bin in copy_to order
    doWrite st ((binsAll l).mapM (offsetOf l)) (vals.map R) .fill
  | "fillsrc" :: vals => doWrite st (addrsFillPd l) (vals.map R) .segment
  | ["copyto"] => (st, doRead st (addrsAll l))
  | "bulk" :: kind :: fast :: a :: b :: rest =>
    match bulkKind kind with
    | some bk => doBulk st bk (fast == "1") (R a) (R b) rest
    | none => (st, "bad-op")
  | "subset" :: _n :: views =>
    let vs := views.map I
    (st, copyOut st (subsetCopy l vs) (sizeAll (subsetLayout l vs.length)).toNat)
  | ["tomem", how] =>
    if how == "1" then
      -- copy constructor: std::copy of the whole buffer
      (st, doRead st (.ok ((List.range st.total).map fun (k : Nat) => (k : Int))))
    else (st, copyOut st (copyIntoMemory l) st.total)
  | ["getvo", s, v, k] =>
    match readVals st (addrsViewgram l (I s) (I v) (I k)) with
    | .ok vs => (st, showVals (padOdd l vs))
    | .error e => (st, e)
  | ["getso", s, a, k] =>
    match readVals st (addrsSinogram l (I s) (I a) (I k)) with
    | .ok vs => (st, showVals (padOdd l vs))
    | .error e => (st, e)
  | "setvo" :: s :: v :: k :: vals =>
    if oddViewgramAccepted l then doWrite st (addrsViewgram l (I s) (I v) (I k)) (vals.map R) .viewgram else (st, "err")
  | "setc" :: setter :: s :: idx :: k :: a0 :: a1 :: nv :: t0 :: t1 :: x :: rest =>
    -- a container setter given a container whose OWN index ranges are a0..a1 (axial), 0..nv-1 (views), t0..t1 (tangential),
    -- filled with the value x: refused, or (accepted) written position by position as the setter always does
    let c : CRange := { minAx := I a0, maxAx := I a1, numViews := I nv, minTang := I t0, maxTang := I t1 }
    let sk : Option (Setter × WriteKind × Except Err (List Int)) :=
      match setter with
      | "v" => some (.viewgram, .viewgram, addrsViewgram l (I s) (I idx) (I k))
      | "s" => some (.sinogram, .sinogram, addrsSinogram l (I s) (I idx) (I k))
      | "ss" => some (.segBySino, .segment, addrsSegBySino l (I s) (I k))
      | "sv" => some (.segByView, .segment, addrsSegByView l (I s) (I k))
      | "rel" => some (.related, .related, addrsRelated l (pairsOf (rest.drop 1)) (I k))
      | _ => none
    match sk with
    | none => (st, "bad-op")
    | some (sr, wk, addrs) =>
      if setterAccepts l st.segTangChecked sr (I s) c then
        match addrs with
        | .ok as => doWrite st (.ok as) (List.replicate as.length (R x)) wk
        | .error e => doWrite st (.error e) [] wk
      else (st, "err")
  | [op, s, k, x] =>
    if op == "setssx" ∨ op == "setsvx" then
      match addrsSegOversized l st.segChecked (I s) (I k) 1 with
      | .ok as => doWrite st (.ok as) (List.replicate as.length (R x)) .segment
      | .error e => doWrite st (.error e) [] .segment
    else (st, "bad-op")
  | ["hdr"] => (st, "ok")
  | ["hdr2"] => (st, "ok")
  | ["wtf"] => (st, "ok")
  | ["hdrx", _] => (st, "done")
  | "hdrb" :: _ => (st, "ok")   -- header round trip of an exam information at boundary values: must be equal (oracle-only)
  | _ => (st, "bad-op")

partial def loop (h : IO.FS.Stream) (st : St) : IO Unit := do
  let line ← h.getLine
  if line.isEmpty then return ()
  let (st', out) := stepLine st line
  IO.println out
  loop h st'

def main : IO Unit := do
  loop (← IO.getStdin) { l := emptyLayout, backing := "ss", fb := false, total := 0, store := #[],
                         ty := .float, scale := 1, binScaled := false, segChecked := false,
                         segTangChecked := false }
end Driver.C02
