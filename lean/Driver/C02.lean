import StirVerif.C02.Model
/-! Line-protocol driver for C02 (implementation side: harness/c02_projdata.cxx).

`cfg <backing> <order> <elemSize> <offset> <minSeg> <maxSeg> <minView> <numViews> <minTang> <numTang> <minTof> <maxTof>
     <numTof> <checkView> <checkTang> <setBinFlushes> <type> <byteorder> seq <s…> ax <min:num …> tofseq <t…>`
fixes the layout; the store (element slots, initially 0) is kept here.  Every write answers with the slots whose
content changed (`d=`), a checksum of their new values and, for file backings, whether the source flushes (`vis=`);
every read answers with the values found at the addresses the model computes. -/
namespace Driver.C02
open StirVerif.C02

structure St where
  l : Layout
  backing : String
  fb : Bool
  total : Nat
  store : Array Int

def I (s : String) : Int := s.toInt?.getD 0
def N (s : String) : Nat := s.toNat?.getD 0

def emptyLayout : Layout :=
  { segSeq := [], tofSeq := [], minSeg := 0, maxSeg := 0, minAx := fun _ => 0, numAx := fun _ => 0, minView := 0, numViews := 0,
    minTang := 0, numTang := 0, minTof := 0, maxTof := 0, numTof := 1, order := .savt, elemSize := 1, offset := 0, offset3d := 0,
    checkView := false, checkTang := false }

def parseCfg (t : List String) : Option St :=
  match t with
  | backing :: order :: size :: off :: minSeg :: maxSeg :: minView :: numViews :: minTang :: numTang :: minTof :: maxTof ::
      numTof :: chkv :: chkt :: fb :: _ty :: _bo :: "seq" :: rest =>
    let seq := rest.takeWhile (· ≠ "ax")
    let rest := (rest.dropWhile (· ≠ "ax")).drop 1
    let ax := rest.takeWhile (· ≠ "tofseq")
    let tofseq := (rest.dropWhile (· ≠ "tofseq")).drop 1
    let axTab : Array (Int × Int) := (ax.map fun s =>
      match s.splitOn ":" with
      | [a, b] => (I a, I b)
      | _ => (0, 0)).toArray
    let mn := I minSeg
    let look (s : Int) : Int × Int := if s < mn then (0, 0) else axTab.getD (s - mn).toNat (0, 0)
    let l0 : Layout :=
      { segSeq := seq.map I, tofSeq := tofseq.map I, minSeg := mn, maxSeg := I maxSeg,
        minAx := fun s => (look s).1, numAx := fun s => (look s).2,
        minView := I minView, numViews := I numViews, minTang := I minTang, numTang := I numTang,
        minTof := I minTof, maxTof := I maxTof, numTof := I numTof,
        order := if order == "0" then .savt else .svat, elemSize := I size, offset := I off, offset3d := 0,
        checkView := chkv == "1", checkTang := chkt == "1" }
    -- offset_3d_data is computed as the source does (activate_TOF / ProjDataInMemory constructor)
    let l : Layout := { l0 with offset3d := stdOffset3d l0 }
    let total := (sizeAll l).toNat
    some { l := l, backing := backing, fb := fb == "1", total := total, store := Array.replicate total 0 }
  | _ => none

def ranges (v : List Nat) : String :=
  if v.isEmpty then "-" else
  let rec go : List Nat → Nat → Nat → List String → List String
    | [], a, b, acc => (s!"{a}-{b}") :: acc
    | x :: xs, a, b, acc => if x == b + 1 then go xs a x acc else go xs x x ((s!"{a}-{b}") :: acc)
  match v with
  | [] => "-"
  | x :: xs => ",".intercalate (go xs x x []).reverse

def modulus : Int := 1000003

/-- apply (address, value) pairs to the store; answer line of a write -/
def doWrite (st : St) (addrs : Except Err (List Int)) (vals : List Int) (isBin : Bool) : St × String :=
  match addrs with
  | .error _ => (st, "err")
  | .ok as =>
    if as.length ≠ vals.length then (st, s!"bad-op values={vals.length} addresses={as.length}") else
    let slots := as.map fun a => (a - st.l.offset) / st.l.elemSize
    if slots.any (fun k => k < 0 ∨ k ≥ (st.total : Int)) ∨ as.any (fun a => (a - st.l.offset) % st.l.elemSize ≠ 0) then
      (st, "ok out-of-store")
    else
      let new := (slots.zip vals).foldl (fun (arr : Array Int) (kv : Int × Int) => arr.set! kv.1.toNat kv.2) st.store
      let touched := ((slots.map Int.toNat).toArray.qsort (· < ·)).toList.eraseDups
      let changed := touched.filter fun (k : Nat) => new[k]! ≠ st.store[k]!
      let cs := changed.foldl (fun (acc : Int) (k : Nat) => (acc + (((k : Int) + 1) % modulus) * ((new[k]! + 1000) % modulus)) % modulus) 0
      let fileBacked := st.backing == "fs" || st.backing == "if"
      let flushed := !(isBin && !st.fb)        -- `flushes`: every set_* but set_bin_value (flag from the harness' probe)
      let vis := if fileBacked then (if flushed || changed.isEmpty then " vis=1" else " vis=0") else ""
      ({ st with store := new }, s!"ok d={ranges changed} cs={cs}{vis}")

def doRead (st : St) (addrs : Except Err (List Int)) : String :=
  match addrs with
  | .error _ => "err"
  | .ok as =>
    let slots := as.map fun a => (a - st.l.offset) / st.l.elemSize
    if slots.any (fun k => k < 0 ∨ k ≥ (st.total : Int)) then "out-of-store"
    else if slots.isEmpty then "empty"
    else " ".intercalate (slots.map fun k => toString st.store[k.toNat]!)

/-- pairs `view seg view seg …` -/
def pairsOf : List String → List (Int × Int)
  | v :: s :: rest => (I v, I s) :: pairsOf rest
  | _ => []

def WriteKind.isBin (k : WriteKind) : Bool := !(flushes k)

def stepLine (st : St) (line : String) : St × String :=
  let toks := (line.trimAscii.toString.splitOn " ").filter (· ≠ "")
  let l := st.l
  match toks with
  | "cfg" :: rest =>
    match parseCfg rest with
    | some st' => (st', s!"slots {st'.total}")
    | none => (st, "bad-cfg")
  | ["setb", s, v, a, t, k, x] => doWrite st (addrsBin l ⟨I s, I v, I a, I t, I k⟩) [I x] (WriteKind.isBin .bin)
  | ["getb", s, v, a, t, k] => (st, doRead st (addrsBin l ⟨I s, I v, I a, I t, I k⟩))
  | "setv" :: s :: v :: k :: vals => doWrite st (addrsViewgram l (I s) (I v) (I k)) (vals.map I) (WriteKind.isBin .viewgram)
  | ["getv", s, v, k] => (st, doRead st (addrsViewgram l (I s) (I v) (I k)))
  | "sets" :: s :: a :: k :: vals => doWrite st (addrsSinogram l (I s) (I a) (I k)) (vals.map I) (WriteKind.isBin .sinogram)
  | ["gets", s, a, k] => (st, doRead st (addrsSinogram l (I s) (I a) (I k)))
  | "setsv" :: s :: k :: vals => doWrite st (addrsSegByView l (I s) (I k)) (vals.map I) (WriteKind.isBin .segment)
  | ["getsv", s, k] => (st, doRead st (addrsSegByView l (I s) (I k)))
  | "setss" :: s :: k :: vals => doWrite st (addrsSegBySino l (I s) (I k)) (vals.map I) (WriteKind.isBin .segment)
  | ["getss", s, k] => (st, doRead st (addrsSegBySino l (I s) (I k)))
  | "setrel" :: k :: n :: rest =>
    let ps := pairsOf (rest.take (2 * N n))
    doWrite st (addrsRelated l ps (I k)) ((rest.drop (2 * N n)).map I) (WriteKind.isBin .related)
  | "getrel" :: k :: n :: rest => (st, doRead st (addrsRelated l (pairsOf (rest.take (2 * N n))) (I k)))
  | ["fill", x] =>
    if st.backing == "mem" then
      -- ProjDataInMemory::fill(float) is std::fill over the whole buffer
      doWrite st (.ok ((List.range st.total).map fun (k : Nat) => (k : Int))) (List.replicate st.total (I x)) false
    else
      match addrsFill l with
      | .ok as => doWrite st (.ok as) (List.replicate as.length (I x)) (WriteKind.isBin .fill)
      | .error e => doWrite st (.error e) [] false
  | "fillfrom" :: vals => doWrite st (addrsAll l) (vals.map I) (WriteKind.isBin .fill)
  | "fillpd" :: vals =>
    -- ProjData::fill(const ProjData&): modelled by its meaning, bin by bin in copy_to order
    doWrite st ((binsAll l).mapM (offsetOf l)) (vals.map I) (WriteKind.isBin .fill)
  | ["copyto"] => (st, doRead st (addrsAll l))
  | ["hdr"] => (st, "ok")
  | ["wtf"] => (st, "ok")
  | ["hdrx", _] => (st, "done")
  | _ => (st, "bad-op")

partial def loop (h : IO.FS.Stream) (st : St) : IO Unit := do
  let line ← h.getLine
  if line.isEmpty then return ()
  let (st', out) := stepLine st line
  IO.println out
  loop h st'

def main : IO Unit := do
  loop (← IO.getStdin) { l := emptyLayout, backing := "ss", fb := false, total := 0, store := #[] }
end Driver.C02
