import StirVerif.C14.Model
/-! Line-protocol driver for C14 (implementation side: harness/c14_lm_histogram.cxx).

    cfg tpl <minSeg> <maxSeg> <minTof> <maxTof> <minTang> <maxTang> (<minAx> <maxAx>)*      -> ok
    stream (T<ms> | E<p|d>:<seg>:<view>:<ax>:<tang>:<tof> | E<p|d>:x)*                       -> ok <n>
    run <storeP> <storeD> <segs> <tofs> <numEvents> <maxSeg> <fromFile> <outMode> <n> (<s> <e>)*
        -> t=<last time> sim=<num_segments_in_memory> | <frame 1> | <frame 2> …   (outMode 1: last frame only)
           a frame = its non-zero bins `seg,view,ax,tang,tof=count` sorted by (tof,seg,view,ax,tang), or `-`;  or `err` -/
namespace Driver.C14
open StirVerif.C14

structure St where
  tpl : Template
  recs : List Record

def I (s : String) : Int := s.toInt?.getD 0

def parseAx : List String → List (Int × Int)
  | a :: b :: r => (I a, I b) :: parseAx r
  | _ => []

def parseFrames : List String → List (Int × Int)
  | a :: b :: r => (I a, I b) :: parseFrames r
  | _ => []

def parseRec (tok : String) : Option Record :=
  if tok.startsWith "T" then some (.time (I (tok.drop 1).toString))
  else if tok.startsWith "E" then
    match (tok.drop 1).toString.splitOn ":" with
    | [k, "x"] => some (.event ⟨none, k == "p"⟩)
    | [k, a, b, c, d, e] => some (.event ⟨some ⟨I a, I b, I c, I d, I e⟩, k == "p"⟩)
    | _ => none
  else none

def binLt (a b : Bin) : Bool :=
  if a.tof ≠ b.tof then a.tof < b.tof
  else if a.seg ≠ b.seg then a.seg < b.seg
  else if a.view ≠ b.view then a.view < b.view
  else if a.ax ≠ b.ax then a.ax < b.ax
  else a.tang < b.tang

def fmtFrame (adds : List Add) : String :=
  let bins := (adds.map (·.1)).eraseDups
  let vals := (bins.map fun b => (b, value adds b)).filter (·.2 ≠ 0)
  let sorted := (vals.toArray.qsort fun x y => binLt x.1 y.1).toList
  if sorted.isEmpty then "-"
  else " ".intercalate (sorted.map fun (b, v) => s!"{b.seg},{b.view},{b.ax},{b.tang},{b.tof}={v}")

def stepLine (st : St) (line : String) : St × String :=
  let toks := (line.trimAscii.toString.splitOn " ").filter (· ≠ "")
  match toks with
  | "cfg" :: "tpl" :: a :: b :: c :: d :: e :: f :: ax =>
    let axs := parseAx ax
    let minSeg := I a
    let axRange : Int → Int × Int := fun seg => axs.getD (seg - minSeg).toNat (0, -1)
    ({ st with tpl := { minSeg := minSeg, maxSeg := I b, minTof := I c, maxTof := I d, minTang := I e, maxTang := I f,
                        axRange := axRange } }, "ok")
  | "stream" :: rs =>
    let recs := rs.filterMap parseRec
    ({ st with recs := recs }, s!"ok {recs.length}")
  | "run" :: sp :: sd :: segs :: tofs :: nev :: maxseg :: ff :: om :: _n :: fr =>
    let p : Params := { storePrompts := sp == "1", storeDelayeds := sd == "1", segsInMemory := I segs, tofInMemory := I tofs,
                        numEventsToStore := I nev, maxSegToProcess := I maxseg, framesFromFile := ff == "1",
                        frames := parseFrames fr }
    match setUp st.tpl p with
    | none => (st, "err")
    | some c =>
      let (frames, cur) := processData c st.recs
      let shown := if om == "1" then frames.drop (frames.length - 1) else frames
      (st, s!"t={cur} sim={c.segsInMemory}" ++ String.join (shown.map fun a => " | " ++ fmtFrame a))
  | _ => (st, "bad-op")

partial def loop (h : IO.FS.Stream) (st : St) : IO Unit := do
  let line ← h.getLine
  if line.isEmpty then return ()
  let (st', out) := stepLine st line
  IO.println out
  loop h st'

def main : IO Unit := do
  loop (← IO.getStdin) { tpl := { minSeg := 0, maxSeg := 0, minTof := 0, maxTof := 0, minTang := 0, maxTang := 0,
                                  axRange := fun _ => (0, 0) }, recs := [] }
end Driver.C14
