import StirVerif.C14.Model
/-! Line-protocol driver for C14 (implementation side: harness/c14_lm_histogram.cxx).

    cfg tpl <minSeg> <maxSeg> <minTof> <maxTof> <minTang> <maxTang> (<minAx> <maxAx>)*      -> ok
    stream (T<ms> | E<p|d>:<seg>:<view>:<ax>:<tang>:<tof> | E<p|d>:x)*                       -> ok <n>
    run <storeP> <storeD> <segs> <tofs> <numEvents> <maxSeg> <fromFile> <outMode> <n> (<s> <e>)*
        -> t=<last time> sim=<num_segments_in_memory> | <frame 1> | <frame 2> …   (outMode 1: last frame only)
           a frame = its non-zero bins `seg,view,ax,tang,tof=count` sorted by (tof,seg,view,ax,tang), or `-`;  or `err`
    The list-mode objective function (`cfg tpl` = ranges of the processed geometry, `stream` as above):
    lmcfg nvox=<V> dtf=<0|1> s=<ms> e=<ms> nev=<num_events_to_use> cache=<events per batch> nsub=<n> add=<0|1>   -> ok
    lmimg <f>…(V)                                   current image (C99 hex floats)                              -> ok
    lmbin <seg> <view> <ax> <tang> <tof> <basic view> <a|-> <m> (<voxel> <p>)…(m)   row / additive term of a bin -> ok
    lmgps <subset>   -> per voxel `<round(exact·2^100)>:<ceil(bound·2^100)>`: the model's `lmContribs` on the batches
                        `lmEvents` (event selection, batches, subset test, 1/(row·image+add) back projected) evaluated
                        exactly in `Rat`; bound = forward error bound 4·n·2⁻²⁴·Σ|terms|, n = longest row + number of
                        additions to the voxel + 10;  `no-row` if an event's bin has no `lmbin` line -/
namespace Driver.C14
open StirVerif.C14

structure St where
  tpl : Template
  recs : List Record
  lm : LmCfg
  nvox : Nat := 0
  nsub : Int := 1
  hasAdd : Bool := false
  img : Array Rat := #[]
  bins : List (Bin × LmBinData Rat) := []

/-- hex digit -/
def hexVal (c : Char) : Option Nat :=
  if '0' ≤ c ∧ c ≤ '9' then some (c.toNat - '0'.toNat)
  else if 'a' ≤ c ∧ c ≤ 'f' then some (c.toNat - 'a'.toNat + 10)
  else if 'A' ≤ c ∧ c ≤ 'F' then some (c.toNat - 'A'.toNat + 10)
  else none

/-- exact value of a C99 hex float (`%a`): `[-]0x<h>[.<hhh>]p<±e>` -/
def parseHex (s : String) : Option Rat := do
  let (neg, cs) := match s.toList with
    | '-' :: r => (true, r)
    | '+' :: r => (false, r)
    | r => (false, r)
  let cs ← match cs with
    | '0' :: 'x' :: r => some r
    | '0' :: 'X' :: r => some r
    | _ => none
  let rec go (cs : List Char) (mant : Nat) (frac : Nat) (seenDot : Bool) : Option (Nat × Nat × List Char) :=
    match cs with
    | [] => some (mant, frac, [])
    | 'p' :: r => some (mant, frac, r)
    | 'P' :: r => some (mant, frac, r)
    | '.' :: r => go r mant frac true
    | c :: r => do
      let d ← hexVal c
      go r (mant * 16 + d) (if seenDot then frac + 1 else frac) seenDot
  let (mant, frac, rest) ← go cs 0 0 false
  let e : Int ← if rest.isEmpty then some 0 else (String.ofList (match rest with | '+' :: r => r | r => r)).toInt?
  let e := e - 4 * (frac : Int)
  let m : Rat := (mant : Int)
  let v : Rat := if e ≥ 0 then m * ((2 ^ e.toNat : Nat) : Int) else m / ((2 ^ (-e).toNat : Nat) : Int)
  some (if neg then -v else v)

def hexD (s : String) : Rat := (parseHex s).getD 0
def absR (q : Rat) : Rat := if q < 0 then -q else q
def scale : Nat := 2 ^ 100
def roundScaled (q : Rat) : Int := (q * (scale : Int) + (1 : Rat) / 2).floor
def ceilScaled (q : Rat) : Int := (q * (scale : Int)).ceil + 1
/-- `u = 2⁻²⁴` -/
def u24 : Rat := (1 : Rat) / ((2 ^ 24 : Nat) : Int)

def keyVal (toks : List String) (key : String) : Option String :=
  toks.findSome? fun t => if t.startsWith (key ++ "=") then some ((t.drop (key.length + 1)).toString) else none

def parseRow : Nat → List String → List (Nat × Rat) → Option (List (Nat × Rat))
  | 0, _, acc => some acc.reverse
  | n + 1, v :: p :: l, acc => do
    let v ← v.toNat?
    let p ← parseHex p
    parseRow n l ((v, p) :: acc)
  | _, _, _ => none

def doLmGps (st : St) (subset : Int) : String :=
  let batches := lmEvents st.lm st.recs
  let find := fun (b : Bin) => (st.bins.find? fun x => x.1 == b).map (·.2)
  if batches.any (fun bt => bt.any fun b => (find b).isNone) then "no-row" else
  let data := fun (b : Bin) => (find b).getD { row := [], add := 0, basicView := 0 }
  let img := fun i => st.img.getD i 0
  let cs := lmContribs data img st.nsub subset batches
  let val := accumulate st.nvox cs
  let mag := accumulate st.nvox (cs.map fun e => (e.1, absR e.2))
  let cnt := accumulate st.nvox (cs.map fun e => (e.1, (1 : Rat)))
  let rowLen := batches.foldl (fun m bt => bt.foldl (fun m b => max m (data b).row.length) m) 0
  let toks := (List.range st.nvox).map fun v =>
    let n : Rat := (rowLen : Int) + cnt.getD v 0 + 10
    let b := 4 * n * u24 * mag.getD v 0
    s!"{roundScaled (val.getD v 0)}:{ceilScaled b}"
  " ".intercalate toks

def I (s : String) : Int := s.toInt?.getD 0

def parseAx : List String → List (Int × Int)
  | a :: b :: r => (I a, I b) :: parseAx r
  | _ => []

def parseFrames : List String → List (Int × Int)
  | a :: b :: r => (I a, I b) :: parseFrames r
  | _ => []

def parseRec (tok : String) : Option Record :=
  if tok.startsWith "T" then some (.time (I (tok.drop 1).toString))
  else if tok.startsWith "E" then
    match (tok.drop 1).toString.splitOn ":" with
    | [k, "x"] => some (.event ⟨none, k == "p"⟩)
    | [k, a, b, c, d, e] => some (.event ⟨some ⟨I a, I b, I c, I d, I e⟩, k == "p"⟩)
    | _ => none
  else none

def binLt (a b : Bin) : Bool :=
  if a.tof ≠ b.tof then a.tof < b.tof
  else if a.seg ≠ b.seg then a.seg < b.seg
  else if a.view ≠ b.view then a.view < b.view
  else if a.ax ≠ b.ax then a.ax < b.ax
  else a.tang < b.tang

def fmtFrame (adds : List Add) : String :=
  let bins := (adds.map (·.1)).eraseDups
  let vals := (bins.map fun b => (b, value adds b)).filter (·.2 ≠ 0)
  let sorted := (vals.toArray.qsort fun x y => binLt x.1 y.1).toList
  if sorted.isEmpty then "-"
  else " ".intercalate (sorted.map fun (b, v) => s!"{b.seg},{b.view},{b.ax},{b.tang},{b.tof}={v}")

def stepLine (st : St) (line : String) : St × String :=
  let toks := (line.trimAscii.toString.splitOn " ").filter (· ≠ "")
  match toks with
  | "cfg" :: "tpl" :: a :: b :: c :: d :: e :: f :: ax =>
    let axs := parseAx ax
    let minSeg := I a
    let axRange : Int → Int × Int := fun seg => axs.getD (seg - minSeg).toNat (0, -1)
    ({ st with tpl := { minSeg := minSeg, maxSeg := I b, minTof := I c, maxTof := I d, minTang := I e, maxTang := I f,
                        axRange := axRange } }, "ok")
  | "stream" :: rs =>
    let recs := rs.filterMap parseRec
    ({ st with recs := recs }, s!"ok {recs.length}")
  | "run" :: sp :: sd :: segs :: tofs :: nev :: maxseg :: ff :: om :: _n :: fr =>
    let p : Params := { storePrompts := sp == "1", storeDelayeds := sd == "1", segsInMemory := I segs, tofInMemory := I tofs,
                        numEventsToStore := I nev, maxSegToProcess := I maxseg, framesFromFile := ff == "1",
                        frames := parseFrames fr }
    match setUp st.tpl p with
    | none => (st, "err")
    | some c =>
      let (frames, cur) := processData c st.recs
      let shown := if om == "1" then frames.drop (frames.length - 1) else frames
      (st, s!"t={cur} sim={c.segsInMemory}" ++ String.join (shown.map fun a => " | " ++ fmtFrame a))
  | "lmcfg" :: rest =>
    let g := fun k => I ((keyVal rest k).getD "0")
    ({ st with lm := { tpl := st.tpl, doTimeFrame := g "dtf" == 1, startT := g "s", endT := g "e", numEventsToUse := g "nev",
                       cacheSize := (g "cache").toNat },
               nvox := (g "nvox").toNat, nsub := g "nsub", hasAdd := g "add" == 1, img := #[], bins := [] }, "ok")
  | "lmimg" :: fs => ({ st with img := (fs.map hexD).toArray }, "ok")
  | "lmbin" :: a :: b :: c :: d :: e :: bv :: add :: m :: rest =>
    match parseRow (I m).toNat rest [] with
    | none => (st, "bad-row")
    | some row =>
      let av : Rat := if add == "-" then 0 else hexD add
      ({ st with bins := (⟨I a, I b, I c, I d, I e⟩, { row := row, add := av, basicView := I bv }) :: st.bins }, "ok")
  | ["lmgps", sub] => (st, doLmGps st (I sub))
  | _ => (st, "bad-op")

partial def loop (h : IO.FS.Stream) (st : St) : IO Unit := do
  let line ← h.getLine
  if line.isEmpty then return ()
  let (st', out) := stepLine st line
  IO.println out
  loop h st'

def main : IO Unit := do
  loop (← IO.getStdin) { tpl := { minSeg := 0, maxSeg := 0, minTof := 0, maxTof := 0, minTang := 0, maxTang := 0,
                                  axRange := fun _ => (0, 0) }, recs := [],
                         lm := { tpl := { minSeg := 0, maxSeg := 0, minTof := 0, maxTof := 0, minTang := 0, maxTang := 0,
                                          axRange := fun _ => (0, 0) },
                                 doTimeFrame := false, startT := 0, endT := 0, numEventsToUse := 0, cacheSize := 1 } }
end Driver.C14
