import StirVerif.C14.Model
/-! Line-protocol driver for C14 (implementation side: harness/c14_lm_histogram.cxx).

    cfg tpl <minSeg> <maxSeg> <minTof> <maxTof> <minTang> <maxTang> (<minAx> <maxAx>)*      -> ok
    stream (T<ms> | E<p|d>:<seg>:<view>:<ax>:<tang>:<tof> | E<p|d>:x)*                       -> ok <n>
    run <storeP> <storeD> <segs> <tofs> <numEvents> <maxSeg> <fromFile> <outMode> <n> (<s> <e>)*
        -> t=<last time> sim=<num_segments_in_memory> | <frame 1> | <frame 2> …   (outMode 1: last frame only)
           a frame = its non-zero bins `seg,view,ax,tang,tof=count` sorted by (tof,seg,view,ax,tang), or `-`;  or `err`
    The list-mode objective function (`cfg tpl` = ranges of the processed geometry, `stream` as above):
    lmcfg nvox=<V> dtf=<0|1> s=<ms> e=<ms> nev=<num_events_to_use> cache=<events per batch> nsub=<n> add=<0|1>   -> ok
    lmimg <f>…(V)                                   current image (C99 hex floats)                              -> ok
    lmbin <seg> <view> <ax> <tang> <tof> <basic view> <a|-> <m> (<voxel> <p>)…(m)   row / additive term of a bin -> ok
    Normalisation in LmToProjData (family 3 of the harness):
    cfg norm <pre|post>                                                                       -> ok
    cfg cc <view mashing factor> (<seg>:<ax>:<number of ring pairs>)*                         -> ok
    cfg eff (<seg>:<view>:<ax>:<tang>:<tof>:<efficiency, hex float>)*    post-normalisation   -> ok
    stream … E<p|d>:<bin|x>:u<number of the uncompressed bin>:<efficiency, hex float> | E<p|d>:<bin|x>:ux   (pre-normalisation)
    runw <as run>  -> t=<last time> sim=<n> | <frame> …; a frame = the output bins that received additions
                      `seg,view,ax,tang,tof=<round(exact·2^100)>:<ceil(bound·2^100)>`: the model's `processDataW` (on `preStream` of
                      the stream for pre-normalisation) evaluated exactly in `Rat`; bound = 4·(n+3)·2⁻²⁴·Σ|terms| for n additions
    lmgps <subset>   -> per voxel `<round(exact·2^100)>:<ceil(bound·2^100)>`: the model's `lmContribs` on the batches
                        `lmEvents` (event selection, batches, subset test, 1/(row·image+add) back projected) evaluated
                        exactly in `Rat`; bound = forward error bound 4·n·2⁻²⁴·Σ|terms|, n = longest row + number of
                        additions to the voxel + 10;  `no-row` if an event's bin has no `lmbin` line -/
namespace Driver.C14
open StirVerif.C14

structure St where
  tpl : Template
  recs : List Record
  preRecs : List (PreRecord Rat) := []
  /-- 0: none, 1: post-normalisation, 2: pre-normalisation -/
  normMode : Nat := 0
  viewMash : Int := 1
  ringPairs : List ((Int × Int) × Int) := []
  effs : List (Bin × Rat) := []
  lm : LmCfg
  nvox : Nat := 0
  nsub : Int := 1
  hasAdd : Bool := false
  img : Array Rat := #[]
  bins : List (Bin × LmBinData Rat) := []

/-- hex digit -/
def hexVal (c : Char) : Option Nat :=
  if '0' ≤ c ∧ c ≤ '9' then some (c.toNat - '0'.toNat)
  else if 'a' ≤ c ∧ c ≤ 'f' then some (c.toNat - 'a'.toNat + 10)
  else if 'A' ≤ c ∧ c ≤ 'F' then some (c.toNat - 'A'.toNat + 10)
  else none

/-- exact value of a C99 hex float (`%a`): `[-]0x<h>[.<hhh>]p<±e>` -/
def parseHex (s : String) : Option Rat := do
  let (neg, cs) := match s.toList with
    | '-' :: r => (true, r)
    | '+' :: r => (false, r)
    | r => (false, r)
  let cs ← match cs with
    | '0' :: 'x' :: r => some r
    | '0' :: 'X' :: r => some r
    | _ => none
  let rec go (cs : List Char) (mant : Nat) (frac : Nat) (seenDot : Bool) : Option (Nat × Nat × List Char) :=
    match cs with
    | [] => some (mant, frac, [])
    | 'p' :: r => some (mant, frac, r)
    | 'P' :: r => some (mant, frac, r)
    | '.' :: r => go r mant frac true
    | c :: r => do
      let d ← hexVal c
      go r (mant * 16 + d) (if seenDot then frac + 1 else frac) seenDot
  let (mant, frac, rest) ← go cs 0 0 false
  let e : Int ← if rest.isEmpty then some 0 else (String.ofList (match rest with | '+' :: r => r | r => r)).toInt?
  let e := e - 4 * (frac : Int)
  let m : Rat := (mant : Int)
  let v : Rat := if e ≥ 0 then m * ((2 ^ e.toNat : Nat) : Int) else m / ((2 ^ (-e).toNat : Nat) : Int)
  some (if neg then -v else v)

def hexD (s : String) : Rat := (parseHex s).getD 0
def absR (q : Rat) : Rat := if q < 0 then -q else q
def scale : Nat := 2 ^ 100
def roundScaled (q : Rat) : Int := (q * (scale : Int) + (1 : Rat) / 2).floor
def ceilScaled (q : Rat) : Int := (q * (scale : Int)).ceil + 1
/-- `u = 2⁻²⁴` -/
def u24 : Rat := (1 : Rat) / ((2 ^ 24 : Nat) : Int)

def keyVal (toks : List String) (key : String) : Option String :=
  toks.findSome? fun t => if t.startsWith (key ++ "=") then some ((t.drop (key.length + 1)).toString) else none

def parseRow : Nat → List String → List (Nat × Rat) → Option (List (Nat × Rat))
  | 0, _, acc => some acc.reverse
  | n + 1, v :: p :: l, acc => do
    let v ← v.toNat?
    let p ← parseHex p
    parseRow n l ((v, p) :: acc)
  | _, _, _ => none

def doLmGps (st : St) (subset : Int) : String :=
  let batches := lmEvents st.lm st.recs
  let find := fun (b : Bin) => (st.bins.find? fun x => x.1 == b).map (·.2)
  if batches.any (fun bt => bt.any fun b => (find b).isNone) then "no-row" else
  let data := fun (b : Bin) => (find b).getD { row := [], add := 0, basicView := 0 }
  let img := fun i => st.img.getD i 0
  let cs := lmContribs data img st.nsub subset batches
  let val := accumulate st.nvox cs
  let mag := accumulate st.nvox (cs.map fun e => (e.1, absR e.2))
  let cnt := accumulate st.nvox (cs.map fun e => (e.1, (1 : Rat)))
  let rowLen := batches.foldl (fun m bt => bt.foldl (fun m b => max m (data b).row.length) m) 0
  let toks := (List.range st.nvox).map fun v =>
    let n : Rat := (rowLen : Int) + cnt.getD v 0 + 10
    let b := 4 * n * u24 * mag.getD v 0
    s!"{roundScaled (val.getD v 0)}:{ceilScaled b}"
  " ".intercalate toks

def I (s : String) : Int := s.toInt?.getD 0

def parseAx : List String → List (Int × Int)
  | a :: b :: r => (I a, I b) :: parseAx r
  | _ => []

def parseFrames : List String → List (Int × Int)
  | a :: b :: r => (I a, I b) :: parseFrames r
  | _ => []

/-- a record with the optional pre-normalisation fields (`u<id>:<eff>` / `ux`) -/
def parsePreRec (tok : String) : Option (PreRecord Rat) :=
  if tok.startsWith "T" then some (.time (I (tok.drop 1).toString))
  else if tok.startsWith "E" then
    match (tok.drop 1).toString.splitOn ":" with
    | k :: rest =>
      let (bin?, tail) : Option Bin × List String := match rest with
        | "x" :: t => (none, t)
        | a :: b :: c :: d :: e :: t => (some ⟨I a, I b, I c, I d, I e, 0⟩, t)
        | t => (none, t)
      let unc : Option (Int × Rat) := match tail with
        | [u, eff] => some (I (u.drop 1).toString, hexD eff)
        | _ => none
      some (.event ⟨bin?, unc, k == "p"⟩)
    | _ => none
  else none

/-- the stream as a run without pre-normalisation sees it -/
def plainRec : PreRecord Rat → Record
  | .time t => .time t
  | .event e => .event ⟨e.bin, e.prompt⟩

/-- the double `1.E-10` (LmToProjData.cxx:505, 560), exactly -/
def lowThreshold : Rat := (7737125245533627 : Int) / ((2 ^ 86 : Nat) : Int)
def tooLow (q : Rat) : Bool := decide (q < lowThreshold)

def binLt' (a b : Bin) : Bool :=
  if a.tof ≠ b.tof then a.tof < b.tof
  else if a.seg ≠ b.seg then a.seg < b.seg
  else if a.view ≠ b.view then a.view < b.view
  else if a.ax ≠ b.ax then a.ax < b.ax
  else a.tang < b.tang

def fmtFrameW (l : List (Bin × Rat)) : String :=
  let keys := (l.map (·.1.key)).eraseDups
  let sorted := (keys.toArray.qsort binLt').toList
  if sorted.isEmpty then "-"
  else " ".intercalate (sorted.map fun k =>
    let terms := (l.filter fun a => a.1.key == k).map (·.2)
    let mag := terms.foldl (fun m t => m + absR t) 0
    let n : Rat := (terms.length : Int) + 3
    s!"{k.seg},{k.view},{k.ax},{k.tang},{k.tof}={roundScaled (valueW l k)}:{ceilScaled (4 * n * u24 * mag)}")

def binLt (a b : Bin) : Bool :=
  if a.tof ≠ b.tof then a.tof < b.tof
  else if a.seg ≠ b.seg then a.seg < b.seg
  else if a.view ≠ b.view then a.view < b.view
  else if a.ax ≠ b.ax then a.ax < b.ax
  else a.tang < b.tang

def fmtFrame (adds : List Add) : String :=
  let bins := (adds.map (·.1)).eraseDups
  let vals := (bins.map fun b => (b, value adds b)).filter (·.2 ≠ 0)
  let sorted := (vals.toArray.qsort fun x y => binLt x.1 y.1).toList
  if sorted.isEmpty then "-"
  else " ".intercalate (sorted.map fun (b, v) => s!"{b.seg},{b.view},{b.ax},{b.tang},{b.tof}={v}")

def stepLine (st : St) (line : String) : St × String :=
  let toks := (line.trimAscii.toString.splitOn " ").filter (· ≠ "")
  match toks with
  | "cfg" :: "tpl" :: a :: b :: c :: d :: e :: f :: ax =>
    let axs := parseAx ax
    let minSeg := I a
    let axRange : Int → Int × Int := fun seg => axs.getD (seg - minSeg).toNat (0, -1)
    ({ st with tpl := { minSeg := minSeg, maxSeg := I b, minTof := I c, maxTof := I d, minTang := I e, maxTang := I f,
                        axRange := axRange } }, "ok")
  | "stream" :: rs =>
    let pre := rs.filterMap parsePreRec
    ({ st with recs := pre.map plainRec, preRecs := pre }, s!"ok {pre.length}")
  | ["cfg", "norm", m] => ({ st with normMode := if m == "pre" then 2 else 1, ringPairs := [], effs := [], viewMash := 1 }, "ok")
  | "cfg" :: "cc" :: vm :: rest =>
    let rp := rest.filterMap fun t => match t.splitOn ":" with
      | [a, b, n] => some ((I a, I b), I n)
      | _ => none
    ({ st with viewMash := I vm, ringPairs := rp }, "ok")
  | "cfg" :: "eff" :: rest =>
    let ef := rest.filterMap fun t => match t.splitOn ":" with
      | [a, b, c, d, e, x] => some ((⟨I a, I b, I c, I d, I e, 0⟩ : Bin), hexD x)
      | _ => none
    ({ st with effs := ef }, "ok")
  | "runw" :: sp :: sd :: segs :: tofs :: nev :: maxseg :: ff :: om :: _n :: fr =>
    let p : Params := { storePrompts := sp == "1", storeDelayeds := sd == "1", segsInMemory := I segs, tofInMemory := I tofs,
                        numEventsToStore := I nev, maxSegToProcess := I maxseg, framesFromFile := ff == "1",
                        frames := parseFrames fr }
    match setUp st.tpl p with
    | none => (st, "err")
    | some c =>
      let uncEff : Int → Rat := fun u =>
        (st.preRecs.findSome? fun r => match r with
          | .event e => (match e.unc with | some (u', x) => if u' = u then some x else none | none => none)
          | .time _ => none).getD 1
      let nrm : Norm Rat :=
        if st.normMode == 2 then
          .pre uncEff (fun b => ((st.ringPairs.find? fun x => x.1 == (b.seg, b.ax)).map (·.2)).getD 0 * st.viewMash)
        else .post (fun b => ((st.effs.find? fun x => x.1 == b).map (·.2)).getD 1)
      let recs := if st.normMode == 2 then preStream tooLow st.preRecs else st.recs
      let (frames, cur) := processDataW tooLow nrm c recs
      let shown := if om == "1" then frames.drop (frames.length - 1) else frames
      (st, s!"t={cur} sim={c.segsInMemory}" ++ String.join (shown.map fun a => " | " ++ fmtFrameW a))
  | "run" :: sp :: sd :: segs :: tofs :: nev :: maxseg :: ff :: om :: _n :: fr =>
    let p : Params := { storePrompts := sp == "1", storeDelayeds := sd == "1", segsInMemory := I segs, tofInMemory := I tofs,
                        numEventsToStore := I nev, maxSegToProcess := I maxseg, framesFromFile := ff == "1",
                        frames := parseFrames fr }
    match setUp st.tpl p with
    | none => (st, "err")
    | some c =>
      let (frames, cur) := processData c st.recs
      let shown := if om == "1" then frames.drop (frames.length - 1) else frames
      (st, s!"t={cur} sim={c.segsInMemory}" ++ String.join (shown.map fun a => " | " ++ fmtFrame a))
  | "lmcfg" :: rest =>
    let g := fun k => I ((keyVal rest k).getD "0")
    ({ st with lm := { tpl := st.tpl, doTimeFrame := g "dtf" == 1, startT := g "s", endT := g "e", numEventsToUse := g "nev",
                       cacheSize := (g "cache").toNat },
               nvox := (g "nvox").toNat, nsub := g "nsub", hasAdd := g "add" == 1, img := #[], bins := [] }, "ok")
  | "lmimg" :: fs => ({ st with img := (fs.map hexD).toArray }, "ok")
  | "lmbin" :: a :: b :: c :: d :: e :: bv :: add :: m :: rest =>
    match parseRow (I m).toNat rest [] with
    | none => (st, "bad-row")
    | some row =>
      let av : Rat := if add == "-" then 0 else hexD add
      ({ st with bins := (⟨I a, I b, I c, I d, I e, 0⟩, { row := row, add := av, basicView := I bv }) :: st.bins }, "ok")
  | ["lmgps", sub] => (st, doLmGps st (I sub))
  | _ => (st, "bad-op")

partial def loop (h : IO.FS.Stream) (st : St) : IO Unit := do
  let line ← h.getLine
  if line.isEmpty then return ()
  let (st', out) := stepLine st line
  IO.println out
  loop h st'

def main : IO Unit := do
  loop (← IO.getStdin) { tpl := { minSeg := 0, maxSeg := 0, minTof := 0, maxTof := 0, minTang := 0, maxTang := 0,
                                  axRange := fun _ => (0, 0) }, recs := [],
                         lm := { tpl := { minSeg := 0, maxSeg := 0, minTof := 0, maxTof := 0, minTang := 0, maxTang := 0,
                                          axRange := fun _ => (0, 0) },
                                 doTimeFrame := false, startT := 0, endT := 0, numEventsToUse := 0, cacheSize := 1 } }
end Driver.C14
