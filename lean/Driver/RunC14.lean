import Driver.C14
def main : IO Unit := Driver.C14.main
