import Driver.C06
def main : IO Unit := Driver.C06.main
