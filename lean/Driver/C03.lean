import StirVerif.C03.Model
/-! Line-protocol driver for C03 (implementation side: harness/c03_symmetries.cxx).

Sections of the protocol
* `pimpl r`               : which symmetries constructor the implementation has (x/y index-range guard, proposed repair C03-6);
* `cfg …` / `sym …`      : a `DataSymmetriesForBins_PET_CartesianGrid` object (voxel sizes as hex floats: the model
                            evaluates the x/y voxel-size guard); basic bin, symmetry operation
                            applied to the basic bin, to its view/segment and to sample voxels;
* `pgeo/pnew/pset/psetup/pmode/pclear/pget` : histories on a `ProjMatrixByBinUsingRayTracing` (`pnew 0`) or a
                            `ProjMatrixByBinUsingInterpolation` (`pnew 1`: `set_up` without short cut); the rows of
                            basic bins computed by `calculate_proj_matrix_elems_for_one_bin` (+ TOF kernel) arrive as data
                            (`data …`), values are opaque tokens;
* `merge …`               : `ProjMatrixElemsForOneBin::merge` on rows with integer values. -/
namespace Driver.C03
open StirVerif.C03

def b2s (b : Bool) : String := if b then "1" else "0"
def I (s : String) : Int := s.toInt?.getD 0
def N (s : String) : Nat := s.toNat?.getD 0
def B (s : String) : Bool := s == "1"

def fmtBin (b : Bin) : String := s!"{b.seg} {b.view} {b.ax} {b.tang} {b.tof}"
def fmtVox (c : Vox) : String := s!"{c.z} {c.y} {c.x}"

/-- per-segment table → function (0 outside the table) -/
def tab (minSeg : Int) (l : List Int) : Int → Int := fun s =>
  if s < minSeg then 0 else (l[(s - minSeg).toNat]?).getD 0

/-! exact parsing of C99 hex floats (`vh::hex`, `%a`) -/

def hexVal (c : Char) : Option Nat :=
  if '0' ≤ c ∧ c ≤ '9' then some (c.toNat - '0'.toNat)
  else if 'a' ≤ c ∧ c ≤ 'f' then some (c.toNat - 'a'.toNat + 10)
  else if 'A' ≤ c ∧ c ≤ 'F' then some (c.toNat - 'A'.toNat + 10)
  else none

/-- `[-]0x<hex>[.<hex>]p<±dec>` → exact rational; `none` for `inf`, `nan`, garbage -/
def parseHex (s : String) : Option Rat := do
  let cs := s.toList
  let (neg, cs) := match cs with
    | '-' :: r => (true, r)
    | '+' :: r => (false, r)
    | r => (false, r)
  let cs ← match cs with
    | '0' :: 'x' :: r => some r
    | '0' :: 'X' :: r => some r
    | _ => none
  let rec mant (cs : List Char) (acc : Nat) (frac : Nat) (seenDot : Bool) (any : Bool) : Option (Nat × Nat × List Char) :=
    match cs with
    | [] => none
    | 'p' :: r => if any then some (acc, frac, r) else none
    | 'P' :: r => if any then some (acc, frac, r) else none
    | '.' :: r => if seenDot then none else mant r acc frac true any
    | c :: r =>
      match hexVal c with
      | some d => mant r (acc * 16 + d) (if seenDot then frac + 1 else frac) seenDot true
      | none => none
  let (m, frac, rest) ← mant cs 0 0 false false
  let e ← match rest with
    | '+' :: r => (String.ofList r).toInt?
    | r => (String.ofList r).toInt?
  let q : Rat := (m : Rat) * pow2 (e - 4 * (frac : Int))
  some (if neg then -q else q)

/-- geometry as sent by the harness -/
structure Geo where
  V : Int
  vy : Rat                  -- y and x voxel size (the floats `get_grid_spacing()[2]`, `[3]`, exactly)
  vx : Rat
  minY : Int := 0           -- index ranges of the image in y and x
  maxY : Int := 0
  minX : Int := 0
  maxX : Int := 0
  phi0 : Bool
  tof : Bool
  xy0 : Bool
  minSeg : Int
  maxSeg : Int
  originZ4 : Int            -- 4 · origin.z / z voxel size
  ax : AxGeo
  maxAbsAx0 : Nat
  maxAbsTang : Nat
  maxAbsTof : Nat
  actualElig : Bool := false -- non-arc-corrected data without view mashing and axial compression: `set_up` leaves
                             -- `use_actual_detector_boundaries` on (ProjMatrixByBinUsingRayTracing.cxx:298-386)
  eqclass : Nat := 0         -- geometries that `set_up` cannot tell apart (equal projection data, voxel size, origin
                             -- and index range of the image, by the library's own `==`) share it: the model's `G`

def defaultAx : AxGeo :=
  { nppr := 1, nppa := fun _ => 1, delta2 := fun _ => 0, minAx := fun _ => 0, maxAx := fun _ => 0,
    minZ := 0, maxZ := 0, originZ := 0 }

instance : Inhabited Geo :=
  ⟨{ V := 1, vy := 1, vx := 1, phi0 := true, tof := false, xy0 := true, minSeg := 0, maxSeg := 0,
     originZ4 := 0, ax := defaultAx, maxAbsAx0 := 0, maxAbsTang := 0, maxAbsTof := 0 }⟩

/-- tokens: V vy vx minY maxY minX maxX phi0 tof xy0 nppr minSeg maxSeg minZ maxZ originZ4 maxAbsAx0 maxAbsTang maxAbsTof, then per segment
    `nppa delta2 minAx maxAx` -/
def parseGeo (t : List String) : Option Geo :=
  match t with
  | v :: vy :: vx :: miny :: maxy :: minx :: maxx :: p0 :: tof :: xy0 :: nppr :: mins :: maxs :: minz :: maxz :: oz4 :: ma :: mt :: mf :: rest =>
    let nseg := (I maxs - I mins + 1).toNat
    if rest.length != 4 * nseg then none else
    match parseHex vy, parseHex vx with
    | some vy, some vx =>
    let col (k : Nat) : List Int := (List.range nseg).map fun i => I (rest.getD (4 * i + k) "0")
    some { V := I v, vy := vy, vx := vx, minY := I miny, maxY := I maxy, minX := I minx, maxX := I maxx, phi0 := B p0, tof := B tof, xy0 := B xy0, minSeg := I mins, maxSeg := I maxs,
           originZ4 := I oz4,
           ax := { nppr := I nppr, nppa := tab (I mins) (col 0), delta2 := tab (I mins) (col 1),
                   minAx := tab (I mins) (col 2), maxAx := tab (I mins) (col 3),
                   minZ := I minz, maxZ := I maxz, originZ := (I oz4) / 4 },
           maxAbsAx0 := N ma, maxAbsTang := N mt, maxAbsTof := N mf }
    | _, _ => none
  | _ => none

/-- `xyRangeGuard`: which constructor the implementation has (op `pimpl`, see `Flags.effectiveImg`) -/
def Geo.sym (g : Geo) (xyRangeGuard : Bool) (f : Flags) : Sym :=
  Sym.make g.V (f.effectiveImg g.V g.vy g.vx xyRangeGuard g.minY g.maxY g.minX g.maxX g.phi0 g.tof g.xy0) g.ax

/-- the constructor calls `error` when the z origin is not a whole number of planes -/
def Geo.valid (g : Geo) : Bool := g.originZ4 % 4 == 0

def segList (g : Geo) : List Int := (List.range (g.maxSeg - g.minSeg + 1).toNat).map fun (k : Nat) => g.minSeg + (k : Int)

def fmtEff (g : Geo) (xyRangeGuard : Bool) (f : Flags) : String :=
  let y := g.sym xyRangeGuard f
  s!"eff {b2s y.d90} {b2s y.d180} {b2s y.swapSeg} {b2s y.swapS} {b2s y.shiftZ} {y.nppr} nppa " ++
    " ".intercalate ((segList g).map fun s => toString (y.nppa s)) ++ " zoff4 " ++
    " ".intercalate ((segList g).map fun s => toString (y.zoff4 s))

def sampleVoxels : List Vox := [⟨1, 2, 3⟩, ⟨-4, -1, 5⟩]

def answerSym (y : Sym) (b : Bin) : String :=
  let (b0, ch) := y.findBasicBin b
  let op := y.findSymOp b
  let ob := op.onBin b0
  let vs := op.onVS ⟨b0.view, b0.seg⟩
  let r : Row Unit := op.onRow ⟨b0, sampleVoxels.map fun c => (c, ())⟩
  let rowok := r.bin == ob && r.elems.map (·.1) == sampleVoxels.map op.onVoxel
  s!"{fmtBin b0} {b2s ch} | {fmtBin ob} | {vs.view} {vs.seg} | " ++
    " | ".intercalate (sampleVoxels.map fun c => fmtVox (op.onVoxel c)) ++ s!" | {b2s (op.kind == .trivial)} {b2s rowok}"

/-! rows with opaque values -/
abbrev Elems := List (Vox × String)

def sortElems (e : Elems) : Elems := (e.toArray.qsort fun a b => a.1.lt b.1).toList

def parseElems : Nat → List String → Elems
  | 0, _ => []
  | n + 1, z :: y :: x :: v :: rest => (⟨I z, I y, I x⟩, v) :: parseElems n rest
  | _, _ => []

def fmtElems (e : Elems) : String :=
  " ".intercalate (toString e.length :: e.map fun p => s!"{fmtVox p.1} {p.2}")

/-- key of the table of computed rows: matrix class, geometry (class), number of tangential rays, FOV restriction,
    detector boundaries, bin -/
structure DKey where
  kind : Nat
  gid : Nat
  ntl : Nat
  restrictFOV : Bool
  actual : Bool
  bin : Bin
  deriving DecidableEq

structure St where
  geo : Geo := default
  flags : Flags := default
  geos : List (Nat × Geo) := []
  table : List (DKey × Elems) := []
  kind : Nat := 0              -- 0: ProjMatrixByBinUsingRayTracing, 1: ProjMatrixByBinUsingInterpolation
  xyRangeGuard : Bool := false -- op `pimpl`: the symmetries constructor looks at the x/y index ranges (proposed repair C03-6)
  actualKeepsViewSym : Bool := true
                               -- which `set_up` the implementation has (the harness looks): `true`: the five switches go to
                               -- the symmetries constructor as they are; `false`: `set_up` switches the 90°/180° symmetries
                               -- off when `use_actual_detector_boundaries` stays on (proposed repair C03-5)
  pm : PM Nat String := { params := default }

/-- the geometry of a class (any member: the tokens of all members agree) -/
def St.ofClass (st : St) (c : Nat) : Geo := ((st.geos.find? fun e => e.2.eqclass == c).map (·.2)).getD default

/-- the model's geometries `G` are the classes -/
def St.world (st : St) : World Nat String :=
  { symOf := fun g p =>
      let gg := st.ofClass g
      let f := if st.kind == 0 && p.actualBoundaries && gg.actualElig && !st.actualKeepsViewSym
               then { p.flags with d90 := false, d180 := false } else p.flags
      gg.sym st.xyRangeGuard f
    compute := fun g p b => (st.table.find? fun e => e.1 == ⟨st.kind, g, p.ntl, p.restrictFOV, p.actualBoundaries, b⟩).map (·.2)
    fits := fun g => let gg := st.ofClass g; keyFits gg.maxAbsAx0 gg.maxAbsTang gg.maxAbsTof }

def defaultParams : Params := { flags := ⟨true, true, true, true, true⟩, ntl := 1, restrictFOV := true, actualBoundaries := false }

def fmtErr : Err → String
  | .notSetUp => "err-setup"
  | .compute => "err-nodata"
  | .keyBits => "err-bits"

@[reducible] def addInt : Add String := ⟨fun a b => toString (I a + I b)⟩

def stepLine (st : St) (line : String) : St × String :=
  let toks := (line.trimAscii.toString.splitOn " ").filter (· ≠ "")
  match toks with
  | "cfg" :: f90 :: f180 :: fseg :: fs :: fz :: rest =>
    match parseGeo rest with
    | none => (st, "bad-cfg")
    | some g =>
      let f : Flags := ⟨B f90, B f180, B fseg, B fs, B fz⟩
      if !g.valid then ({ st with geo := g, flags := f }, "err")
      else ({ st with geo := g, flags := f }, fmtEff g st.xyRangeGuard f)
  | ["sym", s, v, a, t, tf] => (st, answerSym (st.geo.sym st.xyRangeGuard st.flags) ⟨I s, I v, I a, I t, I tf⟩)
  | ["pimpl", r] => ({ st with xyRangeGuard := B r }, "ok")
  | "pgeo" :: gid :: cls :: elig :: rest =>
    match parseGeo rest with
    | none => (st, "bad-pgeo")
    | some g => ({ st with geos := (N gid, { g with eqclass := N cls, actualElig := B elig }) :: st.geos.filter (·.1 != N gid) }, "ok")
  | ["pnew", k, v] => ({ st with kind := N k, actualKeepsViewSym := B v, pm := { params := defaultParams } }, "ok")
  | ["pset", f90, f180, fseg, fs, fz, ntl, restr, act] =>
    let p : Params := { flags := ⟨B f90, B f180, B fseg, B fs, B fz⟩, ntl := N ntl, restrictFOV := B restr, actualBoundaries := B act }
    match st.pm.step st.world (.setParams p) with
    | .ok (pm, _) => ({ st with pm := pm }, "ok")
    | .error e => (st, fmtErr e)
  | ["psetup", gid] =>
    let gg := (st.geos.lookup (N gid)).getD default
    if !gg.valid then (st, "err") else
    match (if st.kind == 1 then st.pm.stepInterp st.world (.setUp gg.eqclass) else st.pm.step st.world (.setUp gg.eqclass)) with
    | .ok (pm, _) => ({ st with pm := pm }, "ok")
    | .error e => (st, fmtErr e)
  | ["pmode", en, bo] =>
    match st.pm.step st.world (.enableCache (B en)) with
    | .ok (pm, _) =>
      match pm.step st.world (.storeOnlyBasic (B bo)) with
      | .ok (pm, _) => ({ st with pm := pm }, "ok")
      | .error e => (st, fmtErr e)
    | .error e => (st, fmtErr e)
  | ["pclear"] =>
    match st.pm.step st.world .clearCache with
    | .ok (pm, _) => ({ st with pm := pm }, "ok")
    | .error e => (st, fmtErr e)
  | "pget" :: s :: v :: a :: t :: tf :: rest =>
    -- optional data: the ray-traced elements of a basic bin for the active geometry / parameters
    let st := match rest, st.pm.active with
      | "data" :: ds :: dv :: da :: dt :: dtf :: n :: el, some (g, p) =>
        { st with table := (⟨st.kind, g, p.ntl, p.restrictFOV, p.actualBoundaries, ⟨I ds, I dv, I da, I dt, I dtf⟩⟩, parseElems (N n) el) :: st.table }
      | _, _ => st
    match st.pm.step st.world (.get ⟨I s, I v, I a, I t, I tf⟩) with
    | .ok (pm, some r) => ({ st with pm := pm }, s!"row {fmtBin r.bin} {fmtElems (sortElems r.elems)}")
    | .ok (pm, none) => ({ st with pm := pm }, "bad")
    | .error e => (st, fmtErr e)
  | "merge" :: n1 :: rest =>
    let e1 := parseElems (N n1) rest
    match rest.drop (4 * N n1) with
    | n2 :: rest2 =>
      let e2 := parseElems (N n2) rest2
      (st, fmtElems (@mergeSorted String addInt (sortElems e1) (sortElems e2)))
    | [] => (st, "bad-merge")
  | _ => (st, "bad-op")

partial def loop (h : IO.FS.Stream) (st : St) : IO Unit := do
  let line ← h.getLine
  if line.isEmpty then return ()
  let (st', out) := stepLine st line
  IO.println out
  loop h st'

def main : IO Unit := do loop (← IO.getStdin) {}
end Driver.C03
