import StirVerif.C09.Model
/-! Line-protocol driver for C09 (implementation side: harness/c09_priors.cxx).

Every answer element is `value:magnitude`; a number is printed exactly, either as a rational `n/d`
(Quadratic prior: the model is evaluated in `Rat`) or as `b<bits>` (the IEEE-754 bit pattern of a binary64:
RDP / log-cosh / PLS / default weights, evaluated in `Float`).  `magnitude` is the sum of the absolute values of
the terms of the sum-of-products (times a conditioning factor where a transcendental function is involved);
`checks/c09.py` accepts `|impl - value| <= 4 n 2^-24 magnitude`, `n` = number of weights + 16. -/
namespace Driver.C09
open StirVerif.C09

/-- a parsed C99 hex float: (-1)^neg * mant * 2^exp -/
structure Hex where
  neg : Bool
  mant : Nat
  exp : Int
deriving Inhabited

def hexDigit (c : Char) : Option Nat :=
  if '0' ≤ c ∧ c ≤ '9' then some (c.toNat - '0'.toNat)
  else if 'a' ≤ c ∧ c ≤ 'f' then some (c.toNat - 'a'.toNat + 10)
  else if 'A' ≤ c ∧ c ≤ 'F' then some (c.toNat - 'A'.toNat + 10)
  else none

/-- parse `[-]0xH[.HHHH]p[+-]D` -/
def parseHex (s : String) : Hex :=
  let cs := s.toList
  let (neg, cs) := match cs with
    | '-' :: r => (true, r)
    | '+' :: r => (false, r)
    | r => (false, r)
  let cs := match cs with
    | '0' :: 'x' :: r => r
    | '0' :: 'X' :: r => r
    | r => r
  -- mantissa digits up to 'p'
  let rec go (cs : List Char) (mant : Nat) (frac : Nat) (inFrac : Bool) : Nat × Nat × List Char :=
    match cs with
    | [] => (mant, frac, [])
    | c :: r =>
      if c == '.' then go r mant frac true
      else if c == 'p' || c == 'P' then (mant, frac, r)
      else match hexDigit c with
        | some d => go r (mant * 16 + d) (if inFrac then frac + 1 else frac) inFrac
        | none => (mant, frac, [])
  let (mant, frac, rest) := go cs 0 0 false
  let e : Int := (String.ofList (rest.filter (· ≠ '+'))).toInt?.getD 0
  { neg := neg, mant := mant, exp := e - 4 * (frac : Int) }

def Hex.toRat (h : Hex) : Rat :=
  let m : Rat := (h.mant : Int)
  let v := if h.exp ≥ 0 then m * ((2 ^ h.exp.toNat : Nat) : Int) else m / (((2 ^ (-h.exp).toNat : Nat) : Int) : Rat)
  if h.neg then -v else v

def Hex.toFloat (h : Hex) : Float :=
  let v := (Float.ofNat h.mant).scaleB h.exp
  if h.neg then -v else v

/-- the exact value of a binary64 (finite) as mantissa and exponent -/
def floatToHex (f : Float) : Hex :=
  let bits := f.toBits.toNat
  let e := (bits >>> 52) % 2048
  let m := bits % (2 ^ 52)
  if e == 0 then { neg := bits >>> 63 == 1, mant := m, exp := -1074 }
  else { neg := bits >>> 63 == 1, mant := m + 2 ^ 52, exp := (e : Int) - 1075 }

def fmtRat (q : Rat) : String := s!"{q.num}/{q.den}"
def fmtFloat (f : Float) : String := s!"b{f.toBits}"

def absR (q : Rat) : Rat := if q < 0 then -q else q

/-- array-backed image -/
def mkImg {K : Type} (dflt : K) (b : Box) (a : Array K) : Img K := fun z y x =>
  if b.z0 ≤ z ∧ z ≤ b.z1 ∧ b.y0 ≤ y ∧ y ≤ b.y1 ∧ b.x0 ≤ x ∧ x ≤ b.x1 then
    let ny := (b.y1 - b.y0 + 1).toNat
    let nx := (b.x1 - b.x0 + 1).toNat
    a.getD (((z - b.z0).toNat * ny + (y - b.y0).toNat) * nx + (x - b.x0).toNat) dflt
  else dflt

def boxSize (b : Box) : Nat := (b.z1 - b.z0 + 1).toNat * (b.y1 - b.y0 + 1).toNat * (b.x1 - b.x0 + 1).toNat

def voxels (b : Box) : List (Int × Int × Int) :=
  (irange b.z0 b.z1).flatMap fun z => (irange b.y0 b.y1).flatMap fun y => (irange b.x0 b.x1).map fun x => (z, y, x)

structure St where
  kind : Nat := 0
  only2d : Bool := false
  b : Box := ⟨0, 0, 0, 0, 0, 0⟩
  wb : Box := ⟨0, -1, 0, -1, 0, -1⟩
  pf : Hex := default
  gamma : Hex := default
  eps : Hex := default
  scalar : Hex := default
  alpha : Hex := default
  eta : Hex := default
  w : Array Hex := #[]
  kappa : Option (Array Hex) := none
  anat : Array Hex := #[]
  cur : Array Hex := #[]
  inp : Array Hex := #[]
  out : Array Hex := #[]
  /-- PLS: the values `only_2D` and `eta` had when `set_up` prepared the anatomical gradients and their norm -/
  suOnly2d : Bool := false
  suEta : Hex := default
  /-- `weights_set_by_user` -/
  wUser : Bool := false

def joinS (l : List String) : String := " ".intercalate l

/-! ### Quadratic prior: exact rational evaluation -/
section quadratic
/- NB: converted arrays are bound with `let` *before* `mkImg` is partially applied: a definition returning an `Img`
   is compiled as a function of the indices as well and would redo the conversion at every lookup. -/
def arrQ (a : Array Hex) : Array Rat := a.map Hex.toRat
def arrQabs (a : Array Hex) : Array Rat := a.map fun h => absR h.toRat

def answerQ (s : St) (toks : List String) : String :=
  let I (t : String) : Int := t.toInt?.getD 0
  let pf := s.pf.toRat
  let wArr := arrQ s.w; let wAArr := arrQabs s.w
  let w : Img Rat := mkImg 0 s.wb wArr
  let wA : Img Rat := mkImg 0 s.wb wAArr
  let kArr := s.kappa.map arrQ; let kAArr := s.kappa.map arrQabs
  let κ : Option (Img Rat) := kArr.map fun a => mkImg 0 s.b a
  let κA : Option (Img Rat) := kAArr.map fun a => mkImg 0 s.b a
  let curArr := arrQ s.cur
  let cur : Img Rat := mkImg 0 s.b curArr
  let inpArr := arrQ s.inp; let outArr := arrQ s.out; let inpAArr := arrQabs s.inp; let outAArr := arrQabs s.out
  let inp : Img Rat := mkImg 0 s.b inpArr; let out : Img Rat := mkImg 0 s.b outArr
  let inpA : Img Rat := mkImg 0 s.b inpAArr; let outA : Img Rat := mkImg 0 s.b outAArr
  let one2 : Rat → Rat → Rat := fun _ _ => 1
  let vm (v m : Rat) : String := fmtRat v ++ ":" ++ fmtRat m
  match toks with
  | ["value"] =>
    vm (qValue pf w κ s.b s.wb cur) (qValueCore (absR pf) wA κA s.b s.wb cur)
  | ["grad"] =>
    joinS <| (voxels s.b).map fun (z, y, x) =>
      vm (qGrad pf w κ s.b s.wb cur z y x) (gradCore (fun a b => absR (a - b)) (absR pf) wA κA s.b s.wb cur z y x)
  | ["htimes"] =>
    joinS <| (voxels s.b).map fun (z, y, x) =>
      vm (qHessTimes pf w κ s.b s.wb cur inp out z y x)
         (outA z y x + hessTimesCore one2 one2 (absR pf) wA κA s.b s.wb cur inpA z y x)
  | ["hrow", cz, cy, cx] =>
    joinS <| (voxels s.b).map fun (z, y, x) =>
      vm (qHessRow pf w κ s.b s.wb cur (I cz) (I cy) (I cx) z y x)
         (hessRowCore one2 one2 (absR pf) wA κA s.b s.wb cur (I cz) (I cy) (I cx) z y x)
  | ["approx"] =>
    joinS <| (voxels s.b).map fun (z, y, x) =>
      vm (qApproxHessTimes pf w κ s.b s.wb inp out z y x)
         (if pf == 0 then outA z y x else qApproxHessTimes (absR pf) wA κA s.b s.wb inpA outA z y x)
  | ["surr"] =>
    joinS <| (voxels s.b).map fun (z, y, x) =>
      vm (qSurrogate pf w κ s.b s.wb z y x) (qSurrogate (absR pf) wA κA s.b s.wb z y x)
  | _ => "bad-op"
end quadratic

/-! ### RDP, log-cosh, PLS, default weights: `Float` evaluation -/
section float
def arrF (a : Array Hex) : Array Float := a.map Hex.toFloat
def arrFabs (a : Array Hex) : Array Float := a.map fun h => h.toFloat.abs

def vmF (v m : Float) : String := fmtFloat v ++ ":" ++ fmtFloat m

/-- RDP (`kind = 1`) and log-cosh (`kind = 2`) -/
def answerNb (s : St) (toks : List String) : String :=
  let I (t : String) : Int := t.toInt?.getD 0
  let pf := s.pf.toFloat
  let γ := s.gamma.toFloat; let ε := s.eps.toFloat; let sc := s.scalar.toFloat
  let wArr := arrF s.w; let wAArr := arrFabs s.w
  let w : Img Float := mkImg 0 s.wb wArr
  let wA : Img Float := mkImg 0 s.wb wAArr
  let kArr := s.kappa.map arrF; let kAArr := s.kappa.map arrFabs
  let κ : Option (Img Float) := kArr.map fun a => mkImg 0 s.b a
  let κA : Option (Img Float) := kAArr.map fun a => mkImg 0 s.b a
  let curArr := arrF s.cur
  let cur : Img Float := mkImg 0 s.b curArr
  let inpArr := arrF s.inp; let outArr := arrF s.out; let inpAArr := arrFabs s.inp; let outAArr := arrFabs s.out
  let inp : Img Float := mkImg 0 s.b inpArr; let out : Img Float := mkImg 0 s.b outArr
  let inpA : Img Float := mkImg 0 s.b inpAArr; let outA : Img Float := mkImg 0 s.b outAArr
  let rdp := s.kind == 1
  -- the potential functions of this prior, and |.| versions carrying the conditioning of the float evaluation
  let d10 : Float → Float → Float := if rdp then rdpD10 γ ε else lcD10 sc
  let d20 : Float → Float → Float := if rdp then rdpD20 γ ε else lcD20 sc
  let d11 : Float → Float → Float := if rdp then rdpD11 γ ε else lcD11 sc
  let cond (a b : Float) : Float := if rdp then 1 else 1 + (sc * (a - b)).abs
  let d10A : Float → Float → Float := fun a b => (d10 a b).abs
  let d20A : Float → Float → Float := fun a b => (d20 a b).abs * cond a b
  let d11A : Float → Float → Float := fun a b => (d11 a b).abs * cond a b
  match toks with
  | ["value"] =>
    if rdp then
      vmF (rValue γ ε pf w κ s.b s.wb cur) (valueSum (fun w a b => (rdpTerm γ ε w a b).abs) wA κA s.b s.wb cur * pf.abs)
    else
      -- float log(cosh(x)): absolute error ~ u (1 + logcosh x + |x|)
      vmF (lValue sc pf w κ s.b s.wb cur)
          (valueSum (fun w a b => w / (sc * sc) * (1 + logcosh (sc * (a - b)) + (sc * (a - b)).abs)) wA κA s.b s.wb cur * pf.abs / 2)
  | ["grad"] =>
    joinS <| (voxels s.b).map fun (z, y, x) =>
      vmF (grad d10 pf w κ s.b s.wb cur z y x) (gradCore d10A pf.abs wA κA s.b s.wb cur z y x)
  | ["htimes"] =>
    joinS <| (voxels s.b).map fun (z, y, x) =>
      vmF (hessTimes d20 d11 pf w κ s.b s.wb cur inp out z y x)
          (outA z y x + hessTimesCore d20A d11A pf.abs wA κA s.b s.wb cur inpA z y x)
  | ["hrow", cz, cy, cx] =>
    joinS <| (voxels s.b).map fun (z, y, x) =>
      vmF (hessRow d20 d11 pf w κ s.b s.wb cur (I cz) (I cy) (I cx) z y x)
          (hessRowCore d20A d11A pf.abs wA κA s.b s.wb cur (I cz) (I cy) (I cx) z y x)
  | ["surr"] =>
    joinS <| (voxels s.b).map fun (z, y, x) =>
      vmF (lSurrogate sc pf w κ s.b s.wb cur z y x) (lSurrogate sc pf.abs wA κA s.b s.wb cur z y x)
  | _ => "bad-op"

/-- evaluate an image once on the box and store it (the C++ keeps these intermediate images in arrays, too) -/
def materialise (b : Box) (f : Img Float) : Array Float :=
  ((voxels b).map fun (z, y, x) => f z y x).toArray

/-- PLS (`kind = 3`).  The implementation evaluates everything in `float`; the conditioning of
    `sqrt(alpha^2 + |g|^2 - <g,xi>^2)` enters the magnitude as `(alpha^2 + 2|g|^2) / penalty^2`. -/
def answerPls (s : St) (toks : List String) : String :=
  let pf := s.pf.toFloat
  let α := s.alpha.toFloat
  let kArr := s.kappa.map arrF
  let κ : Option (Img Float) := kArr.map fun a => mkImg 0 s.b a
  let curArr := arrF s.cur; let anatArr := arrF s.anat
  let cur : Img Float := mkImg 0 s.b curArr
  let anat : Img Float := mkImg 0 s.b anatArr
  let only2d := s.only2d   -- the harness calls set_only_2D() after construction
  -- `set_up` and `compute_inner_product_and_penalty`, stage by stage as in `plsSetUp` / `plsFields`; every stage is
  -- evaluated once on the box and stored, as the C++ does
  -- `set_up` computes the norm with the `only_2D` and `eta` of that moment (`cfg`: the current ones; object ops: as of `osetup`)
  let A0 := plsSetUp s.suOnly2d s.suEta.toFloat s.b anat
  let azA := materialise s.b A0.az; let ayA := materialise s.b A0.ay; let axA := materialise s.b A0.ax
  let nA := materialise s.b A0.norm
  let A : PlsAnat Float := { az := mkImg 0 s.b azA, ay := mkImg 0 s.b ayA, ax := mkImg 0 s.b axA, norm := mkImg 0 s.b nA }
  let gzA := materialise s.b (plsGradElem s.b 0 cur); let gyA := materialise s.b (plsGradElem s.b 1 cur)
  let gxA := materialise s.b (plsGradElem s.b 2 cur)
  let gz : Img Float := mkImg 0 s.b gzA; let gy : Img Float := mkImg 0 s.b gyA; let gx : Img Float := mkImg 0 s.b gxA
  let ipA := materialise s.b (plsInner only2d A gz gy gx)
  let ip : Img Float := mkImg 0 s.b ipA
  let penA := materialise s.b (plsPenalty only2d α ip gz gy gx)
  let pen : Img Float := mkImg 0 s.b penA
  let F : PlsFields Float := { gz := gz, gy := gy, gx := gx, ip := ip, pen := pen }
  let g2 (z y x : Int) : Float := (if only2d then 0 else sq (gz z y x)) + sq (gy z y x) + sq (gx z y x)
  let cond (z y x : Int) : Float := (sq α + 2 * g2 z y x) / sq (pen z y x)
  let kap (z y x : Int) : Float := match κ with | none => 1 | some k => (k z y x).abs
  -- error scale of one flux term at voxel r
  let fluxErr (g a : Img Float) (z y x : Int) : Float :=
    ((g z y x).abs + (a z y x * ip z y x / A.norm z y x).abs) / pen z y x * (1 + cond z y x)
  let inImg (z y x : Int) : Bool :=
    decide (s.b.z0 ≤ z) && decide (z ≤ s.b.z1) && decide (s.b.y0 ≤ y) && decide (y ≤ s.b.y1) && decide (s.b.x0 ≤ x) && decide (x ≤ s.b.x1)
  match toks with
  | ["value"] =>
    vmF (if pf == 0 then 0 else plsValueOf pf F κ s.b)
        (voxSum s.b (fun z y x => pen z y x * cond z y x * kap z y x) * pf.abs)
  | ["grad"] =>
    joinS <| (voxels s.b).map fun (z, y, x) =>
      -- kappa is a factor of the flux of its own voxel
      let fe (g a : Img Float) (z y x : Int) : Float := if inImg z y x then fluxErr g a z y x * kap z y x else 0
      let e : Float :=
        fe gx A.ax z y x + fe gx A.ax z y (x - 1) + fe gy A.ay z y x + fe gy A.ay z (y - 1) x
        + (if only2d then 0 else fe gz A.az z y x + fe gz A.az (z - 1) y x)
      vmF (if pf == 0 then 0 else plsGradOf only2d pf A F κ s.b z y x) (e * pf.abs)
  | _ => "bad-op"
end float

def parseCfg (toks : List String) : Option St :=
  match toks with
  | "cfg" :: kind :: pf :: o2 :: gamma :: eps :: scalar :: alpha :: eta ::
      z0 :: z1 :: y0 :: y1 :: x0 :: x1 :: wz0 :: wz1 :: wy0 :: wy1 :: wx0 :: wx1 :: rest =>
    let I (t : String) : Int := t.toInt?.getD 0
    let b : Box := ⟨I z0, I z1, I y0, I y1, I x0, I x1⟩
    let wb : Box := ⟨I wz0, I wz1, I wy0, I wy1, I wx0, I wx1⟩
    let nW := boxSize wb
    let n := boxSize b
    let wTok := rest.take nW
    let rest := rest.drop nW
    match rest with
    | "K" :: kf :: rest =>
      let (kappa, rest) := if kf == "1" then (some ((rest.take n).map parseHex).toArray, rest.drop n) else (none, rest)
      match rest with
      | "A" :: af :: rest =>
        let anat := if af == "1" then ((rest.take n).map parseHex).toArray else #[]
        some { kind := (match kind with | "Q" => 0 | "R" => 1 | "L" => 2 | _ => 3),
               only2d := o2 == "1", suOnly2d := o2 == "1", suEta := parseHex eta,
               b := b, wb := wb, pf := parseHex pf, gamma := parseHex gamma, eps := parseHex eps,
               scalar := parseHex scalar, alpha := parseHex alpha, eta := parseHex eta,
               w := (wTok.map parseHex).toArray, kappa := kappa, anat := anat }
      | _ => none
    | _ => none
  | _ => none

/-! ### the prior object (ops `onew`, `oparse`, `obox`, `okappa`, `oanat`, `osetw`, `oset`, `osetup`, `ocall`, `owts`)

The members of the object are the fields `kind, only2d, pf, gamma, eps, scalar, alpha, eta, wb, w, kappa, anat` of `St`; every
transition is the model function of `StirVerif.C09.Model` (`NbPrior.ctor`, `NbPrior.parsed`, `NbPrior.setWeights`, …, `NbPrior.call`),
instantiated at `Float`; the weights it leaves behind are stored exactly (`floatToHex`) and used by the same answer functions as the
stateless ops (Quadratic: exact `Rat` arithmetic on them). -/

def hexOfNat (n : Nat) : Hex := { neg := false, mant := n, exp := 0 }

def St.toObj (s : St) : NbPrior Float :=
  let wArr := arrF s.w
  let kArr := s.kappa.map arrF
  { kind := s.kind, only2D := s.only2d, pf := s.pf.toFloat, gamma := s.gamma.toFloat, eps := s.eps.toFloat, scalar := s.scalar.toFloat,
    wb := s.wb, w := mkImg 0 s.wb wArr, kappa := kArr.map fun a => mkImg 0 s.b a, wUser := s.wUser }

/-- write the members the model object may have changed back into the state -/
def St.ofObj (s : St) (o : NbPrior Float) (weightsChanged : Bool) : St :=
  let s := { s with kind := o.kind, only2d := o.only2D, wb := o.wb, wUser := o.wUser }
  if weightsChanged then { s with w := ((voxels o.wb).map fun (z, y, x) => floatToHex (o.w z y x)).toArray } else s

def dfltF (sz sy sx : Float) : Img Float := defaultWeights (K := Float) Float.ofInt sz sy sx

/-- `W <nz> { <ny> { <nx> <values> } }` -/
partial def parseNested (toks : List String) : Option (List (List (List Hex)) × List String) :=
  let N (t : String) : Nat := t.toNat?.getD 0
  let rec rows (n : Nat) (toks : List String) (acc : List (List Hex)) : Option (List (List Hex) × List String) :=
    match n with
    | 0 => some (acc.reverse, toks)
    | n + 1 =>
      match toks with
      | nx :: rest => rows n (rest.drop (N nx)) (((rest.take (N nx)).map parseHex) :: acc)
      | [] => none
  let rec planes (n : Nat) (toks : List String) (acc : List (List (List Hex))) : Option (List (List (List Hex)) × List String) :=
    match n with
    | 0 => some (acc.reverse, toks)
    | n + 1 =>
      match toks with
      | ny :: rest =>
        match rows (N ny) rest [] with
        | some (p, rest') => planes n rest' (p :: acc)
        | none => none
      | [] => none
  match toks with
  | "W" :: nz :: rest => planes (N nz) rest []
  | _ => none

def kindOf (k : String) : Nat := match k with | "Q" => 0 | "R" => 1 | "L" => 2 | _ => 3

def answer (s : St) (toks : List String) : String :=
  match s.kind with
  | 0 => answerQ s toks
  | 1 => answerNb s toks
  | 2 => answerNb s toks
  | _ => answerPls s toks

def stepObj (s : St) (toks : List String) : Option (St × String) :=
  let I (t : String) : Int := t.toInt?.getD 0
  match toks with
  | ["onew", kind, pf, o2, gamma, eps, scalar] =>
    let k := kindOf kind
    let o := NbPrior.ctor (K := Float) k (o2 == "1") 0 0 0 0
    -- PLSPrior(only_2D, pf): set_defaults() gives alpha = eta = 1, no kappa, no anatomical image
    some ({ s with kind := k, only2d := o.only2D, pf := parseHex pf, gamma := parseHex gamma, eps := parseHex eps, scalar := parseHex scalar,
                   alpha := hexOfNat 1, eta := hexOfNat 1, wb := o.wb, w := #[], wUser := o.wUser, kappa := none, anat := #[],
                   suOnly2d := o.only2D, suEta := hexOfNat 1 }, "ok")
  | "oparse" :: kind :: pf :: o2 :: gamma :: eps :: scalar :: rest =>
    match parseNested rest with
    | none => some (s, "bad-op")
    | some (a, _) =>
      match NbPrior.parsed (K := Float) (kindOf kind) (o2 == "1") 0 0 0 0 (a.map fun p => p.map fun r => r.map Hex.toFloat) none with
      | none => some (s, "err")
      | some o =>
        -- the weights as `parsedWeights` re-indexes them (floats are exact in binary64)
        some ({ (s.ofObj o true) with pf := parseHex pf, gamma := parseHex gamma, eps := parseHex eps,
                                      scalar := parseHex scalar, kappa := none }, "ok")
  | ["obox", z0, z1, y0, y1, x0, x1] => some ({ s with b := ⟨I z0, I z1, I y0, I y1, I x0, I x1⟩ }, "ok")
  | "okappa" :: f :: vals =>
    let o := (s.toObj).setKappa (if f == "1" then some (fun _ _ _ => 0) else none)
    some ({ s with kappa := o.kappa.map fun _ => (vals.map parseHex).toArray }, "ok")
  | "oanat" :: vals => some ({ s with anat := (vals.map parseHex).toArray }, "ok")
  | "osetw" :: z0 :: z1 :: y0 :: y1 :: x0 :: x1 :: vals =>
    let wb : Box := ⟨I z0, I z1, I y0, I y1, I x0, I x1⟩
    let o := (s.toObj).setWeights wb (fun _ _ _ => 0)
    some ({ s with wb := o.wb, wUser := o.wUser, w := (vals.map parseHex).toArray }, "ok")
  | ["oset", what, v] =>
    match what with
    | "pf" => some ({ s with pf := parseHex v }, "ok")
    | "gamma" => some ({ s with gamma := parseHex v }, "ok")
    | "eps" => some ({ s with eps := parseHex v }, "ok")
    | "scalar" => some ({ s with scalar := parseHex v }, "ok")
    | "alpha" => some ({ s with alpha := parseHex v }, "ok")
    | "eta" => some ({ s with eta := parseHex v }, "ok")
    | "only2d" => some ({ s with only2d := v == "1" }, "ok")
    | _ => some (s, "bad-op")
  | ["osetup"] =>
    -- NbPrior.setUp: weights that were not supplied by the user are emptied; PLS: the anatomical data are prepared now
    let o := (s.toObj).setUp
    some ({ (s.ofObj o false) with suOnly2d := s.only2d, suEta := s.eta }, "ok")
  | "ocall" :: vz :: vy :: vx :: fn =>
    if s.kind == 3 then some (s, answerPls s fn)
    else
      let o := s.toObj
      let (o', ans) := o.call dfltF (parseHex vz).toFloat (parseHex vy).toFloat (parseHex vx).toFloat
        fun o' => answer (s.ofObj o' (weightsEmpty o.wb && !weightsEmpty o'.wb)) fn
      some (s.ofObj o' (weightsEmpty o.wb && !weightsEmpty o'.wb), ans)
  | ["owts"] =>
    let wArr := arrF s.w
    let w : Img Float := mkImg 0 s.wb wArr
    let wb := if weightsEmpty s.wb then emptyBox else s.wb
    some (s, joinS ([s!"{wb.z0} {wb.z1} {wb.y0} {wb.y1} {wb.x0} {wb.x1}"] ++ (voxels wb).map fun (z, y, x) => vmF (w z y x) (w z y x).abs))
  | _ => none

def stepLine (s : St) (line : String) : St × String :=
  -- tokens `@<case>` only make the operation lines of different cases distinct
  let toks := (line.trimAscii.toString.splitOn " ").filter fun t => t ≠ "" ∧ ¬ t.startsWith "@"
  match toks with
  | "cfg" :: _ =>
    match parseCfg toks with
    | some s' => (s', "ok")
    | none => (s, "err")
  | ["defw", kind, vz, vy, vx, o2] =>
    -- the weights a freshly constructed prior of this kind computes on first use
    let only2d := ctorOnly2D (match kind with | "Q" => 0 | "R" => 1 | "L" => 2 | _ => 3) (o2 == "1")
    let wb := defaultWeightsBox only2d
    let w := defaultWeights (K := Float) Float.ofInt (parseHex vz).toFloat (parseHex vy).toFloat (parseHex vx).toFloat
    (s, s!"{wb.z0} {wb.z1} {wb.y0} {wb.y1} {wb.x0} {wb.x1} " ++
        joinS ((voxels wb).map fun (z, y, x) => vmF (w z y x) (w z y x).abs))
  | "img" :: slot :: vals =>
    let a := (vals.map parseHex).toArray
    match slot with
    | "cur" => ({ s with cur := a }, "ok")
    | "inp" => ({ s with inp := a }, "ok")
    | "out" => ({ s with out := a }, "ok")
    | _ => (s, "err")
  | _ =>
    match stepObj s toks with
    | some r => r
    | none => (s, answer s toks)

partial def loop (h : IO.FS.Stream) (s : St) : IO Unit := do
  let line ← h.getLine
  if line.isEmpty then return ()
  let (s', out) := stepLine s line
  IO.println out
  loop h s'

def main : IO Unit := do loop (← IO.getStdin) {}
end Driver.C09
