import StirVerif.C17.Model
/-! Line-protocol driver for C17 (implementation side: harness/c17_keyparser.cxx).
Strings travel as `x<hex bytes>` tokens (one `Char` per byte).

  std x<s>                      -> x<standardise s>
  kw x<line>                    -> x<get_keyword line>
  cfg reset                     -> ok                     (fresh KeyParser)
  cfg key <action> <kind> x<keyword> <init…>  -> ok       (add_key / add_vectorised_key / add_start_key / …)
  cfg alias <0|1> x<keyword> x<alias>         -> ok       (add_alias_key, flag = deprecated)
  parse x<text>                 -> <ok1|ok0|err|hang> <dump of all variables>
  info                          -> x<parameter_info()>
  count <cur> x<line>           -> <table size>|err        (header-declared counts)
  pdfsseg <S> <ax…> | <min…>|- | <max…>|-  -> rej | err | ok <min segment> <max segment>
                                   (per-segment lists of an Interfile projection-data header; "-" = key absent)
  hdr image x<text>             -> rej | err | oob | ok <dump of all members>    (InterfileImageHeader().parse, keys in any order)
  hdr multi x<text>             -> rej | err | oob | ok <dump of all members>    (MultipleDataSetHeader().parse)
  hdr pdfs <known> <max TOF bins> <bin size> <resolution> x<text>
                                -> rej | err | errmash | erreven | errtof | ok <num_timing_poss> <TOF bins> <mashing factor of the geometry>
                                   <segments> <views> <bins> <axial positions…>   (InterfilePDFSHeader().parse, keys in any order; the
                                   four numbers describe the scanner that 'originating system' names)
  po reset                      -> ok                     (empty heap of ParsingObjects; the class = the current key table)
  po new | po copy <i>          -> <id of the new object>
  po assign <i> <j> | po destroy <i>  -> ok
  po parse <i> x<text>          -> <ok1|ok0|err|hang> <dump of the members of object i> | uaf
  po info <i>                   -> x<parameter_info()> | uaf
-/
namespace Driver.C17
open StirVerif.C17

def hexDigit (n : Nat) : Char := if n < 10 then Char.ofNat (48 + n) else Char.ofNat (87 + n)

def hex (s : Str) : String :=
  String.ofList ('x' :: s.flatMap fun c => [hexDigit (c.toNat / 16 % 16), hexDigit (c.toNat % 16)])

def hexVal (c : Char) : Nat :=
  if '0' ≤ c ∧ c ≤ '9' then c.toNat - 48 else if 'a' ≤ c ∧ c ≤ 'f' then c.toNat - 87 else 0

def unhexAux : List Char → Str
  | a :: b :: t => Char.ofNat (hexVal a * 16 + hexVal b) :: unhexAux t
  | _ => []

def unhex (tok : String) : Str := unhexAux (tok.toList.drop 1)

def joinWith (sep : String) (l : List String) : String := sep.intercalate l

def fmtInts (l : List Int) : String := s!"{l.length}:" ++ joinWith "," (l.map toString)

def fmtVar : Var → Option String
  | .none => none
  | .int n => some s!"i:{n}"
  | .bool b => some (if b then "b:1" else "b:0")
  | .ascii s => some s!"s:{hex s}"
  | .choice _ i => some s!"c:{i}"
  | .ints l => some ("il:" ++ fmtInts l)
  | .strs l => some (s!"sl:{l.length}:" ++ joinWith "," (l.map hex))
  | .vInt l => some ("vi:" ++ fmtInts l)
  | .vAscii l => some (s!"vs:{l.length}:" ++ joinWith "," (l.map hex))
  | .vInts l => some (s!"vl:{l.length}:" ++ joinWith ";" (l.map fmtInts))

def dump (p : KP) : String :=
  joinWith " " (p.kmap.filterMap fun e => fmtVar e.var)

def withDump (tag : String) (p : KP) : String :=
  let d := dump p
  if d.isEmpty then tag else tag ++ " " ++ d

def I (s : String) : Int := s.toInt?.getD 0

/-- split a list of tokens at "|" -/
def splitBar : List String → List (List String)
  | [] => [[]]
  | t :: ts =>
    match splitBar ts with
    | [] => [[t]]
    | g :: gs => if t == "|" then [] :: g :: gs else (t :: g) :: gs

def mkVar (kind : String) (init : List String) : Var :=
  match kind, init with
  | "none", _ => .none
  | "int", [n] => .int (I n)
  | "bool", [b] => .bool (b == "1")
  | "ascii", [s] => .ascii (unhex s)
  | "choice", i :: vals => .choice (vals.map unhex) (I i)
  | "ilist", l => .ints (l.map I)
  | "slist", l => .strs (l.map unhex)
  | "vint", l => .vInt (l.map I)
  | "vascii", l => .vAscii (l.map unhex)
  | "vilist", l => .vInts (((splitBar l).drop 1).map (·.map I))
  | _, _ => .none

def mkAction : String → Action
  | "start" => .start
  | "stop" => .stop
  | "ignore" => .ignore
  | _ => .set

def hdrAnswer : HdrOutcome → String
  | .rejected => "rej"
  | .error => "err"
  | .oob => "oob"
  | .diverges => "hang"
  | .ok p =>
    -- private members of the C++ header that the harness cannot read are left out of the dump
    withDump "ok" { p with kmap := p.kmap.filter (fun e => e.key != kPetKeysRegistered && e.key != kImagingModality &&
                                                     e.key != kByteOrder && e.key != kNumberFormat) }

def pdfsAnswer : PdfsOutcome → String
  | .rejected => "rej"
  | .error => "err"
  | .errMash => "errmash"
  | .errEven => "erreven"
  | .errTof => "errtof"
  | .diverges => "hang"
  | .ok ntp bins mash S V B rings => joinWith " " (["ok", toString ntp, toString bins, toString mash, toString S, toString V, toString B] ++ rings.map toString)

def N (s : String) : Nat := s.toNat?.getD 0

def poAnswer : PAns → String
  | .id n => toString n
  | .done => "ok"
  | .parsed (.ok true) v => withDump "ok1" v
  | .parsed (.ok false) v => withDump "ok0" v
  | .parsed .error v => withDump "err" v
  | .parsed .diverges _ => "hang"
  | .text s => hex s
  | .uaf => "uaf"
  | .bad => "bad-op"

structure St where
  p : KP := {}
  heap : Heap := []

def stepPo (st : St) (toks : List String) : St × String :=
  let run (op : POp) : St × String :=
    let (h, a) := st.heap.step st.p op
    -- the implementation runs a text that does not return in a child process: its state is unchanged
    match a with
    | .parsed .diverges _ => (st, "hang")
    | _ => ({ st with heap := h }, poAnswer a)
  match toks with
  | ["reset"] => ({ st with heap := [] }, "ok")
  | ["new"] => run .new
  | ["copy", i] => run (.copy (N i))
  | ["assign", i, j] => run (.assign (N i) (N j))
  | ["destroy", i] => run (.destroy (N i))
  | ["parse", i, t] => run (.parse (N i) (unhex t))
  | ["info", i] => run (.info (N i))
  | _ => (st, "bad-op")

def stepLine (p : KP) (line : String) : KP × String :=
  let toks := (line.trimAscii.toString.splitOn " ").filter (· ≠ "")
  match toks with
  | ["hdr", "image", t] => (p, hdrAnswer (parseImageHeader (unhex t)))
  | ["hdr", "multi", t] => (p, hdrAnswer (parseMultiHeader (unhex t)))
  | ["hdr", "pdfs", known, gmax, gsize, gres, t] =>
    (p, pdfsAnswer (parsePdfsHeader { known := known == "1", maxTof := I gmax, sizePos := I gsize, resPos := I gres } (unhex t)))
  | ["std", s] => (p, hex (standardise (unhex s)))
  | ["kw", s] => (p, hex (getKeyword (unhex s)))
  | ["cfg", "reset"] => ({}, "ok")
  | "cfg" :: "key" :: action :: kind :: key :: init => (p.addKey (unhex key) (mkAction action) (mkVar kind init), "ok")
  | ["cfg", "alias", d, key, alias] => (p.addAlias (unhex key) (unhex alias) (d == "1"), "ok")
  | ["parse", t] =>
    let o := p.parse (unhex t)
    match o.tag with
    | .ok true => (o.kp, withDump "ok1" o.kp)
    | .ok false => (o.kp, withDump "ok0" o.kp)
    | .error => (o.kp, withDump "err" o.kp)
    | .diverges => (p, "hang")   -- the implementation is run in a child process for such texts: its state is unchanged
  | ["info"] => (p, hex p.parameterInfo)
  | ["count", cur, l] =>
    match countKey (I cur) (unhex l) with
    | some (_, sz) => (p, toString sz)
    | none => (p, "err")
  | "pdfsseg" :: S :: rest =>
    -- pdfsseg <S> <ax…> | <min…>|- | <max…>|-      ("-" = the key does not occur in the header)
    match splitBar rest with
    | [ax, mn, mx] =>
      let opt (l : List String) : Option (List Int) := if l == ["-"] then none else some (l.map I)
      match pdfsSegments (segTablesOf (I S) (ax.map I) (opt mn) (opt mx)) with
      | .rejected => (p, "rej")
      | .error => (p, "err")
      | .ok a b => (p, s!"ok {a} {b}")
    | _ => (p, "bad-op")
  | _ => (p, "bad-op")

def stepAll (st : St) (line : String) : St × String :=
  let toks := (line.trimAscii.toString.splitOn " ").filter (· ≠ "")
  match toks with
  | "po" :: rest => stepPo st rest
  | _ =>
    let (p', out) := stepLine st.p line
    ({ st with p := p' }, out)

partial def loop (h : IO.FS.Stream) (st : St) : IO Unit := do
  let line ← h.getLine
  if line.isEmpty then return ()
  let (st', out) := stepAll st line
  IO.println out
  loop h st'

def main : IO Unit := do loop (← IO.getStdin) {}
end Driver.C17
