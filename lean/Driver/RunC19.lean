import Driver.C19
def main : IO Unit := Driver.C19.main
