import StirVerif.C08.Model
/-! Line-protocol driver for C08 (implementation side: harness/c08_ossps.cxx).

Every number of the implementation arrives as a C99 hex float and is parsed exactly into `Rat`; the model answers with
`value~bound` tokens (`<int>p<exp>` = int·2^exp, 64 significant bits): the exact rational result of the model and the
derived forward error bound for the float computation of the implementation (see `checks/c08.py`). -/
namespace Driver.C08
open StirVerif.C08

/-! ### parsing / printing -/

def hexDigit (c : Char) : Option Nat :=
  if '0' ≤ c ∧ c ≤ '9' then some (c.toNat - '0'.toNat)
  else if 'a' ≤ c ∧ c ≤ 'f' then some (c.toNat - 'a'.toNat + 10)
  else if 'A' ≤ c ∧ c ≤ 'F' then some (c.toNat - 'A'.toNat + 10)
  else none

def pow2 (e : Int) : Rat := if e ≥ 0 then ((2 ^ e.toNat : Nat) : Rat) else 1 / ((2 ^ (-e).toNat : Nat) : Rat)

/-- `%a` output: `[-]0x<h>[.<hhh>]p[+-]<d>`; `none` for inf/nan/garbage -/
def parseHex (s : String) : Option Rat :=
  let cs := s.toList
  let (neg, cs) := match cs with
    | '-' :: r => (true, r)
    | '+' :: r => (false, r)
    | r => (false, r)
  match cs with
  | '0' :: 'x' :: rest =>
    let mant := rest.takeWhile (· != 'p')
    let expo := (rest.dropWhile (· != 'p')).drop 1
    let ip := mant.takeWhile (· != '.')
    let fp := (mant.dropWhile (· != '.')).drop 1
    let digs := ip ++ fp
    if digs.isEmpty || expo.isEmpty then none
    else
      match digs.foldl (fun acc c => match acc, hexDigit c with
          | some a, some d => some (a * 16 + d)
          | _, _ => none) (some 0) with
      | none => none
      | some m =>
        match (String.ofList (expo.filter (· != '+'))).toInt? with
        | none => none
        | some e =>
          let v : Rat := (m : Rat) * pow2 (e - 4 * (fp.length : Int))
          some (if neg then -v else v)
  | _ => none

def absR (r : Rat) : Rat := if r < 0 then -r else r

/-- `<m>p<e>` with |m| < 2^66: r rounded towards zero to 64+ significant bits -/
def fmtRat (r : Rat) : String :=
  if r == 0 then "0p0" else
  let n := r.num.natAbs
  let d := r.den
  let e : Int := (Nat.log2 n : Int) - (Nat.log2 d : Int)
  let shift : Int := 64 - e
  let m : Nat := if shift ≥ 0 then (n * 2 ^ shift.toNat) / d else n / (d * 2 ^ (-shift).toNat)
  (if r < 0 then "-" else "") ++ toString m ++ "p" ++ toString (-shift)

def fmtVT (v t : Rat) : String := fmtRat v ++ "~" ++ fmtRat t

def eps : Rat := pow2 (-24)
def tiny : Rat := pow2 (-140)

/-! ### driver state -/

structure St where
  nz : Nat := 0
  ny : Nat := 0
  nx : Nat := 0
  ns : Int := 1
  ss : Int := 0
  alpha : Rat := 1
  gamma : Rat := 0
  ub : Rat := 0
  priorKind : String := "none"
  beta : Rat := 0
  nvg : Nat := 0
  dones : Bool := false
  subsens : Bool := true
  rand : Bool := false
  filt : Nat := 0
  filtInterval : Int := 0
  postfilt : Nat := 0
  /-- `max_segment_num_to_process`, max segment of the data, `max_timing_pos_num_to_process`, max TOF bin of the data -/
  maxSeg : Int := -1
  dataMaxSeg : Int := 0
  maxTof : Int := -1
  dataMaxTof : Int := 0
  rows : Array Row := #[]
  srows : Array Row := #[]
  wRange : List Int := []
  weights : Array Rat := #[]
  kappa : Option (Array Rat) := none
  problem : Option Problem := none
  hess : Option (Array Rat) := none
  nonIdent : Array Bool := #[]
  -- the run
  start : Int := 1
  numSub : Int := 1
  ep : Bool := false
  denom : Img := []
  stepsDone : Nat := 0
  /-- the object has been through a successful `set_up` (then `denom` is `*precomputed_denominator_ptr`) -/
  everSetUp : Bool := false
  deriving Inhabited

def St.params (s : St) : Params :=
  { numSubsets := s.ns, startSubset := s.ss, numSubiterations := s.numSub, alpha := s.alpha, gamma := s.gamma,
    upperBound := s.ub, enforceInitialPositivity := s.ep, denominatorOnes := s.dones }

def St.build (s : St) : St :=
  match s.problem with
  | some _ => s
  | none =>
    let prior : Option Prior :=
      if s.priorKind == "quad" || s.priorKind == "quaddep" then
        match s.wRange with
        | [a, b, c, d, e, f] =>
          some { beta := s.beta, wMinZ := a, wMaxZ := b, wMinY := c, wMaxY := d, wMinX := e, wMaxX := f,
                 weights := s.weights, kappa := s.kappa, depends := s.priorKind == "quaddep" }
        | _ =>
          -- penalisation factor 0: the weights were never needed
          some { beta := s.beta, wMinZ := 0, wMaxZ := -1, wMinY := 0, wMaxY := -1, wMinX := 0, wMaxX := -1,
                 weights := #[], kappa := s.kappa, depends := s.priorKind == "quaddep" }
      else none
    let q : Problem := { nz := s.nz, ny := s.ny, nx := s.nx, numSubsets := s.ns, rows := s.rows, numViewgrams := s.nvg,
                         prior := prior, priorNotParabolic := s.priorKind == "notparabolic", useSubsetSens := s.subsens,
                         sensRows := if s.srows.isEmpty then none else some s.srows,
                         maxSegToProcess := if s.maxSeg == -1 then none else some s.maxSeg,
                         maxTofToProcess := if s.maxTof == -1 then none else some s.maxTof,
                         dataMaxSeg := s.dataMaxSeg, dataMaxTof := s.dataMaxTof,
                         -- LogcoshPrior::parabolic_surrogate_curvature_depends_on_argument() returns false
                         opaquePrior := if s.priorKind == "logcosh" then some false else none }
    { s with problem := some q, nonIdent := q.nonIdent }

def St.withHess (s : St) : St :=
  match s.hess, s.problem with
  | none, some q => { s with hess := some q.hessOnes }
  | _, _ => s

/-! ### derived forward error bounds (in units of 1; see checks/c08.py for the rule) -/

/-- Σ|terms| of the float evaluation of the penalised sub-gradient, weighted with the operation counts on the path -/
def gradBound (q : Problem) (subset : Int) (x : Array Rat) (g : Array Rat) : Array Rat :=
  let ymax := viewgramMax q (fun r => if r.zeroed then 0 else r.y)
  let absx := x.map absR
  let zeros : Array Rat := Array.replicate q.nvox 0
  let cnt := q.rows.foldl (fun c r => if r.subset != subset || !q.processed r then c else r.elems.foldl (fun c e => c.modify e.1 (· + 1)) c) zeros
  let lik := q.rows.foldl (fun out r =>
    if r.subset != subset || r.zeroed || !q.processed r then out      -- a zeroed bin back projects an exact 0
    else
      let den := r.forward x + r.add
      let mden := r.forward absx + absR r.add
      let quot := divideAndTruncate (smallValueOf ymax r.vg SMALL_NUM) r.y den
      let rel : Rat := if den == 0 then 0 else ((r.elems.length : Nat) + 3 : Nat) * mden / absR den
      let t := absR quot * (rel + 2) + 2 + 2 * absR r.mult
      r.elems.foldl (fun o e => o.modify e.1 (· + e.2 * (t + (cnt.getD e.1 0 + 2) * absR (quot - r.mult)))) out) zeros
  let pm : Array Rat := match q.prior with
    | some pr =>
      if pr.beta == 0 then zeros
      else (pr.neighbourSum q.nz q.ny q.nx x (fun w kk diff => absR w * absR diff * absR kk)).map (· * absR pr.beta)
    | none => zeros
  (Array.range q.nvox).map fun j =>
    4 * eps * (lik.getD j 0 + 4 * pm.getD j 0 / absR (q.numSubsets : Rat) + absR (g.getD j 0)) + tiny

def opCount (q : Problem) : Nat :=
  let maxRow := q.rows.foldl (fun m r => max m r.elems.length) 0
  let cnt := q.rows.foldl (fun c r => r.elems.foldl (fun c e => c.modify e.1 (· + 1)) c) (Array.replicate q.nvox 0)
  maxRow + cnt.foldl max 0 + q.numSubsets.toNat + 8

def parseVec (toks : List String) : Option (List Rat) := toks.mapM parseHex

/-- split the tokens of a line at `|` -/
def sections (toks : List String) : List (List String) :=
  let rec go (cur : List String) (acc : List (List String)) : List String → List (List String)
    | [] => (cur.reverse :: acc).reverse
    | t :: ts => if t == "|" then go [] (cur.reverse :: acc) ts else go (t :: cur) acc ts
  go [] [] toks

def joinVT (vs ts : List Rat) : String := " ".intercalate (List.zipWith fmtVT vs ts)

/-- 12 tokens: origin z y x, min/max index per dimension, spacing z y x -/
def parseChars (toks : List String) : Option Chars :=
  match toks with
  | [oz, oy, ox, a, b, c, d, e, f, sz, sy, sx] =>
    match parseVec [oz, oy, ox], [a, b, c, d, e, f].mapM String.toInt?, parseVec [sz, sy, sx] with
    | some o, some r, some sp => some { origin := o, range := r, spacing := sp }
    | _, _, _ => none
  | _ => none

/-- the taps (c₋₁, c₀, c₁) of the harness' filter kinds: 1 smoothing, 2 sharpening -/
def taps (kind : Nat) : Rat × Rat × Rat :=
  if kind == 1 then (1 / 4, 1 / 2, 1 / 4) else (-1 / 8, 5 / 4, -1 / 8)

def St.filters (s : St) (absolute : Bool) : Filters :=
  let mk (kind : Nat) : Option (Img → Img) :=
    if kind == 0 then none
    else
      let (a, b, c) := taps kind
      some (if absolute then sepConvYX s.ny s.nx (absR a) (absR b) (absR c) else sepConvYX s.ny s.nx a b c)
  { interInterval := s.filtInterval, inter := mk s.filt, post := mk s.postfilt }

def elemPairs : List String → List (Nat × Rat)
  | j :: v :: r => (j.toNat?.getD 0, (parseHex v).getD 0) :: elemPairs r
  | _ => []

/-- `setup` / `resetup`: `set_up(target)` with `precomputed denominator` "" or "1"; `reuse`: on the object as the previous run
    left it (the model is handed the stored denominator of that run) -/
def doSetup (s : St) (reuse : Bool) (st k ep : String) (img : List String) : St × String :=
  let I (t : String) : Int := t.toInt?.getD 0
  let s := s.build
  let s := { s with start := I st, numSub := I k, ep := ep == "1", stepsDone := 0 }
  match s.problem, parseVec img with
  | some q, some x =>
    -- set_up does not evaluate the Hessian when it refuses: only compute it when needed (and only once per problem)
    let old : Option Img := if reuse && s.everSetUp then some s.denom else none
    match setUpObject s.params (q.toObjectiveWith [] s.nonIdent.toList) s.start none old x with
    | none => (s, "err")
    | some _ =>
     let s := if s.dones then s else s.withHess
     let hess := if s.dones then [] else (s.hess.getD #[]).toList
     match setUpObject s.params (q.toObjectiveWith hess s.nonIdent.toList) s.start none old x with
     | none => (s, "err")
     | some (x', dset) =>
      let tx := List.zipWith (fun a b => if a == b then (0 : Rat) else 4 * eps * absR b + tiny) x x'
      let s := { s with denom := dset, everSetUp := true }
      if s.dones then (s, "ok | " ++ joinVT x' tx ++ " | unobserved")
      else
        let n := opCount q
        let td := dset.map (fun d => 4 * eps * (n : Rat) * absR d + tiny)
        (s, "ok | " ++ joinVT x' tx ++ " | " ++ joinVT dset td)
  | _, _ => (s, "bad-setup")

/-- `setupf` / `resetupf`: `set_up(target)` with `precomputed denominator := <file>` -/
def doSetupFile (s : St) (reuse : Bool) (st k ep : String) (rest : List String) : St × String :=
  let I (t : String) : Int := t.toInt?.getD 0
  let s := s.build
  let s := { s with start := I st, numSub := I k, ep := ep == "1", stepsDone := 0 }
  match s.problem, sections rest with
  | some q, [img, tch, fch, dv] =>
    match parseVec img, parseChars tch with
    | some x, some tc =>
      let file : Option DenomFile :=
        if fch == ["missing"] then some .unreadable
        else match parseChars fch, parseVec dv with
          | some fc, some d => some (.image fc d)
          | _, _ => none
      match file with
      | none => (s, "bad-setupf")
      | some file =>
        let old : Option Img := if reuse && s.everSetUp then some s.denom else none
        match setUpObject s.params (q.toObjectiveWith [] s.nonIdent.toList) s.start (some (tc, file)) old x with
        | none => (s, "err")
        | some (x', dset) =>
          let tx := List.zipWith (fun a b => if a == b then (0 : Rat) else 4 * eps * absR b + tiny) x x'
          ({ s with denom := dset, everSetUp := true }, "ok | " ++ joinVT x' tx ++ " | unobserved")
    | _, _ => (s, "bad-setupf")
  | _, _ => (s, "bad-setupf")

def stepLine (s : St) (line : String) : St × String :=
  let toks := (line.trimAscii.toString.splitOn " ").filter (· ≠ "")
  let I (t : String) : Int := t.toInt?.getD 0
  let N (t : String) : Nat := t.toNat?.getD 0
  let R (t : String) : Rat := (parseHex t).getD 0
  match toks with
  | "cfg" :: _ :: "dims" :: nz :: ny :: nx :: "ns" :: ns :: "ss" :: ss :: "alpha" :: al :: "gamma" :: ga :: "ub" :: ub
      :: "prior" :: pk :: "beta" :: be :: "kappa" :: _ :: "add" :: _ :: "nvg" :: nvg :: "dones" :: dones
      :: "norm" :: _ :: "tof" :: _ :: "tofsens" :: _ :: "zero" :: _ :: "subsens" :: subsens :: "rand" :: rnd
      :: "filt" :: fk :: fi :: pf :: "segs" :: ms :: dms :: mt :: dmt :: _ =>
    ({ nz := N nz, ny := N ny, nx := N nx, ns := I ns, ss := I ss, alpha := R al, gamma := R ga, ub := R ub,
       priorKind := pk, beta := R be, nvg := N nvg, dones := dones == "1", subsens := subsens == "1", rand := rnd == "1",
       filt := N fk, filtInterval := I fi, postfilt := N pf,
       maxSeg := I ms, dataMaxSeg := I dms, maxTof := I mt, dataMaxTof := I dmt }, "ok")
  -- the SAME reconstruction object is configured anew (data, normalisation, prior, subsets, relaxation … changed by the
  -- user): a new problem, but the object keeps `*precomputed_denominator_ptr` as the previous run left it
  | "recfg" :: _ :: "dims" :: nz :: ny :: nx :: "ns" :: ns :: "ss" :: ss :: "alpha" :: al :: "gamma" :: ga :: "ub" :: ub
      :: "prior" :: pk :: "beta" :: be :: "kappa" :: _ :: "add" :: _ :: "nvg" :: nvg :: "dones" :: dones
      :: "norm" :: _ :: "tof" :: _ :: "tofsens" :: _ :: "zero" :: _ :: "subsens" :: subsens :: "rand" :: rnd
      :: "filt" :: fk :: fi :: pf :: "segs" :: ms :: dms :: mt :: dmt :: _ =>
    ({ nz := N nz, ny := N ny, nx := N nx, ns := I ns, ss := I ss, alpha := R al, gamma := R ga, ub := R ub,
       priorKind := pk, beta := R be, nvg := N nvg, dones := dones == "1", subsens := subsens == "1", rand := rnd == "1",
       filt := N fk, filtInterval := I fi, postfilt := N pf,
       maxSeg := I ms, dataMaxSeg := I dms, maxTof := I mt, dataMaxTof := I dmt,
       denom := s.denom, everSetUp := s.everSetUp }, "ok")
  -- a parameter file that does not mention `relaxation parameter`, `relaxation gamma`, `upper bound`, `enforce initial
  -- positivity condition`: the run uses what `set_defaults` left (the model's `Params.default`), whatever the cfg line said
  -- (the harness passes the parsed `enforce_initial_positivity`, which this line's answer pins to the default, in `setup`)
  | ["pardefaults"] =>
    let d := Params.default
    ({ s with alpha := d.alpha, gamma := d.gamma, ub := d.upperBound },
     s!"{if d.enforceInitialPositivity then 1 else 0} {fmtVT d.upperBound 0} {fmtVT d.alpha 0} {fmtVT d.gamma 0}")
  | ["defaults"] =>
    let d := Params.default
    (s, s!"{if d.enforceInitialPositivity then 1 else 0} {fmtVT d.upperBound 0} {fmtVT d.alpha 0} {fmtVT d.gamma 0} {d.numSubsets} {d.startSubset} {d.numSubiterations} 1 {if d.denominatorOnes then "given" else "computed"}")
  | "weights" :: a :: b :: c :: d :: e :: f :: "|" :: ws =>
    ({ s with wRange := [I a, I b, I c, I d, I e, I f], weights := (ws.map R).toArray }, "ok")
  | "kappa" :: "|" :: ks => ({ s with kappa := some (ks.map R).toArray }, "ok")
  | "row" :: vg :: sub :: seg :: tof :: y :: a :: nf :: z :: _ :: rest =>
    ({ s with rows := s.rows.push { vg := N vg, subset := I sub, y := R y, add := R a, elems := elemPairs rest, norm := R nf,
                                    zeroed := z == "1", seg := I seg, tof := I tof } }, "ok")
  | "srow" :: sub :: seg :: nf :: z :: _ :: rest =>
    ({ s with srows := s.srows.push { vg := 0, subset := I sub, y := 0, add := 0, elems := elemPairs rest, norm := R nf,
                                      zeroed := z == "1", seg := I seg, tof := 0 } }, "ok")
  | ["sens0"] =>
    let s := s.build
    (s, String.ofList (s.nonIdent.toList.map fun b => if b then '1' else '0'))
  | "setup" :: st :: k :: ep :: "|" :: img => doSetup s false st k ep img
  | "setupf" :: st :: k :: ep :: "|" :: rest => doSetupFile s false st k ep rest
  -- `set_up` on the object that has been set up and run before
  | "resetup" :: st :: k :: ep :: "|" :: img => doSetup s true st k ep img
  | "resetupf" :: st :: k :: ep :: "|" :: rest => doSetupFile s true st k ep rest
  | "d0sync" :: "|" :: d =>
    match parseVec d with
    | some dv => ({ s with denom := dv }, "ok")
    | none => (s, "bad-d0")
  | "grad" :: sub :: "|" :: xs =>
    match s.problem, parseVec xs with
    | some q, some x =>
      let xa := x.toArray
      let g := q.grad (I sub) xa
      (s, joinVT g.toList (gradBound q (I sub) xa g).toList)
    | _, _ => (s, "bad-grad")
  | "curv" :: "|" :: xs =>
    match s.problem, parseVec xs with
    | some q, some x =>
      let c := (q.curv x.toArray).toList
      (s, joinVT c (c.map fun v => 4 * eps * 90 * absR v + tiny))
    | _, _ => (s, "bad-curv")
  | "step" :: k :: "|" :: rest =>
    let secs := sections rest
    let (secs, givenSubset) : List (List String) × Option Int := match secs with
      | [bs, gs, cs, [sub]] => ([bs, gs, cs], sub.toInt?)
      | other => (other, none)
    match s.problem, secs with
    | some q, [bs, gs, cs] =>
      match parseVec bs, parseVec gs with
      | some before, some g =>
        let curvData : Option Img := if cs == ["-"] then none else parseVec cs
        let base := q.toObjectiveWith [] s.nonIdent.toList
        -- the objective function's answers are DATA here (what the real objects returned inside update_estimate)
        let obj : Objective := { base with grad := fun _ _ => g, curv := fun _ => curvData.getD [] }
        let st : State := ⟨before, s.denom, I k⟩
        let first := st.k == s.start
        let needCurv := (recomputePenalty obj || first) && !obj.priorIsZero
        if needCurv && curvData.isNone then (s, "curvature-needed-but-not-requested")
        else
          let st' := updateEstimate s.params obj s.start st
          -- bound: |λ| + |u| with u the additive update before clamping
          let x := currentImage obj before
          let D := denomUsed obj first x s.denom
          let zeta := relaxation s.alpha s.gamma st.k s.ns
          let u := List.zipWith (fun gj dj => gj * (s.ns : Rat) / dj * zeta) g D
          let tol := List.zipWith (fun xj uj => 32 * eps * (absR xj + absR uj) + tiny) x u
          ({ s with denom := st'.denom, stepsDone := s.stepsDone + 1 },
           -- randomised subset order: the subset is the implementation's choice (the gradient arrives as data anyway)
           toString (if s.rand then givenSubset.getD (-1) else subsetNum st.k s.ss s.ns) ++ " | " ++ joinVT st'.image tol)
      | _, _ => (s, "bad-step")
    | _, _ => (s, "bad-step")
  | "endit" :: k :: "|" :: img =>
    match parseVec img with
    | some x =>
      let out := endOfIteration (s.filters false) s.numSub (I k) x
      -- Σ|terms| of the two passes (3 multiplications, 2 additions each): |taps| applied to |image|
      let mag := endOfIteration (s.filters true) s.numSub (I k) (x.map absR)
      let tol := List.zipWith (fun a m => if out == x then (0 : Rat) else 64 * eps * m + tiny + 0 * a) out mag
      (s, joinVT out tol)
    | none => (s, "bad-endit")
  | ["rerun", st, k] => ({ s with start := I st, numSub := I k, stepsDone := 0 }, "ok")
  | ["endrun"] => (s, toString (s.numSub - s.start + 1).toNat)
  | _ => (s, "bad-op")

partial def loop (h : IO.FS.Stream) (s : St) : IO Unit := do
  let line ← h.getLine
  if line.isEmpty then return ()
  let (s', out) := stepLine s line
  IO.println out
  loop h s'

def main : IO Unit := do loop (← IO.getStdin) {}
end Driver.C08
