import StirVerif.C13.Model
import Std.Data.HashMap
/-! Line-protocol driver for C13 (implementation side: harness/c13_binnorm.cxx).

The model (`StirVerif.C13`) is executed at `K = Rat`: every `float` printed by the harness (`%a`) is parsed exactly.
`exp` (the model's parameter `E`) is `Float.exp` evaluated at the binary64 value nearest to the exact exponent.
Every numeric answer is printed as `value@rel`: the exact model value and the relative forward-error bound for the
`float` computation of the implementation (`rel = 4·k·2⁻²⁴` for `k` float roundings on the path; for the attenuation
class `k` covers the `n`-term forward projection, `rel = 16·((n+3)·M + 1)·2⁻²⁴` with `M = Σ|a_bj μ̃_j|`).

Objects with a history (`hist <id> …`) are kept across `cfg` lines as the state machines `CompObj` / `CalibObj` of the model;
the query operations address them by the same id.  `acf …` evaluates `acfBox` at `K = Float` (binary64 `sqrt`, `exp`):
the answer carries the relative bound `2·10⁻⁴` (the ray tracing works on `float` coordinates; observed ≤ 2·10⁻⁵). -/
namespace Driver.C13
open StirVerif.C13

/-! ### exact parsing of C99 hex floats -/

def hexVal (c : Char) : Option Nat :=
  if '0' ≤ c ∧ c ≤ '9' then some (c.toNat - '0'.toNat)
  else if 'a' ≤ c ∧ c ≤ 'f' then some (c.toNat - 'a'.toNat + 10)
  else if 'A' ≤ c ∧ c ≤ 'F' then some (c.toNat - 'A'.toNat + 10)
  else none

def pow2 (e : Int) : Rat := if e ≥ 0 then ((2 ^ e.toNat : Nat) : Rat) else 1 / ((2 ^ (-e).toNat : Nat) : Rat)

/-- `[-]0x<hex>[.<hex>]p<±dec>` → exact rational; `none` for `inf`, `nan`, garbage -/
def parseHex (s : String) : Option Rat := do
  let cs := s.toList
  let (neg, cs) := match cs with
    | '-' :: r => (true, r)
    | '+' :: r => (false, r)
    | r => (false, r)
  let cs ← match cs with
    | '0' :: 'x' :: r => some r
    | '0' :: 'X' :: r => some r
    | _ => none
  -- mantissa
  let rec mant (cs : List Char) (acc : Nat) (frac : Nat) (seenDot : Bool) (any : Bool) : Option (Nat × Nat × List Char) :=
    match cs with
    | [] => none
    | 'p' :: r => if any then some (acc, frac, r) else none
    | 'P' :: r => if any then some (acc, frac, r) else none
    | '.' :: r => if seenDot then none else mant r acc frac true any
    | c :: r =>
      match hexVal c with
      | some d => mant r (acc * 16 + d) (if seenDot then frac + 1 else frac) seenDot true
      | none => none
  let (m, frac, rest) ← mant cs 0 0 false false
  let e ← match rest with
    | '+' :: r => (String.ofList r).toInt?
    | r => (String.ofList r).toInt?
  let q : Rat := (m : Rat) * pow2 (e - 4 * (frac : Int))
  some (if neg then -q else q)

/-! ### `exp` on rationals through binary64 -/

def ratToFloat (q : Rat) : Float := Float.ofInt q.num / Float.ofNat q.den

/-- exact value of a finite non-negative binary64 -/
def floatToRat (x : Float) : Rat :=
  if x == 0 then 0
  else
    let neg := x < 0
    let (m, e) := (if neg then -x else x).frExp
    let mi : Nat := (m.scaleB 53).toUInt64.toNat
    let q : Rat := (mi : Rat) * pow2 (e - 53)
    if neg then -q else q

def expQ (x : Rat) : Rat := floatToRat (Float.exp (ratToFloat x))

/-- `1.E-20F` -/
def floorF : Rat := (parseHex "0x1.79ca1p-67").getD 0
/-- `.0001` (a `double`) -/
def tolD : Rat := (parseHex "0x1.a36e2eb1c432dp-14").getD 0

/-! ### state -/

abbrev Tab := Std.HashMap Bin Rat
abbrev RowTab := Std.HashMap Bin (List (Rat × Rat))

/-- an object that lives through several `cfg` blocks (histories on ONE object): the state machines of the model -/
inductive Obj where
  | comp (o : CompObj Rat)
  /-- a calibrated table: the state and the name of the table holding the uncalibrated efficiencies (read at every query) -/
  | calib (o : CalibObj Rat) (u : Bin → Rat)
  /-- a `BinNormalisationFromProjData` object through constructors / `parse` / `set_up` -/
  | fpd (o : FpdObj Rat)
  /-- a `BinNormalisationFromAttenuationImage` object (images are named by the harness) and the error bound of the last `set_up` -/
  | atten (o : AttenObj String Rat) (rel : Bin → Rat)
  /-- a `ChainedBinNormalisation` object; the members are named, the names are resolved in the current `cfg` block -/
  | chain (o : ChainObj String)

structure St where
  tabs : Std.HashMap String Tab := {}
  rows : Std.HashMap String RowTab := {}
  norms : Std.HashMap String (Norm Rat) := {}
  /-- survives `cfg` -/
  objs : Std.HashMap String Obj := {}

def St.tab (s : St) (name : String) : Bin → Rat :=
  let t := (s.tabs.get? name).getD {}
  fun b => (t.get? b).getD 0

def St.rowTab (s : St) (name : String) : Bin → List (Rat × Rat) :=
  let t := (s.rows.get? name).getD {}
  fun b => (t.get? b).getD []

/-! ### forward-error bounds (number of float roundings on the implementation's path) -/

def u24 : Rat := pow2 (-24)
def qabs (q : Rat) : Rat := if q < 0 then -q else q

/-- relative bound contributed by `undo`/`apply` of one object on one bin -/
def relBound : Norm Rat → Bin → Rat
  | .null, _ => 0
  | .trivial, _ => 0
  | .table _, _ => 4 * u24
  | .calib _ _ _, _ => 12 * u24
  | .fromProjData _ _, _ => 4 * u24
  | .fromAtten vx row, b =>
    let r := row b
    let M := r.foldl (fun acc p => acc + qabs (p.1 * (p.2 * attenRescale vx))) 0
    16 * (((r.length + 3 : Nat) : Rat) * M + 1) * u24
  | .fromComponents _, _ => 20 * u24
  | .chained n1 n2, b => relBound n1 b + relBound n2 b + 4 * u24

def fmt (n : Norm Rat) (b : Bin) : Option Rat → String
  | none => "nonfinite"
  | some q => s!"{q}@{relBound n b}"

/-- what the query operations (`triv`, `eff`, `undo`, `apply`) need from an object -/
structure View where
  triv : Option Bool
  reported : Bin → Option Rat
  undo : Bin → Rat → Option Rat
  apply : Bin → Rat → Option Rat
  rel : Bin → Rat

def viewOfNorm (n : Norm Rat) : View :=
  { triv := some (isTrivial tolD n), reported := reported n, undo := undo expQ n, apply := apply expQ floorF n, rel := relBound n }

def viewOfObj (norms : Std.HashMap String (Norm Rat)) : Obj → View
  | .comp o => { triv := o.isTrivial, reported := o.reported, undo := o.undo, apply := o.apply, rel := fun _ => 20 * u24 }
  | .calib o u => { triv := some false, reported := o.reported u, undo := o.undo u, apply := o.apply floorF u, rel := fun _ => 12 * u24 }
  | .fpd o => { triv := some false, reported := fun _ => none, undo := o.undo expQ, apply := o.apply expQ floorF, rel := fun _ => 4 * u24 }
  | .atten o rel => { triv := some false, reported := fun _ => none, undo := o.undo expQ, apply := o.apply expQ, rel := rel }
  | .chain o =>
    let n := o.norm fun m => (norms.get? m).getD .null
    if o.membersSetUp then viewOfNorm n
    else { triv := some false, reported := fun _ => none, undo := fun _ _ => none, apply := fun _ _ => none, rel := fun _ => 0 }

/-! ### the analytic attenuation expectation in binary64 (`acfBox` at `K = Float`) -/

def acfBoxF (mu px py pz qx qy qz x0 x1 y0 y1 : Rat) : Rat :=
  let F := ratToFloat
  let len := Float.sqrt ((F qx - F px) * (F qx - F px) + (F qy - F py) * (F qy - F py) + (F qz - F pz) * (F qz - F pz))
  floatToRat (acfBox Float.exp (F mu) len (F px) (F py) (F qx) (F qy) (F x0) (F x1) (F y0) (F y1))

/-! ### operations -/

/-- prefix expression for a set-up state: `N` | `T su ge` | `B su ge` | `C su ge <expr> <expr>` -/
def parseUse : Nat → List String → Option (UseTree × List String)
  | 0, _ => none
  | _ + 1, "N" :: r => some (.null, r)
  | _ + 1, "T" :: su :: ge :: r => some (.noCheck (su == "1") (ge == "1"), r)
  | _ + 1, "B" :: su :: ge :: r => some (.checked (su == "1") (ge == "1"), r)
  | fuel + 1, "C" :: su :: ge :: r =>
    match parseUse fuel r with
    | some (f, r1) =>
      match parseUse fuel r1 with
      | some (g, r2) => some (.chain (su == "1") (ge == "1") f g, r2)
      | none => none
    | none => none
  | _ + 1, _ => none

def stepLine (s : St) (line : String) : St × String :=
  let toks := (line.trimAscii.toString.splitOn " ").filter (· ≠ "")
  let I (t : String) : Int := t.toInt?.getD 0
  let Q (t : String) : Rat := (parseHex t).getD 0
  let B (t : String) : Bool := t == "1"
  -- a plain object of this `cfg` block, or an object with a history
  let view? (id : String) : Option View :=
    match s.norms.get? id with
    | some n => some (viewOfNorm n)
    | none => (s.objs.get? id).map (viewOfObj s.norms)
  -- the two members of a chain: a plain chain of this `cfg` block, or a chain object with a history (members resolved here)
  let chain? (id : String) : Option (Norm Rat × Norm Rat) :=
    match s.norms.get? id with
    | some (.chained n1 n2) => some (n1, n2)
    | some _ => none
    | none =>
      match s.objs.get? id with
      | some (.chain o) =>
        match o.norm (K := Rat) fun m => (s.norms.get? m).getD .null with
        | .chained n1 n2 => some (n1, n2)
        | _ => none
      | _ => none
  match toks with
  | "cfg" :: _ => ({ objs := s.objs }, "ok")
  | "tab" :: name :: seg :: view :: ax :: tof :: tmin :: vals =>
    let t0 := (s.tabs.get? name).getD {}
    let (t1, _) := vals.foldl (fun (acc : Tab × Int) v =>
      (acc.1.insert ⟨I seg, I view, I ax, acc.2, I tof⟩ (Q v), acc.2 + 1)) (t0, I tmin)
    ({ s with tabs := s.tabs.insert name t1 }, "ok")
  | "row" :: name :: seg :: view :: ax :: tang :: vals =>
    let rec pairs : List String → List (Rat × Rat)
      | a :: m :: r => (Q a, Q m) :: pairs r
      | _ => []
    let t0 := (s.rows.get? name).getD {}
    ({ s with rows := s.rows.insert name (t0.insert ⟨I seg, I view, I ax, I tang, 0⟩ (pairs vals)) }, "ok")
  | "hist" :: id :: rest =>
    let opt (t : String) : Option (Bin → Rat) := if t == "-" then none else some (s.tab t)
    let put (o : Obj) : St × String := ({ s with objs := s.objs.insert id o }, "ok")
    match rest, s.objs.get? id with
    | ["new"], _ => put (.comp CompObj.new)
    | ["allocate"], some (.comp o) => put (.comp o.allocate)
    | ["setup", "comp", fan, ea, eb, geo, blk, emin, emax, gmin, gmax, bmin, bmax], some (.comp o) =>
      let fanT := s.tab fan
      let c : Components Rat :=
        { inFan := fun b => fanT b != 0
          eff := match opt ea, opt eb with
            | some x, some y => some (x, y)
            | _, _ => none
          geo := opt geo, block := opt blk
          effRange := (Q emin, Q emax), geoRange := (Q gmin, Q gmax), blockRange := (Q bmin, Q bmax) }
      match o.setUp tolD c with
      | some o' => put (.comp o')
      | none => (s, "err")
    | ["newcalib"], _ => put (.calib CalibObj.new fun _ => 0)
    | ["setcal", c], some (.calib o u) => put (.calib (o.setCalibration (Q c)) u)
    | ["setbr", br], some (.calib o u) => put (.calib (o.setRadionuclide (Q br)) u)
    | ["setup", "calib", t], some (.calib o _) => put (.calib o.setUp (s.tab t))
    | ["usable"], some o =>
      -- do `apply`/`undo` get past `check()` (the set-up state only)?
      (s, if (match o with
              | .calib c _ => c.setUpDone
              | .comp c => c.setUpDone
              | .fpd c => c.setUpDone && c.factors.isSome
              | .atten c _ => c.setUpDone
              | .chain c => c.membersSetUp) then "ok" else "err")
    -- ---- one object through constructors / parse / set_up
    | ["newfpd"], _ => put (.fpd FpdObj.new)
    | ["ctorfpd", t, tof], _ => put (.fpd (FpdObj.ofData (s.tab t) (B tof)))
    | ["parse", "fpd", t, tof], some (.fpd o) =>
      (match o.parse (if t == "-" then none else some (s.tab t, B tof)) with
       | some o' => put (.fpd o')
       | none => (s, "err"))
    | ["setup", "fpd", nm, dm, a1, a2, a3, a4, a5, c1, c2, c3, c4, c5], some (.fpd o) =>
      (match o.setUp (fromProjDataSetUpTof (I nm) (I dm) ⟨B a1, B a2, B a3, B a4, B a5⟩ ⟨B c1, B c2, B c3, B c4, B c5⟩) with
       | some (o', acc) => ({ s with objs := s.objs.insert id (.fpd o') }, if acc then "ok" else "fail")
       | none => (s, "err"))
    | ["newatten"], _ => put (.atten AttenObj.new fun _ => 0)
    | ["ctoratten", how, img], _ =>
      (match (if how == "file" then AttenObj.ofFile img else AttenObj.ofImage img : Option (AttenObj String Rat)) with
       | some o => put (.atten o fun _ => 0)
       | none => (s, "err"))
    | ["parse", "atten", img], some (.atten o rel) =>
      (match o.postProcessing (if img == "-" then none else some img) with
       | some o' => put (.atten o' rel)
       | none => (s, "err"))
    | "setup" :: "atten" :: _ntof :: mash :: imgs, some (.atten o _) =>
      -- imgs: triples <image name> <x voxel size> <row table>
      let rec triples : List String → List (String × Rat × String)
        | n :: vx :: r :: rest => (n, Q vx, r) :: triples rest
        | _ => []
      let tr := triples imgs
      let images (n : String) : Rat × (Bin → List (Rat × Rat)) :=
        match tr.find? (·.1 == n) with
        | some (_, vx, r) => (vx, s.rowTab r)
        | none => (0, fun _ => [])
      (match o.setUp (I mash) images with
       | some o' =>
         let rel : Bin → Rat :=
           match o'.img with
           | some (n, k) => fun b =>
             let (vx, rows) := images n
             let r := rows b
             let M := r.foldl (fun acc p => acc + qabs (p.1 * rescaled vx k p.2)) 0
             16 * (((r.length + 3 : Nat) : Rat) * M + 1) * u24
           | none => fun _ => 0
         put (.atten o' rel)
       | none => (s, "err"))
    | ["newchain"], _ => put (.chain ChainObj.new)
    | ["parse", "chain", a, b, c1, c2], some (.chain o) =>
      let mem (t : String) : MemberKey String := if t == "-" then none else if t == "null" then some none else some (some t)
      (match o.parse (mem a) (mem b) (chainCtorOk (Q c1) (Q c2)) with
       | some o' => put (.chain o')
       | none => (s, "err"))
    | ["setup", "chain"], some (.chain o) => put (.chain o.setUp)
    | _, _ => (s, "bad-op")
  | ["acf", mu, x0, x1, y0, y1, px, py, pz, qx, qy, qz] =>
    (s, s!"{acfBoxF (Q mu) (Q px) (Q py) (Q pz) (Q qx) (Q qy) (Q qz) (Q x0) (Q x1) (Q y0) (Q y1)}@{(1 : Rat) / 5000}")
  | "norm" :: id :: rest =>
    let opt (t : String) : Option (Bin → Rat) := if t == "-" then none else some (s.tab t)
    let nrm (t : String) : Norm Rat := if t == "null" then .null else (s.norms.get? t).getD .null
    let n? : Option (Norm Rat) :=
      match rest with
      | ["trivial"] => some .trivial
      | ["table", t] => some (.table (s.tab t))
      | ["calib", t, c, br] => some (.calib (s.tab t) (Q c) (Q br))
      | ["fpd", t, tof] => some (.fromProjData (s.tab t) (B tof))
      | ["atten", vx, t] => some (.fromAtten (Q vx) (s.rowTab t))
      | ["comp", fan, ea, eb, geo, blk, emin, emax, gmin, gmax, bmin, bmax] =>
        let fanT := s.tab fan
        some (.fromComponents
          { inFan := fun b => fanT b != 0
            eff := match opt ea, opt eb with
              | some x, some y => some (x, y)
              | _, _ => none
            geo := opt geo, block := opt blk
            effRange := (Q emin, Q emax), geoRange := (Q gmin, Q gmax), blockRange := (Q bmin, Q bmax) })
      | ["chain", a, b] => some (.chained (nrm a) (nrm b))
      | _ => none
    match n? with
    | some n => ({ s with norms := s.norms.insert id n }, "ok")
    | none => (s, "bad-op")
  | ["triv", id] =>
    match view? id with
    | some n => (s, match n.triv with | some true => "1" | some false => "0" | none => "err")
    | none => (s, "bad-op")
  | ["eff", id, seg, view, ax, tof, tmin, cnt] =>
    match view? id with
    | some n =>
      let out := (List.range (cnt.toNat?.getD 0)).map fun (k : Nat) =>
        let b : Bin := ⟨I seg, I view, I ax, I tmin + (k : Int), I tof⟩
        match n.reported b with
        | none => "none"
        | some q => s!"{q}@{n.rel b}"
      (s, " ".intercalate out)
    | none => (s, "bad-op")
  | ["setup", "fpd", eq, ge, tmn, tmx, axeq] =>
    (s, if fromProjDataSetUp (B eq) (B ge) (B tmn) (B tmx) (B axeq) then "ok" else "fail")
  | ["use", su, ge] => (s, if checkUse (B su) (B ge) then "ok" else "err")
  | "use2" :: "rv" :: e =>
    match parseUse 64 e with
    | some (t, []) => (s, if useRV t then "ok" else "err")
    | _ => (s, "bad-op")
  | "use2" :: "whole" :: ex :: e =>
    match parseUse 64 e with
    | some (t, []) => (s, if useWhole (B ex) t then "ok" else "err")
    | _ => (s, "bad-op")
  | ["setup", "fpdtof", nm, dm, a1, a2, a3, a4, a5, c1, c2, c3, c4, c5] =>
    (s, if fromProjDataSetUpTof (I nm) (I dm) ⟨B a1, B a2, B a3, B a4, B a5⟩ ⟨B c1, B c2, B c3, B c4, B c5⟩ then "ok" else "fail")
  | ["tofonly", "fpd", n] => (s, if fromProjDataIsTofOnly (I n) then "1" else "0")
  -- (number of TOF positions and TOF mashing factor of the data; `set_up` looks at the mashing factor: `is_tof_data()`)
  | ["setup", "atten", _ntof, mash] => (s, if fromAttenSetUp (I mash) then "ok" else "err")
  | ["setup", "comp", tof, mash, span] => (s, if componentsSetUp (B tof) (B mash) (B span) then "ok" else "err")
  | [op, id] =>
    if op == "triv1" || op == "triv2" then
      match chain? id with
      | some (n1, n2) =>
        match (if op == "triv1" then isFirstTrivial tolD n1 n2 else isSecondTrivial tolD n1 n2) with
        | some true => (s, "1")
        | some false => (s, "0")
        | none => (s, "err")
      | _ => (s, "bad-op")
    else (s, "bad-op")
  | ["chainctor", c1, c2] => (s, if chainCtorOk (Q c1) (Q c2) then "ok" else "err")
  | op :: id :: _route :: seg :: view :: ax :: tof :: tmin :: vals =>
    if op == "apply1" || op == "apply2" || op == "undo1" || op == "undo2" then
      match chain? id with
      | some (n1, n2) =>
        let m := if op == "apply1" || op == "undo1" then n1 else n2
        let (out, _) := vals.foldl (fun (acc : List String × Int) v =>
          let b : Bin := ⟨I seg, I view, I ax, acc.2, I tof⟩
          let r := match parseHex v with
            | none => none
            | some x =>
              if op == "apply1" then applyOnlyFirst expQ floorF n1 n2 b x
              else if op == "apply2" then applyOnlySecond expQ floorF n1 n2 b x
              else if op == "undo1" then undoOnlyFirst expQ n1 n2 b x
              else undoOnlySecond expQ n1 n2 b x
          (fmt m b r :: acc.1, acc.2 + 1)) ([], I tmin)
        (s, " ".intercalate out.reverse)
      | _ => (s, "bad-op")
    else if op == "apply" || op == "undo" then
      match view? id with
      | some n =>
        let (out, _) := vals.foldl (fun (acc : List String × Int) v =>
          let b : Bin := ⟨I seg, I view, I ax, acc.2, I tof⟩
          let r := match parseHex v with
            | none => none
            | some x => if op == "apply" then n.apply b x else n.undo b x
          ((match r with | none => "nonfinite" | some q => s!"{q}@{n.rel b}") :: acc.1, acc.2 + 1)) ([], I tmin)
        (s, " ".intercalate out.reverse)
      | none => (s, "bad-op")
    else (s, "bad-op")
  | _ => (s, "bad-op")

partial def loop (h : IO.FS.Stream) (s : St) : IO Unit := do
  let line ← h.getLine
  if line.isEmpty then return ()
  let (s', out) := stepLine s line
  IO.println out
  loop h s'

def main : IO Unit := do loop (← IO.getStdin) {}
end Driver.C13
