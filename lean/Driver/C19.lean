import StirVerif.C19.Model
/-! Line-protocol driver for C19 (implementation side: harness/c19_fourier_filters.cxx).

Answers: integer-valued results in decimal (exact); `Float` results as the decimal value of their IEEE-754 bit
pattern (`Float.toBits`), decoded and compared within the derived bound by `checks/c19.py`. -/
namespace Driver.C19
open StirVerif.C19

/-! ### parsing -/

def hexDigit (c : Char) : Nat :=
  if '0' ≤ c && c ≤ '9' then c.toNat - '0'.toNat
  else if 'a' ≤ c && c ≤ 'f' then c.toNat - 'a'.toNat + 10
  else if 'A' ≤ c && c ≤ 'F' then c.toNat - 'A'.toNat + 10 else 0

/-- decimal integer or C99 hex float (`%a`), exactly -/
def parseNum (s : String) : Float :=
  let (neg, body) := if s.startsWith "-" then (true, (s.drop 1).toString) else (false, s)
  let v : Float :=
    if body.startsWith "0x" || body.startsWith "0X" then
      let rest := (body.drop 2).toString
      match rest.splitOn "p" with
      | [mant, ex] =>
        let (ip, fp) := match mant.splitOn "." with
          | [a, b] => (a, b)
          | [a] => (a, "")
          | _ => ("0", "")
        let m : Nat := (ip ++ fp).foldl (fun acc c => acc * 16 + hexDigit c) 0
        let e : Int := (if ex.startsWith "+" then (ex.drop 1).toString else ex).toInt?.getD 0
        (Float.ofNat m).scaleB (e - 4 * fp.length)
      | _ => 0
    else Float.ofInt (body.toInt?.getD 0)
  if neg then -v else v

def I (s : String) : Int := s.toInt?.getD 0
def N (s : String) : Nat := s.toNat?.getD 0

def bitsF (f : Float) : String := toString f.toBits
def bitsC (c : Cplx) : String := bitsF c.re ++ " " ++ bitsF c.im
def join (l : List String) : String := " ".intercalate l

/-- cursor over the tokens of one line -/
structure Cur where
  toks : Array String
  pos : Nat

def Cur.peek (c : Cur) : String := c.toks.getD c.pos ""
def Cur.skip (c : Cur) (n : Nat := 1) : Cur := { c with pos := c.pos + n }
def Cur.int (c : Cur) : Int × Cur := (I c.peek, c.skip)
def Cur.ints (c : Cur) (n : Nat) : Array Int × Cur :=
  ((Array.ofFn (n := n) fun i => I (c.toks.getD (c.pos + i.val) "")), c.skip n)
def Cur.box (c : Cur) (d : Nat) : List R × Cur :=
  ((List.range d).map fun q => (⟨I (c.toks.getD (c.pos + 2 * q) ""), I (c.toks.getD (c.pos + 2 * q + 1) "")⟩ : R), c.skip (2 * d))

def boxSize (b : List R) : Nat := prodNat (sizesOf b)

/-- an integer array with index box: accessor with unspecified (0) value outside -/
structure IArr where
  box : List R
  v : Array Int

def IArr.get (a : IArr) (idx : List Int) : Int :=
  if (a.box.zip idx).all (fun (p : R × Int) => p.1.mem p.2) then
    a.v.getD (flatIdx (sizesOf a.box) ((a.box.zip idx).map fun (p : R × Int) => (p.2 - p.1.lo).toNat)) 0
  else 0

def Cur.iarr (c : Cur) (d : Nat) : IArr × Cur :=
  let (b, c) := c.box d
  let (v, c) := c.ints (boxSize b)
  (⟨b, v⟩, c)

def r0 (b : List R) (q : Nat) : R := b.getD q ⟨0, -1⟩

/-! ### Fourier ops -/

def parseDims (c : Cur) : List Nat × Cur :=
  let d := N c.peek
  let c := c.skip
  ((List.range d).map fun q => N (c.toks.getD (c.pos + q) ""), c.skip d)

def Cur.cplx (c : Cur) (n : Nat) : Array Cplx × Cur :=
  ((Array.ofFn (n := n) fun i => (⟨parseNum (c.toks.getD (c.pos + 2 * i.val) ""), parseNum (c.toks.getD (c.pos + 2 * i.val + 1) "")⟩ : Cplx)), c.skip (2 * n))
def Cur.floats (c : Cur) (n : Nat) : Array Float × Cur :=
  ((Array.ofFn (n := n) fun i => parseNum (c.toks.getD (c.pos + i.val) "")), c.skip n)

/-- frequencies at which the definition of the DFT is evaluated: all if there are at most 64, else 24 spread ones -/
def sampleIdx (n : Nat) : List Nat :=
  if n ≤ 64 then List.range n
  else ([0, 1, n / 2, n / 2 + 1, n - 1] ++ (List.range 19).map fun t => (t * 2654435761 + 40503) % n).eraseDups

/-- multi-index of a row-major position -/
def unflat (dims : List Nat) (f : Nat) : List Nat :=
  (dims.foldr (fun n (acc : List Nat × Nat) => ((acc.2 % n) :: acc.1, acc.2 / n)) ([], f)).1

def fmtSamples (l : List (Nat × Cplx)) : String := join (l.map fun p => toString p.1 ++ " " ++ bitsC p.2)

def opFft (inverse : Bool) (c : Cur) : String :=
  let (dims, c) := parseDims c
  let (sign, c) := c.int
  let n := prodNat dims
  let (x, _) := c.cplx n
  let res := if inverse then inverseFourierND (expArray (-sign)) dims x else fourierND (expArray sign) dims x
  match res with
  | none => "err"
  | some y =>
    let s := if inverse then -sign else sign
    let sc : Float := if inverse then 1 / n.toFloat else 1
    let spec := (sampleIdx n).map fun f => (f, Cplx.scale sc (dftSpecND s dims x (unflat dims f)))
    join (y.toList.map bitsC) ++ " | " ++ fmtSamples spec

def halfDims (dims : List Nat) : List Nat := dims.dropLast ++ [dims.getLastD 0 / 2 + 1]

def opRfft (c : Cur) : String :=
  let (dims, c) := parseDims c
  let (sign, c) := c.int
  let n := prodNat dims
  let (v, _) := c.floats n
  match fourierRealDataND sign dims v with
  | none => "err"
  | some y =>
    let hd := halfDims dims
    let xc : Array Cplx := v.map fun r => ⟨r, 0⟩
    let spec := (sampleIdx (prodNat hd)).map fun f => (f, dftSpecND sign dims xc (unflat hd f))
    join (y.toList.map bitsC) ++ " | " ++ fmtSamples spec

def opIrfft (c : Cur) : String :=
  let (dims, c) := parseDims c
  let (sign, c) := c.int
  let hd := halfDims dims
  let (x, _) := c.cplx (prodNat hd)
  match invFourierRealDataND sign true hd x with
  | some y => join (y.toList.map bitsF)
  | none =>
    -- the guard as coded rejects the input; also give the result of the transform with the guard its message describes,
    -- so that a repaired library (known finding `real-inverse:last-dimension-of-length-2-rejected`) still corresponds
    match invFourierRealDataND sign false hd x with
    | some y => "err | " ++ join (y.toList.map bitsF)
    | none => "err"

def opP2a (c : Cur) : String :=
  let (dims, c) := parseDims c
  let (_, c) := c.int
  let hd := halfDims dims
  let (x, _) := c.cplx (prodNat hd)
  let y := match hd with
    | [_] => posFreqToAll1 Cplx.conj x
    | _ => posFreqToAllND Cplx.conj hd x
  join (y.toList.map bitsC)

/-! ### convolution ops -/

def bcOf (n : Int) : BC := if n == 0 then .zero else if n == 1 then .constant else .periodic

def fmtOpt (l : List (Option Int)) : String :=
  if l.any Option.isNone then "err" else join (l.map fun o => toString (o.getD 0))

def rangeList (r : R) : List Int := (List.range r.len.toNat).map fun (t : Nat) => r.lo + Int.ofNat t

def opConv1 (inplace : Bool) (c : Cur) : String :=
  let (bc, c) := c.int
  let c := c.skip  -- K
  let (k, c) := c.iarr 1
  let c := c.skip  -- X
  let (x, c) := c.iarr 1
  let ob : R := if inplace then r0 x.box 0 else (r0 (c.skip.box 1).1 0)
  let kr := r0 k.box 0
  let xr := r0 x.box 0
  fmtOpt ((rangeList ob).map fun i =>
    arrayFilter1DAt (bcOf bc) kr.lo kr.hi (fun j => k.get [j]) xr.lo xr.hi (fun m => x.get [m]) i)

def opCsym (c : Cur) : String :=
  let c := c.skip
  let (k, c) := c.iarr 1
  let c := c.skip
  let (x, _) := c.iarr 1
  let xr := r0 x.box 0
  join ((rangeList xr).map fun i => toString (arrayFilterSymAt (r0 k.box 0).hi (fun j => k.get [j]) xr.lo xr.hi (fun m => x.get [m]) i))

/-- is the kernel (given by its box and accessor) the unit impulse at the origin? -/
def isDelta (k : IArr) : Bool :=
  (allIdx k.box).all fun idx => k.get idx == (if idx.all (· == 0) then 1 else 0)

def opConv2 (inplace : Bool) (c : Cur) : String :=
  let c := c.skip
  let (k, c) := c.iarr 2
  let c := c.skip
  let (x, c) := c.iarr 2
  let ob := if inplace then x.box else (c.skip.box 2).1
  let kf := fun a b => k.get [a, b]
  let xf := fun a b => x.get [a, b]
  let coded := join ((allIdx ob).map fun idx =>
    toString (arrayFilter2DAt (r0 k.box 0) (r0 k.box 1) kf (r0 x.box 0) (r0 x.box 1) xf (idx.getD 0 0) (idx.getD 1 0)))
  -- known finding `conv2d3d:is_trivial-…`: also give the convolution the class claims to be
  if isTrivial2D (r0 k.box 0) kf && !isDelta k then
    coded ++ " | " ++ join ((allIdx ob).map fun idx =>
      toString (conv2dAt (r0 k.box 0) (r0 k.box 1) kf (r0 x.box 0) (r0 x.box 1) xf (idx.getD 0 0) (idx.getD 1 0)))
  else coded

def opConv3 (inplace : Bool) (c : Cur) : String :=
  let c := c.skip
  let (k, c) := c.iarr 3
  let c := c.skip
  let (x, c) := c.iarr 3
  let ob := if inplace then x.box else (c.skip.box 3).1
  let kf := fun a b d => k.get [a, b, d]
  let xf := fun a b d => x.get [a, b, d]
  let coded := join ((allIdx ob).map fun idx =>
    toString (arrayFilter3DAt (r0 k.box 0) (r0 k.box 1) (r0 k.box 2) kf (r0 x.box 0) (r0 x.box 1) (r0 x.box 2) xf
      (idx.getD 0 0) (idx.getD 1 0) (idx.getD 2 0)))
  if isTrivial3D (r0 k.box 0) kf && !isDelta k then
    coded ++ " | " ++ join ((allIdx ob).map fun idx =>
      toString (conv3dAt (r0 k.box 0) (r0 k.box 1) (r0 k.box 2) kf (r0 x.box 0) (r0 x.box 1) (r0 x.box 2) xf
        (idx.getD 0 0) (idx.getD 1 0) (idx.getD 2 0)))
  else coded

/-- `variant`: 0 = object built from the spatial kernel (`dftf`), 1 = the same, in-place call (`dftfip`: output range =
    input range), 2 = object built from the kernel in frequency space (`dftfq <d> c|s`: the real-data transform of the
    wrapped kernel, through the constructor or `set_kernel_in_frequency_space`) -/
def opDftf (variant : Nat) (c : Cur) : String :=
  let (d, c) := c.int
  let d := d.toNat
  let c := if variant == 2 then c.skip else c
  let c := c.skip
  let (k, c) := c.iarr d
  let c := c.skip
  let (x, c) := c.iarr d
  let ob := if variant == 1 then x.box else (c.skip.box d).1
  let run (coded : Bool) : Option String :=
    if variant == 2 then
      let sizes := sizesOf k.box
      -- what `fourier_for_real_data` is given: the wrap-around copy of the kernel (`none`: it calls error())
      if !(realLenOkForward (sizes.getLastD 0) && sizes.dropLast.all isPow2) then none else
      let kp := toPeriodicND sizes k.box k.get
      let kp0 := fun (idx : List Int) => kp.getD (flatIdx sizes (idx.map Int.toNat)) 0
      (dftFilterFreqND true (freqBox (zeroBox sizes)) kp0 x.box x.get ob coded).map fun f => join ((allIdx ob).map fun idx => toString (f idx))
    else if d == 1 then
      let kr := r0 k.box 0
      let xr := r0 x.box 0
      let o := r0 ob 0
      (dftFilter1 kr.lo kr.hi (fun j => k.get [j]) xr.lo xr.hi (fun m => x.get [m]) o.lo o.hi coded).map fun f =>
        join ((rangeList o).map fun i => toString (f i))
    else
      (dftFilterND k.box k.get x.box x.get ob coded).map fun f => join ((allIdx ob).map fun idx => toString (f idx))
  match run true with
  | some s => s
  | none =>
    match run false with
    | some s => "err | " ++ s
    | none => "err"

/-- `padr <d> <irregular> F <box>`: is the index range of a kernel in frequency space accepted, and the padded sizes -/
def opPadr (c : Cur) : String :=
  let (d, c) := c.int
  let (irr, c) := c.int
  let (fb, _) := c.skip.box d.toNat
  match setPaddingRange (irr == 0) fb with
  | none => "no"
  | some pr =>
    let sizes := sizesOf pr
    let last := sizes.getLastD 0
    let shown := "yes " ++ join (sizes.map toString)
    if !(realLenOkForward last && sizes.dropLast.all isPow2) then "yes err"
    else if !realLenOkInverse last then "yes err | " ++ shown
    else shown

/-- `dftfh <d> H <box> <re im …> X <arr> O <box>`: arbitrary kernel in frequency space -/
def opDftfh (c : Cur) : String :=
  let (d, c) := c.int
  let d := d.toNat
  let (fb, c) := c.skip.box d
  let (h, c) := c.cplx (boxSize fb)
  let (x, c) := c.skip.iarr d
  let (ob, _) := c.skip.box d
  match dftFilterSpectrumND true fb h x.box (fun idx => Float.ofInt (x.get idx)) with
  | none => "err"
  | some f => join ((allIdx ob).map fun idx => bitsF (f idx))

/-- `rng <class> …`: `get_influencing_indices(O)`, `get_influenced_indices(I)`, `is_trivial()` -/
def opRng (c : Cur) : String :=
  let cls := c.peek
  let c := c.skip
  let fmtR (r : R) := toString r.lo ++ " " ++ toString r.hi
  let b2s (b : Bool) := if b then "1" else "0"
  if cls == "s" then
    let (k, _) := c.skip.iarr 1
    "no no " ++ b2s (isTrivialSym (r0 k.box 0).hi (fun j => k.get [j]))
  else if cls == "d" then
    "no no " ++ b2s (isTrivialDFT (N c.peek) (parseNum (c.toks.getD (c.pos + 1) "") == 1 && parseNum (c.toks.getD (c.pos + 2) "") == 0))
  else
    let d := N cls
    let (k, c) := c.skip.iarr d
    let (ir, c) := c.skip.box 1
    let (orr, _) := c.skip.box 1
    let kr := r0 k.box 0
    let triv := if d == 1 then isTrivial1D kr.lo kr.hi (fun j => k.get [j])
      else if d == 2 then isTrivial2D kr (fun a b => k.get [a, b])
      else isTrivial3D kr (fun a b e => k.get [a, b, e])
    fmtR (influencingRange kr (r0 orr 0)) ++ " " ++ fmtR (influencedRange kr (r0 ir 0)) ++ " " ++ b2s triv

/-- one `F type kmin kmax k…` section -/
def Cur.filt (c : Cur) : Line1 Int × Cur :=
  let c := c.skip -- F
  let (ty, c) := c.int
  let (k, c) := c.iarr 1
  let kr := r0 k.box 0
  let kf := fun j => k.get [j]
  let f : Line1 Int :=
    if ty == 2 then fun lo hi x i => arrayFilterSymAt kr.hi kf lo hi x i
    else fun lo hi x i => (arrayFilter1DAt (bcOf ty) kr.lo kr.hi kf lo hi x i).getD 0
  (f, c)

def opSep (c : Cur) : String :=
  let (f0, c) := c.filt
  let (f1, c) := c.filt
  let (f2, c) := c.filt
  let c := c.skip
  let (x, _) := c.iarr 3
  let y := separable3 f0 f1 f2 (r0 x.box 0) (r0 x.box 1) (r0 x.box 2) (fun a b d => x.get [a, b, d])
  join ((allIdx x.box).map fun idx => toString (y (idx.getD 0 0) (idx.getD 1 0) (idx.getD 2 0)))

def opSepNull (c : Cur) : String :=
  let c := c.skip
  let (x, _) := c.iarr 3
  join (x.v.toList.map toString)

def Cur.coefs (c : Cur) : Line1 Int × Cur :=
  let c := c.skip -- Z / Y / X
  let n := N c.peek
  let c := c.skip
  let (v, c) := c.ints n
  let lo := sciKernelMin n
  let k : IArr := ⟨[⟨lo, lo + n - 1⟩], v⟩
  (fun a b x i => (arrayFilter1DAt .zero lo (lo + n - 1) (fun j => k.get [j]) a b x i).getD 0, c)

def opSci (c : Cur) : String :=
  let (f0, c) := c.coefs
  let (f1, c) := c.coefs
  let (f2, c) := c.coefs
  let c := c.skip
  let (x, _) := c.iarr 3
  let y := separable3 f0 f1 f2 (r0 x.box 0) (r0 x.box 1) (r0 x.box 2) (fun a b d => x.get [a, b, d])
  join ((allIdx x.box).map fun idx => toString (y (idx.getD 0 0) (idx.getD 1 0) (idx.getD 2 0)))

/-! ### Gaussian kernels -/

/-- the kernel as seen through a unit impulse in an array `-R..R`: value at offset `i` -/
def kernelAt (kc : Nat × Array Float32) (i : Int) : Float :=
  if kc.2.size == 0 then (if i == 0 then 1 else 0)
  else if i.natAbs ≤ kc.1 then (kc.2.getD (i + kc.1).toNat 0).toFloat else 0

def opGauss (c : Cur) : String :=
  let f := (List.range 3).map fun q => (parseNum (c.toks.getD (c.pos + q) "")).toFloat32
  let m := (List.range 3).map fun q => I (c.toks.getD (c.pos + 3 + q) "")
  let norm := c.toks.getD (c.pos + 6) "" == "1"
  let rr := I (c.toks.getD (c.pos + 7) "")
  let ks := (List.range 3).map fun q => gaussCoefficients (m.getD q 0) (f.getD q 0) norm
  if ks.any Option.isNone then "err" else
  let kk := ks.map fun o => o.getD (0, #[])
  let line (q : Nat) : String :=
    let others := ((List.range 3).filter (· != q)).foldl (fun p o => p * kernelAt (kk.getD o (0, #[])) 0) 1.0
    join ((rangeList ⟨-rr, rr⟩).map fun i => bitsF (kernelAt (kk.getD q (0, #[])) i * others))
  line 0 ++ " | " ++ line 1 ++ " | " ++ line 2

/-! ### Metz kernels -/

def symKernelAt (k : Array Float) (i : Int) : Float :=
  if k.size == 0 then (if i == 0 then 1 else 0)
  else if i.natAbs < k.size then k.getD i.natAbs 0 else 0

def opMetz (c : Cur) : String :=
  let ks := (List.range 3).map fun q =>
    let t (o : Nat) := c.toks.getD (c.pos + 4 * q + o) ""
    metzKernel (parseNum (t 1)).toFloat32 (parseNum (t 0)).toFloat32 (parseNum (t 2)).toFloat32 (I (t 3))
  let rr := I (c.toks.getD (c.pos + 12) "")
  let line (q : Nat) : String :=
    let others := ((List.range 3).filter (· != q)).foldl (fun p o => p * symKernelAt (ks.getD o #[]) 0) 1.0
    join ((rangeList ⟨-rr, rr⟩).map fun i => bitsF (symKernelAt (ks.getD q #[]) i * others))
  line 0 ++ " | " ++ line 1 ++ " | " ++ line 2

/-! ### dispatch -/

def answer (line : String) : String :=
  let toks := ((line.trimAscii.toString.splitOn " ").filter (· ≠ "")).toArray
  let c : Cur := ⟨toks, 1⟩
  match toks.getD 0 "" with
  | "cfg" => "ok"
  | "fft" => opFft false c
  | "ifft" => opFft true c
  | "rfft" => opRfft c
  | "irfft" => opIrfft c
  | "p2a" => opP2a c
  | "conv1" => opConv1 false c
  | "conv1ip" => opConv1 true c
  | "csym" => opCsym c
  | "csymip" => opCsym c
  | "conv2" => opConv2 false c
  | "conv3" => opConv3 false c
  | "conv2ip" => opConv2 true c
  | "conv3ip" => opConv3 true c
  | "dftf" => opDftf 0 c
  | "dftfip" => opDftf 1 c
  | "dftfq" => opDftf 2 c
  | "dftfh" => opDftfh c
  | "padr" => opPadr c
  | "rng" => opRng c
  | "sep" => opSep c
  | "scic" => opSep c
  | "sepnull" => opSepNull c
  | "sci" => opSci c
  | "gauss" => opGauss c
  | "metz" => opMetz c
  | _ => "bad-op"

partial def loop (h : IO.FS.Stream) : IO Unit := do
  let line ← h.getLine
  if line.isEmpty then return ()
  IO.println (answer line)
  loop h

def main : IO Unit := do loop (← IO.getStdin)
end Driver.C19
