import StirVerif.C15.Model
/-! Line-protocol driver for C15 (implementation side: harness/c15_rebin_zoom.cxx).

Floats arrive as C99 hex (`%a`) and are parsed exactly into `Rat`.  Float answers are printed as
`q:<num>/<den>:<tolnum>/<tolden>` — the exact model value and the absolute tolerance derived for the float
computation of the implementation (see checks/c15.py for the rule) — and compared numerically by the check. -/
namespace Driver.C15
open StirVerif.C01 StirVerif.C15

/-! ### exact parsing of C99 hex floats -/

def hexVal (c : Char) : Option Nat :=
  if '0' ≤ c ∧ c ≤ '9' then some (c.toNat - '0'.toNat)
  else if 'a' ≤ c ∧ c ≤ 'f' then some (c.toNat - 'a'.toNat + 10)
  else if 'A' ≤ c ∧ c ≤ 'F' then some (c.toNat - 'A'.toNat + 10)
  else none

/-- `[-]0x<hex>[.<hex>]p<±dec>` → exact rational; `none` for `inf`, `nan`, garbage -/
def parseHex (s : String) : Option Rat := do
  let cs := s.toList
  let (neg, cs) := match cs with
    | '-' :: r => (true, r)
    | '+' :: r => (false, r)
    | r => (false, r)
  let cs ← match cs with
    | '0' :: 'x' :: r => some r
    | '0' :: 'X' :: r => some r
    | _ => none
  let rec mant (cs : List Char) (acc : Nat) (frac : Nat) (seenDot : Bool) (any : Bool) : Option (Nat × Nat × List Char) :=
    match cs with
    | [] => none
    | 'p' :: r => if any then some (acc, frac, r) else none
    | 'P' :: r => if any then some (acc, frac, r) else none
    | '.' :: r => if seenDot then none else mant r acc frac true any
    | c :: r =>
      match hexVal c with
      | some d => mant r (acc * 16 + d) (if seenDot then frac + 1 else frac) seenDot true
      | none => none
  let (m, frac, rest) ← mant cs 0 0 false false
  let e ← match rest with
    | '+' :: r => (String.ofList r).toInt?
    | r => (String.ofList r).toInt?
  let q : Rat := (m : Rat) * pow2 (e - 4 * (frac : Int))
  some (if neg then -q else q)

def H (s : String) : Rat := (parseHex s).getD 0
def I (s : String) : Int := s.toInt?.getD 0

/-- float answer token: exact value and absolute tolerance -/
def fq (v tol : Rat) : String := s!"q:{v.num}/{v.den}:{tol.num}/{tol.den}"

/-- `2⁻²⁴` -/
def u24 : Rat := pow2 (-24)

/-! ### `cos` / `sin` of a float angle through binary64 (for `zoom_viewgram`) -/

def ratToFloat (q : Rat) : Float := Float.ofInt q.num / Float.ofNat q.den

/-- exact value of a finite binary64 -/
def floatToRat (x : Float) : Rat :=
  if x == 0 then 0
  else
    let neg := x < 0
    let (m, e) := (if neg then -x else x).frExp
    let mi : Nat := (m.scaleB 53).toUInt64.toNat
    let q : Rat := (mi : Rat) * pow2 (e - 53)
    if neg then -q else q

/-! ### state -/

structure St where
  pin : Option PDI := none
  pout : Option PDI := none
  data : List (Bin × Rat) := []

def parseSeg (s : String) : Seg :=
  match s.splitOn "," with
  | [a, b, c] => ⟨I a, I b, I c⟩
  | _ => ⟨0, 0, 0⟩

def fmtGeom (p : PDI) : String :=
  s!"segs {p.minSeg} : " ++ " ".intercalate (p.segs.map fun s => s!"{s.minRD},{s.maxRD},{s.numAx}") ++
    s!" | views {p.numViews} | tang {p.minTang} {p.maxTang} | tof {p.tofMash} {p.minTof} {p.maxTof}"

def binKey (b : Bin) : List Int := [b.seg, b.view, b.ax, b.tang, b.tof]
def lexLt : List Int → List Int → Bool
  | [], [] => false
  | [], _ => true
  | _, [] => false
  | a :: as, b :: bs => a < b || (a == b && lexLt as bs)

/-- split a token list at the first `|` -/
def splitBar (l : List String) : List String × List String :=
  (l.takeWhile (· ≠ "|"), (l.dropWhile (· ≠ "|")).drop 1)

def maxAbs (l : List Rat) : Rat := l.foldl (fun a x => max a (absQ x)) 0

def parseGrid (l : List String) : Option Grid :=
  match l with
  | [zmin, ymin, xmin, nz, ny, nx, vz, vy, vx, oz, oy, ox] =>
    some { zmin := I zmin, ymin := I ymin, xmin := I xmin, nz := (I nz).toNat, ny := (I ny).toNat, nx := (I nx).toNat,
           vz := H vz, vy := H vy, vx := H vx, oz := H oz, oy := H oy, ox := H ox }
  | _ => none

def chunks (n : Nat) : Nat → List Rat → List (List Rat)
  | 0, _ => []
  | k + 1, l => l.take n :: chunks n k (l.drop n)

def reshape (g : Grid) (l : List Rat) : Vol :=
  (chunks (g.ny * g.nx) g.nz l).map fun pl => chunks g.nx g.ny pl

def flat (v : Vol) : List Rat := v.flatMap fun pl => pl.flatMap id

def stepLine (st : St) (line : String) : St × String :=
  let toks := (line.trimAscii.toString.splitOn " ").filter (· ≠ "")
  match toks with
  | "cfg" :: n :: r :: t :: views :: minTang :: maxTang :: tofMash :: minTof :: maxTof :: minSeg :: segs =>
    let p : PDI := { N := I n, R := I r, T := I t, minSeg := I minSeg, segs := segs.map parseSeg, numViews := I views,
                     minTang := I minTang, maxTang := I maxTang, tofMash := I tofMash, minTof := I minTof, maxTof := I maxTof }
    ({ pin := some p, pout := none, data := [] }, "ok")
  | ["ssrbinfo", kSeg, kView, trim, maxSeg, kTof] =>
    match st.pin with
    | none => (st, "bad-state")
    | some p =>
      match ssrbInfo p (I kSeg) (I kView) (I trim) (I maxSeg) (I kTof) with
      | none => ({ st with pout := none, data := [] }, "err")
      | some o =>
        -- lazy `error` of ProjDataInfoCylindrical::initialise_ring_diff_arrays on the output geometry
        if o.segs.any fun s => (s.axOff o.R).isNone then ({ st with pout := none, data := [] }, "err")
        else ({ st with pout := some o, data := [] }, fmtGeom o)
  | ["ssrbphi", off, samp, vin, kView] =>
    let (o, s) := ssrbPhi (H off) (H samp) (I vin) (I kView)
    -- two / three float operations each
    (st, s!"{fq o (8 * u24 * (absQ o + absQ (H off)))} {fq s (8 * u24 * absQ s)}")
  | ["ssrbm", rs] =>
    -- the axial grid of every output segment in millimetres (first / last m, axial sampling) for the scanner's ring spacing (exact
    -- binary32 value): `a*sampling - m_offset` with `m_offset = (max+min)*sampling/2` is three roundings of numbers ≤ numAx*sampling
    match st.pout with
    | none => (st, "bad-state")
    | some o =>
      let r := H rs
      (st, " ".intercalate (o.segs.map fun s =>
        let tol := 4 * u24 * absQ (s.axialSampling r) * ((s.numAx.natAbs + 1 : Nat) : Rat) + pow2 (-100)
        s!"{fq (s.mMm r 0) tol} {fq (s.mMm r (s.numAx - 1)) tol} {fq (s.axialSampling r) (2 * u24 * absQ r)}"))
  | ["voxsize", rs, bin, fov, seg0, "|", zz, zy, zx, "|", sz, sy, sx] =>
    match voxelsFromProjData (H rs) (H bin) (H fov) (parseSeg seg0) (H zz) (H zy) (H zx) (I sz) (I sy) (I sx) with
    | none => (st, "err")
    | some g =>
      -- voxel sizes: the model rounds like the source (one or two binary32 divisions): compared exactly
      let vt (v : Rat) := fq v 0
      (st, s!"{g.zmin} {g.ymin} {g.xmin} {g.nz} {g.ny} {g.nx} {vt g.vz} {vt g.vy} {vt g.vx}")
  | ["ev", d1, r1, d2, r2, t, w] =>
    match st.pin with
    | none => (st, "bad-state")
    | some p =>
      match histBin p ⟨I d1, I r1, I d2, I r2, I t⟩ with
      | none => (st, "none")
      | some b => ({ st with data := st.data ++ [(b, ((I w : Int) : Rat))] }, s!"{b.seg} {b.view} {b.ax} {b.tang} {b.tof}")
  | ["ssrbdata", norm] =>
    match st.pin, st.pout with
    | some p, some o =>
      match ssrbData p o (I norm != 0) st.data with
      | none => (st, "err")
      | some l =>
        let l := (l.filter fun bv => bv.2 != 0).toArray.qsort (fun x y => lexLt (binKey x.1) (binKey y.1)) |>.toList
        let body := l.map fun (b, v) =>
          s!" {b.seg} {b.view} {b.ax} {b.tang} {b.tof} " ++ (if I norm != 0 then fq v (2 * u24 * absQ v) else s!"{v.num}") ++ " ;"
        (st, s!"{l.length} |" ++ String.join body)
    | _, _ => (st, "bad-state")
  | "ov1" :: assign :: zoom :: offset :: omin :: imin :: "|" :: rest =>
    let (o0, inp) := splitBar rest
    let o0 := o0.map H
    let inp := inp.map H
    let z := H zoom
    let res := overlapVec ⟨I omin, o0⟩ ⟨I imin, inp⟩ z (H offset) (I assign != 0)
    let mag := overlapVec ⟨I omin, o0.map absQ⟩ ⟨I imin, inp.map absQ⟩ z (H offset) (I assign != 0)
    let extra : Rat := if I assign != 0 then 0 else (maxAbs o0 + maxAbs inp) * (1 + 1 / z)
    let edge : Rat := 16 * u24 * maxAbs inp * (1 + 1 / z)   -- box edges are evaluated with a few float operations
    -- model-internal cross-check: the transcribed loops compute the overlap specification (up to the float rounding of
    -- 1/zoom and of `x1 - offset`, and the 1e-5 rule of the stretching branch)
    let spec := overlapSpecVec (I omin) o0.length ⟨I imin, inp⟩ z (H offset)
    let specBad := I assign != 0 && (res.vals.zip spec).any fun (v, w) => absQ (v - w) > (2 / 100000 : Rat) * maxAbs inp * (1 + 1 / z)
    if specBad then (st, "SPEC-MISMATCH") else
    (st, " ".intercalate ((res.vals.zip mag.vals).map fun (v, m) => fq v (64 * u24 * (max (absQ v) (absQ m) + extra) + edge + pow2 (-100))))
  | "ovit" :: onlyAdd :: assign :: "|" :: rest =>
    let (oc, rest) := splitBar rest
    let (ic, rest) := splitBar rest
    let (inp, o0) := splitBar rest
    let oc := (oc.map H).toArray
    let ic := (ic.map H).toArray
    let inp := (inp.map H).toArray
    let o0 := (o0.map H).toArray
    let res := overlapIter o0 oc inp ic (I onlyAdd != 0) (I assign != 0)
    let mag := overlapIter (o0.map absQ) oc (inp.map absQ) ic (I onlyAdd != 0) (I assign != 0)
    -- model-internal cross-check against the specification (the loop drops overlaps ≤ epsilon = 1e-4 of the mean box size);
    -- not when all input lies left of the output: the source then returns without touching the output
    let spec := overlapSpecIter oc inp ic
    let width : Rat := (oc[oc.size - 1]! - oc[0]!) + (ic[ic.size - 1]! - ic[0]!)
    let touched := inp.size > 0 && o0.size > 0 && ic[ic.size - 1]! > oc[0]!
    let specBad := I onlyAdd == 0 && I assign != 0 && touched &&
      (res.toList.zip spec).any fun (v, w) => absQ (v - w) > (1 / 1000 : Rat) * maxAbs inp.toList * width
    if specBad then (st, "SPEC-MISMATCH") else
    (st, " ".intercalate ((res.toList.zip mag.toList).map fun (v, m) => fq v (32 * u24 * (max (absQ v) (absQ m)) + pow2 (-100))))
  | "zoom" :: variant :: opt :: "|" :: rest =>
    let (gi, rest) := splitBar rest
    let (prm, dat) := splitBar rest
    match parseGrid gi with
    | none => (st, "bad-op")
    | some g =>
      let im : Img := ⟨g, reshape g (dat.map H)⟩
      let run (im : Img) : Option Img :=
        match variant, prm with
        | "3d", [zz, zy, zx, oz, oy, ox, nz, ny, nx] =>
          some (zoomImageParams3 im (H zz) (H zy) (H zx) (H oz) (H oy) (H ox) (I nz) (I ny) (I nx) (I opt).toNat)
        | "2d", [zoom, xoff, yoff, n] => some (zoomImageParams2 im (H zoom) (H xoff) (H yoff) (I n) (I opt).toNat)
        | "out", go => (parseGrid go).map fun go => ⟨go, zoomImage3 go im (I opt).toNat⟩
        -- the transaxial two-step call `zoom_image(PixelsOnCartesianGrid& out, const PixelsOnCartesianGrid& in, options)` on one plane
        -- (both grids are written with one plane; their z entries are echoed, not used)
        | "pl", go => (parseGrid go).map fun go => ⟨go, im.d.map fun pl => zoomImage2 go im.g pl (I opt).toNat⟩
        | _, _ => none
      match run im with
      | some r =>
        let go := r.g
        let vt (v : Rat) := fq v (8 * u24 * absQ v)
        let ot (o oin vin : Rat) (lo : Int) (n : Nat) (vout : Rat) (lo' : Int) (n' : Nat) :=
          fq o (32 * u24 * (absQ o + absQ oin + vin * ((lo.natAbs + n : Nat) : Rat) + vout * ((lo'.natAbs + n' : Nat) : Rat)) + pow2 (-100))
        -- magnitude of any sum of products formed on the way: max|in| * (largest total weight of one output voxel) * option scaling;
        -- 256 float operations on the longest path (3 passes, ≤ ~12 input boxes per output box and axis) + box edges evaluated in float
        let ex (a b : Rat) : Rat := max 1 (a / b)
        let big : Rat := maxAbs (flat im.d) * ex go.vx g.vx * ex go.vy g.vy * ex go.vz g.vz * ex g.vx go.vx * ex g.vy go.vy * ex g.vz go.vz
        let tol : Rat := (4 * 64 + 48) * u24 * big + pow2 (-100)
        (st, s!"geom {go.zmin} {go.ymin} {go.xmin} {go.nz} {go.ny} {go.nx} {vt go.vz} {vt go.vy} {vt go.vx} " ++
             s!"{ot go.oz g.oz g.vz g.zmin g.nz go.vz go.zmin go.nz} {ot go.oy g.oy g.vy g.ymin g.ny go.vy go.ymin go.ny} " ++
             s!"{ot go.ox g.ox g.vx g.xmin g.nx go.vx go.xmin go.nx} |" ++
             String.join ((flat r.d).map fun v => " " ++ fq v tol))
      | none => (st, "bad-op")
  | "zvg" :: variant :: "|" :: rest =>
    let (prm, rest) := splitBar rest
    let (dims, dat) := splitBar rest
    match prm, dims with
    | [inBin, zb, phi, xoff, yoff], [d0, d1, inLo, inN, nax] =>
      let inBin := H inBin
      let xo := H xoff
      let yo := H yoff
      let c := floatToRat (Float.cos (ratToFloat (H phi)))
      let s := floatToRat (Float.sin (ratToFloat (H phi)))
      let inN := (I inN).toNat
      let vals := dat.map H
      let rows := chunks inN (I nax).toNat vals
      let rowsAbs := chunks inN (I nax).toNat (vals.map absQ)
      -- (first tangential position, number of positions, tangential sampling, rows) of the result
      let (outLo, outN, outBin, res, mag) :=
        if variant == "out" then
          (I d0, (I d1).toNat, H zb, zoomViewgram (I d0) (I d1).toNat (I inLo) rows inBin (H zb) xo yo c s,
            zoomViewgram (I d0) (I d1).toNat (I inLo) rowsAbs inBin (H zb) xo yo c s)
        else
          let r := zoomViewgramInPlace (H zb) (I d0) (I d1) (I inLo) rows inBin xo yo c s
          let m := zoomViewgramInPlace (H zb) (I d0) (I d1) (I inLo) rowsAbs inBin xo yo c s
          (r.1, (r.2.2.headD []).length, r.2.1, r.2.2, m.2.2)
      let z := fl32 (inBin / outBin)
      let off := zoomViewgramOffset xo yo c s inBin
      let mx := maxAbs vals
      -- box edges evaluated in float (as for `ov1`) + the float evaluation of the offset (cos, sin, two products, a sum, a division)
      let edge : Rat := 16 * u24 * mx * (1 + 1 / z)
      let shift : Rat := 2 * mx * (16 * u24 * (absQ xo + absQ yo) / inBin)
      -- model-internal cross-check of every row against the overlap specification
      let specBad := (rows.zip res).any fun (r, o) =>
        let spec := overlapSpecVec outLo outN ⟨I inLo, r⟩ z off
        (o.zip spec).any fun (v, w) => absQ (v - w) > (2 / 100000 : Rat) * mx * (1 + 1 / z)
      if specBad then (st, "SPEC-MISMATCH") else
      let body := ((flat [res]).zip (flat [mag])).map fun (v, m) => " " ++ fq v (64 * u24 * (max (absQ v) (absQ m)) + edge + shift + pow2 (-100))
      (st, (if variant == "out" then "" else s!"geom {outLo} {outN} {fq outBin (2 * u24 * absQ outBin)} |") ++ String.join body)
    | _, _ => (st, "bad-op")
  | "cog" :: "|" :: rest =>
    let (gi, dat) := splitBar rest
    match parseGrid gi with
    | none => (st, "bad-op")
    | some g =>
      let vals := dat.map H
      let im : Img := ⟨g, reshape g vals⟩
      match cogMm im with
      | none => (st, "none")
      | some (cz, cy, cx) =>
        let s := volSum im.d
        let sa := volSum (reshape g (vals.map absQ))
        let (mz, my, mx) := volMoments g (reshape g (vals.map absQ))
        let n : Rat := ((g.nz * g.ny * g.nx + 8 : Nat) : Rat)
        let ext (lo : Int) (k : Nat) : Rat := ((lo.natAbs + k : Nat) : Rat)
        let tol (v o c m e : Rat) : Rat := 8 * n * u24 * (v * (max m e / absQ s) * (1 + sa / absQ s) + absQ o + absQ c) + pow2 (-100)
        (st, s!"{fq cz (tol g.vz g.oz cz mz (ext g.zmin g.nz * sa))} {fq cy (tol g.vy g.oy cy my (ext g.ymin g.ny * sa))} {fq cx (tol g.vx g.ox cx mx (ext g.xmin g.nx * sa))}")
  | "invssrb" :: minTof :: maxTof :: rs3 :: rs4 :: "|" :: rest =>
    let (s3, rest) := splitBar rest
    let (s4, rest) := splitBar rest
    let (rng, dat) := splitBar rest
    match s3, s4, rng.map I with
    | [seg3], _ :: segs4, [minV3, maxV3, minT3, maxT3, minV4, maxV4, minT4, maxT4] =>
      if !inverseSsrbCompatible minV3 maxV3 minT3 maxT3 minV4 maxV4 minT4 maxT4 then (st, "no") else
      let sg3 := parseSeg seg3
      -- m in millimetres: quarter ring spacings times ring_spacing/4; the source's tolerance is 1E-4 mm
      let ms : List Rat := (irange 0 (sg3.numAx - 1)).map fun a => ((sg3.m4 a : Int) : Rat) * H rs3 / 4
      let nTof := (I maxTof - I minTof + 1).toNat
      let n3 := sg3.numAx.toNat
      let nb := ((maxV3 - minV3 + 1) * (maxT3 - minT3 + 1)).toNat
      let vals := dat.map H
      -- sinos[k][a] = bins of the direct sinogram (axial position a, TOF position k)
      let sinos : List (List (List Rat)) := (chunks (n3 * nb) nTof vals).map fun l => chunks nb n3 l
      let sinosAbs : List (List (List Rat)) := sinos.map fun l => l.map fun r => r.map absQ
      let outs : List (Option (List String)) := (segs4.map parseSeg).flatMap fun sg =>
        (irange 0 (sg.numAx - 1)).flatMap fun ax =>
          (List.range nTof).map fun k =>
            let outM := ((sg.m4 ax : Int) : Rat) * H rs4 / 4
            match inverseSsrbSino ms outM (1 / 10000) (sinos.getD k []), inverseSsrbSino ms outM (1 / 10000) (sinosAbs.getD k []) with
            | some v, some m => some ((v.zip m).map fun (x, y) => fq x (16 * u24 * y + pow2 (-100)))
            | _, _ => none
      if outs.any Option.isNone then (st, "err")
      else (st, " ".intercalate (outs.flatMap fun o => o.getD []))
    | _, _, _ => (st, "bad-op")
  | "ext" :: segnum :: views :: kn :: kd :: "|" :: rest =>
    let (dims, rest) := splitBar rest
    let (ext, vals) := splitBar rest
    match dims, ext with
    | [a0, v0, t0, na, nv, nt], [ve, ae, te] =>
      let na := (I na).toNat
      let nv := (I nv).toNat
      let nt := (I nt).toNat
      let q := (vals.map H)
      let d : Array (Array (Array Rat)) := ((chunks (nv * nt) na q).map fun pl => ((chunks nt nv pl).map List.toArray).toArray).toArray
      let seg : Arr3 := { a0 := I a0, v0 := I v0, t0 := I t0, d := d }
      let r := extendSegment seg na nv nt (I ve) (I ae) (I te) (extendModeK (I views) (I segnum) (I kn) (I kd))
      let all := r.d.toList.flatMap fun pl => pl.toList.flatMap fun row => row.toList
      let sz0 := r.d.size
      let sz1 := (r.d.getD 0 #[]).size
      let sz2 := ((r.d.getD 0 #[]).getD 0 #[]).size
      (st, s!"{r.a0} {r.v0} {r.t0} {sz0} {sz1} {sz2} |" ++ String.join (all.map fun v => " " ++ fq v 0))
    | _, _ => (st, "bad-op")
  | _ => (st, "bad-op")

partial def loop (h : IO.FS.Stream) (st : St) : IO Unit := do
  let line ← h.getLine
  if line.isEmpty then return ()
  let (st', out) := stepLine st line
  IO.println out
  loop h st'

def main : IO Unit := do loop (← IO.getStdin) {}
end Driver.C15
