import StirVerif.C10.Model
/-! Line-protocol driver for C10 (implementation side: harness/c10_imageio.cxx).

Numbers: the harness prints binary floats as C99 hex (`%a`) and header numbers as the decimal strings found in
the header file; both are parsed exactly into `Rat`.  The driver answers with exact rationals `p/q` (or integers);
`checks/c10.py` compares with the derived tolerances described there. -/
namespace Driver.C10
open StirVerif.C10

def hexDigit (c : Char) : Option Nat :=
  if '0' ≤ c ∧ c ≤ '9' then some (c.toNat - '0'.toNat)
  else if 'a' ≤ c ∧ c ≤ 'f' then some (c.toNat - 'a'.toNat + 10)
  else if 'A' ≤ c ∧ c ≤ 'F' then some (c.toNat - 'A'.toNat + 10)
  else none

def pow2 (e : Int) : Rat := if e ≥ 0 then (2 : Rat) ^ e.toNat else 1 / (2 : Rat) ^ (-e).toNat
def pow10 (e : Int) : Rat := if e ≥ 0 then (10 : Rat) ^ e.toNat else 1 / (10 : Rat) ^ (-e).toNat

/-- `[-]0xh[.hhh]p[+-]d` → exact rational; anything else → none -/
def parseHex (s : String) : Option Rat := do
  let cs := s.toList
  let (neg, cs) := match cs with
    | '-' :: r => (true, r)
    | '+' :: r => (false, r)
    | r => (false, r)
  let cs ← match cs with
    | '0' :: 'x' :: r => some r
    | '0' :: 'X' :: r => some r
    | _ => none
  let mant := cs.takeWhile (fun c => c ≠ 'p' ∧ c ≠ 'P')
  let rest := cs.dropWhile (fun c => c ≠ 'p' ∧ c ≠ 'P')
  let ex : Int ← match rest with
    | [] => some 0
    | _ :: '+' :: r => (String.ofList r).toInt?
    | _ :: r => (String.ofList r).toInt?
  let ip := mant.takeWhile (· ≠ '.')
  let fp := (mant.dropWhile (· ≠ '.')).drop 1
  let digits := ip ++ fp
  if digits.isEmpty then none
  let m ← digits.foldlM (fun acc c => do let d ← hexDigit c; pure (acc * 16 + d)) 0
  let v : Rat := (m : Rat) * pow2 (ex - 4 * fp.length)
  pure (if neg then -v else v)

/-- decimal as printed by `operator<<(double)`: `[-]d[.ddd][e[+-]dd]` → exact rational -/
def parseDec (s : String) : Option Rat := do
  let cs := s.toList
  let (neg, cs) := match cs with
    | '-' :: r => (true, r)
    | '+' :: r => (false, r)
    | r => (false, r)
  let mant := cs.takeWhile (fun c => c ≠ 'e' ∧ c ≠ 'E')
  let rest := cs.dropWhile (fun c => c ≠ 'e' ∧ c ≠ 'E')
  let ex : Int ← match rest with
    | [] => some 0
    | _ :: '+' :: r => (String.ofList r).toInt?
    | _ :: r => (String.ofList r).toInt?
  let ip := mant.takeWhile (· ≠ '.')
  let fp := (mant.dropWhile (· ≠ '.')).drop 1
  let digits := ip ++ fp
  if digits.isEmpty then none
  let m ← digits.foldlM (fun acc c => if c.isDigit then some (acc * 10 + (c.toNat - '0'.toNat)) else none) 0
  let v : Rat := (m : Rat) * pow10 (ex - fp.length)
  pure (if neg then -v else v)

/-- hex float or decimal -/
def parseNum (s : String) : Rat :=
  match parseHex s with
  | some v => v
  | none => (parseDec s).getD 0

def fmtRat (q : Rat) : String := if q.den = 1 then toString q.num else s!"{q.num}/{q.den}"

def parseType (s : String) : Option NumT :=
  match s with
  | "s8" => some (.int true 8)
  | "u8" => some (.int false 8)
  | "s16" => some (.int true 16)
  | "u16" => some (.int false 16)
  | "s32" => some (.int true 32)
  | "u32" => some (.int false 32)
  | "s64" => some (.int true 64)
  | "u64" => some (.int false 64)
  | "f32" => some .float32
  | "f64" => some .float64
  | _ => none

def chunksAux (n : Nat) : Nat → List Rat → List (List Rat)
  | 0, _ => []
  | _, [] => []
  | fuel + 1, l => l.take n :: chunksAux n fuel (l.drop n)

def chunks (n : Nat) (l : List Rat) : List (List Rat) := if n = 0 then [l] else chunksAux n l.length l

def absR (q : Rat) : Rat := if q < 0 then -q else q

/-- the set of integers the implementation may store for the exact quotient `q` when the quotient and the
    `+0.5F` are computed in binary32: all `n` with `|n - q| ≤ 1/2 + 2⁻²²(|q|+1)`; printed `n` or `lo..hi` -/
def isPow2 (n : Nat) : Bool := n != 0 && (n &&& (n - 1)) == 0

/-- is the scale factor a power of two (then binary32 division and the `+0.5F` are exact for |q| < 2²²) -/
def exactScale (s : Rat) : Bool := (s.num == 1 || s.num == -1 || s.den == 1) && isPow2 s.num.natAbs && isPow2 s.den

def fmtIntInterval (exact : Bool) (q : Rat) : String :=
  if exact && absR q < 4194304 then toString (roundHalfAway q) else
  let d : Rat := (absR q + 1) / 4194304
  let lo := (q - 1 / 2 - d).ceil
  let hi := (q + 1 / 2 + d).floor
  if lo = hi then toString lo else s!"{lo}..{hi}"

def fmtStoredInt (sg : Bool) (s x : Rat) (v : Option Int) : String :=
  match v with
  | none => "ub"
  | some _ =>
    if !sg && decide (x < 0) then "0"
    -- the implementation forms the quotient and the `+0.5F` in binary32: within the rounding error of 2³¹ the
    -- conversion to `int` may already be undefined although the exact quotient is still inside
    else if !(exactScale s) && decide (absR (x / s) + 1 / 2 + (absR (x / s) + 1) / 4194304 ≥ 2147483648) then "ub"
    else fmtIntInterval (exactScale s) (x / s)

def convLine (t : NumT) (given : Rat) (rowLen : Nat) (xs : List Rat) : String :=
  let rows := chunks rowLen xs
  let (s, res) := writeData t given rows
  match res with
  | .error _ => s!"{fmtRat s} | fail"
  | .ok out =>
    let flat := out.flatten
    let cells := (flat.zip xs).map fun (c, x) =>
      match c, t with
      | .int v, .int sg _ =>
        if s = 0 then "0"
        -- a subnormal binary32 scale factor (|s| < 2⁻¹²⁶): the implementation's quotient is not the model's (precision of
        -- the scale factor; reciprocal overflow in builds with -ffast-math) — known finding, anything is accepted
        else if absR s < 1 / (2 : Rat) ^ 126 && !(!sg && decide (x < 0)) then "ub"
        else fmtStoredInt sg s x v
      | .int _, _ => "?"
      | .real v, _ => fmtRat v
    s!"{fmtRat s} | " ++ " ".intercalate cells

def fmtOpt (o : Option String) : String := o.getD "-"

def fmtExam (e' : Exam) : String :=
  s!"{e'.modality} {e'.orientation} {e'.rotation} {fmtRat e'.calibration} {fmtRat e'.lowThres} {fmtRat e'.highThres} " ++
    s!"{if e'.rnName = "" then "-" else e'.rnName} {fmtRat e'.rnHalfLife} {fmtRat e'.rnBranching} {e'.frames.length}" ++
    String.join (e'.frames.map fun p => s!" {fmtRat p.1} {fmtRat p.2}")

def pairs : List String → List (Rat × Rat)
  | a :: b :: rest => (parseNum a, parseNum b) :: pairs rest
  | _ => []

/-- `mod orient rot cal low high rn hl br dbhl dbbr nframes (start end)*` → the exam information the header reader
    reconstructs (`readExam (writeExam e) db`) -/
def examRoundTrip (toks : List String) : Option Exam :=
  match toks with
  | m :: o :: r :: cal :: lo :: hi :: rn :: hl :: br :: dbhl :: dbbr :: _nf :: fr =>
    let e : Exam :=
      { modality := m.toNat?.getD 0, orientation := o.toNat?.getD 3, rotation := r.toNat?.getD 5
        calibration := parseNum cal, lowThres := parseNum lo, highThres := parseNum hi
        frames := pairs fr, rnName := if rn = "-" then "" else rn
        rnHalfLife := parseNum hl, rnBranching := parseNum br }
    let db : Option (Rat × Rat) := if parseNum dbhl > 0 then some (parseNum dbhl, parseNum dbbr) else none
    some (readExam (writeExam e) db)
  | _ => none

/-- `exam`: the header's exam information (dynamic / parametric Interfile image) -/
def examLine (toks : List String) : String :=
  match examRoundTrip toks with
  | some e' => fmtExam e'
  | none => "bad-op"

/-- `exams`: a single image (`read_interfile_image` keeps the first time frame only) -/
def examSingleLine (toks : List String) : String :=
  match examRoundTrip toks with
  | some e' => fmtExam (singleExam e')
  | none => "bad-op"

/-- `examf f …`: member `f` of an Interfile dynamic image -/
def examMemberLine (f : Nat) (toks : List String) : String :=
  match examRoundTrip toks with
  | some e' => match memberExam e' f with
    | some m => fmtExam m
    | none => "err"
  | none => "bad-op"

/-- `examm mod orient rot cal low high rn hl br k (start end)*k`: exam information of a Multi dynamic image from the
    exam information of its members as read back (all fields of member 1, the time frame of every member) -/
def examMultiLine (toks : List String) : String :=
  match toks with
  | m :: o :: r :: cal :: lo :: hi :: rn :: hl :: br :: _k :: fr =>
    let mk (p : Rat × Rat) : Exam :=
      { modality := m.toNat?.getD 0, orientation := o.toNat?.getD 3, rotation := r.toNat?.getD 5
        calibration := parseNum cal, lowThres := parseNum lo, highThres := parseNum hi
        frames := [p], rnName := if rn = "-" then "" else rn
        rnHalfLife := parseNum hl, rnBranching := parseNum br }
    match multiDynExam ((pairs fr).map mk) with
    | some e => fmtExam e
    | none => "err"
  | _ => "bad-op"

def stepLine (line : String) : String :=
  let toks := (line.trimAscii.toString.splitOn " ").filter (· ≠ "")
  let I (s : String) : Int := s.toInt?.getD 0
  let N (s : String) : Nat := s.toNat?.getD 0
  let R := parseNum
  match toks with
  | "cfg" :: _ => "ok"
  | ["whdr", mnz, mny, mnx, mxz, mxy, mxx, vz, vy, vx, oz, oy, ox] =>
    let g : Geom := { minI := ⟨I mnz, I mny, I mnx⟩, maxI := ⟨I mxz, I mxy, I mxx⟩,
                      voxel := ⟨R vz, R vy, R vx⟩, origin := ⟨R oz, R oy, R ox⟩ }
    let h := writeHeader id g
    match h.fpo with
    | some f => s!"{h.size.x} {h.size.y} {h.size.z} {fmtRat h.pixel.x} {fmtRat h.pixel.y} {fmtRat h.pixel.z} {fmtRat f.x} {fmtRat f.y} {fmtRat f.z}"
    | none => s!"{h.size.x} {h.size.y} {h.size.z} {fmtRat h.pixel.x} {fmtRat h.pixel.y} {fmtRat h.pixel.z} - - -"
  | ["rhdr", nx, ny, nz, vx, vy, vz, fx, fy, fz] =>
    let h : Header := { size := ⟨I nz, I ny, I nx⟩, pixel := ⟨R vz, R vy, R vx⟩,
                        fpo := if fx = "-" then none else some ⟨R fz, R fy, R fx⟩ }
    let g := readGeom h
    s!"{g.minI.z} {g.minI.y} {g.minI.x} {g.maxI.z} {g.maxI.y} {g.maxI.x} " ++
      s!"{fmtRat g.voxel.z} {fmtRat g.voxel.y} {fmtRat g.voxel.x} {fmtRat g.origin.z} {fmtRat g.origin.y} {fmtRat g.origin.x}"
  | ["fsf", t, given, mx, mn] =>
    match parseType t with
    | some tt => fmtRat (findScaleFactor tt (R given) [R mx, R mn])
    | none => "bad-type"
  | "conv" :: t :: given :: rowLen :: _n :: xs =>
    match parseType t with
    | some tt => convLine tt (R given) (N rowLen) (xs.map R)
    | none => "bad-type"
  | ["trunc", off, sizeAll, bytes, fileLen] =>
    match readDataset (N off) (N sizeAll) (N bytes) (N fileLen) with
    | .ok _ => "ok"
    | .error _ => "err"
  | "exam" :: rest => examLine rest
  | "exams" :: rest => examSingleLine rest
  | "examf" :: f :: rest => examMemberLine (N f) rest
  | "examm" :: rest => examMultiLine rest
  | "ctrunc" :: dyn :: nm :: sizeAll :: bytes :: fileLen :: offs =>
    match readDatasets (dyn = "1") (nm = "1") (offs.map N) (N sizeAll) (N bytes) (N fileLen) with
    | .ok _ => "ok"
    | .error _ => "err"
  | "mtrunc" :: sizeAll :: bytes :: lens =>
    match readMembers (N sizeAll) (N bytes) (lens.map N) with
    | .ok _ => "ok"
    | .error _ => "err"
  | ["offs", nsets, sizeAll, bytes] =>
    " ".intercalate ((datasetOffsets (N nsets) (N sizeAll) (N bytes)).map toString)
  | _ => "bad-op"

partial def loop (h : IO.FS.Stream) : IO Unit := do
  let line ← h.getLine
  if line.isEmpty then return ()
  IO.println (stepLine line)
  loop h

def main : IO Unit := do loop (← IO.getStdin)
end Driver.C10
