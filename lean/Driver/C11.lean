import StirVerif.C11.Model
import StirVerif.C11.NDim
/-! Line-protocol driver for C11 (see harness/c11_arrays.cxx for the implementation side). -/
namespace Driver.C11
open StirVerif.C11

def fmtVec (v : Vec) : String :=
  let cs := match v.contents? with
    | some cs => " ".intercalate (cs.map toString)
    | none => "OOB"
  s!"{v.minIndex},{v.maxIndex}:[{cs}]"

def fmtRegs (rs : Regs) : String :=
  " ".intercalate ((List.range rs.length).map fun k => s!"r{k}={fmtVec (getR rs k)}")

def fmtOut : Out → String
  | .ok => "ok"
  | .errRange => "err"
  | .val x => s!"val:{x}"
  | .bool b => if b then "bool:1" else "bool:0"
  | .skip => "skip"

def parseOp (toks : List String) : Option Op :=
  match toks with
  | ["resize", r, a, b] => do pure (.resize (← r.toNat?) (← a.toInt?) (← b.toInt?))
  | ["grow", r, a, b] => do pure (.grow (← r.toNat?) (← a.toInt?) (← b.toInt?))
  | ["reserve", r, a, b] => do pure (.reserve (← r.toNat?) (← a.toInt?) (← b.toInt?))
  | ["setoff", r, a] => do pure (.setOffset (← r.toNat?) (← a.toInt?))
  | ["assign", d, s] => do pure (.assign (← d.toNat?) (← s.toNat?))
  | ["fill", r, x] => do pure (.fill (← r.toNat?) (← x.toInt?))
  | ["set", r, i, x] => do pure (.setAt (← r.toNat?) (← i.toInt?) (← x.toInt?))
  | ["get", r, i] => do pure (.getAt (← r.toNat?) (← i.toInt?))
  | ["add", d, s] => do pure (.addAssign (← d.toNat?) (← s.toNat?))
  | ["badd", d, s] => do pure (.baseAdd (← d.toNat?) (← s.toNat?))
  | ["recycle", r] => do pure (.recycle (← r.toNat?))
  | ["eq", a, b] => do pure (.eq (← a.toNat?) (← b.toNat?))
  | ["sub", d, s] => do pure (.arith .sub (← d.toNat?) (← s.toNat?))
  | ["mul", d, s] => do pure (.arith .mul (← d.toNat?) (← s.toNat?))
  | ["div", d, s] => do pure (.arith .div (← d.toNat?) (← s.toNat?))
  | ["bsub", d, s] => do pure (.baseArith .sub (← d.toNat?) (← s.toNat?))
  | ["bmul", d, s] => do pure (.baseArith .mul (← d.toNat?) (← s.toNat?))
  | ["bdiv", d, s] => do pure (.baseArith .div (← d.toNat?) (← s.toNat?))
  | ["sadd", r, x] => do pure (.scalar .add (← r.toNat?) (← x.toInt?))
  | ["ssub", r, x] => do pure (.scalar .sub (← r.toNat?) (← x.toInt?))
  | ["smul", r, x] => do pure (.scalar .mul (← r.toNat?) (← x.toInt?))
  | ["sdiv", r, x] => do pure (.scalar .div (← r.toNat?) (← x.toInt?))
  | ["plus", d, x, y] => do pure (.bin .add (← d.toNat?) (← x.toNat?) (← y.toNat?))
  | ["minus", d, x, y] => do pure (.bin .sub (← d.toNat?) (← x.toNat?) (← y.toNat?))
  | ["times", d, x, y] => do pure (.bin .mul (← d.toNat?) (← x.toNat?) (← y.toNat?))
  | ["over", d, x, y] => do pure (.bin .div (← d.toNat?) (← x.toNat?) (← y.toNat?))
  | ["pluss", d, x, c] => do pure (.binScalar .add (← d.toNat?) (← x.toNat?) (← c.toInt?))
  | ["minuss", d, x, c] => do pure (.binScalar .sub (← d.toNat?) (← x.toNat?) (← c.toInt?))
  | ["timess", d, x, c] => do pure (.binScalar .mul (← d.toNat?) (← x.toNat?) (← c.toInt?))
  | ["overs", d, x, c] => do pure (.binScalar .div (← d.toNat?) (← x.toNat?) (← c.toInt?))
  | ["xapyb", d, x, a, y, b] => do pure (.xapyb (← d.toNat?) (← x.toNat?) (← a.toInt?) (← y.toNat?) (← b.toInt?))
  | ["xapybv", d, x, a, y, b] => do pure (.xapybVec (← d.toNat?) (← x.toNat?) (← a.toNat?) (← y.toNat?) (← b.toNat?))
  | ["sapyb", d, a, y, b] => do pure (.sapyb (← d.toNat?) (← a.toInt?) (← y.toNat?) (← b.toInt?))
  | ["sapybv", d, a, y, b] => do pure (.sapybVec (← d.toNat?) (← a.toNat?) (← y.toNat?) (← b.toNat?))
  | _ => none

def initRegs : Regs := [Vec.empty, Vec.empty, Vec.empty]

/-- nested array from the token stream `N <lo> <k> <child>*k` / `L <lo> <k> <value>*k` -/
partial def parseTree : List String → Option (RArr × List String)
  | "L" :: lo :: n :: rest => do
    let lo ← lo.toInt?
    let n ← n.toNat?
    let vals := rest.take n
    if vals.length ≠ n then none
    let xs ← vals.mapM String.toInt?
    pure (.leaf lo xs, rest.drop n)
  | "N" :: lo :: n :: rest => do
    let lo ← lo.toInt?
    let n ← n.toNat?
    let rec rows (k : Nat) (toks : List String) (acc : List RArr) : Option (List RArr × List String) :=
      match k with
      | 0 => some (acc.reverse, toks)
      | k + 1 => do
        let (r, toks') ← parseTree toks
        rows k toks' (r :: acc)
    let (rs, rest') ← rows n rest []
    pure (.node lo rs, rest')
  | _ => none

/-- `nd <tree> @ <c1> … <cn>`: the checked access `at(coordinate)` on the serialised array, and its `size_all()` -/
def ndLine (toks : List String) : String :=
  match parseTree toks with
  | some (a, "@" :: cs) =>
    match cs.mapM String.toInt? with
    | some cs =>
      let r := match a.at? cs with
        | some x => s!"val:{x}"
        | none => "err"
      s!"{r} size={a.sizeAll}"
    | none => "bad-op"
  | _ => "bad-op"

/-- state: `none` after a memory-unsafe step (everything until the next `reset` answers UNSAFE) -/
def stepLine (st : Option Regs) (line : String) : Option Regs × String :=
  let toks := (line.trimAscii.toString.splitOn " ").filter (· ≠ "")
  match toks with
  | ["reset"] => (some initRegs, "reset")
  | "nd" :: rest => (st, ndLine rest)
  | _ =>
    match st with
    | none => (none, "UNSAFE")
    | some rs =>
      match parseOp toks with
      | none => (st, "bad-op")
      | some op =>
        match step rs op with
        | none => (none, "UNSAFE")
        | some (rs', o) => (some rs', s!"{fmtOut o} {fmtRegs rs'}")

partial def loop (h : IO.FS.Stream) (st : Option Regs) : IO Unit := do
  let line ← h.getLine
  if line.isEmpty then return ()
  let (st', out) := stepLine st line
  IO.println out
  loop h st'

def main : IO Unit := do loop (← IO.getStdin) (some initRegs)

end Driver.C11
