import StirVerif.C11.Model
/-! Line-protocol driver for C11 (see harness/c11_arrays.cxx for the implementation side). -/
namespace Driver.C11
open StirVerif.C11

def fmtVec (v : Vec) : String :=
  let cs := match v.contents? with
    | some cs => " ".intercalate (cs.map toString)
    | none => "OOB"
  s!"{v.minIndex},{v.maxIndex}:[{cs}]"

def fmtRegs (rs : Regs) : String :=
  " ".intercalate ((List.range rs.length).map fun k => s!"r{k}={fmtVec (getR rs k)}")

def fmtOut : Out → String
  | .ok => "ok"
  | .errRange => "err"
  | .val x => s!"val:{x}"
  | .bool b => if b then "bool:1" else "bool:0"

def parseOp (toks : List String) : Option Op :=
  match toks with
  | ["resize", r, a, b] => do pure (.resize (← r.toNat?) (← a.toInt?) (← b.toInt?))
  | ["grow", r, a, b] => do pure (.grow (← r.toNat?) (← a.toInt?) (← b.toInt?))
  | ["reserve", r, a, b] => do pure (.reserve (← r.toNat?) (← a.toInt?) (← b.toInt?))
  | ["setoff", r, a] => do pure (.setOffset (← r.toNat?) (← a.toInt?))
  | ["assign", d, s] => do pure (.assign (← d.toNat?) (← s.toNat?))
  | ["fill", r, x] => do pure (.fill (← r.toNat?) (← x.toInt?))
  | ["set", r, i, x] => do pure (.setAt (← r.toNat?) (← i.toInt?) (← x.toInt?))
  | ["get", r, i] => do pure (.getAt (← r.toNat?) (← i.toInt?))
  | ["add", d, s] => do pure (.addAssign (← d.toNat?) (← s.toNat?))
  | ["badd", d, s] => do pure (.baseAdd (← d.toNat?) (← s.toNat?))
  | ["recycle", r] => do pure (.recycle (← r.toNat?))
  | ["eq", a, b] => do pure (.eq (← a.toNat?) (← b.toNat?))
  | _ => none

def initRegs : Regs := [Vec.empty, Vec.empty, Vec.empty]

/-- state: `none` after a memory-unsafe step (everything until the next `reset` answers UNSAFE) -/
def stepLine (st : Option Regs) (line : String) : Option Regs × String :=
  let toks := (line.trimAscii.toString.splitOn " ").filter (· ≠ "")
  match toks with
  | ["reset"] => (some initRegs, "reset")
  | _ =>
    match st with
    | none => (none, "UNSAFE")
    | some rs =>
      match parseOp toks with
      | none => (st, "bad-op")
      | some op =>
        match step rs op with
        | none => (none, "UNSAFE")
        | some (rs', o) => (some rs', s!"{fmtOut o} {fmtRegs rs'}")

partial def loop (h : IO.FS.Stream) (st : Option Regs) : IO Unit := do
  let line ← h.getLine
  if line.isEmpty then return ()
  let (st', out) := stepLine st line
  IO.println out
  loop h st'

def main : IO Unit := do loop (← IO.getStdin) (some initRegs)

end Driver.C11
