import Driver.C03
def main : IO Unit := Driver.C03.main
