import Driver.C17
def main : IO Unit := Driver.C17.main
