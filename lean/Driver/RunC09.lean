import Driver.C09
def main : IO Unit := Driver.C09.main
