import StirVerif.C04.Model
import Std.Data.HashMap
/-! Line-protocol driver for C04 (implementation side: harness/c04_projectors.cxx).

The model (`StirVerif.C04`) is executed at `K = Rat` three times with the *same definitions*:
* on the transmitted rows / images / data (exact value),
* on their absolute values (magnitude `M = Σ|terms|` of the sum of products the implementation accumulates in `float`),
* on the 0/1 patterns (number `n` of accumulated terms).
Every numeric answer is `value|M|n` (rationals as `num/den`); `checks/c04.py` accepts an implementation value `f` iff
`|f − value| ≤ 4·(n+1)·2⁻²⁴·M`. -/
namespace Driver.C04
open StirVerif.C04

/-! ### exact parsing of C99 hex floats -/

def hexVal (c : Char) : Option Nat :=
  if '0' ≤ c ∧ c ≤ '9' then some (c.toNat - '0'.toNat)
  else if 'a' ≤ c ∧ c ≤ 'f' then some (c.toNat - 'a'.toNat + 10)
  else if 'A' ≤ c ∧ c ≤ 'F' then some (c.toNat - 'A'.toNat + 10)
  else none

def pow2 (e : Int) : Rat := if e ≥ 0 then ((2 ^ e.toNat : Nat) : Rat) else 1 / ((2 ^ (-e).toNat : Nat) : Rat)

/-- `[-]0x<hex>[.<hex>]p<±dec>` → exact rational; `none` for `inf`, `nan`, garbage -/
def parseHex (s : String) : Option Rat := do
  let cs := s.toList
  let (neg, cs) := match cs with
    | '-' :: r => (true, r)
    | '+' :: r => (false, r)
    | r => (false, r)
  let cs ← match cs with
    | '0' :: 'x' :: r => some r
    | '0' :: 'X' :: r => some r
    | _ => none
  let rec mant (cs : List Char) (acc : Nat) (frac : Nat) (seenDot : Bool) (any : Bool) : Option (Nat × Nat × List Char) :=
    match cs with
    | [] => none
    | 'p' :: r => if any then some (acc, frac, r) else none
    | 'P' :: r => if any then some (acc, frac, r) else none
    | '.' :: r => if seenDot then none else mant r acc frac true any
    | c :: r =>
      match hexVal c with
      | some d => mant r (acc * 16 + d) (if seenDot then frac + 1 else frac) seenDot true
      | none => none
  let (m, frac, rest) ← mant cs 0 0 false false
  let e ← match rest with
    | '+' :: r => (String.ofList r).toInt?
    | r => (String.ofList r).toInt?
  let q : Rat := (m : Rat) * pow2 (e - 4 * (frac : Int))
  some (if neg then -q else q)

def I (s : String) : Int := s.toInt?.getD 0

def fmtQ (q : Rat) : String := if q.den = 1 then toString q.num else s!"{q.num}/{q.den}"

def qabs (q : Rat) : Rat := if q < 0 then -q else q

/-- "a,b" → (a, b) -/
def pair (s : String) : Int × Int :=
  match s.splitOn "," with
  | [a, b] => (I a, I b)
  | _ => (0, 0)

/-! ### state -/

/-- value / magnitude / number of terms -/
structure Tri where
  v : Array Rat
  m : Array Rat
  c : Array Rat

def Tri.lit (a : Array Rat) : Tri := ⟨a, a.map qabs, a.map fun _ => 0⟩

def Tri.fmt (t : Tri) : String :=
  " ".intercalate ((List.range t.v.size).map fun i =>
    s!"{fmtQ (t.v.getD i 0)}|{fmtQ (t.m.getD i 0)}|{fmtQ (t.c.getD i 0)}")

def Tri.fmtAt (t : Tri) (ix : List Nat) : String :=
  " ".intercalate (ix.map fun i => s!"{fmtQ (t.v.getD i 0)}|{fmtQ (t.m.getD i 0)}|{fmtQ (t.c.getD i 0)}")

/-- the harness' own data processors (exact on small integers): null pointer, `image *= c`, the symmetric stencil
    `out[x] = in[x-1] + 2 in[x] + in[x+1]` along x (missing neighbours count as 0), one whose `apply` fails -/
inductive ProcKind where
  | none
  | scale (c : Int)
  | smx
  | fail
  deriving Repr, Inhabited

structure St where
  -- image grid
  zmin : Int := 0
  zmax : Int := 0
  ymin : Int := 0
  ymax : Int := 0
  xmin : Int := 0
  xmax : Int := 0
  -- projection data ranges
  minSeg : Int := 0
  maxSeg : Int := 0
  minView : Int := 0
  maxView : Int := 0
  minTang : Int := 0
  maxTang : Int := 0
  minTof : Int := 0
  maxTof : Int := 0
  axMin : Array Int := #[]
  axMax : Array Int := #[]
  segOff : Array Nat := #[]
  nbins : Nat := 0
  -- rows: exact, absolute values, 0/1 pattern
  rowsV : Array (Row Rat) := #[]
  rowsM : Array (Row Rat) := #[]
  rowsC : Array (Row Rat) := #[]
  -- symmetries as data
  basic : Std.HashMap (Int × Int) (List (Int × Int)) := {}
  relF : Std.HashMap (Int × Int × Int × Int × Int) (List (Int × Int)) := {}
  relR : Std.HashMap (Int × Int) (List (Int × Int)) := {}
  cache : Bool := true
  imgs : Std.HashMap String (Array Rat) := {}
  dats : Std.HashMap String Tri := {}
  bp : Option (BackProj Rat × BackProj Rat × BackProj Rat) := none
  -- geometry of a smaller projection-data object passed to projectors set up with the geometry above
  sMinSeg : Int := 0
  sMaxSeg : Int := 0
  sMinTang : Int := 0
  sMaxTang : Int := 0
  sAxMin : Array Int := #[]
  sAxMax : Array Int := #[]
  sSegOff : Array Nat := #[]
  sNbins : Nat := 0
  relS : Std.HashMap (Int × Int × Int × Int × Int) (List (Int × Int)) := {}
  -- data processors installed in the projectors
  pre : ProcKind := .none
  post : ProcKind := .none
  -- histories: matrix objects that live through several set_ups (`MatrixObj`, rows kept as the transmitted text) and the
  -- rows of a fresh matrix per geometry, `(geometry id, seg, view, ax, tang, tof) ↦ row`
  mobjs : Std.HashMap Nat (MatrixObj Nat String) := {}
  mtab : Std.HashMap (Nat × Int × Int × Int × Int × Int) (Row String) := {}

def St.nvox (s : St) : Nat := ((s.zmax - s.zmin + 1) * (s.ymax - s.ymin + 1) * (s.xmax - s.xmin + 1)).toNat

def St.ig (s : St) : ImgGeom :=
  let ny := s.ymax - s.ymin + 1
  let nx := s.xmax - s.xmin + 1
  { zmin := s.zmin, zmax := s.zmax,
    lin := fun v => (((v.1 - s.zmin) * ny + (v.2.1 - s.ymin)) * nx + (v.2.2 - s.xmin)).toNat }

def St.axMinF (s : St) (seg : Int) : Int := s.axMin.getD (seg - s.minSeg).toNat 0
def St.axMaxF (s : St) (seg : Int) : Int := s.axMax.getD (seg - s.minSeg).toNat (-1)

def St.G (s : St) : PDGeom :=
  { minSeg := s.minSeg, maxSeg := s.maxSeg, minView := s.minView, maxView := s.maxView, minTang := s.minTang,
    maxTang := s.maxTang, minTof := s.minTof, maxTof := s.maxTof, axMin := s.axMinF, axMax := s.axMaxF }

/-- layout of the projection data in the answers: segment, view, timing position, axial position, tangential position -/
def St.idx (s : St) (b : Bin) : Nat :=
  let nTof := s.maxTof - s.minTof + 1
  let nA := s.axMaxF b.seg - s.axMinF b.seg + 1
  let nT := s.maxTang - s.minTang + 1
  s.segOff.getD (b.seg - s.minSeg).toNat 0 +
    (((((b.view - s.minView) * nTof + (b.tof - s.minTof)) * nA + (b.ax - s.axMinF b.seg)) * nT + (b.tang - s.minTang))).toNat

def St.S (s : St) : Syms :=
  { isBasic := fun v sg => s.basic.contains (v, sg),
    related := fun v sg => (s.basic.get? (v, sg)).getD [],
    rel := fun v sg k a t => (s.relF.get? (v, sg, k, a, t)).getD [] }

def ones (n : Nat) : Array Rat := Array.replicate n 1
def pat (a : Array Rat) : Array Rat := a.map fun q => if q = 0 then 0 else 1

/-! ### the smaller projection data (`sub`) -/

def St.sAxMinF (s : St) (seg : Int) : Int := s.sAxMin.getD (seg - s.sMinSeg).toNat 0
def St.sAxMaxF (s : St) (seg : Int) : Int := s.sAxMax.getD (seg - s.sMinSeg).toNat (-1)

def St.subG (s : St) : PDGeom :=
  { minSeg := s.sMinSeg, maxSeg := s.sMaxSeg, minView := s.minView, maxView := s.maxView, minTang := s.sMinTang,
    maxTang := s.sMaxTang, minTof := s.minTof, maxTof := s.maxTof, axMin := s.sAxMinF, axMax := s.sAxMaxF }

/-- layout of the smaller projection data (same order of the coordinates) -/
def St.subIdx (s : St) (b : Bin) : Nat :=
  let nTof := s.maxTof - s.minTof + 1
  let nA := s.sAxMaxF b.seg - s.sAxMinF b.seg + 1
  let nT := s.sMaxTang - s.sMinTang + 1
  s.sSegOff.getD (b.seg - s.sMinSeg).toNat 0 +
    (((((b.view - s.minView) * nTof + (b.tof - s.minTof)) * nA + (b.ax - s.sAxMinF b.seg)) * nT + (b.tang - s.sMinTang))).toNat

/-- the symmetries of the set-up geometry, with the related-position lists asked for with the ranges of the smaller data -/
def St.subS (s : St) : Syms :=
  { s.S with rel := fun v sg k a t => (s.relS.get? (v, sg, k, a, t)).getD [] }

/-! ### data processors -/

def ProcKind.parse (toks : List String) : ProcKind :=
  match toks with
  | ["scale", c] => .scale (I c)
  | ["smx"] => .smx
  | ["fail"] => .fail
  | _ => .none

/-- the processor as a function on the voxel array (x runs fastest) -/
def ProcKind.fn (k : ProcKind) (nx : Nat) : Option (Proc Rat) :=
  match k with
  | .none => Option.none
  | .scale c => some (procScale ((c : Int) : Rat))
  | .fail => some fun _ => Option.none
  | .smx => some fun a => some <| (Array.range a.size).map fun i =>
      let x := i % nx
      2 * a.getD i 0 + (if x > 0 then a.getD (i - 1) 0 else 0) + (if x + 1 < nx then a.getD (i + 1) 0 else 0)

/-- the same processor acting on magnitudes (|coefficients|) -/
def ProcKind.abs (k : ProcKind) : ProcKind :=
  match k with
  | .scale c => .scale c.natAbs
  | k => k

def St.nx (s : St) : Nat := (s.xmax - s.xmin + 1).toNat

/-- the three runs (value, magnitude, number of terms) of the image the forward projector works on after `set_input` -/
def St.preTri (s : St) (x : Array Rat) : Option (Proc Rat) × Option (Proc Rat) × Option (Proc Rat) :=
  match s.pre.fn s.nx with
  | Option.none => (Option.none, some fun _ => some (x.map qabs), some fun _ => some (ones x.size))
  | some p => (some p, some fun _ => (p x).map (·.map qabs), some fun _ => (p x).map fun a => ones a.size)

/-- `get_output` of the three runs: the processor on the values, the |processor| on the magnitudes, and for the number of
    terms the |processor| again (all its coefficients are ≥ 1 in absolute value, so this is ≥ the largest count in the
    stencil) plus 4 for the processor's own float operations -/
def St.outTri (s : St) (a b c : BackProj Rat) : Option Tri :=
  match a.getOutputPost (s.post.fn s.nx), b.getOutputPost (s.post.abs.fn s.nx), c.getOutputPost (s.post.abs.fn s.nx) with
  | some v, some m, some n =>
    match s.post with
    | .none => some ⟨v, m, n⟩
    | _ => some ⟨v, m, n.map (· + 4)⟩
  | _, _, _ => Option.none

def St.rowsOf (s : St) (tab : Array (Row Rat)) : Bin → Row Rat := fun b => tab.getD (s.idx b) []


def parseRowElem (tok : String) : Option (Vox × Rat) :=
  match tok.splitOn ":" with
  | [c, w] =>
    match c.splitOn ",", parseHex w with
    | [z, y, x], some q => some ((I z, I y, I x), q)
    | _, _ => none
  | _ => none

def bin5 (s v a t k : String) : Bin := ⟨I s, I v, I a, I t, I k⟩

/-- a row kept as text: `z,y,x:<hex>` ↦ `((z, y, x), "<hex>")` -/
def parseRowElemS (tok : String) : Option (Vox × String) :=
  match tok.splitOn ":" with
  | [c, w] =>
    match c.splitOn "," with
    | [z, y, x] => some ((I z, I y, I x), w)
    | _ => none
  | _ => none

def fmtRowS (r : Row String) : String :=
  " ".intercalate (r.map fun e => s!"{e.1.1},{e.1.2.1},{e.1.2.2}:{e.2}")

/-- the matrix type and the symmetries as data for the history operations: the rows of a fresh matrix per geometry are
    transmitted for the very bins that are requested, every bin counts as basic (the symmetry operations are C03's subject) -/
def St.mdata (s : St) : MatrixData Nat String :=
  { compute := fun g b => (s.mtab.get? (g, b.seg, b.view, b.ax, b.tang, b.tof)).getD [((0, 0, 0), "missing")],
    basicOf := fun _ b => b,
    transform := fun _ _ r => r }

def stepLine (st : St) (line : String) : St × String :=
  let toks := (line.trimAscii.toString.splitOn " ").filter (· ≠ "")
  match toks with
  | "cfg" :: _ => (st, "ok")
  | ["grid", a, b, c, d, e, f] =>
    let st := { st with zmin := I a, zmax := I b, ymin := I c, ymax := I d, xmin := I e, xmax := I f, imgs := {}, bp := none }
    (st, s!"ok {st.nvox}")
  | "geom" :: a :: b :: c :: d :: e :: f :: g :: h :: axs =>
    let prs := axs.map pair
    let st := { st with minSeg := I a, maxSeg := I b, minView := I c, maxView := I d, minTang := I e, maxTang := I f,
                        minTof := I g, maxTof := I h,
                        axMin := (prs.map fun (p : Int × Int) => p.1).toArray,
                        axMax := (prs.map fun (p : Int × Int) => p.2).toArray }
    let per (p : Int × Int) : Nat :=
      ((st.maxView - st.minView + 1) * (st.maxTof - st.minTof + 1) * (p.2 - p.1 + 1) * (st.maxTang - st.minTang + 1)).toNat
    let (offs, tot) := prs.foldl (fun (acc : Array Nat × Nat) p => (acc.1.push acc.2, acc.2 + per p)) (#[], 0)
    let st := { st with segOff := offs, nbins := tot, dats := {},
                        rowsV := Array.replicate tot [], rowsM := Array.replicate tot [], rowsC := Array.replicate tot [] }
    (st, s!"ok {tot}")
  | "sub" :: a :: b :: e :: f :: axs =>
    -- the geometry of a smaller ProjData: segments a..b, tangential positions e..f, axial ranges per segment
    let prs := axs.map pair
    let st := { st with sMinSeg := I a, sMaxSeg := I b, sMinTang := I e, sMaxTang := I f,
                        sAxMin := (prs.map fun (p : Int × Int) => p.1).toArray,
                        sAxMax := (prs.map fun (p : Int × Int) => p.2).toArray, relS := {} }
    let per (p : Int × Int) : Nat :=
      ((st.maxView - st.minView + 1) * (st.maxTof - st.minTof + 1) * (p.2 - p.1 + 1) * (st.sMaxTang - st.sMinTang + 1)).toNat
    let (offs, tot) := prs.foldl (fun (acc : Array Nat × Nat) p => (acc.1.push acc.2, acc.2 + per p)) (#[], 0)
    let st := { st with sSegOff := offs, sNbins := tot }
    (st, s!"ok {tot}")
  | "rel2" :: v :: s :: k :: a :: t :: rest =>
    let l := rest.map pair
    ({ st with relS := st.relS.insert (I v, I s, I k, I a, I t) l }, toString l.length)
  | "pre" :: rest => ({ st with pre := ProcKind.parse rest }, "ok")
  | "post" :: rest => ({ st with post := ProcKind.parse rest }, "ok")
  | ["rowset"] =>
    ({ st with rowsV := Array.replicate st.nbins [], rowsM := Array.replicate st.nbins [], rowsC := Array.replicate st.nbins [] }, "ok")
  | "row" :: s :: v :: a :: t :: k :: elems =>
    let es := elems.filterMap parseRowElem
    if es.length ≠ elems.length then (st, "bad-row")
    else
      let i := st.idx (bin5 s v a t k)
      ({ st with rowsV := st.rowsV.setIfInBounds i es,
                 rowsM := st.rowsM.setIfInBounds i (es.map fun e => (e.1, qabs e.2)),
                 rowsC := st.rowsC.setIfInBounds i (es.map fun e => (e.1, (1 : Rat))) },
       s!"{i} {es.length}")
  | ["sym"] => ({ st with basic := {}, relF := {}, relR := {} }, "ok")
  | "vs" :: v :: s :: rest =>
    let l := rest.map pair
    ({ st with basic := st.basic.insert (I v, I s) l }, toString l.length)
  | "rel" :: v :: s :: k :: a :: t :: rest =>
    let l := rest.map pair
    ({ st with relF := st.relF.insert (I v, I s, I k, I a, I t) l }, toString l.length)
  | "relr" :: a :: t :: rest =>
    let l := rest.map pair
    ({ st with relR := st.relR.insert (I a, I t) l }, toString l.length)
  | ["cache", c] => ({ st with cache := c == "1" }, "ok")
  -- histories of one matrix object: construction, set_up (base class / ray tracing version), row request
  | ["mnew", o, ce, ob] =>
    ({ st with mobjs := st.mobjs.insert (I o).toNat (MatrixObj.new (ce == "1") (ob == "1")) }, "ok")
  | ["mset", o, g, rt] =>
    match st.mobjs.get? (I o).toNat with
    | some m =>
      let m' := if rt == "1" then m.setUpRT (I g).toNat else m.setUp (I g).toNat
      ({ st with mobjs := st.mobjs.insert (I o).toNat m' }, "ok")
    | none => (st, "err")
  | "mdef" :: g :: s :: v :: a :: t :: k :: elems =>
    let es := elems.filterMap parseRowElemS
    if es.length ≠ elems.length then (st, "bad-row")
    else ({ st with mtab := st.mtab.insert ((I g).toNat, I s, I v, I a, I t, I k) es }, toString es.length)
  | ["mget", o, s, v, a, t, k] =>
    match st.mobjs.get? (I o).toNat with
    | some m =>
      match m.getRow st.mdata (bin5 s v a t k) with
      | some (r, m') => ({ st with mobjs := st.mobjs.insert (I o).toNat m' }, fmtRowS r)
      | none => (st, "err")
    | none => (st, "err")
  | "img" :: name :: vals =>
    let a := (vals.map fun s => ((I s : Int) : Rat)).toArray
    ({ st with imgs := st.imgs.insert name a }, s!"ok {a.size}")
  | "dat" :: name :: vals =>
    let a := (vals.map fun s => ((I s : Int) : Rat)).toArray
    ({ st with dats := st.dats.insert name (Tri.lit a) }, s!"ok {a.size}")
  | ["fwd", out, img, dat, i, n, zero] =>
    match st.imgs.get? img, st.dats.get? dat with
    | some x, some d =>
      let run (tab : Array (Row Rat)) (pre : Option (Proc Rat)) (d : Array Rat) : Option (Array Rat) :=
        fwdProject (st.rowsOf tab) st.ig st.idx st.G st.S pre st.cache x d (I i) (I n) (zero == "1")
      let (pv, pm, pc) := st.preTri x
      match run st.rowsV pv d.v, run st.rowsM pm d.m, run st.rowsC pc d.c with
      | some v, some m, some c =>
        let t : Tri := ⟨v, m, c⟩
        ({ st with dats := st.dats.insert out t }, t.fmt)
      | _, _, _ => (st, "err")
    | _, _ => (st, "bad-name")
  | ["fwd2", out, img, dat, i, n, zero] =>
    -- the same projector (same rows, same symmetries) called with the smaller projection data
    match st.imgs.get? img, st.dats.get? dat with
    | some x, some d =>
      let run (tab : Array (Row Rat)) (pre : Option (Proc Rat)) (d : Array Rat) : Option (Array Rat) :=
        fwdProject (st.rowsOf tab) st.ig st.subIdx st.subG st.subS pre st.cache x d (I i) (I n) (zero == "1")
      let (pv, pm, pc) := st.preTri x
      match run st.rowsV pv d.v, run st.rowsM pm d.m, run st.rowsC pc d.c with
      | some v, some m, some c =>
        let t : Tri := ⟨v, m, c⟩
        ({ st with dats := st.dats.insert out t }, t.fmt)
      | _, _, _ => (st, "err")
    | _, _ => (st, "bad-name")
  | ["bsub2", dat, i, n] =>
    match st.bp, st.dats.get? dat with
    | some (a, b, c), some y =>
      let go (tab : Array (Row Rat)) (s : BackProj Rat) (y : Array Rat) : BackProj Rat :=
        BackProj.backSubset (st.rowsOf tab) st.ig st.subIdx st.subG st.subS st.cache s y (I i) (I n)
      ({ st with bp := some (go st.rowsV a y.v, go st.rowsM b (y.v.map qabs), go st.rowsC c (pat y.v)) }, "ok")
    | _, _ => (st, "err")
  | ["fwdg", out, img, dat, v, s, k, a0, a1, t0, t1] =>
    match st.imgs.get? img, st.dats.get? dat with
    | some x, some d =>
      let vgs := st.S.vgs (I v) (I s) (I k)
      let r : Range := ⟨I a0, I a1, I t0, I t1⟩
      let rel := fun a t => (st.relR.get? (a, t)).getD []
      let run (tab : Array (Row Rat)) (x d : Array Rat) : Array Rat :=
        fwdRelated (st.rowsOf tab) st.ig st.idx st.cache rel vgs r x d
      let t : Tri := ⟨run st.rowsV x d.v, run st.rowsM (x.map qabs) d.m, run st.rowsC (ones x.size) d.c⟩
      let ix := (vgs.flatMap st.G.viewgramBins).map st.idx
      ({ st with dats := st.dats.insert out t, relR := {} }, t.fmtAt ix)
    | _, _ => (st, "bad-name")
  | "rfwd" :: img :: acc :: elems =>
    -- ProjMatrixElemsForOneBin::forward_project called directly on a bin that comes in with the value `acc`
    match st.imgs.get? img with
    | some x =>
      let es := elems.filterMap parseRowElem
      if es.length ≠ elems.length then (st, "bad-row")
      else
        let a : Rat := ((I acc : Int) : Rat)
        let v := fwdRow st.ig es x a
        let m := fwdRow st.ig (es.map fun e => (e.1, qabs e.2)) (x.map qabs) (qabs a)
        let c := fwdRow st.ig (es.map fun e => (e.1, (1 : Rat))) (ones x.size) 0
        (st, s!"{fmtQ v}|{fmtQ m}|{fmtQ c}")
    | none => (st, "bad-name")
  | "rbck" :: img :: yv :: elems =>
    match st.imgs.get? img with
    | some x =>
      let es := elems.filterMap parseRowElem
      if es.length ≠ elems.length then (st, "bad-row")
      else
        let y : Rat := ((I yv : Int) : Rat)
        let t : Tri := ⟨bckRow st.ig es y x,
                        bckRow st.ig (es.map fun e => (e.1, qabs e.2)) (qabs y) (x.map qabs),
                        bckRow st.ig (es.map fun e => (e.1, (1 : Rat))) (if y = 0 then 0 else 1) (x.map fun _ => 0)⟩
        (st, t.fmt)
    | none => (st, "bad-name")
  | ["bsetup", img] =>
    match st.imgs.get? img with
    | some x => ({ st with bp := some (BackProj.setUp x, BackProj.setUp (x.map qabs), BackProj.setUp (x.map fun _ => 0)) }, "ok")
    | none => (st, "bad-name")
  | ["bstart"] =>
    match st.bp with
    | some (a, b, c) => ({ st with bp := some (a.start, b.start, c.start) }, "ok")
    | none => (st, "err")
  | ["bsub", dat, i, n] =>
    match st.bp, st.dats.get? dat with
    | some (a, b, c), some y =>
      let go (tab : Array (Row Rat)) (s : BackProj Rat) (y : Array Rat) : BackProj Rat :=
        BackProj.backSubset (st.rowsOf tab) st.ig st.idx st.G st.S st.cache s y (I i) (I n)
      ({ st with bp := some (go st.rowsV a y.v, go st.rowsM b (y.v.map qabs), go st.rowsC c (pat y.v)) }, "ok")
    | _, _ => (st, "err")
  | ["bgrp", dat, v, s, k, a0, a1, t0, t1] =>
    match st.bp, st.dats.get? dat with
    | some (a, b, c), some y =>
      let vgs := st.S.vgs (I v) (I s) (I k)
      let r : Range := ⟨I a0, I a1, I t0, I t1⟩
      let rel := fun a t => (st.relR.get? (a, t)).getD []
      let go (tab : Array (Row Rat)) (s : BackProj Rat) (y : Array Rat) : BackProj Rat :=
        BackProj.backRelated (st.rowsOf tab) st.ig st.idx st.cache s rel vgs r y
      ({ st with bp := some (go st.rowsV a y.v, go st.rowsM b (y.v.map qabs), go st.rowsC c (pat y.v)), relR := {} }, "ok")
    | _, _ => (st, "err")
  | ["bout"] =>
    match st.bp with
    | some (a, b, c) =>
      match st.outTri a b c with
      | some t => (st, t.fmt)
      | Option.none => (st, "err")
    | none => (st, "err")
  | ["binto", dat, i, n] =>
    match st.bp, st.dats.get? dat with
    | some (a, b, c), some y =>
      let go (tab : Array (Row Rat)) (post : ProcKind) (s : BackProj Rat) (y : Array Rat) : BackProj Rat × Option (Array Rat) :=
        BackProj.backIntoPost (st.rowsOf tab) st.ig st.idx st.G st.S (post.fn st.nx) st.cache s y (I i) (I n)
      let (a', oa) := go st.rowsV st.post a y.v
      let (b', ob) := go st.rowsM st.post.abs b (y.v.map qabs)
      let (c', oc) := go st.rowsC st.post.abs c (pat y.v)
      match oa, ob, oc with
      | some oa, some ob, some oc =>
        let oc := match st.post with
          | .none => oc
          | _ => oc.map (· + 4)
        ({ st with bp := some (a', b', c') }, (Tri.mk oa ob oc).fmt)
      | _, _, _ => ({ st with bp := some (a', b', c') }, "err")
    | _, _ => (st, "err")
  -- the end points between which `ray_trace_one_lor` traces one ray (square / cylindrical field of view)
  | ["sqchord", f, s, c, sn, vx] =>
    match parseHex f, parseHex s, parseHex c, parseHex sn, parseHex vx with
    | some f, some s, some c, some sn, some vx =>
      match squareChord f s c sn vx with
      | some (lo, hi) => (st, s!"some {fmtQ lo} {fmtQ hi}")
      | none =>
        if rabs c < milli ∨ rabs sn < milli then (st, "none")
        else
          let e := squareEnds f s c sn
          (st, s!"none {fmtQ e.1} {fmtQ e.2}")
    | _, _, _, _, _ => (st, "bad-num")
  | ["cylchord", f, s] =>
    match parseHex f, parseHex s with
    | some f, some s =>
      match cylChordSq f s with
      | some m => (st, s!"some {fmtQ m}")
      | none => (st, "none")
    | _, _ => (st, "bad-num")
  | _ => (st, "bad-op")

partial def loop (h : IO.FS.Stream) (st : St) : IO Unit := do
  let line ← h.getLine
  if line.isEmpty then return ()
  let (st', out) := stepLine st line
  IO.println out
  loop h st'

def main : IO Unit := do loop (← IO.getStdin) {}
end Driver.C04
