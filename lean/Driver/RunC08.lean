import Driver.C08
def main : IO Unit := Driver.C08.main
