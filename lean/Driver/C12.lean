import StirVerif.C12.Model
/-! Line-protocol driver for C12 (implementation side: harness/c12_coordinates.cxx).

Float answers are printed as `<bits of value>:<bits of magnitude>` (binary64 bit patterns, decimal); the check
compares `|impl - value| ≤ C·2⁻²⁴·magnitude` (checks/c12.py). -/
namespace Driver.C12
open StirVerif.C12

def hexDigit (c : Char) : Nat :=
  if '0' ≤ c ∧ c ≤ '9' then c.toNat - '0'.toNat
  else if 'a' ≤ c ∧ c ≤ 'f' then c.toNat - 'a'.toNat + 10
  else if 'A' ≤ c ∧ c ≤ 'F' then c.toNat - 'A'.toNat + 10
  else 0

def pow2 (e : Int) : Rat := if e ≥ 0 then ((2 ^ e.toNat : Nat) : Rat) else 1 / ((2 ^ (-e).toNat : Nat) : Rat)

/-- exact value of a C99 hex float (`%a`) -/
def parseHex (s0 : String) : Rat :=
  let cs := s0.toList
  let (neg, cs) := match cs with
    | '-' :: r => (true, r)
    | '+' :: r => (false, r)
    | r => (false, r)
  match cs with
  | '0' :: 'x' :: body =>
    let mant := body.takeWhile (· ≠ 'p')
    let ex := (body.dropWhile (· ≠ 'p')).drop 1
    let ip := mant.takeWhile (· ≠ '.')
    let fp := (mant.dropWhile (· ≠ '.')).drop 1
    let n : Nat := (ip ++ fp).foldl (fun acc c => acc * 16 + hexDigit c) 0
    let (eneg, ed) := match ex with
      | '-' :: r => (true, r)
      | '+' :: r => (false, r)
      | r => (false, r)
    let e : Nat := ed.foldl (fun acc c => acc * 10 + hexDigit c) 0
    let ei : Int := (if eneg then -(e : Int) else (e : Int)) - 4 * (fp.length : Int)
    let v := ((n : Nat) : Rat) * pow2 ei
    if neg then -v else v
  | _ => 0

def F (q : Rat) : Float := ratToFloat q
def fm (x : FM) : String := s!"{x.v.toBits}:{x.mag.toBits}"
def fmq (v m : Rat) : String := fm ⟨F v, F m⟩
def absQ (q : Rat) : Rat := if q < 0 then -q else q

def fmtBin (b : Bin) : String := s!"{b.seg} {b.view} {b.ax} {b.tang} {b.tof}"

structure Cfg where
  geom : String
  N : Int
  R : Int
  arc : Bool
  minSeg : Int
  segs : List Seg
  minTang : Int
  maxTang : Int
  mash : Int
  V : Int
  tof : Option TofTable
  reffQ : Rat
  spacingQ : Rat
  binSizeQ : Rat
  tiltQ : Rat
  cf : CylF
  bf : BlocksF

def Cfg.cyl (c : Cfg) : CylGeom :=
  { N := c.N, R := c.R, mash := c.mash, minTang := c.minTang, maxTang := c.maxTang, minSeg := c.minSeg, segs := c.segs, tof := c.tof }

def intsOf (l : List String) : List Int := l.map fun s => s.toInt?.getD 0

/-- the `cfg` line: what the constructors of ProjDataInfoCylindrical{ArcCorr,NoArcCorr} / Generic derive -/
def doCfg (t : List String) : Option Cfg × String :=
  match t with
  | geom :: n :: r :: span :: md :: views :: ntang :: arc :: tofm :: maxtof :: reff :: sp :: bs :: tilt :: tofsize ::
      abpb :: tbpb :: acpb :: tcpb :: acs :: tcs :: abs_ :: tbs :: maxna :: _ =>
    let I (s : String) : Int := s.toInt?.getD 0
    let N := I n; let R := I r; let V := I views; let nt := I ntang
    let isArc := I arc == 1
    match ctiSegments (I span) (I md) R with
    | none => (none, "err")
    | some (minSeg, segs) =>
      if geom == "cyl" && segs.any (fun s => (s.axOff R).isNone) then (none, "err")
      else if !isArc && nt > I maxna then (none, "err")
      else if geom != "cyl" && V != N.tdiv 2 then (none, "err")
      else
        let minT := -(nt.tdiv 2)
        let maxT := minT + nt - 1
        if !isArc && (minT < -(N.tdiv 2) + 1 ∨ maxT > -(N.tdiv 2) + N) then (none, "err")
        else
          let tofR : Option (Option TofTable) :=
            -- (blocks / generic data: `set_tof_mash_factor` called by the harness after construction)
            if I maxtof > 0 && I tofm > 0 then (setTofMash (I maxtof) (parseHex tofsize) (I tofm)).map some
            else some none
          match tofR with
          | none => (none, "err")
          | some tof =>
            let mash := (N.tdiv 2).tdiv V
            let cf : CylF := { N := N, V := V, arc := isArc, reff := F (parseHex reff), spacing := F (parseHex sp),
                               binSize := F (parseHex bs), tilt := F (parseHex tilt), spacingQ := parseHex sp }
            let bf : BlocksF := { N := N, R := R, reff := F (parseHex reff), tilt := F (parseHex tilt),
                                  axBlocksPerBucket := I abpb, trBlocksPerBucket := I tbpb, axCrystPerBlock := I acpb,
                                  trCrystPerBlock := I tcpb, axCrystSpacing := F (parseHex acs), trCrystSpacing := F (parseHex tcs),
                                  axBlockSpacing := F (parseHex abs_), trBlockSpacing := F (parseHex tbs) }
            let c : Cfg := { geom := geom, N := N, R := R, arc := isArc, minSeg := minSeg, segs := segs, minTang := minT, maxTang := maxT,
                             mash := mash, V := V, tof := tof, reffQ := parseHex reff, spacingQ := parseHex sp,
                             binSizeQ := parseHex bs, tiltQ := parseHex tilt, cf := cf, bf := bf }
            let (t0, t1, tn) := match tof with
              | some T => (T.minPos, T.maxPos, T.numBins)
              | none => (0, 0, 1)
            (some c, s!"segs {minSeg} : " ++ " ".intercalate (segs.map fun s => s!"{s.minRD},{s.maxRD},{s.numAx}") ++
              s!" | tof {t0} {t1} {tn} | tang {minT} {maxT} | mash {mash}")
  | _ => (none, "bad-cfg")

def kOf (c : Cfg) (t : Int) : Rat := match c.tof with
  | some T => T.k t
  | none => 0   -- tof_increament_in_mm = 0

/-- `coord`: get_s get_phi get_m get_t get_tantheta get_k get_sampling_in_s/_m/_t/_k -/
def doCoord (c : Cfg) (b : Bin) : String :=
  match segAt c.minSeg c.segs b.seg with
  | none => "none"
  | some sg =>
    let cf := c.cf
    let s := cf.getS b.tang
    let sMag := if c.arc then s.abs else cf.reff
    let phi := cf.getPhi b.view
    let phiMag := (Float.ofInt b.view * (piF / Float.ofInt c.V)).abs + cf.phiOffset.abs + 1e-3
    let m := sg.getM c.spacingQ b.ax
    let mMag := absQ ((b.ax : Rat) * sg.axialSampling c.spacingQ) + absQ (sg.mOffset c.spacingQ)
    let tt := cf.getTanTheta sg b.tang
    let cond := if c.arc then (cf.reff * cf.reff + s * s) / (cf.reff * cf.reff - s * s).abs else cf.cond b.tang
    let ttMag := tt.abs * (1 + cond)
    let cosT := 1 / Float.sqrt (1 + tt * tt)
    let tv := F m * cosT
    let k := kOf c b.tof
    let sp1 := cf.getS (b.tang + 1)
    let sm1 := cf.getS (b.tang - 1)
    let ss := (sp1 - sm1).abs / 2
    let ssMag := if c.arc then sp1.abs + sm1.abs + cf.binSize else cf.reff
    let sm := sg.axialSampling c.spacingQ
    let st := F sm * cosT
    let sk := match c.tof with
      | some T => samplingK T.numBins T.inc b.tof
      | none => 0
    " ".intercalate [fm ⟨s, sMag⟩, fm ⟨phi, phiMag⟩, fmq m mMag, fm ⟨tv, F mMag * (1 + cond)⟩, fm ⟨tt, ttMag⟩, fmq k (absQ k),
      fm ⟨ss, ssMag⟩, fmq sm sm, fm ⟨st, F sm * (1 + cond)⟩, fmq sk (absQ sk + absQ k)]

/-- `lor`: ProjDataInfoCylindrical::get_LOR -> z1 z2 phi beta swapped -/
def doLor (c : Cfg) (b : Bin) : String :=
  match segAt c.minSeg c.segs b.seg with
  | none => "none"
  | some sg =>
    let cf := c.cf
    let s := cf.getS b.tang
    let m := F (sg.getM c.spacingQ b.ax)
    let mMag := F (absQ ((b.ax : Rat) * sg.axialSampling c.spacingQ) + absQ (sg.mOffset c.spacingQ))
    let tt := cf.getTanTheta sg b.tang
    let maxA := Float.sqrt (cf.reff * cf.reff - s * s)
    let z1 := m - maxA * tt
    let z2 := m + maxA * tt
    let zMag := mMag + 4 * (maxA * tt).abs
    let phi0 := to02piF (cf.getPhi b.view)
    let beta0 := Float.asin (s / cf.reff)
    let bMag := beta0.abs + 1 / Float.sqrt (1 - (s / cf.reff) * (s / cf.reff)).abs
    let (z1, z2, phi, beta, sw) := if phi0 ≥ piF then (z2, z1, phi0 - piF, -beta0, 1) else (z1, z2, phi0, beta0, 0)
    " ".intercalate [fm ⟨z1, zMag⟩, fm ⟨z2, zMag⟩, fm ⟨phi, 4 * piF⟩, fm ⟨beta, bMag⟩, toString sw]

def fmtRt : RtResult → String
  | .bin b => fmtBin b
  | .miss => "miss"

def dedup (l : List String) : List String := l.foldl (fun acc s => if acc.contains s then acc else acc ++ [s]) []

/-- `rt`: get_bin (get_LOR b) -/
def doRt (c : Cfg) (b : Bin) : String :=
  if c.arc then
    let g : ArcGeom := { V := c.V, binSize := c.binSizeQ, spacing := c.spacingQ,
                         offset := 0, minTang := c.minTang, maxTang := c.maxTang, minSeg := c.minSeg, segs := c.segs, tof := c.tof }
    -- (the azimuthal offset cancels in exact arithmetic; the model is run with offset 0 and with a non-zero offset)
    let g2 := { g with offset := -(1 : Rat) / 12 }
    match g.lorOf b, g2.lorOf b with
    | some l, some l2 =>
      let r1 := match g.getBin l (g.deltaTime b.tof) with | some nb => fmtBin nb | none => "miss"
      let r2 := match g2.getBin l2 (g2.deltaTime b.tof) with | some nb => fmtBin nb | none => "miss"
      if r1 == r2 then r1 else r1 ++ " | " ++ r2
    | _, _ => "none"
  else
    " | ".intercalate (dedup ((c.cyl.roundTrip b).map fmtRt))

/-- `det`: number of spatial detector pairs, and their averaged line parameters -/
def doDet (c : Cfg) (b : Bin) : String :=
  match segAt c.minSeg c.segs b.seg with
  | none => "none"
  | some sg =>
    match sg.axOff c.R with
    | none => "none"
    | some off =>
      let pairs := c.cyl.detPairs b
      let n := pairs.length
      -- tangential offset: every pair is at half-opening (d1 - d2 + N/2)·π/N; computed from the model's detector pairs
      let cf := c.cf
      let sList := pairs.map fun (dd, _) =>
        let (d1, d2) := dd
        -- beta = (psi1 - psi2 + pi)/2 brought to (-pi/2, pi/2]
        let u := moduloInt (d1 - d2 + c.N.tdiv 2 + c.N) (c.N)      -- in [0, N): beta = u·π/N  (mod π)
        let u := if 2 * u > c.N then u - c.N else u
        cf.reff * Float.sin (Float.ofInt u * (piF / Float.ofInt c.N))
      let sAvg := if n == 0 then 0 else sList.foldl (· + ·) 0 / Float.ofNat n
      -- azimuthal deviation: (d1 + d2 - N/2)·π/N - phi(view) brought to (-π/2, π/2], averaged
      let dphis := pairs.map fun (dd, _) =>
        let (d1, d2) := dd
        -- in units of π/N, relative to the centre of the (mashed) view: 2·mash·v + mash - 1
        let w := (d1 + d2 - c.N.tdiv 2) - (2 * c.mash * b.view + c.mash - 1)
        let w := moduloInt (w + c.N.tdiv 2) c.N - c.N.tdiv 2      -- modulo π, into [-N/2, N/2)
        Float.ofInt w * (piF / Float.ofInt c.N)
      let dphi := if n == 0 then 0 else dphis.foldl (· + ·) 0 / Float.ofNat n
      let m := avgMCompressed c.spacingQ c.R sg off b.ax
      let rd := avgRDCompressed c.R sg off b.ax
      let s0 := cf.getS b.tang
      let chord := 2 * Float.sqrt (cf.reff * cf.reff - s0 * s0)
      let tt := F rd * cf.spacing / chord
      s!"{n} " ++ " ".intercalate [fm ⟨sAvg, 16 * cf.reff⟩, fm ⟨dphi, 64⟩, fmq m (16 * (absQ m + c.spacingQ * c.R)),
        fm ⟨tt, 16 * (tt.abs + 1e-3) * (1 + cf.cond b.tang)⟩]

/-- which of the repairs C12-6 (`get_sino_coords` direction) and C12-7 (`get_bin` view wrap) the code under test contains (probed
    by the harness through the real API, line `lorfix`) -/
structure Fixes where
  dir : Bool := true
  wrap : Bool := true

/-- azimuthal angle offset in units of π (ProjDataInfoCylindrical.cxx:66-92): the tilt (a float, in radians) is taken as `tilt/π` rounded to
    binary64; used only to decide on which side of the offset an angle lies -/
def Cfg.tiltPi (c : Cfg) : Rat := floatToRat (c.cf.tilt / piF)
def Cfg.phiOffsetPi (c : Cfg) : Rat :=
  (if c.N > 2 ∧ c.V * 2 ≠ c.N ∧ c.N.tmod (c.V * 2) == 0 then ((c.mash - 1 : Int) : Rat) / (c.N : Rat) else 0) + c.tiltPi

def fmtRts (l : List RtResult) : String := " | ".intercalate (dedup (l.map fmtRt))

/-- `rtx kind s v a tp t`: get_bin of the LOR of the bin handed over as another LOR type / moved along the line / reversed -/
def doRtx (fx : Fixes) (c : Cfg) (kind : String) (b : Bin) : String :=
  match LorKind.ofString? kind with
  | none => "bad-kind"
  | some k =>
    if !c.arc then
      -- the tilt cancels in exact arithmetic: run with the scanner's tilt and with tilt 0
      fmtRts (c.cyl.roundTripVia c.tiltPi k b ++ c.cyl.roundTripVia 0 k b)
    else
      let g : ArcGeom := { V := c.V, binSize := c.binSizeQ, spacing := c.spacingQ, offset := c.phiOffsetPi,
                           minTang := c.minTang, maxTang := c.maxTang, minSeg := c.minSeg, segs := c.segs, tof := c.tof }
      match g.lorOf b with
      | none => "none"
      | some l =>
        let dt := g.deltaTime b.tof
        let fmtO := fun (o : Option Bin) => match o with | some nb => fmtBin nb | none => "miss"
        -- β = asin(s/R)/π (binary64 value, taken exactly; the conversions are affine in it)
        let absS := absQ l.s
        let bq := floatToRat (Float.asin (F absS / c.cf.reff) / piF)
        let beta := if l.s ≥ 0 then bq else -bq
        let exact := fmtO (g.getBinVia fx.dir fx.wrap k l beta dt)
        if !k.viaCylinder || (fx.wrap && fx.dir) then exact
        else
          -- before the fixes C12-6 / C12-7 the answer depends on the rounding error of the angles recomputed from the end points
          -- (which branch of `get_sino_coords` is taken for a LOR through the axis; an angle just below the azimuthal offset):
          -- also list the answers for angles perturbed by less than a millionth of a view
          let cy := (l.withBeta beta).cylOfKind k
          let eps : Rat := 1 / (1000000 * (c.V : Rat))
          let run := fun (cy : LorCyl) =>
            let n' := cy.toNA fx.dir
            let s' := if absQ (n'.beta - bq) ≤ 4 * eps then absS else if absQ (n'.beta + bq) ≤ 4 * eps then -absS else 1000000000
            fmtO (g.getBinCore fx.wrap ⟨n'.z1, n'.z2, n'.phi, s', n'.swapped⟩ dt)
          let ds : List Rat := [0, -2 * eps, 2 * eps]
          " | ".intercalate (dedup (exact :: ds.flatMap fun d1 => ds.map fun d2 =>
            run { cy with psi1 := to02 (cy.psi1 + d1), psi2 := to02 (cy.psi2 + d2) }))

/-- `fbin d1 r1 d2 r2 …`: find_bin_given_cartesian_coordinates_of_detection of the coordinates of a detector pair -/
def doFbin (c : Cfg) (d1 r1 d2 r2 : Int) : String := fmtRt (c.cyl.findBin d1 r1 d2 r2)

def fmAng (q : Rat) : String := fm ⟨F q * piF, 4 * piF⟩
def fmZ (q : Rat) : String := fmq q (absQ q + 1)
def fmtNA (l : LorNA) : String :=
  " ".intercalate [fmZ l.z1, fmZ l.z2, fmAng l.phi, fmAng l.beta, if l.swapped then "1" else "0"]

/-- `lc2n k1 k2 z1 z2`: sinogram coordinates of the cylinder LOR with ψ1 = k1·π/64, ψ2 = k2·π/64 -/
def doLc2n (fx : Fixes) (k1 k2 z1 z2 : Int) : String :=
  fmtNA ((⟨z1, (k1 : Rat) / 64, z2, (k2 : Rat) / 64⟩ : LorCyl).toNA fx.dir)

/-- `lnmk kφ j z1 z2 sw`: constructor from explicit arguments φ = kφ·π/64, β = j·π/128 -/
def doLnmk (kphi j z1 z2 sw : Int) : String := fmtNA (LorNA.mk' z1 z2 ((kphi : Rat) / 64) ((j : Rat) / 128) (sw == 1))

/-- `ln2c …`: … and its cylinder coordinates -/
def doLn2c (kphi j z1 z2 sw : Int) : String :=
  let c := (LorNA.mk' z1 z2 ((kphi : Rat) / 64) ((j : Rat) / 128) (sw == 1)).toCyl
  " ".intercalate [fmZ c.z1, fmAng c.psi1, fmZ c.z2, fmAng c.psi2]

def doTofb (c : Cfg) (t : Int) : String :=
  match c.tof with
  | none => "none"
  | some T =>
    let mg := absQ (T.k t) + absQ (samplingK T.numBins T.inc t)
    " ".intercalate [fmq (T.low t) mg, fmq (T.high t) mg, fmq (T.lowPs t) (mg / cHalf), fmq (T.highPs t) (mg / cHalf),
      fmq (T.k t) mg, fmq (samplingK T.numBins T.inc t) mg]

def doDpos (c : Cfg) (tang ax : Int) : String :=
  let (x, y, z) := c.bf.crystal tang ax
  let mg := 4 * c.bf.reff + 600   -- 64·2⁻²⁴·mg = 1.5e-5·R + 2.3e-3 mm: binary32 trigonometry + the rounding of crystal positions to 0.001 mm
  " ".intercalate [fm ⟨x, mg⟩, fm ⟨y, mg⟩, fm ⟨z, mg⟩]

/-- `blor`: ProjDataInfoGeneric::get_LOR / get_s / get_phi / get_m / get_tantheta for the detector coordinates given as data -/
def doBlor (xs : List Rat) : String :=
  match xs.map F with
  | [x1, y1, z1, x2, y2, z2] =>
    let r := Float.sqrt (max (x1 * x1 + y1 * y1) (x2 * x2 + y2 * y2))
    match sinoCoordsOfPoints x1 y1 z1 x2 y2 z2 r with
    | none => "none"
    | some (a, b, phi, beta, _) =>
      let s := r * Float.sin beta
      let mg := r + z1.abs + z2.abs
      -- get_tantheta (ProjDataInfoGeneric.inl:79, repaired code, fix C12-4): (z2 - z1) / (2 R cos(beta)), the transaxial
      -- length of the chord between the two intersections with the cylinder
      let cb := Float.cos beta
      " ".intercalate [fm ⟨s, mg⟩, fm ⟨phi, 4 * piF⟩, fm ⟨(a + b) / 2, mg⟩,
        fm ⟨(b - a) / (2 * r * cb), ((z1 - z2).abs / r + 1e-3) / (cb * cb * cb)⟩]
  | _ => "bad"

def splitBar (t : List String) : List (List String) :=
  t.foldl (fun acc s => if s == "|" then acc ++ [[]] else
    match acc.getLast? with
    | some l => acc.dropLast ++ [l ++ [s]]
    | none => [[s]]) [[]]

def arrOf (l : List Rat) : Nat → Rat := let a := l.toArray; fun k => a.getD k 0

/-- `ovl`: overlap_interpolate on rational rows; answers with the float-rounding magnitude Σ|in_i·overlap| + |old| -/
def doOvl (t : List String) : String :=
  match splitBar t with
  | [flags, oc, ic, iv, ov] =>
    let onlyAdd := flags.head? == some "1"
    let assignRest := flags.getLast? == some "1"
    let ocq := oc.map parseHex; let icq := ic.map parseHex; let ivq := iv.map parseHex; let ovq := ov.map parseHex
    let nOut := ovq.length; let nIn := ivq.length
    let res := overlapInterpolate (arrOf ocq) (arrOf icq) (arrOf ivq) nOut nIn ovq.toArray onlyAdd assignRest
    let mag := overlapInterpolate (arrOf ocq) (arrOf icq) (arrOf (ivq.map absQ)) nOut nIn (ovq.map absQ).toArray onlyAdd assignRest
    " ".intercalate ((List.range nOut).map fun j => fmq (getAt res j) (absQ (getAt mag j) + absQ (arrOf ovq j)))
  | _ => "bad"

/-- `arc N Reff imin imax omin omax sampling angular_increment | in…`: ArcCorrection on one row -/
def doArc (t : List String) : String :=
  match splitBar t with
  | [hd, iv] =>
    match hd with
    | [_, reff, imin, imax, omin, omax, samp, ang] =>
      let I (s : String) : Int := s.toInt?.getD 0
      let reffF := F (parseHex reff); let angF := F (parseHex ang); let sampQ := parseHex samp
      let nIn := (I imax - I imin + 1).toNat
      let nOut := (I omax - I omin + 1).toNat
      -- _noarccorr_coords[tp] = R sin((tp - .5) ang)  (ArcCorrection.cxx:112-120), computed in binary64 and taken exactly
      let icq := (List.range (nIn + 1)).map fun (k : Nat) =>
        floatToRat (reffF * Float.sin ((Float.ofInt (I imin + k) - 0.5) * angF))
      let ocq := arcCorrCoords (I omin) (I omax) sampQ
      let ivq := iv.map parseHex
      let res := arcCorrectRow (arrOf ocq) (arrOf icq) (arrOf ivq) nOut nIn sampQ
      let mag := arcCorrectRow (arrOf ocq) (arrOf icq) (arrOf (ivq.map absQ)) nOut nIn sampQ
      let maxIn := (ivq.map absQ).foldl max 0
      " ".intercalate ((List.range nOut).map fun j => fmq (getAt res j) (absQ (getAt mag j) + maxIn))
    | _ => "bad"
  | _ => "bad"

/-- `acsu mode N Reff default_bin_size central_bin_size imin imax n bin_size angular_increment`: `ArcCorrection::set_up` (overload
    `mode`: 0 = (pdi, n, bin_size), 1 = (pdi, n), 2 = (pdi); for 2 `n` is the number the code derived, as data) on the ONE object whose
    cached arrays the driver keeps in its state; answers the arc-corrected tangential range and the sampling -/
def doAcsu (ac : ArcCorrState) (t : List String) : ArcCorrState × String :=
  match t with
  | [mode, _, reff, defbin, s0, imin, imax, n, bs, ang] =>
    let I (s : String) : Int := s.toInt?.getD 0
    let reffF := F (parseHex reff); let angF := F (parseHex ang)
    let nIn := (I imax - I imin + 1).toNat
    -- _noarccorr_coords[tp] = R sin((tp - .5) ang)  (ArcCorrection.cxx:112-120), computed in binary64 and taken exactly
    let edges := (List.range (nIn + 1)).map fun (k : Nat) =>
      floatToRat (reffF * Float.sin ((Float.ofInt (I imin + k) - 0.5) * angF))
    let binSize := arcSetUpBinSize (I mode) (parseHex defbin) (parseHex s0) (parseHex bs)
    let ac' := ac.setUp { inMin := I imin, inMax := I imax, edges := edges, numOut := I n, binSize := binSize }
    (ac', s!"{ac'.outMin} {ac'.outMax} {fmq ac'.sampling ac'.sampling}")
  | _ => (ac, "bad")

/-- `acrow | in…`: `do_arc_correction` on one row with the cached arrays of the re-used object -/
def doAcrow (ac : ArcCorrState) (t : List String) : String :=
  match splitBar t with
  | [_, iv] =>
    let ivq := iv.map parseHex
    let nOut := (ac.outMax - ac.outMin + 1).toNat
    let res := ac.correctRow ivq
    let mag := ac.correctRow (ivq.map absQ)
    let maxIn := (ivq.map absQ).foldl max 0
    " ".intercalate ((List.range nOut).map fun j => fmq (getAt res j) (absQ (getAt mag j) + maxIn))
  | _ => "bad"

structure St where
  fx : Fixes := {}
  cfg : Option Cfg := none
  ac : ArcCorrState := ArcCorrState.fresh

def stepLine (st : St) (line : String) : St × String :=
  let toks := (line.trimAscii.toString.splitOn " ").filter (· ≠ "")
  let I (s : String) : Int := s.toInt?.getD 0
  let c := st.cfg
  match toks with
  | ["lorfix", a, b] => ({ st with fx := { dir := a == "1", wrap := b == "1" } }, "ok")
  | "cfg" :: rest => let (c', out) := doCfg rest; ({ st with cfg := c' }, out)
  | "ovl" :: rest => (st, doOvl rest)
  | "arc" :: rest => (st, doArc rest)
  | ["acnew"] => ({ st with ac := ArcCorrState.fresh }, "ok")
  | "acsu" :: rest => let (ac', out) := doAcsu st.ac rest; ({ st with ac := ac' }, out)
  | "acrow" :: rest => (st, doAcrow st.ac rest)
  | "blor" :: rest => (st, doBlor (rest.map parseHex))
  | ["lc2n", k1, k2, z1, z2] => (st, doLc2n st.fx (I k1) (I k2) (I z1) (I z2))
  | ["lnmk", k, j, z1, z2, sw] => (st, doLnmk (I k) (I j) (I z1) (I z2) (I sw))
  | ["ln2c", k, j, z1, z2, sw] => (st, doLn2c (I k) (I j) (I z1) (I z2) (I sw))
  | _ =>
    match c with
    | none => (st, "err")
    | some cc =>
      match toks with
      | ["coord", s, v, a, tp, t] => (st, doCoord cc ⟨I s, I v, I a, I tp, I t⟩)
      | ["lor", s, v, a, tp, t] => (st, doLor cc ⟨I s, I v, I a, I tp, I t⟩)
      | ["rt", s, v, a, tp, t] => (st, doRt cc ⟨I s, I v, I a, I tp, I t⟩)
      | ["rtx", k, s, v, a, tp, t, _, _] => (st, doRtx st.fx cc k ⟨I s, I v, I a, I tp, I t⟩)
      | ["fbin", d1, r1, d2, r2, _, _] => (st, doFbin cc (I d1) (I r1) (I d2) (I r2))
      | ["det", s, v, a, tp] => (st, doDet cc ⟨I s, I v, I a, I tp, 0⟩)
      | ["tofb", t] => (st, doTofb cc (I t))
      | ["toft", d] => (st, match cc.tof with
          | some T => toString (T.getTofBin (parseHex d))
          | none => "0")
      | ["dpos", tang, ax] => (st, doDpos cc (I tang) (I ax))
      | _ => (st, "bad-op")

partial def loop (h : IO.FS.Stream) (st : St) : IO Unit := do
  let line ← h.getLine
  if line.isEmpty then return ()
  let (st', out) := stepLine st line
  IO.println out
  loop h st'

def main : IO Unit := do loop (← IO.getStdin) {}
end Driver.C12
