import Driver.C18
def main : IO Unit := Driver.C18.main
