import StirVerif.C16.Model
/-! Line-protocol driver for C16 (implementation side: harness/c16_scatter.cxx).

Lines:
  cfg world <w>                                  start a new world (tables cleared, object reset)
  cfg tmpl <k> <base> <dets> <rings> <ntang> <nseg> <blocks 0|1> <transaxial buckets>
  cfg nspgiven <s> <thr> <n>                     #scatter points of scatter-point image s at threshold thr
  cfg nspdown <att> <zoom> <thr> <n>             … of attenuation image att down-sampled with zoom set
  cfg zbad <act>                                 activity image with a different z-middle
  cfg zoomset <z> <size xy> <size z>             the sizes of zoom parameter set z (-1: derived from the image)
  cfg autoclass <att> <tmpl> <cls>               class of the factors downsample_density_image_for_scatter_points(-1,-1,-1,-1)
                                                 computes and stores for attenuation image att under pool template tmpl
  cfg nspauto <att> <cls> <thr> <n>              #scatter points of attenuation image att down-sampled with the stored
                                                 automatic factors of class cls (x/y size derived from the image)
  zoommem                                        the members zoom_size_xy zoom_size_z and `zoom_xy < 0` (0|1)
  cfg hist <clean|clean2|dirty> …                `clean`: every operation must satisfy the guard `opOk`;
                                                 `clean2`: the weaker guard of `runGuarded2` (enabling the cache on a set-up
                                                 object is admitted when the next operation line is `set_up`)
  new | set_tmpl k | set_act k | set_att k | set_spimg k | set_exam k | set_zoom k | set_thr k
  set_use_cache b | set_cache_enabled b | set_ds b rings dets | ds_scanner r d | set_up | process | nsp | tmplinfo
       (k = -1: null pointer)
  set_act_ip k | set_att_ip k | set_spimg_ip k   the owner's image object is overwritten in place with the values of pool
                                                 image k and the SAME pointer is handed to the setter again
  ds_sp                                          downsample_density_image_for_scatter_points(current zoom set)
  set_rnd b                                      set_randomly_place_scatter_points
  set_exam_sptr k                                set_exam_info_sptr (same body as set_exam_info)
  set_tmpl_file k e                              set_template_proj_data_info(filename): pool template k / exam info e are what
                                                 the file contains
  set_act_file k | set_att_file k | set_spimg_file k   set_activity_image / set_density_image /
                                                 set_density_image_for_scatter_points (filename): read + the _sptr setter
  parse_use_cache b                              parse() of a parameter file that only has `use cache := b`
  effns <rAB2> <eff511> <cosA> <cosB> <pi>       detection_efficiency_no_scatter(A,B)
  ssp  <5 pair values> <5 values for A> <5 values for B>          simulate_for_one_scatter_point
  est  <n> (<15 values>)^n <rAB2> <eff511> <cosA> <cosB> <pi> <vol> <sigma511>   actual_scatter_estimate
  deteff <E> <Eref> <res> <2.35482f> <lo> <hi>   detection_efficiency(E) for scanner (reference energy, energy resolution) and
                                                 energy window [lo, hi]: `value magnitude` computed in binary64 (`erfFloat`)
  eff511 <Eref> <res> <2.35482f> <lo> <hi>       the normalisation detector_efficiency_no_scatter: `norm raw magnitude`
  actint <n> <r2> <pi/2> (<inside 0|1> <voxel value> <length>)^n
                                                 integral_over_activity_image_between_scattpoint_det: capped solid-angle factor
                                                 times the sum over the elements of the ray (exact in Rat): `value magnitude`
Floats are C99 hex floats, parsed exactly into `Rat`. -/
namespace Driver.C16
open StirVerif.C16

def hexVal (c : Char) : Option Nat :=
  if '0' ≤ c ∧ c ≤ '9' then some (c.toNat - '0'.toNat)
  else if 'a' ≤ c ∧ c ≤ 'f' then some (c.toNat - 'a'.toNat + 10)
  else if 'A' ≤ c ∧ c ≤ 'F' then some (c.toNat - 'A'.toNat + 10) else none

def parseHexDigits (cs : List Char) : Option Nat :=
  cs.foldlM (fun acc c => do pure (acc * 16 + (← hexVal c))) 0

def pow2 (e : Int) : Rat := if e ≥ 0 then ((2 ^ e.toNat : Nat) : Rat) else 1 / ((2 ^ (-e).toNat : Nat) : Rat)

def parseSignedInt (s : String) : Option Int :=
  if s.startsWith "+" then (s.drop 1).toString.toInt? else s.toInt?

/-- `[-]0xh.hhhp[+-]d` exactly -/
def parseHexFloat (s0 : String) : Option Rat := do
  let (neg, s) := if s0.startsWith "-" then (true, (s0.drop 1).toString) else (false, s0)
  guard (s.startsWith "0x")
  let body := (s.drop 2).toString
  match body.splitOn "p" with
  | [mant, ex] =>
    let e ← parseSignedInt ex
    let (ip, fp) := match mant.splitOn "." with
      | [a] => (a, "")
      | [a, b] => (a, b)
      | _ => ("?", "")
    let m ← parseHexDigits (ip.toList ++ fp.toList)
    let v : Rat := (m : Rat) * pow2 (e - 4 * fp.length)
    pure (if neg then -v else v)
  | _ => none

def fmtRat (r : Rat) : String := s!"{r.num}/{r.den}"

def absR (r : Rat) : Rat := if r < 0 then -r else r

def mkPC : List Rat → Option (PC Rat)
  | [a, b, c, d, e] => some ⟨a, b, c, d, e⟩
  | _ => none

def mkPD : List Rat → Option (PD Rat)
  | [a, b, c, d, e] => some ⟨a, b, c, d, e⟩
  | _ => none

def absPC (c : PC Rat) : PC Rat := ⟨absR c.maxCos, absR c.cosTheta, absR c.effScatter, absR c.dsigma, absR c.mu⟩
def absPD (c : PD Rat) : PD Rat := ⟨absR c.emis, absR c.att, absR c.attPow, absR c.r2, absR c.cosInc⟩

def parseTriple (xs : List Rat) : Option (PC Rat × PD Rat × PD Rat) := do
  let c ← mkPC (xs.take 5)
  let a ← mkPD ((xs.drop 5).take 5)
  let b ← mkPD ((xs.drop 10).take 5)
  pure (c, a, b)

def parseTriples (n : Nat) (xs : List Rat) : Option (List (PC Rat × PD Rat × PD Rat) × List Rat) :=
  match n with
  | 0 => some ([], xs)
  | n + 1 => do
    let t ← parseTriple (xs.take 15)
    let (ts, rest) ← parseTriples n (xs.drop 15)
    pure (t :: ts, rest)

/-- value and magnitude (the same formula on absolute values, early returns ignored) -/
def doSsp (xs : List Rat) : String :=
  match parseTriple xs with
  | some (c, a, b) =>
    s!"{fmtRat (simulateForOneScatterPoint c a b)} {fmtRat (scatterRatioFormula (absPC c) (absPD a) (absPD b))}"
  | none => "bad-op"

def doEst (n : Nat) (xs : List Rat) : String :=
  match parseTriples n xs with
  | some (ts, [rAB2, eff511, cosA, cosB, pi, vol, sig]) =>
    let e := detectionEfficiencyNoScatter rAB2 eff511 cosA cosB pi
    let v := actualScatterEstimate ts e vol sig
    let m := (ts.foldl (fun acc t => acc + scatterRatioFormula (absPC t.1) (absPD t.2.1) (absPD t.2.2)) (0 : Rat))
               * absR (1 / e * vol / sig)
    s!"{fmtRat v} {fmtRat m}"
  | _ => "bad-op"

def doEffNs : List Rat → String
  | [rAB2, eff511, cosA, cosB, pi] =>
    s!"{fmtRat (detectionEfficiencyNoScatter rAB2 eff511 cosA cosB pi)} {fmtRat (detectionEfficiencyNoScatter (absR rAB2) (absR eff511) (absR cosA) (absR cosB) (absR pi))}"
  | _ => "bad-op"

def ratToFloat (q : Rat) : Float := Float.ofInt q.num / Float.ofNat q.den

/-- exact value of a finite binary64 -/
def floatToRat (x : Float) : Rat :=
  if x == 0 then 0
  else
    let neg := x < 0
    let (m, e) := (if neg then -x else x).frExp
    let mi : Nat := (m.scaleB 53).toUInt64.toNat
    let q : Rat := (mi : Rat) * pow2 (e - 53)
    if neg then -q else q

/-- `detection_efficiency(E)` and the first-order sensitivity of the two `erf` values to a relative perturbation of
    their (single-precision) arguments, plus the value itself (final rounding) -/
def detEffFloat (E eref res c lo hi : Rat) : Float × Float :=
  let f := ratToFloat
  let sigma := sigmaTimesSqrt2 Float.sqrt (f E) (f eref) (f res) (f c)
  let v := detectionEfficiency erfFloat sigma (f lo) (f hi) (f E)
  (v, (erfSensitivity ((f hi - f E) / sigma) + erfSensitivity ((f lo - f E) / sigma)) / 2 + v.abs)

def doDetEff : List Rat → String
  | [E, eref, res, c, lo, hi] =>
    let (v, m) := detEffFloat E eref res c lo hi
    if v.isNaN || m.isNaN || v.isInf || m.isInf then "nan" else s!"{fmtRat (floatToRat v)} {fmtRat (floatToRat m)}"
  | _ => "bad-op"

def doEff511 : List Rat → String
  | [eref, res, c, lo, hi] =>
    let (v, m) := detEffFloat 511 eref res c lo hi
    if v.isNaN || m.isNaN || v.isInf || m.isInf then "nan"
    else s!"{fmtRat (floatToRat (detEff511OrOne v))} {fmtRat (floatToRat v)} {fmtRat (floatToRat m)}"
  | _ => "bad-op"

def doActInt (n : Nat) : List Rat → String
  | r2 :: halfPi :: rest =>
    if rest.length ≠ 3 * n then "bad-op" else
    let arr := rest.toArray
    let image : Nat → Rat := fun i => arr.getD (3 * i + 1) 0
    let inImage : Nat → Bool := fun i => arr.getD (3 * i) 0 != 0
    let lor : List (Nat × Rat) := (List.range n).map fun i => (i, arr.getD (3 * i + 2) 0)
    let v := integralOverActivityScattDet halfPi r2 image inImage lor
    let m := integralOverActivityScattDet (absR halfPi) (absR r2) (fun i => absR (image i)) inImage (lor.map fun e => (e.1, absR e.2))
    s!"{fmtRat v} {fmtRat m}"
  | _ => "bad-op"

structure Tables where
  tmpls : List (Nat × Tmpl) := []
  blocks : List Nat := []
  nspGiven : List ((Nat × Nat) × Nat) := []
  nspDown : List ((Nat × Nat × Nat) × Nat) := []
  zbad : List Nat := []
  zoomSets : List (Nat × Int × Int) := []
  autoClass : List ((Nat × Tmpl) × Nat) := []
  nspAuto : List ((Nat × Nat × Nat) × Nat) := []

def Tables.world (t : Tables) : World :=
  { tmpl := fun k => ((t.tmpls.find? (·.1 == k)).map (·.2)).getD default
    nsp := fun p => match p.sp with
      | .given s => ((t.nspGiven.find? (·.1 == (s, p.thr))).map (·.2)).getD 0
      | .down a z => ((t.nspDown.find? (·.1 == (a, z, p.thr))).map (·.2)).getD 0
      | .auto a c => ((t.nspAuto.find? (·.1 == (a, c, p.thr))).map (·.2)).getD 0
    defaultDsRings := fun _ => 2
    blocksBase := fun b => t.blocks.contains b
    zOk := fun a => !t.zbad.contains a
    -- (a pair the harness did not declare gets a class of its own: the generator never asks for it)
    autoClass := fun a tm => ((t.autoClass.find? (·.1 == (a, tm))).map (·.2)).getD (1000000 + 1000 * tm.base + a) }

def Tables.zoomSizes (t : Tables) (z : Nat) : Int × Int :=
  ((t.zoomSets.find? (·.1 == z)).map (·.2)).getD (-1, -1)

structure DSt where
  tab : Tables := {}
  st : Option St := some init      -- `none`: the object crashed
  clean : Bool := false
  /-- weaker guard (`runGuarded2`) instead of `opOk` alone -/
  clean2 : Bool := false
  /-- the previous line enabled the cache on a set-up object: this line must be `set_up` -/
  pending : Bool := false

def optId (s : String) : Option Nat := if s.startsWith "-" then none else s.toNat?

def fmtRes : Res → String
  | .ok => "ok" | .err => "err" | .crash => "crash" | .unmodelled => "unmodelled"

def parseOp (W : World) (toks : List String) : Option (List Op) :=
  let N (s : String) : Nat := s.toNat?.getD 0
  let I (s : String) : Int := s.toInt?.getD 0
  match toks with
  | ["set_tmpl", k] => some [.setTemplate (W.tmpl (N k))]
  | ["set_act", k] => some [.setActivity (optId k)]
  | ["set_att", k] => some [.setDensity (optId k)]
  | ["set_spimg", k] => some [.setSpImage (optId k)]
  | ["set_act_ip", k] => some [.setActivityInPlace (N k)]
  | ["set_att_ip", k] => some [.setDensityInPlace (N k)]
  | ["set_spimg_ip", k] => some [.setSpImageInPlace (N k)]
  | ["set_exam", k] => some [.setExam (N k)]
  | ["set_zoom", k] => some [.setZoom (N k)]
  | ["set_thr", k] => some [.setThr (N k)]
  | ["set_use_cache", b] => some [.setUseCache (b == "1")]
  | ["set_cache_enabled", b] => some [.setCacheEnabled (b == "1")]
  | ["parse_use_cache", b] => some [.setCacheEnabled (b == "1")]
  | ["set_rnd", b] => some [.setRndPlace (b == "1")]
  | ["set_exam_sptr", k] => some [.setExam (N k)]
  | ["set_tmpl_file", k, e] => some [.setTemplateFile (N e) (W.tmpl (N k))]
  | ["set_act_file", k] => some [.setActivity (optId k)]
  | ["set_att_file", k] => some [.setDensity (optId k)]
  | ["set_spimg_file", k] => some [.setSpImage (optId k)]
  | ["set_ds", b, r, d] => some [.setDsBool (b == "1"), .setDsRings (I r), .setDsDets (I d)]
  | ["ds_scanner", r, d] => some [.downsampleScanner (I r) (I d)]
  | ["ds_sp"] => some [.downsampleSp]
  | ["set_up"] => some [.setUp]
  | ["process"] => some [.process]
  | _ => none

/-- apply the operations of one line; the answer is that of the last one -/
def applyOps (W : World) (clean : Bool) (s : St) (ops : List Op) : Option St × String :=
  let rec go (s : St) (guardBad : Bool) : List Op → Option St × String
    | [] => (some s, "ok")
    | [op] =>
      let bad := guardBad || (clean && !opOk W s op)
      let (s', r, o) := step W s op
      let txt := match r, o with
        | .ok, some out => if freshOut W s = (.ok, some out) then "ok fresh" else "ok stale"
        | r, _ => fmtRes r
      let txt := if bad then txt ++ " GUARD-VIOLATED" else txt
      (if r = .crash then none else some s', txt)
    | op :: rest =>
      let bad := guardBad || (clean && !opOk W s op)
      let (s', r, _) := step W s op
      if r = .crash then (none, "crash") else go s' bad rest
  go s false ops

def stepLine (d : DSt) (line : String) : DSt × String :=
  let toks := (line.trimAscii.toString.splitOn " ").filter (· ≠ "")
  let N (s : String) : Nat := s.toNat?.getD 0
  match toks with
  | ["cfg", "world", _] => ({ tab := {}, st := some init, clean := false, clean2 := false, pending := false }, "ok")
  | ["cfg", "tmpl", k, b, dd, r, nt, ns] =>
    ({ d with tab := { d.tab with tmpls := (N k, ⟨N b, N dd, N r, N nt, N ns⟩) :: d.tab.tmpls } }, "ok")
  | ["cfg", "tmpl", k, b, dd, r, nt, ns, bl, _] =>
    ({ d with tab := { d.tab with tmpls := (N k, ⟨N b, N dd, N r, N nt, N ns⟩) :: d.tab.tmpls,
                                  blocks := if bl == "1" then N b :: d.tab.blocks else d.tab.blocks } }, "ok")
  | ["cfg", "nspgiven", s, t, n] =>
    ({ d with tab := { d.tab with nspGiven := ((N s, N t), N n) :: d.tab.nspGiven } }, "ok")
  | ["cfg", "nspdown", a, z, t, n] =>
    ({ d with tab := { d.tab with nspDown := ((N a, N z, N t), N n) :: d.tab.nspDown } }, "ok")
  | ["cfg", "zbad", a] => ({ d with tab := { d.tab with zbad := N a :: d.tab.zbad } }, "ok")
  | ["cfg", "zoomset", z, sxy, sz] =>
    ({ d with tab := { d.tab with zoomSets := (N z, sxy.toInt?.getD (-1), sz.toInt?.getD (-1)) :: d.tab.zoomSets } }, "ok")
  | ["cfg", "autoclass", a, k, c] =>
    ({ d with tab := { d.tab with autoClass := ((N a, d.tab.world.tmpl (N k)), N c) :: d.tab.autoClass } }, "ok")
  | ["cfg", "nspauto", a, c, t, n] =>
    ({ d with tab := { d.tab with nspAuto := ((N a, N c, N t), N n) :: d.tab.nspAuto } }, "ok")
  | "cfg" :: "hist" :: kind :: _ => ({ d with clean := kind == "clean", clean2 := kind == "clean2", pending := false }, "ok")
  | "cfg" :: _ => (d, "ok")
  | ["new"] => ({ d with st := some init, pending := false }, "ok")
  | "ssp" :: xs =>
    match xs.mapM parseHexFloat with
    | some rs => (d, doSsp rs)
    | none => (d, "bad-number")
  | "effns" :: xs =>
    match xs.mapM parseHexFloat with
    | some rs => (d, doEffNs rs)
    | none => (d, "bad-number")
  | "est" :: n :: xs =>
    match xs.mapM parseHexFloat with
    | some rs => (d, doEst (N n) rs)
    | none => (d, "bad-number")
  | "deteff" :: xs =>
    match xs.mapM parseHexFloat with
    | some rs => (d, doDetEff rs)
    | none => (d, "bad-number")
  | "eff511" :: xs =>
    match xs.mapM parseHexFloat with
    | some rs => (d, doEff511 rs)
    | none => (d, "bad-number")
  | "actint" :: n :: xs =>
    match xs.mapM parseHexFloat with
    | some rs => (d, doActInt (N n) rs)
    | none => (d, "bad-number")
  | _ =>
    match d.st with
    | none => (d, "dead")
    | some s =>
      let W := d.tab.world
      match toks with
      | ["nsp"] => (d, toString (nspOf W s))
      | ["zoommem"] =>
        let (sxy, sz, au) := zoomMembers d.tab.zoomSizes s
        (d, s!"{sxy} {sz} {if au then 1 else 0}")
      | ["tmplinfo"] =>
        match s.tmpl with
        | none => (d, "none")
        | some t => (d, s!"{t.dets} {t.rings} {t.ntang} {t.dets / 2} {t.nseg}")
      | _ =>
        match parseOp W toks with
        | none => (d, "bad-op")
        | some ops =>
          if d.clean2 then
            -- `runGuarded2`: a single-operation line that enables the cache against `opOk` is admitted, the next line
            -- must be `set_up`
            let late := d.pending && toks != ["set_up"]
            let defer := match ops with
              | [op] => !opOk W s op && isEnable op
              | _ => false
            let (st', txt) := applyOps W (!defer) s ops
            ({ d with st := st', pending := defer }, if late then txt ++ " GUARD2-VIOLATED" else txt)
          else
          let (st', txt) := applyOps W d.clean s ops
          ({ d with st := st' }, txt)

partial def loop (h : IO.FS.Stream) (d : DSt) : IO Unit := do
  let line ← h.getLine
  if line.isEmpty then return ()
  let (d', out) := stepLine d line
  IO.println out
  loop h d'

def main : IO Unit := do loop (← IO.getStdin) {}

end Driver.C16
