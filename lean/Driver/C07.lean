import StirVerif.C07.Model
/-! Line-protocol driver for C07 (implementation side: harness/c07_osmaposl.cxx).

    cfg <stream> <nvox> <numSubsets> <startSubset> <map 0|1|2> <minRel> <maxRel> <iuf> <iif> <enforce>   -> ok
    chk <numSubsets> <startSubset> <numSubiterations> <startSubiteration> <saveInterval> <iif> <iuf>   -> ok | err
    setup V <image…>                                                  -> image after `set_up`
    upd <k> <subset> <1 if an inter-iteration filter call followed else 0> L <image…> G <gps…> S <sens…> [P <priorgrad…>] [F <inter-update filter output…>]
                                                                      -> image after `update_estimate`
    eoi <k> L <image…> F <inter-iteration filter output…>             -> image after `end_of_iteration_processing`
    post <k> <num_subiterations> <1 if the post-filter was called at k else 0> L <iterate k before post-filtering…> [F <post-filter output…>]
                                                                      -> image saved as iterate k (`endOfIterationPost`)
    uimg <k> <subset> G <gps…> S <sens…> [P <priorgrad…>]             -> the image written by `write update image` (`updateImage`)
    init 0|1 <nvox>   |   init file <nvox> V <image in the file…>     -> `get_initial_data_ptr()` (`initialData`)
    bal <views> <d90> <d180> <swap_segment> <tof> <phi offset> <min_view> <max_view> <max_segment> <numSubsets>   -> ok | err (`setUpAcceptsSubsets`)
    mat <nvox> <nbins> R <seg> <basic view> <ax> <minAx> <maxAx> <nelem> <j> <P_bj> … R …   -> ok   (explicit system matrix of the geometry)
    dat <nbins> Y <counts…> A <additive term…> N <normalisation factors…>                  -> ok   (data of the bins of the last `mat`)
    emx <k> <subset> <maxSeg> <zeroSeg0EndPlanes 0|1> <useSubsetSens 0|1> <n float ops> J <voxel indices…> L <image…>
                                                                      -> voxels J of the image after `update_estimate` (`emExplicit`:
                                                                         numerator and sensitivity from the explicit system of `mat`/`dat`)
    Floats are C99 hex floats, parsed exactly; answers are exact rationals `p/q` (or inf, -inf, nan); a voxel whose
    division is within 2^-20 (relative) of the threshold of `stir::divide` is answered as `a|b` (both branches), a voxel
    whose quotient is non-zero / 0 as `*` (anything goes: outside the property, and -ffast-math territory). -/
namespace Driver.C07
open StirVerif.C07

def hexDigit (c : Char) : Option Nat :=
  if '0' ≤ c ∧ c ≤ '9' then some (c.toNat - '0'.toNat)
  else if 'a' ≤ c ∧ c ≤ 'f' then some (c.toNat - 'a'.toNat + 10)
  else if 'A' ≤ c ∧ c ≤ 'F' then some (c.toNat - 'A'.toNat + 10)
  else none

def pow2 (e : Int) : Rat := if e ≥ 0 then ((2 ^ e.toNat : Nat) : Rat) else 1 / ((2 ^ (-e).toNat : Nat) : Rat)

/-- exact value of a `%a` hex float such as `-0x1.99999ap-4`, `0x0p+0` -/
def parseHex (s : String) : Option Rat :=
  let cs := s.toList
  let (neg, cs) := match cs with
    | '-' :: r => (true, r)
    | '+' :: r => (false, r)
    | r => (false, r)
  match cs with
  | '0' :: x :: r =>
    if x ≠ 'x' ∧ x ≠ 'X' then none else
    let rec go (r : List Char) (mant : Nat) (fracDigits : Nat) (inFrac : Bool) : Option (Nat × Nat × List Char) :=
      match r with
      | [] => some (mant, fracDigits, [])
      | c :: t =>
        if c = '.' then go t mant fracDigits true
        else if c = 'p' ∨ c = 'P' then some (mant, fracDigits, t)
        else match hexDigit c with
          | some d => go t (mant * 16 + d) (if inFrac then fracDigits + 1 else fracDigits) inFrac
          | none => none
    match go r 0 0 false with
    | none => none
    | some (mant, fd, rest) =>
      let e : Int := if rest.isEmpty then 0 else
        let str := String.ofList (match rest with | '+' :: t => t | t => t)
        str.toInt?.getD 0
      let v : Rat := (mant : Rat) * pow2 (e - 4 * (fd : Int))
      some (if neg then -v else v)
  | _ => none

def fmtRat (q : Rat) : String := s!"{q.num}/{q.den}"

def fmtExt : Ext → String
  | .fin q => fmtRat q
  | .pinf => "inf"
  | .ninf => "-inf"
  | .nan => "nan"

def fmtImg (l : List Rat) : String := " ".intercalate (l.map fmtRat)

/-- split the tokens after the op header into tagged sections -/
def sections (toks : List String) : List (String × List String) :=
  let isTag (t : String) := t == "L" || t == "G" || t == "S" || t == "P" || t == "F" || t == "V" ||
    t == "Y" || t == "A" || t == "N" || t == "J"
  let rec go (toks : List String) (cur : Option (String × List String)) (acc : List (String × List String)) :=
    match toks with
    | [] => (match cur with | some (t, l) => (t, l.reverse) :: acc | none => acc).reverse
    | t :: r =>
      if isTag t then
        go r (some (t, [])) (match cur with | some (t', l) => (t', l.reverse) :: acc | none => acc)
      else match cur with
        | some (t', l) => go r (some (t', t :: l)) acc
        | none => go r none acc
  go toks none []

def getVec (secs : List (String × List String)) (tag : String) : Option (List Rat) :=
  match secs.find? (·.1 == tag) with
  | none => none
  | some (_, l) => l.mapM parseHex

structure St where
  nvox : Nat := 0
  numSubsets : Nat := 1
  startSubset : Nat := 0
  map : MapModel := .none
  minRel : Rat := 0
  maxRel : Rat := 0
  iuf : Nat := 0
  iif : Nat := 0
  enforce : Bool := true
  geo : List Row := []      -- rows of the last `mat` (no data)
  sys : List Row := []      -- … with the data of the last `dat`

/-- rows of a `mat` line: `R seg basicView ax minAx maxAx nelem (j P)*` repeated -/
def parseRows (toks : List String) : Option (List Row) :=
  let rec elems (n : Nat) (toks : List String) (acc : List (Nat × Rat)) : Option (List (Nat × Rat) × List String) :=
    match n, toks with
    | 0, r => some (acc.reverse, r)
    | n + 1, j :: p :: r =>
      match j.toNat?, parseHex p with
      | some j', some p' => elems n r ((j', p') :: acc)
      | _, _ => none
    | _, _ => none
  let rec go (fuel : Nat) (toks : List String) (acc : List Row) : Option (List Row) :=
    match fuel, toks with
    | _, [] => some acc.reverse
    | 0, _ => none
    | fuel + 1, "R" :: seg :: bv :: ax :: mn :: mx :: ne :: r =>
      match seg.toInt?, bv.toInt?, ax.toInt?, mn.toInt?, mx.toInt?, ne.toNat? with
      | some seg', some bv', some ax', some mn', some mx', some ne' =>
        match elems ne' r [] with
        | some (es, rest) =>
          go fuel rest ({ seg := seg', basicView := bv', ax := ax', minAx := mn', maxAx := mx', y := 0, a := 0, eff := 1, elems := es } :: acc)
        | none => none
      | _, _, _, _, _, _ => none
    | _, _ => none
  go toks.length toks []

def zip4 (rows : List Row) (y a n : List Rat) : List Row :=
  match rows, y, a, n with
  | r :: rs, y :: ys, a :: as, n :: ns => { r with y := y, a := a, eff := 1 / n } :: zip4 rs ys as ns
  | _, _, _, _ => []

def St.cfg (s : St) (g sens pg : Img) (fu fi : Option Img) : Cfg :=
  { numSubsets := s.numSubsets, startSubset := s.startSubset, map := s.map, minRel := s.minRel, maxRel := s.maxRel,
    interUpdateInterval := s.iuf, interIterationInterval := s.iif, enforceInitialPositivity := s.enforce,
    gps := fun _ _ => g, sens := fun _ => sens, priorGrad := fun _ => pg,
    interUpdateFilter := fu.map (fun o _ => o), interIterationFilter := fi.map (fun o _ => o) }

/-- is `x` within 2^-20 (relative) of the threshold, or the threshold within rounding of 0 … -/
def near (x t : Rat) : Bool := absR (absR x - t) ≤ t / 1048576

/-- answers for `upd`: the model's voxel values, with both branches of `stir::divide` where the comparison with the
    float threshold `max(num)*small_num` cannot be decided from exact arithmetic -/
def answerUpd (c : Cfg) (k : Nat) (img g s pg : Img) : String :=
  let res := updateEstimate c k img
  let small := smallValue g (divideSmallNum c.map)
  let img1 := interUpdateFiltered c k img
  let alt := zip4With (fun lam gj sj pj =>
      let d := denom c.map c.numSubsets pj sj
      if small > 0 ∧ (near d small ∨ near gj small) then
        -- the other branch of the `if` in stir::divide
        let other : Ext := if absR d ≤ small ∧ absR gj ≤ small
          then (if d = 0 then Ext.nan else Ext.fin (gj / d)) else Ext.fin 0
        let other := if k != 1 then thresholdUpperLower c.minRel c.maxRel other else other
        some (mulExt lam other)
      else none) img1 g s pg
  -- a voxel whose quotient is not finite (non-zero / 0: inconsistent data, outside the property) is answered `*`:
  -- the library is compiled with -ffast-math, what it does with inf / nan is not specified
  let wild := zip4With (fun _ gj sj pj =>
      match divide1 small gj (denom c.map c.numSubsets pj sj) with
      | .fin _ => false
      | _ => true) img1 g s pg
  let parts := ((res.zip alt).zip wild).map fun ((r, a), w) =>
    if w then "*" else
    match a with
    | some o => fmtExt r ++ "|" ++ fmtExt o
    | none => fmtExt r
  " ".intercalate parts

/-- answers for `uimg`: the voxels of the model's update image, with both branches of `stir::divide` near its threshold -/
def answerUimg (c : Cfg) (k : Nat) (g s pg : Img) : String :=
  let res := updateImage c k []          -- `c.gps`, `c.sens`, `c.priorGrad` are the constant data of this operation
  let small := smallValue g (divideSmallNum c.map)
  let alt := zip3With (fun gj sj pj =>
      let d := denom c.map c.numSubsets pj sj
      if small > 0 ∧ (near d small ∨ near gj small) then
        some (if absR d ≤ small ∧ absR gj ≤ small then (if d = 0 then Ext.nan else Ext.fin (gj / d)) else Ext.fin 0)
      else none) g s pg
  if res.length ≠ alt.length then "bad-size" else
  " ".intercalate ((res.zip alt).map fun (r, a) =>
    match r with
    | .fin _ => (match a with
      | some o => fmtExt r ++ "|" ++ fmtExt o
      | none => fmtExt r)
    | _ => "*")

def stepLine (st : St) (line : String) : St × String :=
  let toks := (line.trimAscii.toString.splitOn " ").filter (· ≠ "")
  let N (s : String) : Nat := s.toNat?.getD 0
  match toks with
  | ["cfg", _, nv, ns, ss, m, mn, mx, iu, ii, en] =>
    match parseHex mn, parseHex mx with
    | some mn', some mx' =>
      ({ st with
          nvox := N nv, numSubsets := N ns, startSubset := N ss,
          map := if m == "1" then .additive else if m == "2" then .multiplicative else .none,
          minRel := mn', maxRel := mx', iuf := N iu, iif := N ii, enforce := en == "1" }, "ok")
    | _, _ => (st, "bad-cfg")
  | ["chk", ns, ss, n, start, save, ii, iu] =>
    let I (s : String) : Int := s.toInt?.getD 0
    (st, if setUpRangesOk (I ns) (I ss) (I n) (I start) (I save) (I ii) (I iu) then "ok" else "err")
  | "setup" :: rest =>
    match getVec (sections rest) "V" with
    | some v =>
      if v.length ≠ st.nvox then (st, "bad-size") else
      (st, fmtImg (setUp (st.cfg [] [] [] none none) v))
    | none => (st, "bad-float")
  | "upd" :: k :: subset :: eoiFollows :: rest =>
    let secs := sections rest
    let k' := N k
    match getVec secs "L", getVec secs "G", getVec secs "S" with
    | some img, some g, some s =>
      let hasP := (secs.find? (·.1 == "P")).isSome
      let hasF := (secs.find? (·.1 == "F")).isSome
      match (if hasP then getVec secs "P" else some (g.map fun _ => 0)), (if hasF then (getVec secs "F").map some else some none) with
      | some pg, some fu =>
        if img.length ≠ st.nvox ∨ g.length ≠ st.nvox ∨ s.length ≠ st.nvox ∨ pg.length ≠ st.nvox then (st, "bad-size")
        else if subsetNum k' st.startSubset st.numSubsets ≠ N subset then (st, "bad-subset")
        else if (st.map != .none) != hasP then (st, "prior-data-mismatch")
        else
          -- the filter must have fired exactly when the model says it fires
          let fires := st.iuf > 0 ∧ k' % st.iuf = 0
          let firesI := st.iif > 0 ∧ k' % st.iif = 0
          if decide fires != hasF then (st, "inter-update-filter-mismatch")
          else if decide firesI != (eoiFollows == "1") then (st, "inter-iteration-filter-mismatch")
          else
            let c := st.cfg g s pg fu none
            (st, answerUpd c k' img g s pg)
      | _, _ => (st, "bad-float")
    | _, _, _ => (st, "bad-float")
  | "eoi" :: k :: rest =>
    let secs := sections rest
    let k' := N k
    match getVec secs "L", getVec secs "F" with
    | some img, some fi =>
      let fires := st.iif > 0 ∧ k' % st.iif = 0
      if !decide fires then (st, "inter-iteration-filter-mismatch")
      else (st, fmtImg (endOfIteration (st.cfg [] [] [] none (some fi)) k' img))
    | _, _ => (st, "bad-float")
  | "post" :: k :: last :: fired :: rest =>
    let secs := sections rest
    let k' := N k
    let last' := N last
    match getVec secs "L" with
    | some img =>
      let hasF := (secs.find? (·.1 == "F")).isSome
      if hasF != (fired == "1") then (st, "bad-op")
      else if (k' == last') != hasF then (st, "post-filter-mismatch")   -- called exactly at the last sub-iteration
      else match (if hasF then (getVec secs "F").map some else some none) with
        | some fp =>
          (st, fmtImg (endOfIterationPost (st.cfg [] [] [] none none) (fp.map fun o _ => o) last' k' img))
        | none => (st, "bad-float")
    | none => (st, "bad-float")
  | "uimg" :: k :: subset :: rest =>
    let secs := sections rest
    let k' := N k
    match getVec secs "G", getVec secs "S" with
    | some g, some s =>
      let hasP := (secs.find? (·.1 == "P")).isSome
      match (if hasP then getVec secs "P" else some (g.map fun _ => 0)) with
      | some pg =>
        if g.length ≠ st.nvox ∨ s.length ≠ st.nvox ∨ pg.length ≠ st.nvox then (st, "bad-size")
        else if subsetNum k' st.startSubset st.numSubsets ≠ N subset then (st, "bad-subset")
        else if (st.map != .none) != hasP then (st, "prior-data-mismatch")
        else (st, answerUimg (st.cfg g s pg none none) k' g s pg)
      | none => (st, "bad-float")
    | _, _ => (st, "bad-float")
  | "mat" :: nv :: nb :: rest =>
    match parseRows rest with
    | some rows =>
      if rows.length ≠ N nb ∨ rows.any (fun r => r.elems.any fun e => e.1 ≥ N nv) then (st, "bad-size")
      else ({ st with geo := rows, sys := [] }, "ok")
    | none => (st, "bad-mat")
  | "dat" :: nb :: rest =>
    let secs := sections rest
    match getVec secs "Y", getVec secs "A", getVec secs "N" with
    | some y, some a, some n =>
      if y.length ≠ N nb ∨ a.length ≠ N nb ∨ n.length ≠ N nb ∨ st.geo.length ≠ N nb ∨ n.any (· == 0) then (st, "bad-size")
      else ({ st with sys := zip4 st.geo y a n }, "ok")
    | _, _, _ => (st, "bad-float")
  | "emx" :: k :: subset :: maxSeg :: zeroEnd :: useSub :: _nops :: rest =>
    let secs := sections rest
    let k' := N k
    match secs.find? (·.1 == "J"), getVec secs "L" with
    | some (_, js), some img =>
      if img.length ≠ st.nvox ∨ st.sys.isEmpty then (st, "bad-size")
      else if subsetNum k' st.startSubset st.numSubsets ≠ N subset then (st, "bad-subset")
      else if st.map != .none ∨ (st.iuf > 0 ∧ k' % st.iuf = 0) then (st, "bad-op")
      else
        let ms : Int := maxSeg.toInt?.getD 0
        let z := zeroEnd == "1"
        if !regularStep z ms st.numSubsets (N subset) st.sys img then (st, "irregular")
        else
          let c := st.cfg [] [] [] none none
          (st, " ".intercalate ((emExplicit c z (useSub == "1") ms st.sys k' img (js.map N)).map fmtExt))
    | _, _ => (st, "bad-float")
  | ["bal", v, d90, d180, sw, tof, phi, minv, maxv, maxseg, ns] =>
    let I (s : String) : Int := s.toInt?.getD 0
    let y := Sym.effective (I v) (d90 == "1") (d180 == "1") (sw == "1") (tof == "1") (phi == "1")
    (st, if setUpAcceptsSubsets y (I minv) (I maxv) (I maxseg) (I ns) then "ok" else "err")
  | ["init", "0", nv] => (st, fmtImg (initialData (N nv) .zeros))
  | ["init", "1", nv] => (st, fmtImg (initialData (N nv) .ones))
  | "init" :: "file" :: nv :: rest =>
    match getVec (sections rest) "V" with
    | some v => if v.length ≠ N nv then (st, "bad-size") else (st, fmtImg (initialData (N nv) (.file v)))
    | none => (st, "bad-float")
  | _ => (st, "bad-op")

partial def loop (h : IO.FS.Stream) (st : St) : IO Unit := do
  let line ← h.getLine
  if line.isEmpty then return ()
  let (st', out) := stepLine st line
  IO.println out
  loop h st'

def main : IO Unit := do loop (← IO.getStdin) {}
end Driver.C07
