import StirVerif.C07.Model
/-! Line-protocol driver for C07 (implementation side: harness/c07_osmaposl.cxx).

    cfg <stream> <nvox> <numSubsets> <startSubset> <map 0|1|2> <minRel> <maxRel> <iuf> <iif> <enforce>   -> ok
    chk <numSubsets> <startSubset> <numSubiterations> <startSubiteration> <saveInterval> <iif> <iuf>   -> ok | err
    setup V <image…>                                                  -> image after `set_up`
    upd <k> <subset> <1 if an inter-iteration filter call followed else 0> L <image…> G <gps…> S <sens…> [P <priorgrad…>] [F <inter-update filter output…>]
                                                                      -> image after `update_estimate`
    eoi <k> L <image…> F <inter-iteration filter output…>             -> image after `end_of_iteration_processing`
    post <k> <num_subiterations> <1 if the post-filter was called at k else 0> L <iterate k before post-filtering…> [F <post-filter output…>]
                                                                      -> image saved as iterate k (`endOfIterationPost`)
    uimg <k> <subset> G <gps…> S <sens…> [P <priorgrad…>]             -> the image written by `write update image` (`updateImage`)
    init 0|1 <nvox>   |   init file <nvox> V <image in the file…>     -> `get_initial_data_ptr()` (`initialData`)
    bal <views> <d90> <d180> <swap_segment> <tof> <phi offset> <min_view> <max_view> <max_segment> <numSubsets>   -> ok | err (`setUpAcceptsSubsets`)
    mat <nvox> <nbins> R <seg> <basic view> <ax> <minAx> <maxAx> <nelem> <j> <P_bj> … R …   -> ok   (explicit system matrix of the geometry)
    dat <nbins> Y <counts…> A <additive term…> N <normalisation factors…>                  -> ok   (data of the bins of the last `mat`)
    emx <k> <subset> <maxSeg> <zeroSeg0EndPlanes 0|1> <useSubsetSens 0|1> <n float ops> J <voxel indices…> L <image…>
                                                                      -> voxels J of the image after `update_estimate` (`emExplicit`:
                                                                         numerator and sensitivity from the explicit system of `mat`/`dat`)
    `upd`, `eoi`, `post` with a section `C <number of set_up calls> <slot content>` (filter stream): the slot holds a user
    filter object described in prefix notation — `u` a user filter (leaf), `t` ThresholdMinToSmallPositiveValueDataProcessor,
    `c X Y` ChainedDataProcessor(X, Y), `n` a null member — and there is one `F` section per leaf `u` (in order of
    application): what that leaf returned.  The model wraps the slot as `set_up` does (`Slots.setUpN`) and applies the
    object (`updateEstimateS`, `endOfIterationS`); without `C` the slot holds a single user filter, set up once.
    flt C 0 <content> L <image…> F <leaf output…> …                   -> `Filt.apply` of the described object (no `set_up`)
    dvt Y <numerator viewgram…> D <denominator viewgram…>             -> `divideAndTruncate` (both branches near a threshold)
    Floats are C99 hex floats, parsed exactly; answers are exact rationals `p/q` (or inf, -inf, nan); a voxel whose
    division is within 2^-20 (relative) of the threshold of `stir::divide` is answered as `a|b` (both branches), a voxel
    whose filtered value is below FLT_MIN (a denormal float) as `q~e` (absolute error bound e), a voxel
    whose quotient is non-zero / 0 as `*` (anything goes: outside the property, and -ffast-math territory). -/
namespace Driver.C07
open StirVerif.C07

def hexDigit (c : Char) : Option Nat :=
  if '0' ≤ c ∧ c ≤ '9' then some (c.toNat - '0'.toNat)
  else if 'a' ≤ c ∧ c ≤ 'f' then some (c.toNat - 'a'.toNat + 10)
  else if 'A' ≤ c ∧ c ≤ 'F' then some (c.toNat - 'A'.toNat + 10)
  else none

def pow2 (e : Int) : Rat := if e ≥ 0 then ((2 ^ e.toNat : Nat) : Rat) else 1 / ((2 ^ (-e).toNat : Nat) : Rat)

/-- exact value of a `%a` hex float such as `-0x1.99999ap-4`, `0x0p+0` -/
def parseHex (s : String) : Option Rat :=
  let cs := s.toList
  let (neg, cs) := match cs with
    | '-' :: r => (true, r)
    | '+' :: r => (false, r)
    | r => (false, r)
  match cs with
  | '0' :: x :: r =>
    if x ≠ 'x' ∧ x ≠ 'X' then none else
    let rec go (r : List Char) (mant : Nat) (fracDigits : Nat) (inFrac : Bool) : Option (Nat × Nat × List Char) :=
      match r with
      | [] => some (mant, fracDigits, [])
      | c :: t =>
        if c = '.' then go t mant fracDigits true
        else if c = 'p' ∨ c = 'P' then some (mant, fracDigits, t)
        else match hexDigit c with
          | some d => go t (mant * 16 + d) (if inFrac then fracDigits + 1 else fracDigits) inFrac
          | none => none
    match go r 0 0 false with
    | none => none
    | some (mant, fd, rest) =>
      let e : Int := if rest.isEmpty then 0 else
        let str := String.ofList (match rest with | '+' :: t => t | t => t)
        str.toInt?.getD 0
      let v : Rat := (mant : Rat) * pow2 (e - 4 * (fd : Int))
      some (if neg then -v else v)
  | _ => none

def fmtRat (q : Rat) : String := s!"{q.num}/{q.den}"

def fmtExt : Ext → String
  | .fin q => fmtRat q
  | .pinf => "inf"
  | .ninf => "-inf"
  | .nan => "nan"

def fmtImg (l : List Rat) : String := " ".intercalate (l.map fmtRat)

/-- split the tokens after the op header into tagged sections -/
def sections (toks : List String) : List (String × List String) :=
  let isTag (t : String) := t == "L" || t == "G" || t == "S" || t == "P" || t == "F" || t == "V" ||
    t == "Y" || t == "A" || t == "N" || t == "J" || t == "C" || t == "D"
  let rec go (toks : List String) (cur : Option (String × List String)) (acc : List (String × List String)) :=
    match toks with
    | [] => (match cur with | some (t, l) => (t, l.reverse) :: acc | none => acc).reverse
    | t :: r =>
      if isTag t then
        go r (some (t, [])) (match cur with | some (t', l) => (t', l.reverse) :: acc | none => acc)
      else match cur with
        | some (t', l) => go r (some (t', t :: l)) acc
        | none => go r none acc
  go toks none []

def getVec (secs : List (String × List String)) (tag : String) : Option (List Rat) :=
  match secs.find? (·.1 == tag) with
  | none => none
  | some (_, l) => l.mapM parseHex

/-- all sections with this tag, in order -/
def getVecs (secs : List (String × List String)) (tag : String) : Option (List (List Rat)) :=
  (secs.filter (·.1 == tag)).mapM fun p => p.2.mapM parseHex

/-- a slot content in prefix notation (`u`, `t`, `n`, `c X Y`); leaves take their outputs from `fs` in order.
    Returns the object, the rest of the tokens and the unused leaf outputs. -/
def parseFilt : Nat → List String → List Img → Option (Filt × List String × List Img)
  | 0, _, _ => none
  | _ + 1, "u" :: r, o :: fs => some (.user (fun _ => o), r, fs)
  | _ + 1, "t" :: r, fs => some (.threshold, r, fs)
  | _ + 1, "n" :: r, fs => some (.null, r, fs)
  | fuel + 1, "c" :: r, fs =>
    match parseFilt fuel r fs with
    | some (a, r1, fs1) =>
      match parseFilt fuel r1 fs1 with
      | some (b, r2, fs2) => some (.chain a b, r2, fs2)
      | none => none
    | none => none
  | _, _, _ => none

/-- number of user leaves of a description -/
def countLeaves (toks : List String) : Nat := (toks.filter (· == "u")).length

/-- the `C` section: number of `set_up` calls and the object, built with the leaf outputs `fs` (all must be used) -/
def parseSlot (secs : List (String × List String)) (fs : List Img) : Option (Nat × Filt) :=
  match secs.find? (·.1 == "C") with
  | some (_, n :: desc) =>
    match n.toNat?, parseFilt (desc.length + 1) desc fs with
    | some n', some (f, [], []) => some (n', f)
    | _, _ => none
  | _ => none

structure St where
  nvox : Nat := 0
  numSubsets : Nat := 1
  startSubset : Nat := 0
  map : MapModel := .none
  minRel : Rat := 0
  maxRel : Rat := 0
  iuf : Nat := 0
  iif : Nat := 0
  enforce : Bool := true
  geo : List Row := []      -- rows of the last `mat` (no data)
  sys : List Row := []      -- … with the data of the last `dat`

/-- rows of a `mat` line: `R seg basicView ax minAx maxAx nelem (j P)*` repeated -/
def parseRows (toks : List String) : Option (List Row) :=
  let rec elems (n : Nat) (toks : List String) (acc : List (Nat × Rat)) : Option (List (Nat × Rat) × List String) :=
    match n, toks with
    | 0, r => some (acc.reverse, r)
    | n + 1, j :: p :: r =>
      match j.toNat?, parseHex p with
      | some j', some p' => elems n r ((j', p') :: acc)
      | _, _ => none
    | _, _ => none
  let rec go (fuel : Nat) (toks : List String) (acc : List Row) : Option (List Row) :=
    match fuel, toks with
    | _, [] => some acc.reverse
    | 0, _ => none
    | fuel + 1, "R" :: seg :: bv :: ax :: mn :: mx :: ne :: r =>
      match seg.toInt?, bv.toInt?, ax.toInt?, mn.toInt?, mx.toInt?, ne.toNat? with
      | some seg', some bv', some ax', some mn', some mx', some ne' =>
        match elems ne' r [] with
        | some (es, rest) =>
          go fuel rest ({ seg := seg', basicView := bv', ax := ax', minAx := mn', maxAx := mx', y := 0, a := 0, eff := 1, elems := es } :: acc)
        | none => none
      | _, _, _, _, _, _ => none
    | _, _ => none
  go toks.length toks []

def zip4 (rows : List Row) (y a n : List Rat) : List Row :=
  match rows, y, a, n with
  | r :: rs, y :: ys, a :: as, n :: ns => { r with y := y, a := a, eff := 1 / n } :: zip4 rs ys as ns
  | _, _, _, _ => []

def St.cfg (s : St) (g sens pg : Img) (fu fi : Option Img) : Cfg :=
  { numSubsets := s.numSubsets, startSubset := s.startSubset, map := s.map, minRel := s.minRel, maxRel := s.maxRel,
    interUpdateInterval := s.iuf, interIterationInterval := s.iif, enforceInitialPositivity := s.enforce,
    gps := fun _ _ => g, sens := fun _ => sens, priorGrad := fun _ => pg,
    interUpdateFilter := fu.map (fun o _ => o), interIterationFilter := fi.map (fun o _ => o) }

/-- is `x` within 2^-20 (relative) of the threshold, or the threshold within rounding of 0 … -/
def near (x t : Rat) : Bool := absR (absR x - t) ≤ t / 1048576

/-- answers for `upd`: the model's voxel values, with both branches of `stir::divide` where the comparison with the
    float threshold `max(num)*small_num` cannot be decided from exact arithmetic -/
def answerUpdWith (c : Cfg) (k : Nat) (res : List Ext) (filtered : Bool) (img1 g s pg : Img) : String :=
  let small := smallValue g (divideSmallNum c.map)
  -- gradual underflow: a filtered (thresholded) voxel value below FLT_MIN = 2^-126 is a denormal float in the
  -- implementation, i.e. the model's exact value rounded with an ABSOLUTE error of up to 2^-149; the update factor `u`
  -- amplifies it: the answer `q~e` accepts |x - q| <= e = |u| 2^-149 + 2^-148
  let errs := zip4With (fun lam gj sj pj =>
      if filtered && lam != 0 && decide (absR lam < pow2 (-126)) then
        let u := divide1 small gj (denom c.map c.numSubsets pj sj)
        match (if k != 1 then thresholdUpperLower c.minRel c.maxRel u else u) with
        | .fin uq => some (absR uq * pow2 (-149) + pow2 (-148))
        | _ => none
      else none) img1 g s pg
  let alt := zip4With (fun lam gj sj pj =>
      let d := denom c.map c.numSubsets pj sj
      if small > 0 ∧ (near d small ∨ near gj small) then
        -- the other branch of the `if` in stir::divide
        let other : Ext := if absR d ≤ small ∧ absR gj ≤ small
          then (if d = 0 then Ext.nan else Ext.fin (gj / d)) else Ext.fin 0
        let other := if k != 1 then thresholdUpperLower c.minRel c.maxRel other else other
        some (mulExt lam other)
      else none) img1 g s pg
  -- a voxel whose quotient is not finite (non-zero / 0: inconsistent data, outside the property) is answered `*`:
  -- the library is compiled with -ffast-math, what it does with inf / nan is not specified
  let wild := zip4With (fun _ gj sj pj =>
      match divide1 small gj (denom c.map c.numSubsets pj sj) with
      | .fin _ => false
      | _ => true) img1 g s pg
  let parts := (((res.zip alt).zip wild).zip errs).map fun (((r, a), w), e) =>
    let suffix := match e with
      | some e' => "~" ++ fmtRat e'
      | none => ""
    if w then "*" else
    match a with
    | some o => fmtExt r ++ suffix ++ "|" ++ fmtExt o ++ suffix
    | none => fmtExt r ++ suffix
  if errs.length ≠ res.length then "bad-size" else
  " ".intercalate parts

def answerUpd (c : Cfg) (k : Nat) (img g s pg : Img) : String :=
  answerUpdWith c k (updateEstimate c k img)
    (c.interUpdateFilter.isSome && decide (c.interUpdateInterval > 0 ∧ k % c.interUpdateInterval = 0))
    (interUpdateFiltered c k img) g s pg

/-- `upd` of the filter stream: the object's slots after the `set_up` calls -/
def answerUpdS (c : Cfg) (sl : Slots) (k : Nat) (img g s pg : Img) : String :=
  answerUpdWith c k (updateEstimateS c sl k img)
    (!sl.interUpdate.isNull && decide (c.interUpdateInterval > 0 ∧ k % c.interUpdateInterval = 0))
    (slotFiltered c.interUpdateInterval sl.interUpdate k img) g s pg

/-- answers for `dvt`: `divideAndTruncate`, with both branches where a comparison with a float threshold
    (`max(num)*SMALL_NUM`, `max_quotient*denom`) cannot be decided from exact arithmetic -/
def answerDvt (num den : Img) : String :=
  let small := dtSmallValue num
  let res := divideAndTruncate num den
  let alts := List.zipWith (fun y d =>
      let a1 : List Rat := if small > 0 ∧ near y small then [0, if y > maxQuotient * d then maxQuotient else y / d] else []
      let a2 : List Rat := if d ≠ 0 ∧ y > 0 ∧ near y (absR (maxQuotient * d)) then [maxQuotient, y / d] else []
      a1 ++ a2) num den
  if res.length ≠ alts.length then "bad-size" else
  " ".intercalate ((res.zip alts).map fun (r, a) => "|".intercalate ((r :: a).map fmtRat))

/-- answers for `uimg`: the voxels of the model's update image, with both branches of `stir::divide` near its threshold -/
def answerUimg (c : Cfg) (k : Nat) (g s pg : Img) : String :=
  let res := updateImage c k []          -- `c.gps`, `c.sens`, `c.priorGrad` are the constant data of this operation
  let small := smallValue g (divideSmallNum c.map)
  let alt := zip3With (fun gj sj pj =>
      let d := denom c.map c.numSubsets pj sj
      if small > 0 ∧ (near d small ∨ near gj small) then
        some (if absR d ≤ small ∧ absR gj ≤ small then (if d = 0 then Ext.nan else Ext.fin (gj / d)) else Ext.fin 0)
      else none) g s pg
  if res.length ≠ alt.length then "bad-size" else
  " ".intercalate ((res.zip alt).map fun (r, a) =>
    match r with
    | .fin _ => (match a with
      | some o => fmtExt r ++ "|" ++ fmtExt o
      | none => fmtExt r)
    | _ => "*")

def stepLine (st : St) (line : String) : St × String :=
  let toks := (line.trimAscii.toString.splitOn " ").filter (· ≠ "")
  let N (s : String) : Nat := s.toNat?.getD 0
  match toks with
  | ["cfg", _, nv, ns, ss, m, mn, mx, iu, ii, en] =>
    match parseHex mn, parseHex mx with
    | some mn', some mx' =>
      ({ st with
          nvox := N nv, numSubsets := N ns, startSubset := N ss,
          map := if m == "1" then .additive else if m == "2" then .multiplicative else .none,
          minRel := mn', maxRel := mx', iuf := N iu, iif := N ii, enforce := en == "1" }, "ok")
    | _, _ => (st, "bad-cfg")
  | ["chk", ns, ss, n, start, save, ii, iu] =>
    let I (s : String) : Int := s.toInt?.getD 0
    (st, if setUpRangesOk (I ns) (I ss) (I n) (I start) (I save) (I ii) (I iu) then "ok" else "err")
  | "setup" :: rest =>
    match getVec (sections rest) "V" with
    | some v =>
      if v.length ≠ st.nvox then (st, "bad-size") else
      (st, fmtImg (setUp (st.cfg [] [] [] none none) v))
    | none => (st, "bad-float")
  | "upd" :: k :: subset :: eoiFollows :: rest =>
    let secs := sections rest
    let k' := N k
    match getVec secs "L", getVec secs "G", getVec secs "S" with
    | some img, some g, some s =>
      let hasP := (secs.find? (·.1 == "P")).isSome
      let hasF := (secs.find? (·.1 == "F")).isSome
      let hasC := (secs.find? (·.1 == "C")).isSome
      match (if hasP then getVec secs "P" else some (g.map fun _ => 0)), (if hasF then (getVec secs "F").map some else some none) with
      | some pg, some fu =>
        if img.length ≠ st.nvox ∨ g.length ≠ st.nvox ∨ s.length ≠ st.nvox ∨ pg.length ≠ st.nvox then (st, "bad-size")
        else if subsetNum k' st.startSubset st.numSubsets ≠ N subset then (st, "bad-subset")
        else if (st.map != .none) != hasP then (st, "prior-data-mismatch")
        else if hasC then
          -- filter stream: the slot's object, wrapped by `set_up` as often as it was called; leaf outputs are given
          -- exactly when the filter fires
          let fires := st.iuf > 0 ∧ k' % st.iuf = 0
          let firesI := st.iif > 0 ∧ k' % st.iif = 0
          let desc := ((secs.find? (·.1 == "C")).map (·.2.drop 1)).getD []
          match getVecs secs "F" with
          | none => (st, "bad-float")
          | some fs =>
            if fs.any (·.length ≠ st.nvox) then (st, "bad-size")
            else if decide firesI != (eoiFollows == "1") then (st, "inter-iteration-filter-mismatch")
            else if fs.length ≠ (if fires then countLeaves desc else 0) then (st, "inter-update-filter-mismatch")
            else
              -- (when it does not fire the leaves are never asked: any data will do)
              let fs' := if fires then fs else List.replicate (countLeaves desc) []
              match parseSlot secs fs' with
              | none => (st, "bad-slot")
              | some (n, f) =>
                let c := st.cfg g s pg none none
                let sl := Slots.setUpN c n { interUpdate := f }
                (st, answerUpdS c sl k' img g s pg)
        else
          -- the filter must have fired exactly when the model says it fires
          let fires := st.iuf > 0 ∧ k' % st.iuf = 0
          let firesI := st.iif > 0 ∧ k' % st.iif = 0
          if decide fires != hasF then (st, "inter-update-filter-mismatch")
          else if decide firesI != (eoiFollows == "1") then (st, "inter-iteration-filter-mismatch")
          else
            let c := st.cfg g s pg fu none
            (st, answerUpd c k' img g s pg)
      | _, _ => (st, "bad-float")
    | _, _, _ => (st, "bad-float")
  | "eoi" :: k :: rest =>
    let secs := sections rest
    let k' := N k
    let hasC := (secs.find? (·.1 == "C")).isSome
    if hasC then
      match getVec secs "L", getVecs secs "F" with
      | some img, some fs =>
        let fires := st.iif > 0 ∧ k' % st.iif = 0
        let desc := ((secs.find? (·.1 == "C")).map (·.2.drop 1)).getD []
        if !decide fires then (st, "inter-iteration-filter-mismatch")
        else if img.length ≠ st.nvox ∨ fs.any (·.length ≠ st.nvox) then (st, "bad-size")
        else if fs.length ≠ countLeaves desc then (st, "inter-iteration-filter-mismatch")
        else match parseSlot secs fs with
          | none => (st, "bad-slot")
          | some (n, f) =>
            let c := st.cfg [] [] [] none none
            let sl := Slots.setUpN c n { interIteration := f }
            -- (`last := 0`: no sub-iteration has number 0, the post-filter is the business of `post`)
            (st, fmtImg (endOfIterationS c sl 0 k' img))
      | _, _ => (st, "bad-float")
    else
    match getVec secs "L", getVec secs "F" with
    | some img, some fi =>
      let fires := st.iif > 0 ∧ k' % st.iif = 0
      if !decide fires then (st, "inter-iteration-filter-mismatch")
      else (st, fmtImg (endOfIteration (st.cfg [] [] [] none (some fi)) k' img))
    | _, _ => (st, "bad-float")
  | "post" :: k :: last :: fired :: rest =>
    let secs := sections rest
    let k' := N k
    let last' := N last
    let hasC := (secs.find? (·.1 == "C")).isSome
    if hasC then
      match getVec secs "L", getVecs secs "F" with
      | some img, some fs =>
        let desc := ((secs.find? (·.1 == "C")).map (·.2.drop 1)).getD []
        if (k' == last') != (fired == "1") then (st, "post-filter-mismatch")   -- called exactly at the last sub-iteration
        else if img.length ≠ st.nvox ∨ fs.any (·.length ≠ st.nvox) then (st, "bad-size")
        else if fs.length ≠ (if fired == "1" then countLeaves desc else 0) then (st, "post-filter-mismatch")
        else
          let fs' := if fired == "1" then fs else List.replicate (countLeaves desc) []
          match parseSlot secs fs' with
          | none => (st, "bad-slot")
          | some (n, f) =>
            -- the inter-iteration filter is switched off in the state of this operation (`L` is the iterate after it)
            let c := { st.cfg [] [] [] none none with interIterationInterval := 0 }
            let sl := Slots.setUpN c n { post := f }
            (st, fmtImg (endOfIterationS c sl last' k' img))
      | _, _ => (st, "bad-float")
    else
    match getVec secs "L" with
    | some img =>
      let hasF := (secs.find? (·.1 == "F")).isSome
      if hasF != (fired == "1") then (st, "bad-op")
      else if (k' == last') != hasF then (st, "post-filter-mismatch")   -- called exactly at the last sub-iteration
      else match (if hasF then (getVec secs "F").map some else some none) with
        | some fp =>
          (st, fmtImg (endOfIterationPost (st.cfg [] [] [] none none) (fp.map fun o _ => o) last' k' img))
        | none => (st, "bad-float")
    | none => (st, "bad-float")
  | "uimg" :: k :: subset :: rest =>
    let secs := sections rest
    let k' := N k
    match getVec secs "G", getVec secs "S" with
    | some g, some s =>
      let hasP := (secs.find? (·.1 == "P")).isSome
      match (if hasP then getVec secs "P" else some (g.map fun _ => 0)) with
      | some pg =>
        if g.length ≠ st.nvox ∨ s.length ≠ st.nvox ∨ pg.length ≠ st.nvox then (st, "bad-size")
        else if subsetNum k' st.startSubset st.numSubsets ≠ N subset then (st, "bad-subset")
        else if (st.map != .none) != hasP then (st, "prior-data-mismatch")
        else (st, answerUimg (st.cfg g s pg none none) k' g s pg)
      | none => (st, "bad-float")
    | _, _ => (st, "bad-float")
  | "mat" :: nv :: nb :: rest =>
    match parseRows rest with
    | some rows =>
      if rows.length ≠ N nb ∨ rows.any (fun r => r.elems.any fun e => e.1 ≥ N nv) then (st, "bad-size")
      else ({ st with geo := rows, sys := [] }, "ok")
    | none => (st, "bad-mat")
  | "dat" :: nb :: rest =>
    let secs := sections rest
    match getVec secs "Y", getVec secs "A", getVec secs "N" with
    | some y, some a, some n =>
      if y.length ≠ N nb ∨ a.length ≠ N nb ∨ n.length ≠ N nb ∨ st.geo.length ≠ N nb ∨ n.any (· == 0) then (st, "bad-size")
      else ({ st with sys := zip4 st.geo y a n }, "ok")
    | _, _, _ => (st, "bad-float")
  | "emx" :: k :: subset :: maxSeg :: zeroEnd :: useSub :: _nops :: rest =>
    let secs := sections rest
    let k' := N k
    match secs.find? (·.1 == "J"), getVec secs "L" with
    | some (_, js), some img =>
      if img.length ≠ st.nvox ∨ st.sys.isEmpty then (st, "bad-size")
      else if subsetNum k' st.startSubset st.numSubsets ≠ N subset then (st, "bad-subset")
      else if st.map != .none ∨ (st.iuf > 0 ∧ k' % st.iuf = 0) then (st, "bad-op")
      else
        let ms : Int := maxSeg.toInt?.getD 0
        let z := zeroEnd == "1"
        if !regularStep z ms st.numSubsets (N subset) st.sys img then (st, "irregular")
        else
          let c := st.cfg [] [] [] none none
          (st, " ".intercalate ((emExplicit c z (useSub == "1") ms st.sys k' img (js.map N)).map fmtExt))
    | _, _ => (st, "bad-float")
  | ["bal", v, d90, d180, sw, tof, phi, minv, maxv, maxseg, ns] =>
    let I (s : String) : Int := s.toInt?.getD 0
    let y := Sym.effective (I v) (d90 == "1") (d180 == "1") (sw == "1") (tof == "1") (phi == "1")
    (st, if setUpAcceptsSubsets y (I minv) (I maxv) (I maxseg) (I ns) then "ok" else "err")
  | "flt" :: rest =>
    let secs := sections rest
    match getVec secs "L", getVecs secs "F" with
    | some img, some fs =>
      if fs.any (·.length ≠ img.length) then (st, "bad-size")
      else match parseSlot secs fs with
        | some (_, f) => (st, fmtImg (f.apply img))
        | none => (st, "bad-slot")
    | _, _ => (st, "bad-float")
  | "dvt" :: rest =>
    let secs := sections rest
    match getVec secs "Y", getVec secs "D" with
    | some y, some d => if y.length ≠ d.length then (st, "bad-size") else (st, answerDvt y d)
    | _, _ => (st, "bad-float")
  | ["init", "0", nv] => (st, fmtImg (initialData (N nv) .zeros))
  | ["init", "1", nv] => (st, fmtImg (initialData (N nv) .ones))
  | "init" :: "file" :: nv :: rest =>
    match getVec (sections rest) "V" with
    | some v => if v.length ≠ N nv then (st, "bad-size") else (st, fmtImg (initialData (N nv) (.file v)))
    | none => (st, "bad-float")
  | _ => (st, "bad-op")

partial def loop (h : IO.FS.Stream) (st : St) : IO Unit := do
  let line ← h.getLine
  if line.isEmpty then return ()
  let (st', out) := stepLine st line
  IO.println out
  loop h st'

def main : IO Unit := do loop (← IO.getStdin) {}
end Driver.C07
