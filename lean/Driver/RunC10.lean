import Driver.C10
def main : IO Unit := Driver.C10.main
