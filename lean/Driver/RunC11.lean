import Driver.C11
def main : IO Unit := Driver.C11.main
