import Driver.C13
def main : IO Unit := Driver.C13.main
