import Driver.C12
def main : IO Unit := Driver.C12.main
