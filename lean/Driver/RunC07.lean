import Driver.C07
def main : IO Unit := Driver.C07.main
