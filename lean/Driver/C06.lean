import StirVerif.C06.Model
/-! Line-protocol driver for C06 (implementation side: harness/c06_subsets.cxx). -/
namespace Driver.C06
open StirVerif.C06

def b2s (b : Bool) : String := if b then "1" else "0"

def sortVS (l : List VS) : List VS :=
  (l.toArray.qsort fun a b => a.view < b.view || (a.view == b.view && a.seg < b.seg)).toList

def fmtVS (l : List VS) : String := " ".intercalate ((sortVS l).map fun p => s!"{p.view}:{p.seg}")

def chunksAux (n : Nat) : Nat → List Nat → List (List Nat)
  | 0, _ => []
  | _, [] => []
  | fuel + 1, l => l.take n :: chunksAux n fuel (l.drop n)

def chunks (n : Nat) (l : List Nat) : List (List Nat) := if n = 0 then [] else chunksAux n l.length l

def stepLine (y : Sym) (line : String) : Sym × String :=
  let toks := (line.trimAscii.toString.splitOn " ").filter (· ≠ "")
  let I (s : String) : Int := s.toInt?.getD 0
  let N (s : String) : Nat := s.toNat?.getD 0
  match toks with
  | ["cfg", v, a, b, c, d, t] =>
    let y' := Sym.effectiveTOF (I v) (a == "1") (b == "1") (c == "1") (d == "1") (t == "1")
    (y', s!"eff {b2s y'.d90} {b2s y'.d180} {b2s y'.swapSeg}")
  | ["basic", v, s] =>
    let (p, ch) := findBasic y ⟨I v, I s⟩
    (y, s!"{p.view} {p.seg} {b2s ch}")
  | ["rel", v, s] => (y, fmtVS (related y ⟨I v, I s⟩))
  | ["nrel", v, s] => (y, toString (numRelated y ⟨I v, I s⟩))
  | ["subset", i, n, mins, maxs, mint, maxt] =>
    (y, fmtVS (processed y 0 (y.V - 1) (I mins) (I maxs) (I mint) (I maxt) (N i) (N n)))
  | ["balanced", n, maxs] => (y, b2s (balanced y 0 (y.V - 1) (I maxs) (N n)))
  | "sched" :: n :: start :: rnd :: iters :: draws =>
    let n' := N n
    let seq : List Nat :=
      if rnd == "1" then ((chunks n' (draws.map N)).map (permute n')).flatten
      else (List.range (N iters * n')).map fun k => subsetNum (k + 1) (N start) n'
    (y, " ".intercalate (seq.map toString))
  | _ => (y, "bad-op")

partial def loop (h : IO.FS.Stream) (y : Sym) : IO Unit := do
  let line ← h.getLine
  if line.isEmpty then return ()
  let (y', out) := stepLine y line
  IO.println out
  loop h y'

def main : IO Unit := do loop (← IO.getStdin) (Sym.effective 1 false false false true)
end Driver.C06
