import StirVerif.C06.Model
/-! Line-protocol driver for C06 (implementation side: harness/c06_subsets.cxx). -/
namespace Driver.C06
open StirVerif.C06

def b2s (b : Bool) : String := if b then "1" else "0"

def sortVS (l : List VS) : List VS :=
  (l.toArray.qsort fun a b => a.view < b.view || (a.view == b.view && a.seg < b.seg)).toList

def fmtVS (l : List VS) : String := " ".intercalate ((sortVS l).map fun p => s!"{p.view}:{p.seg}")

def sortVST (l : List (VS × Int)) : List (VS × Int) :=
  (l.toArray.qsort fun a b =>
    a.1.view < b.1.view || (a.1.view == b.1.view && (a.1.seg < b.1.seg || (a.1.seg == b.1.seg && a.2 < b.2)))).toList

def fmtVST (l : List (VS × Int)) : String :=
  if l.isEmpty then "-" else " ".intercalate ((sortVST l).map fun p => s!"{p.1.view}:{p.1.seg}:{p.2}")

def chunksAux (n : Nat) : Nat → List Nat → List (List Nat)
  | 0, _ => []
  | _, [] => []
  | fuel + 1, l => l.take n :: chunksAux n fuel (l.drop n)

def chunks (n : Nat) (l : List Nat) : List (List Nat) := if n = 0 then [] else chunksAux n l.length l

def stepLine (y : Sym) (line : String) : Sym × String :=
  let toks := (line.trimAscii.toString.splitOn " ").filter (· ≠ "")
  let I (s : String) : Int := s.toInt?.getD 0
  let N (s : String) : Nat := s.toNat?.getD 0
  match toks with
  | ["cfg", v, a, b, c, d, t] =>
    let y' := Sym.effectiveTOF (I v) (a == "1") (b == "1") (c == "1") (d == "1") (t == "1")
    (y', s!"eff {b2s y'.d90} {b2s y'.d180} {b2s y'.swapSeg}")
  | ["basic", v, s] =>
    let (p, ch) := findBasic y ⟨I v, I s⟩
    (y, s!"{p.view} {p.seg} {b2s ch}")
  | ["rel", v, s] => (y, fmtVS (related y ⟨I v, I s⟩))
  | ["nrel", v, s] => (y, toString (numRelated y ⟨I v, I s⟩))
  | ["subset", i, n, mins, maxs, mint, maxt] =>
    (y, fmtVS (processed y 0 (y.V - 1) (I mins) (I maxs) (I mint) (I maxt) (N i) (N n)))
  | ["balanced", n, maxs] => (y, b2s (balanced y 0 (y.V - 1) (I maxs) (N n)))
  | ["cfgtrivial", v] =>
    -- TrivialDataSymmetriesForBins: no symmetries
    ({ V := I v, d90 := false, d180 := false, swapSeg := false }, "eff 0 0 0")
  | ["balancedsu", n, req, dmax, uss] =>
    match balancedAfterSetUp y 0 (y.V - 1) (I req) (I dmax) (N n) (uss == "1") with
    | none => (y, "err")
    | some (b, m) => (y, s!"{b2s b} {m}")
  | ["bp", i, n, mins, maxs, mint, maxt] =>
    (y, fmtVST (projected y 0 (y.V - 1) (I mins) (I maxs) (I mint) (I maxt) (N i) (N n)))
  | ["fp", i, n, mins, maxs, mint, maxt] =>
    (y, fmtVST (projected y 0 (y.V - 1) (I mins) (I maxs) (I mint) (I maxt) (N i) (N n)))
  | "recon" :: n :: ss :: s0 :: rnd :: nsub :: chk :: uss :: maxs :: draws =>
    let n' := N n
    let bal := chk != "1" || balanced y 0 (y.V - 1) (I maxs) n'
    if !reconSetUpOk (I n) (I ss) (I s0) (I nsub) (uss == "1") bal then (y, "err")
    else
      let d := (draws.map N).toArray
      let seq := reconSchedule n' (N ss) (rnd == "1") (N s0) (N nsub) (fun j => d.getD j 0)
      if seq.any (·.isNone) then (y, "ub")   -- array indexed outside its range: cannot happen (C06_recon_defined)
      else if seq.isEmpty then (y, "-")
      else (y, " ".intercalate (seq.map fun o => toString (o.getD 0)))
  | "sched" :: n :: start :: rnd :: iters :: draws =>
    let n' := N n
    let seq : List Nat :=
      if rnd == "1" then ((chunks n' (draws.map N)).map (permute n')).flatten
      else (List.range (N iters * n')).map fun k => subsetNum (k + 1) (N start) n'
    (y, " ".intercalate (seq.map toString))
  | _ => (y, "bad-op")

partial def loop (h : IO.FS.Stream) (y : Sym) : IO Unit := do
  let line ← h.getLine
  if line.isEmpty then return ()
  let (y', out) := stepLine y line
  IO.println out
  loop h y'

def main : IO Unit := do loop (← IO.getStdin) (Sym.effective 1 false false false true)
end Driver.C06
