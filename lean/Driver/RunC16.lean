import Driver.C16
def main : IO Unit := Driver.C16.main
