import StirVerif.C18.Model
/-! Line-protocol driver for C18: validates event traces recorded from the OpenMP build of the library
    (harness/c18_threads.cxx) against the protocol model's trace validators, and answers the operations on the
    executable models of the per-thread accumulators (`acc …`) and of the number of threads (`nt …`).

    A trace is `begin <name> <bp> <fp> <dist>`, `ev …` / `threads <T>` lines, `end`.  A `threads` line starts a new segment:
    the number of threads in force from there on.  Lazy tables and the cache are validated over the whole trace (their state
    outlives a change of the number of threads), the work items and the thread numbers segment by segment. -/
namespace Driver.C18
open StirVerif.C18

structure St where
  scenario : String := ""
  expectedBp : Nat := 0
  expectedFp : Nat := 0
  expectedDist : Nat := 0
  evs : List Ev := []                      -- reversed, whole trace
  segs : List (Nat × List Ev) := []        -- reversed list of closed segments (thread bound, events in order)
  bound : Nat := 0                         -- thread bound of the open segment (0: none given)
  cur : List Ev := []                      -- reversed, open segment
  -- state that outlives the traces
  acc : Option Accum := some Accum.new     -- `none`: an index outside the vector happened (undefined behaviour in the C++)
  nt : Option NumThreads := some { alreadySetOnce := false, maxThreads := 0 }

def finish (s : St) : String :=
  let evs := s.evs.reverse
  let segs := ((s.bound, s.cur.reverse) :: s.segs).reverse
  let whole : List (Option String) :=
    [validateDcl "pdi.ringdiff" evs, validateDcl "pdi.vt2det" evs, validateDcl "pdi.det2vt" evs,
     validateCache evs, validateCacheProtocol evs]
  let perSeg : List (Option String) :=
    segs.flatMap fun (b, es) =>
      -- a segment without any work item of a kind is a segment in which that kind of pass did not run
      let cnt (site : String) := (es.filter (·.site == site)).length
      [validateThreads b es,
       if s.expectedBp > 0 && (segs.length == 1 || cnt "bp.work" > 0) then validateWork "bp.work" s.expectedBp es else none,
       if s.expectedFp > 0 && (segs.length == 1 || cnt "fp.work" > 0) then validateWork "fp.work" s.expectedFp es else none,
       if s.expectedDist > 0 && (segs.length == 1 || cnt "dist.work" > 0) then validateWork "dist.work" s.expectedDist es else none]
  match (whole ++ perSeg).findSome? id with
  | some why => s!"reject: {why}"
  | none => "ok"

def natsToString (l : List Nat) : String := String.intercalate " " (l.map toString)

def parseEnv (t : String) : Option Int := if t == "none" then none else t.toInt?

def stepLine (s : St) (line : String) : St × String :=
  let toks := (line.trimAscii.toString.splitOn " ").filter (· ≠ "")
  match toks with
  | ["begin", name, bp, fp, dist] =>
    ({ s with scenario := name, expectedBp := bp.toNat?.getD 0, expectedFp := fp.toNat?.getD 0,
              expectedDist := dist.toNat?.getD 0, evs := [], segs := [], bound := 0, cur := [] }, "begin")
  | ["ev", tid, site, key, val] =>
    let e : Ev := ⟨tid.toNat?.getD 0, site, key.toInt?.getD 0, val.toInt?.getD 0⟩
    ({ s with evs := e :: s.evs, cur := e :: s.cur }, ".")
  | ["threads", t] =>
    -- an empty unbounded first segment is dropped
    let segs := if s.cur.isEmpty && s.bound == 0 then s.segs else (s.bound, s.cur.reverse) :: s.segs
    ({ s with segs := segs, bound := t.toNat?.getD 0, cur := [] }, ".")
  | ["end"] =>
    ({ s with scenario := "", expectedBp := 0, expectedFp := 0, expectedDist := 0, evs := [], segs := [], bound := 0, cur := [] },
     finish s)
  -- per-thread accumulators of one back projector
  | ["acc", "new"] => ({ s with acc := some Accum.new }, ".")
  | ["acc", "setup", n] => ({ s with acc := s.acc.map (·.setUp (n.toNat?.getD 0)) }, ".")
  | "acc" :: "pass" :: tids =>
    -- the contribution of a work item is abstracted to 1
    let work := tids.map fun t => (t.toNat?.getD 0, (1 : Int))
    let a' := s.acc.bind (·.pass work)
    ({ s with acc := a' }, if a'.isSome then "." else "out-of-range")
  | ["acc", "output"] =>
    match s.acc with
    | some a => (s, if a.live.isEmpty then "slots" else "slots " ++ natsToString a.live)
    | none => (s, "undefined")
  -- number of threads
  | ["nt", "default", np, env] => (s, toString (getDefaultNumThreads (np.toInt?.getD 0) (parseEnv env)))
  | ["nt", "set", n, np, env] =>
    let d := getDefaultNumThreads (np.toInt?.getD 0) (parseEnv env)
    match s.nt.bind (·.set (n.toInt?.getD 0) d) with
    | some t => ({ s with nt := some t }, s!"max {t.maxThreads}")
    | none => ({ s with nt := none }, "never-returns")
  | ["nt", "setdefault", np, env] =>
    let d := getDefaultNumThreads (np.toInt?.getD 0) (parseEnv env)
    match s.nt.bind (·.setDefault d) with
    | some t => ({ s with nt := some t }, s!"max {t.maxThreads}")
    | none => ({ s with nt := none }, "never-returns")
  | _ => (s, "bad-op")

partial def loop (h : IO.FS.Stream) (s : St) : IO Unit := do
  let line ← h.getLine
  if line.isEmpty then return ()
  let (s', out) := stepLine s line
  IO.println out
  loop h s'

def main : IO Unit := do loop (← IO.getStdin) {}
end Driver.C18
