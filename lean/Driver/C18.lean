import StirVerif.C18.Model
/-! Line-protocol driver for C18: validates event traces recorded from the OpenMP build of the library
    (harness/c18_threads.cxx) against the protocol model's trace validators. -/
namespace Driver.C18
open StirVerif.C18

structure St where
  scenario : String := ""
  expectedBp : Nat := 0
  expectedFp : Nat := 0
  expectedDist : Nat := 0
  evs : List Ev := []      -- reversed

def finish (s : St) : String :=
  let evs := s.evs.reverse
  let checks : List (Option String) :=
    [validateDcl "pdi.ringdiff" evs, validateDcl "pdi.vt2det" evs, validateDcl "pdi.det2vt" evs,
     validateCache evs,
     if s.expectedBp > 0 then validateWork "bp.work" s.expectedBp evs else none,
     if s.expectedFp > 0 then validateWork "fp.work" s.expectedFp evs else none,
     if s.expectedDist > 0 then validateWork "dist.work" s.expectedDist evs else none]
  match checks.findSome? id with
  | some why => s!"reject: {why}"
  | none => "ok"

def stepLine (s : St) (line : String) : St × String :=
  let toks := (line.trimAscii.toString.splitOn " ").filter (· ≠ "")
  match toks with
  | ["begin", name, bp, fp, dist] =>
    ({ scenario := name, expectedBp := bp.toNat?.getD 0, expectedFp := fp.toNat?.getD 0,
       expectedDist := dist.toNat?.getD 0, evs := [] }, "begin")
  | ["ev", tid, site, key, val] =>
    ({ s with evs := ⟨tid.toNat?.getD 0, site, key.toInt?.getD 0, val.toInt?.getD 0⟩ :: s.evs }, ".")
  | ["end"] => ({}, finish s)
  | _ => (s, "bad-op")

partial def loop (h : IO.FS.Stream) (s : St) : IO Unit := do
  let line ← h.getLine
  if line.isEmpty then return ()
  let (s', out) := stepLine s line
  IO.println out
  loop h s'

def main : IO Unit := do loop (← IO.getStdin) {}
end Driver.C18
