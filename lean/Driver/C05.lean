import StirVerif.C05.Model
/-! Line-protocol driver for C05 (implementation side: harness/c05_poissonll.cxx).

Data lines (answer `ok`):
  `cfg <id> nvox=<V> zero=<0|1> …`            new configuration
  `img f…` / `inp f…`                          current image / Hessian input (C99 hex floats)
  `bin  <vg> <endplane> <y> <a|-> <k> <N|E><f>…(k) <m> <vox> <p> …(m)`   one bin of the measured data
  `sbin …`                                     same, the non-TOF clone of the geometry (TOF data only)
Operations (viewgram ids of the subset follow):
  `val ids…`                → `<bits of value (binary64)> <bits of bound>`   (model at `Float`)
  `grad|gps|sens ids…`, `sensdiv <n> ids…`, `hess <c0> ids…`, `ahess <c0> ids…`
                            → per voxel `<round(exact·2^100)>:<ceil(bound·2^100)>` (model at `Rat`)
  `ssens ids…`, `ssensdiv <n> ids…`: the same as `sens`, `sensdiv` on the viewgrams of the `sbin` geometry
  with a prior (`p…` = the prior's gradient, `pin…` = the prior's (approximate) Hessian applied to the input, V values each):
  `pval <n> <prior value> ids…`, `pvalfull <prior value> ids…`          → like `val`: value − prior/n, value − prior
  `pgrad <n> <V> p… ids…`, `pgradfull <V> p… ids…`                      → per voxel gradient − p/n, gradient − p
  `phess|pahess <n> <c0> <V> pin… ids…`                                 → per voxel (c0 − product) − pin/n
  `phessfull|pahessfull <n> <c0> <V> pin… ids… / ids… / …`              → the subsets accumulated one after the other, each step penalised
  `balance <use_subset_sens> counts…` → `ok` / `refused`: does `set_up` accept subsets with these numbers of viewgrams;
  `segrange <setting> <data max>`, `tofrange <setting> <data max>` → the segment / TOF range after `set_up` or `err`;
  `tofsens <recompute> <use_tofsens> <tof data> <TOF range restricted> links…` (`T` trivial, `P0`/`P1` FromProjData without/with TOF,
  `E0`/`E1` table) → `use_tofsens` after `set_up`;
  a result that depends on a comparison within 2^-10 (relative) of one of the thresholds of
  `divide_and_truncate` / `accumulate_loglikelihood` is answered `near` (not compared);
  `range <n> <s>` → `ok ok` / `err err`: is subset number `s` of `n` accepted by the gradient / value functions;
  `pen <n> <c> q…(c) p…(c)` → per element `q − p/n`; `penh|penah <n> <c> q…(c) pin…(c)` → `q − pin/n` (`pin` = prior's Hessian applied to the input);
  `hist <sameproj> <recompute> <nsub> <g> <g2> r…` → per request `1`/`0` (served correctly?) for the flag machine, for the given
  values of the two indeterminate members and, after ` / `, for the opposite values if that makes a difference.
One object set up several times (the model object `SensObj` and the model files survive `cfg` lines):
  `hnew` → a newly constructed object, no sensitivity files on disk;
  `hsetup <use_subset_sens> <n> <set_recompute_sensitivity called with 0|1, or -> <sensitivity_filename set> <subsensitivity_filenames set>
          <subsets balanced> <sep> <segment range setting> <data max> <TOF range setting> <data max> ids… / ids… / …` (the sensitivity viewgrams of subset 0 / 1 / …; `sep`: of the `sbin` geometry)
          → `ok|refused <recompute_sensitivity after set_up>`: `setUpSens` of the model on the object as the earlier lines left it;
  `hsub <s>`, `htot` → what `get_subset_sensitivity(s)` / `get_sensitivity()` of that object return now (`null`: null pointer), per voxel
          value and bound as for `sens`.
One object through public setter calls after `set_up` (the model object `Obj` survives `cfg` lines):
  `snew` → a newly constructed object;
  `sset <setter> <args>` → the setter of the model (`num_subsets n`, `proj_data id`, `input_data id`, `additive id`, `normalisation id`,
          `projector_pair id`, `max_segment m`, `max_tof m`, `zero b`, `use_subset_sens b`, `recompute b`, `sens_filename id`,
          `subsens_filenames id`, `subset_sens_sptr s id`, `frame_num k`, `frame_defs id`, `prior id ready`, `parse zero maxseg`; ids: identity of
          the pointer / string / value, 0 = null / empty) → `<already_set_up> n=… seg=… tof=… zero=… subsens=… rec=… frame=…` (what the getters show;
          the implementation prefixes `err` when the setter threw);
  `ssetup <data max segment> <data max TOF bin> <subsets balanced> <subsensitivity_sptrs[0] null> <files readable> <number of frames>` →
          `ok|refused <flag and members as above>`: `Obj.setUp`;
  `sreq <kind>` → `1`/`0`: is the request answered (`value|gradient|gps|hessian|ahessian` through the penalised functions, `…_wo` the
          `*_without_penalty` ones, `sensitivity` = `add_subset_sensitivity`, `agrad` = `actual_compute_subset_gradient_without_penalty`,
          `cached` = `get_subset_sensitivity`, `total` = `get_sensitivity`).
The bound is the forward error bound `4·n·2⁻²⁴·Σ|terms|` (n = longest chain of float operations:
row length(s) + contributions to the voxel + 10), plus `8·2⁻²⁴·|value|` for the value (log). -/
namespace Driver.C05
open StirVerif.C05

/-- hex digit -/
def hexVal (c : Char) : Option Nat :=
  if '0' ≤ c ∧ c ≤ '9' then some (c.toNat - '0'.toNat)
  else if 'a' ≤ c ∧ c ≤ 'f' then some (c.toNat - 'a'.toNat + 10)
  else if 'A' ≤ c ∧ c ≤ 'F' then some (c.toNat - 'A'.toNat + 10)
  else none

/-- exact value of a C99 hex float (`%a`): `[-]0x<h>[.<hhh>]p<±e>` -/
def parseHex (s : String) : Option Rat := do
  let (neg, cs) := match s.toList with
    | '-' :: r => (true, r)
    | '+' :: r => (false, r)
    | r => (false, r)
  let cs ← match cs with
    | '0' :: 'x' :: r => some r
    | '0' :: 'X' :: r => some r
    | _ => none
  let rec go (cs : List Char) (mant : Nat) (frac : Nat) (seenDot : Bool) : Option (Nat × Nat × List Char) :=
    match cs with
    | [] => some (mant, frac, [])
    | 'p' :: r => some (mant, frac, r)
    | 'P' :: r => some (mant, frac, r)
    | '.' :: r => go r mant frac true
    | c :: r => do
      let d ← hexVal c
      go r (mant * 16 + d) (if seenDot then frac + 1 else frac) seenDot
  let (mant, frac, rest) ← go cs 0 0 false
  let e : Int ← if rest.isEmpty then some 0 else (String.ofList (match rest with | '+' :: r => r | r => r)).toInt?
  let e := e - 4 * (frac : Int)
  let m : Rat := (mant : Int)
  let v : Rat := if e ≥ 0 then m * ((2 ^ e.toNat : Nat) : Int) else m / ((2 ^ (-e).toNat : Nat) : Int)
  some (if neg then -v else v)

def hexD (s : String) : Rat := (parseHex s).getD 0

/-- `Rat → Float` (used only on dyadic inputs, where it is exact) -/
def toFloat (q : Rat) : Float := Float.ofInt q.num / Float.ofNat q.den

def absR (q : Rat) : Rat := if q < 0 then -q else q

def constsR : Consts Rat :=
  { smallNum := hexD "0x1.0c6f7ap-20", maxQuot := 10000, tiny := hexD "0x1.79ca1p-67" }
def constsF : Consts Float :=
  { smallNum := toFloat constsR.smallNum, maxQuot := 10000, tiny := toFloat constsR.tiny }

def factorF : Factor Rat → Factor Float
  | .normFactor n => .normFactor (toFloat n)
  | .eff e => .eff (toFloat e)

def binF (b : Bin Rat) : Bin Float :=
  { endPlane := b.endPlane, y := toFloat b.y, a := b.a.map toFloat, fac := b.fac.map factorF,
    row := b.row.map fun e => (e.1, toFloat e.2) }

/-- an image of the sensitivity bookkeeping: per voxel the exact value, `Σ|terms|` and the number of terms -/
abbrev VImg := Array (Rat × Rat × Rat)

def vops (nvox : Nat) : ImgOps VImg :=
  { zero := Array.replicate nvox (0, 0, 0)
    add := fun a b => ((List.range (max a.size b.size)).map fun i =>
      let x := a.getD i (0, 0, 0)
      let y := b.getD i (0, 0, 0)
      (x.1 + y.1, x.2.1 + y.2.1, x.2.2 + y.2.2 + 1)).toArray
    divN := fun a n => a.map fun x => (x.1 / ((n : Int) : Rat), x.2.1 / ((n : Int) : Rat), x.2.2 + 1) }

structure Ctx where
  zero : Bool := false
  nvox : Nat := 0
  img : Array Rat := #[]
  inp : Array Rat := #[]
  vgs : Array (List (Bin Rat)) := #[]    -- bins of a viewgram in reverse order of arrival
  svgs : Array (List (Bin Rat)) := #[]
  hasS : Bool := false
  pmax : Rat := 0                        -- largest matrix element of the configuration
  sobj : SensObj VImg := SensObj.fresh   -- the object of the re-use history (survives `cfg`)
  sfiles : SensFiles VImg := SensFiles.empty
  pobj : Obj := Obj.new                  -- the object of the setter history (survives `cfg`)

def keyVal (toks : List String) (key : String) : Option String :=
  toks.findSome? fun t => if t.startsWith (key ++ "=") then some ((t.drop (key.length + 1)).toString) else none

def parseBin (toks : List String) : Option (Nat × Bin Rat) := do
  match toks with
  | vg :: ep :: y :: a :: k :: rest =>
    let k ← k.toNat?
    let facs := rest.take k
    let rest := rest.drop k
    let fac ← facs.mapM fun f =>
      match f.toList with
      | 'N' :: r => (parseHex (String.ofList r)).map Factor.normFactor
      | 'E' :: r => (parseHex (String.ofList r)).map Factor.eff
      | _ => none
    match rest with
    | m :: rest =>
      let m ← m.toNat?
      let rec rows (n : Nat) (l : List String) (acc : List (Nat × Rat)) : Option (List (Nat × Rat)) :=
        match n, l with
        | 0, _ => some acc.reverse
        | n + 1, v :: p :: l => do
          let v ← v.toNat?
          let p ← parseHex p
          rows n l ((v, p) :: acc)
        | _, _ => none
      let row ← rows m rest []
      let aa ← if a == "-" then some none else (parseHex a).map some
      some (← vg.toNat?, { endPlane := ep == "1", y := ← parseHex y, a := aa, fac := fac, row := row })
    | _ => none
  | _ => none

def pushBin (arr : Array (List (Bin Rat))) (vg : Nat) (b : Bin Rat) : Array (List (Bin Rat)) :=
  let arr := if vg < arr.size then arr else arr ++ Array.replicate (vg + 1 - arr.size) []
  arr.modify vg (b :: ·)

def getVgs (arr : Array (List (Bin Rat))) (ids : List Nat) : List (Viewgram Rat) :=
  ids.map fun i => (arr.getD i []).reverse

def scale : Nat := 2 ^ 100

def roundScaled (q : Rat) : Int := (q * (scale : Int) + (1 : Rat) / 2).floor
def ceilScaled (q : Rat) : Int := (q * (scale : Int)).ceil + 1

/-- `u = 2⁻²⁴` -/
def u24 : Rat := (1 : Rat) / ((2 ^ 24 : Nat) : Int)

/-- is `a` within a relative 2^-10 of the threshold `t` (where a comparison in float may go the other way) -/
def nearR (a t : Rat) : Bool := absR (a - t) * 1024 ≤ absR t && t != 0

/-- `divide_and_truncate` threshold proximity for one bin -/
def nearDiv (small num denom : Rat) : Bool :=
  (nearR num small) || (small < num && nearR num (constsR.maxQuot * denom))

/-- per-voxel exact value and bound from contributions and absolute contributions -/
def vecCore (nvox : Nat) (rowLen : Nat) (out0 : Rat) (sign : Rat) (cs mags : List (Nat × Rat)) (divide : Rat := 1) : Array (Rat × Rat) :=
  let val := accumulate nvox cs
  let mag := accumulate nvox mags
  let cnt := accumulate nvox (cs.map fun e => (e.1, (1 : Rat)))
  ((List.range nvox).map fun v =>
    let x := (out0 + sign * val.getD v 0) / divide
    let n : Rat := (rowLen : Int) + cnt.getD v 0 + 10
    let b := 4 * n * u24 * (absR out0 + mag.getD v 0) / divide
    (x, b)).toArray

/-- `none` stands for `near` -/
def fmtPairs : Option (Array (Rat × Rat)) → String
  | none => "near"
  | some a => " ".intercalate (a.toList.map fun (x, b) => s!"{roundScaled x}:{ceilScaled b}")

def maxRowLen (S : List (Viewgram Rat)) : Nat :=
  S.foldl (fun m vg => vg.foldl (fun m b => max m b.row.length) m) 0

/-- largest matrix element of a bin, and of what came before -/
def maxElem (m : Rat) (b : Bin Rat) : Rat := b.row.foldl (fun m e => if m < absR e.2 then absR e.2 else m) m

/-- magnitudes `Σ_b (|P_bv| + Pmax/2)·wabs small b` (`Pmax` = largest element of the whole matrix of the configuration): the second term allows for an absolute uncertainty of
    the matrix elements of the projector actually used (computed with symmetries and a cache; the explicit rows
    come from a matrix without) of `2n·2⁻²⁴·Pmax` (n ≥ 10; the harness only uses configurations where the two matrices differ by less than 5·10⁻⁷·Pmax) — ray tracing computes lengths as differences of coordinates -/
def magContribs (pmax : Rat) (smallF : Viewgram Rat → Rat) (wabs : Rat → Bin Rat → Rat) (S : List (Viewgram Rat)) : List (Nat × Rat) :=
  S.flatMap fun vg =>
    let small := smallF vg
    vg.flatMap fun b => b.row.map fun e => (e.1, (absR e.2 + pmax / 2) * absR (wabs small b))

def anyBin (S : List (Viewgram Rat)) (p : Viewgram Rat → Bin Rat → Bool) : Bool :=
  S.any fun vg => vg.any (p vg)

def gradCore (c : Ctx) (addSens : Bool) (ids : List Nat) : Option (Array (Rat × Rat)) :=
  let S := getVgs c.vgs ids
  let img := fun i => c.img.getD i 0
  let smallF := smallOf constsR (yEff c.zero)
  if anyBin S (fun vg b => nearDiv (smallF vg) (yEff c.zero b) (est c.zero img b)) then none else
  let cs := gradContribs constsR c.zero addSens img S
  let mags := magContribs c.pmax smallF (fun s b =>
      absR (divTrunc constsR s (yEff c.zero b) (est c.zero img b)) +
        (if addSens then 0 else absR ((mult c.zero b).getD 1))) S
  some (vecCore c.nvox (maxRowLen S) 0 1 cs mags)

/-- `sep`: on the separate (non-TOF) geometry of the `sbin` lines — what the library uses for TOF data when `use_tofsens` is off -/
def sensCore (c : Ctx) (sep : Bool) (ids : List Nat) (divide : Rat) : Option (Array (Rat × Rat)) :=
  let S := getVgs (if sep then c.svgs else c.vgs) ids
  let cs := sensContribs c.zero S
  let mags := magContribs c.pmax (fun _ => 0) (fun _ b => sensW c.zero b) S
  some (vecCore c.nvox (maxRowLen S + 4) 0 1 cs mags divide)

/-- what `add_subset_sensitivity` adds for the viewgrams `ids`: value, magnitude, number of contributions per voxel -/
def sensImg (c : Ctx) (sep : Bool) (ids : List Nat) : VImg :=
  let S := getVgs (if sep then c.svgs else c.vgs) ids
  let cs := sensContribs c.zero S
  let mags := magContribs c.pmax (fun _ => 0) (fun _ b => sensW c.zero b) S
  let val := accumulate c.nvox cs
  let mag := accumulate c.nvox mags
  let cnt := accumulate c.nvox (cs.map fun e => (e.1, (1 : Rat)))
  ((List.range c.nvox).map fun v => (val.getD v 0, mag.getD v 0, cnt.getD v 0)).toArray

/-- longest row of the configuration -/
def maxRowLenAll (c : Ctx) : Nat :=
  max (maxRowLen c.vgs.toList) (maxRowLen c.svgs.toList)

/-- value and bound `4·(row length + 4 + terms + 10)·2⁻²⁴·Σ|terms|` per voxel, as `sensCore` -/
def fmtVImg (c : Ctx) : Option VImg → String
  | none => "null"
  | some a =>
    let rl : Rat := ((maxRowLenAll c + 4 : Nat) : Int)
    fmtPairs (some (a.map fun x => (x.1, 4 * (rl + x.2.2 + 10) * u24 * x.2.1)))

def hessCore (c : Ctx) (c0 : Rat) (ids : List Nat) : Option (Array (Rat × Rat)) :=
  let S := getVgs c.vgs ids
  let img := fun i => c.img.getD i 0
  let x := fun i => c.inp.getD i 0
  let smallF := smallOf constsR (hessNum c.zero x)
  if anyBin S (fun vg b => nearDiv (smallF vg) (hessNum c.zero x b) (ybarH img b * ybarH img b)) then none else
  let cs := hessContribs constsR c.zero img x S
  let mags := magContribs c.pmax smallF (hessW constsR c.zero img x) S
  some (vecCore c.nvox (3 * maxRowLen S) c0 (-1) cs mags)

def ahessCore (c : Ctx) (c0 : Rat) (ids : List Nat) : Option (Array (Rat × Rat)) :=
  let S := getVgs c.vgs ids
  let x := fun i => c.inp.getD i 0
  let smallF := smallOf constsR (ahessNum c.zero x)
  if anyBin S (fun vg b => nearDiv (smallF vg) (ahessNum c.zero x b) (applyNorm constsR b.fac (applyNorm constsR b.fac b.y))) then none else
  let cs := ahessContribs constsR c.zero x S
  let mags := magContribs c.pmax smallF (ahessW constsR c.zero x) S
  some (vecCore c.nvox (maxRowLen S + 8) c0 (-1) cs mags)

/-- a penalised per-voxel quantity: `f (unpenalised) (prior term)`; three more float operations on the operands -/
def withPrior (core : Option (Array (Rat × Rat))) (p : Array Rat) (share : Rat) (f : Rat → Rat → Rat) : Option (Array (Rat × Rat)) :=
  core.map fun a => (a.toList.zipIdx.map fun ((x, b), v) =>
    let pv := p.getD v 0
    (f x pv, b + 16 * u24 * (absR x + absR pv / share))).toArray

/-- `accumulate_Hessian_times_input` / `add_multiplication_with_approximate_Hessian` on an object with a prior
    (`penFullAccumulate` of the model = `hessTimesPenFull` / `approxHessPenFull` on the subset products, which are evaluated
    through `accumulate`: `C05_accumulate_is_image`, `C05_penFullAccumulate_is_hessTimesPenFull`):
    `step c0 ids` = the unpenalised subset product subtracted from an output filled with 0, per subset -/
def penFullCore (c : Ctx) (step : Ctx → Rat → List Nat → Option (Array (Rat × Rat))) (n : Nat) (c0 : Rat) (pin : Array Rat)
    (subsets : List (List Nat)) : Option (Array (Rat × Rat)) := do
  let parts ← subsets.mapM fun ids => step c 0 ids
  let nn : Rat := (n : Int)
  some ((List.range c.nvox).map fun v =>
    let pv := pin.getD v 0
    -- (`hessTimes … o S v = o − (product)`; `step` with output 0 gives `−(product)`)
    let x := penFullAccumulate (parts.map fun part => -(part.getD v (0, 0)).1) pv nn c0
    let b := parts.foldl (fun s part => s + (part.getD v (0, 0)).2) 0
    let m := parts.foldl (fun s part => s + absR (part.getD v (0, 0)).1) (absR c0 + absR pv)
    (x, b + 8 * ((subsets.length : Int) + 1 : Rat) * u24 * m)).toArray

/-- ids of the subsets, separated by `/` -/
def splitSubsets (toks : List String) : List (List Nat) :=
  let (cur, done) := toks.foldl (fun (acc : List Nat × List (List Nat)) t =>
      if t == "/" then ([], acc.1.reverse :: acc.2) else (t.toNat?.getD 0 :: acc.1, acc.2)) ([], [])
  (cur.reverse :: done).reverse

/-- value and bound at binary64; `none` = near a threshold -/
def valCore (c : Ctx) (ids : List Nat) : Option (Float × Float) :=
  let SR := getVgs c.vgs ids
  let smallR := smallOf constsR (yEff c.zero)
  if anyBin SR (fun vg b => nearR (yEff c.zero b) (smallR vg)) then none else
  let S : List (Viewgram Float) := SR.map (·.map binF)
  let imgA := c.img.map toFloat
  let img := fun i => imgA.getD i 0
  let v := value constsF Float.log c.zero img S
  -- magnitude: Σ |y| + |y log e| + |e| with e the (capped) estimate
  let m := sumMap (fun vg : Viewgram Float =>
      let small := smallOf constsF (yEff c.zero) vg
      sumMap (fun b : Bin Float =>
        let y := yEff c.zero b
        let t := valueTerm constsF Float.log c.zero img small b
        let e := (valueTerm constsF (fun _ => 0) c.zero img small b).abs   -- |−newEst|
        y.abs + (t + e).abs + e) vg) S
  let n := (maxRowLen SR + 10).toFloat
  let bound := 4 * n * (Float.ofScientific 1 true 0 / 16777216.0) * m + 8 / 16777216.0 * v.abs
  some (v, bound)

def fmtVal : Option (Float × Float) → String
  | none => "near"
  | some (v, bound) => s!"{v.toBits} {bound.toBits}"

/-- penalised value: the prior term enters in binary64 (two operations) -/
def valWithPrior (core : Option (Float × Float)) (prior : Float) (f : Float → Float → Float) : Option (Float × Float) :=
  core.map fun (v, b) => (f v prior, b + (v.abs + prior.abs) / 1.0e15)

/-- `pen n c q… p…` → per element `penalised q p n`; bound: three float operations on the operands -/
def doPen (n : Nat) (c : Nat) (vals : List String) (hess : Bool) : String :=
  let xs := (vals.map hexD).toArray
  let toks := (List.range c).map fun i =>
    let q := xs.getD i 0
    let pin := xs.getD (c + i) 0
    let nn : Rat := (n : Int)
    let x := if hess then penalisedHess q pin nn else penalised q pin nn
    let b := 16 * u24 * (absR q + absR pin / nn)
    s!"{roundScaled x}:{ceilScaled b}"
  " ".intercalate toks

def parseReq : String → Option Req
  | "value" => some .value
  | "gradient" => some (.gradient false)
  | "gps" => some (.gradient true)
  | "sensitivity" => some .sensitivity
  | "hessian" => some .hessian
  | "ahessian" => some .approxHessian
  | _ => none


/-- `sset` arguments → the setter of the model -/
def parseSetter : List String → Option Setter
  | ["num_subsets", n] => n.toInt?.map Setter.numSubsets
  | ["proj_data", p] => p.toNat?.map Setter.projData
  | ["input_data", p] => p.toNat?.map Setter.inputData
  | ["additive", p] => p.toNat?.map Setter.additive
  | ["normalisation", p] => p.toNat?.map Setter.normalisation
  | ["projector_pair", p] => p.toNat?.map Setter.projectorPair
  | ["max_segment", m] => m.toInt?.map Setter.maxSegment
  | ["max_tof", m] => m.toInt?.map Setter.maxTof
  | ["zero", b] => some (.zeroEndPlanes (b == "1"))
  | ["use_subset_sens", b] => some (.useSubsetSens (b == "1"))
  | ["recompute", b] => some (.recomputeSens (b == "1"))
  | ["sens_filename", s] => s.toNat?.map Setter.sensFilename
  | ["subsens_filenames", s] => s.toNat?.map Setter.subsensFilenames
  | ["subsens_filenames", s, "bad"] => s.toNat?.map Setter.subsensFilenames
  | ["subset_sens_sptr", s, p] => do some (.subsetSensSptr (← s.toNat?) (← p.toNat?))
  | ["frame_num", k] => k.toInt?.map Setter.frameNum
  | ["frame_defs", d] => d.toNat?.map Setter.frameDefs
  | ["prior", p, r] => p.toNat?.map fun p => Setter.prior p (r == "1")
  | ["parse", z, k] => k.toInt?.map fun k => Setter.parseKeys (z == "1") k
  | _ => none

def parsePReq : String → Option PReq
  | "value" => some (.guarded .value true)
  | "gradient" => some (.guarded (.gradient false) true)
  | "gps" => some (.guarded (.gradient true) true)
  | "hessian" => some (.guarded .hessian true)
  | "ahessian" => some (.guarded .approxHessian true)
  | "value_wo" => some (.guarded .value false)
  | "gradient_wo" => some (.guarded (.gradient false) false)
  | "hessian_wo" => some (.guarded .hessian false)
  | "ahessian_wo" => some (.guarded .approxHessian false)
  | "sensitivity" => some .addSubsetSens
  | "agrad" => some .actualGradient
  | "cached" => some .getSubsetSens
  | "total" => some .getSens
  | _ => none

/-- the flag and the members the getters show (`withFlag = false`: `-` instead of the flag) -/
def fmtObj (o : Obj) (withFlag : Bool := true) : String :=
  let b (x : Bool) : String := if x then "1" else "0"
  s!"{if withFlag then b o.already else "-"} n={o.m.numSubsets} seg={o.m.maxSeg} tof={o.m.maxTof} zero={b o.m.zeroEnd} subsens={b o.m.useSubsetSens} rec={b o.m.recompute} frame={o.m.frameNum}"

def stepLine (c : Ctx) (line : String) : Ctx × String :=
  let toks := (line.trimAscii.toString.splitOn " ").filter (· ≠ "")
  let N (s : String) : Nat := s.toNat?.getD 0
  match toks with
  | "cfg" :: rest =>
    ({ zero := keyVal rest "zero" == some "1", nvox := N ((keyVal rest "nvox").getD "0"), sobj := c.sobj, sfiles := c.sfiles, pobj := c.pobj }, "ok")
  | ["hnew"] => ({ c with sobj := SensObj.fresh, sfiles := SensFiles.empty }, "ok")
  | "hsetup" :: useSub :: n :: setter :: totName :: subName :: balanced :: sep :: segSet :: segMax :: tofSet :: tofMax :: rest =>
    let o := if setter == "-" then c.sobj else { c.sobj with recompute := setter == "1" }
    let incs := ((splitSubsets rest).map fun ids => sensImg c (sep == "1") ids).toArray
    let ops := vops c.nvox
    let cfg : SensCfg := { useSub := useSub == "1", n := N n, totName := totName == "1", subName := subName == "1",
                           accepted := setUpAcceptsSubsets (useSub == "1") (if balanced == "1" then [1, 1] else [1, 2]) &&
                             (segRangeAfterSetUp (segSet.toInt?.getD 0) (segMax.toInt?.getD 0)).isSome &&
                             (tofRangeAfterSetUp (tofSet.toInt?.getD 0) (tofMax.toInt?.getD 0)).isSome }
    let (acc, o', f') := setUpSens ops cfg (fun s => incs.getD s ops.zero) o c.sfiles
    ({ c with sobj := o', sfiles := f' }, (if acc then "ok " else "refused ") ++ (if o'.recompute then "1" else "0"))
  | ["hsub", s] => (c, fmtVImg c (c.sobj.getSub (N s)))
  | ["htot"] => (c, fmtVImg c c.sobj.getTot)
  | ["snew"] => ({ c with pobj := Obj.new }, "ok")
  | "sset" :: args =>
    match parseSetter args with
    | none => (c, "bad-op")
    | some st =>
      let o := c.pobj.set st
      -- `set_subsensitivity_filenames` with a pattern `boost::format` cannot use (`bad`) throws after the flag is reset and the member
      -- written (Mean.cxx:99-110): answer `err`, the state is the same
      ({ c with pobj := o }, (if args.getLast? == some "bad" then "err " else "") ++ fmtObj o)
  | ["ssetup", segMax, tofMax, balanced, sub0Null, filesOK, numFrames] =>
    let d : Data := { segMax := fun _ => segMax.toInt?.getD 0, tofMax := fun _ => tofMax.toInt?.getD 0, numFrames := fun _ => numFrames.toInt?.getD 0 }
    let w : Call := { balanced := fun _ => balanced == "1", sub0Null := sub0Null == "1", filesOK := filesOK == "1" }
    let r := c.pobj.setUp d w
    ({ c with pobj := r.2 }, (if r.1 then "ok " else "refused ") ++ fmtObj r.2)
  | ["sreq", kind] =>
    match parsePReq kind with
    | none => (c, "bad-op")
    | some r => (c, if (c.pobj.answer r).isSome then "1" else "0")
  | "img" :: rest => ({ c with img := (rest.map hexD).toArray }, "ok")
  | "inp" :: rest => ({ c with inp := (rest.map hexD).toArray }, "ok")
  | "bin" :: rest =>
    match parseBin rest with
    | some (vg, b) => ({ c with vgs := pushBin c.vgs vg b, pmax := maxElem c.pmax b }, "ok")
    | none => (c, "bad-bin")
  | "sbin" :: rest =>
    match parseBin rest with
    | some (vg, b) => ({ c with svgs := pushBin c.svgs vg b, hasS := true, pmax := maxElem c.pmax b }, "ok")
    | none => (c, "bad-bin")
  | "val" :: ids => (c, fmtVal (valCore c (ids.map N)))
  | "grad" :: ids => (c, fmtPairs (gradCore c false (ids.map N)))
  | "gps" :: ids => (c, fmtPairs (gradCore c true (ids.map N)))
  | "sens" :: ids => (c, fmtPairs (sensCore c false (ids.map N) 1))
  | "sensdiv" :: n :: ids => (c, fmtPairs (sensCore c false (ids.map N) ((N n : Int) : Rat)))
  | "ssens" :: ids => (c, fmtPairs (sensCore c true (ids.map N) 1))
  | "ssensdiv" :: n :: ids => (c, fmtPairs (sensCore c true (ids.map N) ((N n : Int) : Rat)))
  | "hess" :: c0 :: ids => (c, fmtPairs (hessCore c (hexD c0) (ids.map N)))
  | "ahess" :: c0 :: ids => (c, fmtPairs (ahessCore c (hexD c0) (ids.map N)))
  | "pval" :: n :: pv :: ids =>
    let nn : Float := (N n).toFloat
    (c, fmtVal (valWithPrior (valCore c (ids.map N)) (toFloat (hexD pv)) (fun q p => penalised q p nn)))
  | "pvalfull" :: pv :: ids =>
    (c, fmtVal (valWithPrior (valCore c (ids.map N)) (toFloat (hexD pv)) penalisedFull))
  | "pgrad" :: n :: cnt :: rest =>
    let p := ((rest.take (N cnt)).map hexD).toArray
    let nn : Rat := ((N n : Int) : Rat)
    (c, fmtPairs (withPrior (gradCore c false ((rest.drop (N cnt)).map N)) p nn (fun q pr => penalised q pr nn)))
  | "pgradfull" :: cnt :: rest =>
    let p := ((rest.take (N cnt)).map hexD).toArray
    (c, fmtPairs (withPrior (gradCore c false ((rest.drop (N cnt)).map N)) p 1 penalisedFull))
  | "phess" :: n :: c0 :: cnt :: rest =>
    let p := ((rest.take (N cnt)).map hexD).toArray
    let nn : Rat := ((N n : Int) : Rat)
    (c, fmtPairs (withPrior (hessCore c (hexD c0) ((rest.drop (N cnt)).map N)) p nn (fun q pr => penalisedHess q pr nn)))
  | "pahess" :: n :: c0 :: cnt :: rest =>
    let p := ((rest.take (N cnt)).map hexD).toArray
    let nn : Rat := ((N n : Int) : Rat)
    (c, fmtPairs (withPrior (ahessCore c (hexD c0) ((rest.drop (N cnt)).map N)) p nn (fun q pr => penalisedHess q pr nn)))
  | "phessfull" :: n :: c0 :: cnt :: rest =>
    let p := ((rest.take (N cnt)).map hexD).toArray
    (c, fmtPairs (penFullCore c hessCore (N n) (hexD c0) p (splitSubsets (rest.drop (N cnt)))))
  | "pahessfull" :: n :: c0 :: cnt :: rest =>
    let p := ((rest.take (N cnt)).map hexD).toArray
    (c, fmtPairs (penFullCore c ahessCore (N n) (hexD c0) p (splitSubsets (rest.drop (N cnt)))))
  | "balance" :: u :: counts =>
    (c, if setUpAcceptsSubsets (u == "1") (counts.map N) then "ok" else "refused")
  | ["segrange", setting, dmax] =>
    (c, match segRangeAfterSetUp (setting.toInt?.getD 0) (dmax.toInt?.getD 0) with
        | some m => toString m
        | none => "err")
  | ["tofrange", setting, dmax] =>
    (c, match tofRangeAfterSetUp (setting.toInt?.getD 0) (dmax.toInt?.getD 0) with
        | some m => toString m
        | none => "err")
  | "tofsens" :: rec :: u :: tofData :: restricted :: links =>
    let normTof := isTofOnlyNorm (links.map fun l => l == "P1" || l == "E1")
    (c, if useTofsensAfterSetUp (rec == "1") (u == "1") (tofData == "1") normTof (restricted == "1") then "1" else "0")
  | ["range", n, s] =>
    let a := if subsetAccepted (n.toInt?.getD 0) (s.toInt?.getD 0) then "ok" else "err"
    (c, a ++ " " ++ a)
  | "pen" :: n :: cnt :: vals => (c, doPen (N n) (N cnt) vals false)
  | "penh" :: n :: cnt :: vals => (c, doPen (N n) (N cnt) vals true)
  | "penah" :: n :: cnt :: vals => (c, doPen (N n) (N cnt) vals true)
  | "hist" :: same :: rec :: nsub :: g :: g2 :: reqs =>
    let rs := reqs.filterMap parseReq
    let ans (g g2 : Bool) : String :=
      let s0 := St.afterSetUp (same == "1") (rec == "1") (N nsub) g g2
      " ".intercalate ((run (same == "1") s0 rs).map fun b => if b then "1" else "0")
    -- the two members without initialiser are indeterminate: the harness says which byte it put into the storage of the
    -- object (first answer); the answer for the other value is given too when it differs
    let a := ans (g == "1") (g2 == "1")
    let b := ans (g != "1") (g2 != "1")
    (c, if a == b then a else a ++ " / " ++ b)
  | _ => (c, "bad-op")

partial def loop (h : IO.FS.Stream) (c : Ctx) : IO Unit := do
  let line ← h.getLine
  if line.isEmpty then return ()
  let (c', out) := stepLine c line
  IO.println out
  loop h c'

def main : IO Unit := do loop (← IO.getStdin) {}
end Driver.C05
