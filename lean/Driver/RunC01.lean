import Driver.C01
def main : IO Unit := Driver.C01.main
