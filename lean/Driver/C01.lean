import StirVerif.C01.Model
/-! Line-protocol driver for C01 (implementation side: harness/c01_geometry.cxx). -/
namespace Driver.C01
open StirVerif.C01

def sortPairs (l : List (Int × Int)) : List (Int × Int) :=
  (l.toArray.qsort fun a b => a.1 < b.1 || (a.1 == b.1 && a.2 < b.2)).toList

def dpKey (p : DetPair) : List Int := [p.d1, p.r1, p.d2, p.r2, p.t]
def lexLt : List Int → List Int → Bool
  | [], [] => false
  | [], _ => true
  | _, [] => false
  | a :: as, b :: bs => a < b || (a == b && lexLt as bs)

def fmtBin (b : Bin) : String := s!"{b.seg} {b.view} {b.ax} {b.tang} {b.tof}"

def emptyGeom : Geom := { N := 2, R := 1, minSeg := 0, segs := [], viewMash := 1, tofMash := 0 }

def stepLine (g : Option Geom) (line : String) : Option Geom × String :=
  let toks := (line.trimAscii.toString.splitOn " ").filter (· ≠ "")
  let I (s : String) : Int := s.toInt?.getD 0
  match toks with
  | ["cfg", n, r, span, md, views, tofm] =>
    match ctiSegments (I span) (I md) (I r) with
    | none => (none, "err")
    | some (minSeg, segs) =>
      let g' : Geom := { N := I n, R := I r, minSeg := minSeg, segs := segs,
                         viewMash := (I n).tdiv 2 |>.tdiv (I views), tofMash := I tofm }
      -- the constructor of ProjDataInfoCylindrical errors if an axial offset is not an integer
      if segs.any fun s => (s.axOff (I r)).isNone then (none, "err")
      else
        (some g', s!"segs {minSeg} : " ++ " ".intercalate (segs.map fun s => s!"{s.minRD},{s.maxRD},{s.numAx}"))
  | _ =>
    match g with
    | none => (g, "err")
    | some gg =>
      match toks with
      | ["vt", v, tp] => let (a, b) := viewTangToDet gg.N (I v) (I tp); (g, s!"{a} {b}")
      | ["dv", d1, d2] =>
        let (v, tp, keep) := detToViewTang gg.N (I d1) (I d2)
        (g, s!"{v.tdiv gg.viewMash} {tp} {if keep then 1 else 0}")
      | ["rp2sa", r1, r2] =>
        match gg.segAxOfRingPair (I r1) (I r2) with
        | some (s, a) => (g, s!"{s} {a}")
        | none => (g, "none")
      | ["sa2rps", s, a] =>
        (g, " ".intercalate ((sortPairs (gg.ringPairsOf (I s) (I a))).map fun p => s!"{p.1},{p.2}"))
      | ["d2b", d1, r1, d2, r2, t] =>
        match gg.binForDetPair ⟨I d1, I r1, I d2, I r2, I t⟩ with
        | some b => (g, fmtBin b)
        | none => (g, "none")
      | ["pairs", s, v, a, tp, t] =>
        let b : Bin := ⟨I s, I v, I a, I tp, I t⟩
        let l := (gg.allDetPairsForBin b).toArray.qsort (fun x y => lexLt (dpKey x) (dpKey y)) |>.toList
        (g, s!"{gg.numDetPairsForBin b} | " ++ " ".intercalate (l.map fun p => s!"{p.d1},{p.r1},{p.d2},{p.r2},{p.t}"))
      | ["setviews", v] => (some { gg with viewMash := (gg.N.tdiv 2).tdiv (I v) }, "ok")
      | ["wf"] => (g, if gg.WFb then "1" else "0")
      | ["b2d", s, v, a, tp, t] =>
        match gg.detPairForBin ⟨I s, I v, I a, I tp, I t⟩ with
        | some p => (g, s!"{p.d1} {p.r1} {p.d2} {p.r2} {p.t}")
        | none => (g, "none")
      | _ => (g, "bad-op")

partial def loop (h : IO.FS.Stream) (g : Option Geom) : IO Unit := do
  let line ← h.getLine
  if line.isEmpty then return ()
  let (g', out) := stepLine g line
  IO.println out
  loop h g'

def main : IO Unit := do loop (← IO.getStdin) none
end Driver.C01
