import StirVerif.C01.Model
/-! Line-protocol driver for C01 (implementation side: harness/c01_geometry.cxx). -/
namespace Driver.C01
open StirVerif.C01

def sortPairs (l : List (Int × Int)) : List (Int × Int) :=
  (l.toArray.qsort fun a b => a.1 < b.1 || (a.1 == b.1 && a.2 < b.2)).toList

def dpKey (p : DetPair) : List Int := [p.d1, p.r1, p.d2, p.r2, p.t]
def lexLt : List Int → List Int → Bool
  | [], [] => false
  | [], _ => true
  | _, [] => false
  | a :: as, b :: bs => a < b || (a == b && lexLt as bs)

def fmtBin (b : Bin) : String := s!"{b.seg} {b.view} {b.ax} {b.tang} {b.tof}"

def fmtSegs (minSeg : Int) (segs : List Seg) : String :=
  s!"segs {minSeg} : " ++ " ".intercalate (segs.map fun s => s!"{s.minRD},{s.maxRD},{s.numAx}")

/-- a freshly constructed `ProjDataInfoCylindrical` with the given segment table -/
def construct (n r views tofm minSeg : Int) (segs : List Seg) : Option CylState × String :=
  let g' : Geom := { N := n, R := r, minSeg := minSeg, segs := segs,
                     viewMash := n.tdiv 2 |>.tdiv views, tofMash := tofm }
  -- the constructor of ProjDataInfoCylindrical errors if an axial offset is not an integer
  if segs.any fun s => (s.axOff r).isNone then (none, "err")
  else (some (CylState.ofGeom g' 0 0), fmtSegs minSeg segs)

def fmtTang (c : CylState) : String := s!"{c.minTang} {c.maxTang}"

def stepLine (st : Option CylState) (line : String) : Option CylState × String :=
  let toks := (line.trimAscii.toString.splitOn " ").filter (· ≠ "")
  let I (s : String) : Int := s.toInt?.getD 0
  match toks with
  | ["cfg", n, r, span, md, views, tofm] =>
    match ctiSegments (I span) (I md) (I r) with
    | none => (none, "err")
    | some (minSeg, segs) => construct (I n) (I r) (I views) (I tofm) minSeg segs
  | ["cfgge", n, r, md, views, tofm] =>
    match geSegments (I md) (I r) with
    | none => (none, "err")
    | some (minSeg, segs) => construct (I n) (I r) (I views) (I tofm) minSeg segs
  | _ =>
    match st with
    | none => (st, "err")
    | some cs =>
      let gg := cs.geom
      let upd (c : CylState) : Option CylState × String := (some c, "ok")
      match toks with
      | ["vt", v, tp] => let (a, b) := viewTangToDet gg.N (I v) (I tp); (st, s!"{a} {b}")
      | ["dv", d1, d2] =>
        let (v, tp, keep) := detToViewTang gg.N (I d1) (I d2)
        (st, s!"{v.tdiv gg.viewMash} {tp} {if keep then 1 else 0}")
      | ["rp2sa", r1, r2] =>
        match cs.segAxOfRingPair (I r1) (I r2) with
        | .ok (some (s, a)) => (st, s!"{s} {a}")
        | .ok none => (st, "none")
        | .error _ => (st, "err")
      | ["sa2rps", s, a] =>
        (st, " ".intercalate ((sortPairs (gg.ringPairsOf (I s) (I a))).map fun p => s!"{p.1},{p.2}"))
      | ["d2b", d1, r1, d2, r2, t] =>
        match gg.binForDetPair ⟨I d1, I r1, I d2, I r2, I t⟩ with
        | some b => (st, fmtBin b)
        | none => (st, "none")
      | ["pairs", s, v, a, tp, t] =>
        let b : Bin := ⟨I s, I v, I a, I tp, I t⟩
        let l := (gg.allDetPairsForBin b).toArray.qsort (fun x y => lexLt (dpKey x) (dpKey y)) |>.toList
        (st, s!"{gg.numDetPairsForBin b} | " ++ " ".intercalate (l.map fun p => s!"{p.d1},{p.r1},{p.d2},{p.r2},{p.t}"))
      | ["pairs0", s, v, a, tp, t] =>
        let b : Bin := ⟨I s, I v, I a, I tp, I t⟩
        let l := (gg.spatialDetPairsForBin b).toArray.qsort (fun x y => lexLt (dpKey x) (dpKey y)) |>.toList
        (st, s!"{gg.numSpatialDetPairsForBin b} | " ++ " ".intercalate (l.map fun p => s!"{p.d1},{p.r1},{p.d2},{p.r2},{p.t}"))
      | ["wf"] => (st, if gg.WFb then "1" else "0")
      | ["wfh"] => (st, if gg.WFp then "1" else "0")
      | ["b2d", s, v, a, tp, t] =>
        match gg.detPairForBin ⟨I s, I v, I a, I tp, I t⟩ with
        | some p => (st, s!"{p.d1} {p.r1} {p.d2} {p.r2} {p.t}")
        | none => (st, "none")
      | ["inr", s, v, a, tp, t] => (st, if cs.inRange ⟨I s, I v, I a, I tp, I t⟩ then "1" else "0")
      -- sampling changed after construction
      | ["setviews", v] => upd { cs with viewMash := (cs.N.tdiv 2).tdiv (I v) }
      | ["redseg", lo, hi] => upd (cs.reduceSegmentRange (I lo) (I hi))
      | ["setminrd", s, v] => upd (cs.setMinRD (I s) (I v))
      | ["setmaxrd", s, v] => upd (cs.setMaxRD (I s) (I v))
      | ["setminax", s, v] => upd (cs.setMinAx (I s) (I v))
      | ["setmaxax", s, v] => upd (cs.setMaxAx (I s) (I v))
      | ["ntang", n] => let c := cs.setNumTang (I n); (some c, fmtTang c)
      | ["setmintang", v] => let c := { cs with minTang := I v }; (some c, fmtTang c)
      | ["setmaxtang", v] => let c := { cs with maxTang := I v }; (some c, fmtTang c)
      | ["state"] =>
        (st, s!"{cs.minSeg} : " ++ " ".intercalate (cs.segs.map fun s => s!"{s.minRD},{s.maxRD},{s.minAx},{s.maxAx}")
          ++ s!" | tang {cs.minTang} {cs.maxTang} | mash {cs.viewMash}")
      | ["init"] => (st, if cs.initErr then "err" else "ok")
      | _ => (st, "bad-op")

/-- `save` remembers the current sampling (the harness clones the object and changes the clone), `restore` returns to it -/
partial def loop (h : IO.FS.Stream) (g saved : Option CylState) : IO Unit := do
  let line ← h.getLine
  if line.isEmpty then return ()
  match line.trimAscii.toString with
  | "save" => IO.println "ok"; loop h g g
  | "restore" => IO.println "ok"; loop h saved saved
  | _ =>
    let (g', out) := stepLine g line
    IO.println out
    loop h g' saved

def main : IO Unit := do loop (← IO.getStdin) none none
end Driver.C01
