import Driver.C02
def main : IO Unit := Driver.C02.main
