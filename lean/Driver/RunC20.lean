import Driver.C20
def main : IO Unit := Driver.C20.main
