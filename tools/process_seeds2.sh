#!/bin/sh
# process_seeds2.sh <Cxx> : as process_seeds.sh, for the second round (worktree /tmp/mut/<Cxx>b, kept as seeded/<Cxx>-b<k>)
P=$1
export MUT_SUFFIX=b
mkdir -p /tmp/seedlogs
for k in 1 2 3; do
  [ -f /tmp/mut/${P}b.out/$k/patch.diff ] || continue
  python3 /verif/tools/confirm_mutation.py $P $k > /tmp/seedlogs/$P-b$k.confirm 2>&1
  if grep -q '"confirmed": true' /tmp/seedlogs/$P-b$k.confirm; then
    flock /tmp/seedlogs/.lock python3 /verif/tools/mutrun.py $P /verif/seeded/$P-b$k/patch.diff --tier quick > /tmp/seedlogs/$P-b$k.quick 2>&1
    grep -E "VIOLATION|^OK|EXIT" /tmp/seedlogs/$P-b$k.quick | grep -v "Lean library does not build" | cut -c1-400 | head -8 > /verif/seeded/$P-b$k/check_quick.txt
    echo "$P-b$k confirmed quick: $(grep -c VIOLATION /tmp/seedlogs/$P-b$k.quick) violations, $(grep EXIT /tmp/seedlogs/$P-b$k.quick)" >> /tmp/seedlogs/summary
  else
    echo "$P-b$k NOT confirmed" >> /tmp/seedlogs/summary
  fi
done
python3 /verif/tools/mut_setup.py ${P}b --remove >> /tmp/seedlogs/summary 2>&1
