#!/bin/sh
# process_seeds2.sh <Cxx> : as process_seeds.sh, for the second round (worktree /tmp/mut/<Cxx>b, kept as seeded/<Cxx>-b<k>)
P=$1
S=${SEED_SUFFIX:-b}; export MUT_SUFFIX=$S
mkdir -p /tmp/seedlogs
for k in 1 2 3; do
  [ -f /tmp/mut/${P}${S}.out/$k/patch.diff ] || continue
  python3 /verif/tools/confirm_mutation.py $P $k > /tmp/seedlogs/$P-$S$k.confirm 2>&1
  if grep -q '"confirmed": true' /tmp/seedlogs/$P-$S$k.confirm; then
    flock /tmp/seedlogs/.lock python3 /verif/tools/mutrun.py $P /verif/seeded/$P-$S$k/patch.diff --tier quick > /tmp/seedlogs/$P-$S$k.quick 2>&1
    grep -E "VIOLATION|^OK|EXIT" /tmp/seedlogs/$P-$S$k.quick | grep -v "Lean library does not build" | cut -c1-400 | head -8 > /verif/seeded/$P-$S$k/check_quick.txt
    echo "$P-$S$k confirmed quick: $(grep -c VIOLATION /tmp/seedlogs/$P-$S$k.quick) violations, $(grep EXIT /tmp/seedlogs/$P-$S$k.quick)" >> /tmp/seedlogs/summary
  else
    echo "$P-$S$k NOT confirmed" >> /tmp/seedlogs/summary
  fi
done
python3 /verif/tools/mut_setup.py ${P}${S} --remove >> /tmp/seedlogs/summary 2>&1
