#!/usr/bin/env python3
"""Regenerates MANIFEST.json from the table below (kept here so that the manifest stays valid)."""
import json, os
VERIF = os.path.dirname(os.path.dirname(os.path.abspath(__file__)))

TB = ("Lean 4.33 kernel + axioms propext/Classical.choice/Quot.sound only (audited per run); hand-written Lean model; "
      "tie = correspondence run of the real C++ (rebuilt from /repo's working tree) against the model's executable definitions; ")

CHECKS = {
 "C11": dict(
   technique="Lean 4 refinement + invariant proofs (index-range map, every storage and arithmetic operation), differential correspondence under ASan/UBSan; nested reference-map oracle for N-dimensional arrays, views and moves",
   text="Proof: for the 1-D core (VectorWithOffset/Array<1>/NumericVectorWithOffset, a pointer-offset model) every operation of the alphabet — resize, grow, reserve, assign, set_offset, fill, growing and range-checked "
        "+= -= *= /=, scalar and binary operators, xapyb/sapyb — is proved to refine the index-range-map specification and to stay inside the allocation, and `C11_history_safe` lifts memory safety + invariant to every "
        "operation history by induction. Tie: all sequences of length 3 over the 41-operation alphabet (thorough: length 4 over a core sub-alphabet) plus seeded random histories are executed on the real classes under "
        "ASan/UBSan and on the Lean driver, comparing the full observable state after every step. N-dimensional arrays (2-4 D), block-owning and viewing arrays, all constructors, move construction/assignment, swap, "
        "get_index_range and array_index_functions are covered by the harness's nested reference-map and aliasing oracle after every step (exploration), not by a theorem. Eight defects found this way were repaired in /repo; "
        "one (a += empty grows the range towards index 0) is a listed known finding with a Lean negative witness.",
   note=TB + "element type int, values bounded by 30000 (overflow and division by zero are skipped on both sides); allocator/shared_ptr lifetime/iterator invalidation only seen by ASan; views are not in the Lean model.",
   design="DESIGN.md §4 C11"),
}

CHECKS["C06"] = dict(
   technique="Lean 4 proofs (partition/permutation theorems for all view counts and subset numbers), differential correspondence on the real symmetry/subset/schedule code",
   text="Proof: the related-viewgram sets of the basic view/segment pairs partition all pairs, the processed sets of the subsets are duplicate-free and partition the data "
        "(count = 1 for every (segment, view) and TOF loop multiplicity), the balance flag is true iff all subsets process equally many viewgrams, both subset schedules "
        "(fixed order with any start subset; randomised order for any random draws) are permutations of the subsets, the projector loops touch every (view, segment, TOF bin) exactly once over all subsets, and every full iteration of a reconstruct run from ANY start sub-iteration (fixed or randomised order, any draws) uses each subset exactly once, all schedule entries are valid and the rest of a partial first iteration uses distinct subsets — all proved in Lean for every number of views, subsets and "
        "segment range under the flag constraints the constructor establishes (also a theorem). Tie: the real DataSymmetriesForBins_PET_CartesianGrid, "
        "detail::find_basic_vs_nums_in_subset, subsets_are_approximately_balanced (before and after set_up, TOF and default max segment), TrivialDataSymmetriesForBins, IterativeReconstruction::get_subset_num (rand() scripted), the real OSMAPOSL set_up/reconstruct loop seen through a recording objective function (random start sub-iteration/subset, randomised order, malformed parameters) and the real back_project/forward_project(ProjData, subset, n) loops seen through a recording ProjData are run on generated geometries "
        "and every answer is compared with the model; oracles count multiplicities and compare per-subset sums with whole-data projections on the implementation. A crash of the randomised schedule on restart inside an iteration found this way was repaired in /repo.",
   note=TB + "rand() is a parameter; views are 0..V-1; PET_CartesianGrid and Trivial symmetry classes; projector loops observed for the matrix projectors in the serial build only; OSSPS's own loop, FBP2D's use of subsets and the keyword parsing path are not covered.",
   design="DESIGN.md §4 C06")
CHECKS["C01"] = dict(
   technique="Lean 4 proofs (interleaving round trips, ring-pair partition, bin/detector-pair exactness with mashing), differential correspondence + partition oracle on the real ProjDataInfo classes",
   text="Proof: for every even number of detectors the view/tangential <-> detector-pair maps are mutual inverses up to the reported exchange; for every well-formed segment table "
        "(decidable predicate WFb, evaluated per configuration and compared with the implementation's behaviour) ring pairs are partitioned over (segment, axial position); for every "
        "view-mashing factor dividing N/2 and odd TOF mashing the pairs a bin reports are exactly the pairs assigned to it (sound, complete up to orientation, duplicate-free, reported count), "
        "exchanging detectors negates the TOF index, and uncompressed bin->pair->bin is the identity. The GE-style tables of ProjDataInfoGE are well-formed for every max_delta >= 1 and every number of rings (C01_ge_WF), reduce_segment_range preserves well-formedness, the tangential and view setters do not affect the look-ups, and the spatial (non-TOF) detector-pair lists are exact. Tie: geometries built by ProjDataInfoCTI and ProjDataInfoGE on generated and predefined scanners (randomised span, max_delta, view and TOF mashing), BlocksOnCylindrical and Generic (crystal-map file) scanners, are "
        "enumerated on the real NoArcCorr classes under ASan/UBSan and every table entry / bin is compared with the model; on generated cylindrical scanners histories of every sampling setter and clone after the lazy tables exist are walked and everything is re-compared after each step; partition, multiplicity and bin-list oracles run on the implementation. A heap overflow for even TOF mashing factors found this way was repaired in /repo. "
        "The segment table built by ProjDataInfoCTI is well-formed for EVERY span, max_delta and number of rings the constructor accepts, except exactly the decidable class ctiDefect (outermost segment clipped to a single ring "
        "difference of the wrong parity), where it is proved NOT well-formed: that class violates the ring-pair clause on the real code and is a listed known finding; outside it all bin/ring-pair theorems apply to the tables the constructor builds (C01_cti_WF, C01_cti_Cfg, closed form of the table).",
   note=TB + "float computation of m_offset/ax_pos_num_offset replaced by exact integers; 32-bit overflow not modelled; even TOF mashing is outside the theorems (negative witness for the old code; oracle-only on the repaired tree); histories are not run on the Blocks/Generic classes; set_ring_spacing, set_num_axial_poss_per_segment and set_tof_mash_factor after construction are not covered; a second listed known finding (setters leaving a single-ring-difference segment of odd parity) has the same root cause as the first.",
   design="DESIGN.md §4 C01")

CHECKS["C18"] = dict(
   technique="Lean 4 invariant proofs over interleaving semantics of the synchronisation protocols (any threads, any schedule); trace validation + schedule-perturbed differential runs of the OpenMP build",
   text="Proof (protocol level only): the double-checked lazy initialisation used for the geometry tables never lets a thread use an incomplete table, builds it at most once and cannot deadlock; "
        "the lock-protected matrix cache returns the specified row for every request and never stores a wrong entry; the per-thread accumulation + reduction equals the sum over all work items for "
        "every assignment of items to threads — each for every number of threads and every schedule (induction over schedules with an inductive invariant). "
        "Tie/exploration: the OpenMP build of /repo is run with UCL_STIR_VERIF schedule points that record events and inject seeded yields/sleeps; every recorded trace must be accepted by the "
        "model's trace validators (exactly one build per table, `crit 0, built, crit 1*`, no set flag seen before the build, cache hits after inserts, every work item exactly once), and "
        "multi-threaded results (T = 2..16, and 16 threads on 2 work items, fresh objects each time) are compared with single-threaded results of the same binary for: geometry tables, the matrix cache, forward/back projection in memory and to/from Interfile files, log-likelihood value, sub-gradient, sensitivity and both Hessian products for 1..3 subsets with additive term and normalisation (in memory and from files), concurrent viewgram/sinogram/segment access to ProjDataFromStream and ProjDataInMemory, and single-scatter simulation with and without the integral cache. Removing a critical section around stream I/O or the detector list, dropping the scatter reduction, sharing a per-thread accumulator or a shared temporary were each caught at the quick tier on every seed tried; races that are benign on this hardware (a dropped omp atomic on the scatter-cache floats, a dropped critical around ProjDataInMemory copies) are invisible to it. What libgomp and the hardware do is not a theorem: this is the weakest claim in the set.",
   note=TB + "OpenMP atomic/critical/locks assumed sequentially consistent; races outside the modelled protocols are visible only to the perturbed runs; list-mode gradients, double scatter and down-sampling inside the scatter simulation are not exercised; ProjData critical sections have no schedule hooks (contention only).",
   design="DESIGN.md §4 C18")

CHECKS["C02"] = dict(
   technique="Lean 4 proofs (offset injectivity, path/address exactness, history refinement to one abstract array), differential correspondence on real ProjDataFromStream/InMemory/Interfile byte images",
   text="Proof: for every geometry (unequal axial sizes, any view/tangential/TOF ranges), both storage orders, every permutation of the segment sequence, element size and stream offset the model of "
        "get_offset/get_index is injective on in-range bins and lands inside the store; every access path (bin, viewgram, sinogram, segment by view/by sinogram incl. conversion, related viewgrams, fill) "
        "touches exactly the addresses of its bins, contiguously where the code issues one read/write; after ANY history of writes through any paths the store equals the abstract array "
        "(last write wins, untouched bins keep their value) and reading through any path returns it; out-of-range requests (every coordinate of every single-bin and container accessor, oversized segment containers included) are errors given the range checks the implementation is observed to have; copies into memory, get_subset and the bulk-arithmetic pass touch exactly the addresses of their bins and refine the abstract array; values that are multiples of the stream's scale factor round-trip exactly through scaled integer storage. "
        "Tie: random interleaved histories on the real ProjDataFromStream (stringstream and file), ProjDataInterfile and ProjDataInMemory (both storage orders, segment permutations, four on-disk types, both byte orders, offsets, scale factors 1, 1/2, 3, TOF, arc-corrected, trimmed ranges, bulk arithmetic sapyb/xapyb/axpby/+= ..., get_subset, copies from differently laid-out and wider sources, make-odd reads); per write the changed byte slots, per read the values, are "
        "compared with the model for equality; a reference-map oracle, a second independent reader (visibility before the harness flushes) and header round trips (ProjDataInterfile and write_basic_interfile_PDFS_header at non-zero data offsets, 1-3 time frames, arc-corrected or not, scale factor) run on the implementation. Five defects found this way were repaired in /repo.",
   note=TB + "values are small multiples of the scale factor so every on-disk type is exact; float on disk with scale != 1, data that do not fit the on-disk type, SPECT/Siemens/ECAT/GE headers and several energy windows are not covered; byte encoding decoded by the harness, not modelled; fstream buffering/OS cache are runtime (model records only where flush() is issued); Interfile header text is correspondence-only.",
   design="DESIGN.md §4 C02")
CHECKS["C04"] = dict(
   technique="Lean 4 proofs over an arbitrary commutative ring and arbitrary sparse rows (linearity, adjointness, additivity, frame conditions, branch agreement), exact-Rat differential correspondence on the real projector pair",
   text="Proof: for an arbitrary family of sparse rows over any commutative ring, any layout and any index ranges: forward and back projection of any bin sequence are linear, adjoint "
        "(<Ax,y> = <x,A^T y> for full data, every subset, every related-viewgram group and sub-range, both code branches), additive over pieces and over subsets (given C06's partition), forward "
        "projection of a subset leaves other bins unchanged or zero as requested, back projection accumulates, and the explicit-symmetries branch agrees with the per-bin branch when the related "
        "lists partition the range (negative witness where they do not: listed known finding for Blocks/Generic TOF data with cache disabled). Tie: rows are read from the real ProjMatrixByBin, "
        "the real ForwardProjectorByBinUsingProjMatrixByBin/BackProjectorByBinUsingProjMatrixByBin are run on random data for subsets, groups, sub-ranges, cache on/off, cylindrical/blocks, TOF/non-TOF and the "
        "model recomputes every value exactly in Rat (derived rounding bound); adjointness, additivity and frame oracles run on the implementation; projection data smaller than the set-up geometry agree with the restriction of the whole-data projection and adjointness holds through any mutually adjoint pre-/post-processor pair (both theorems, both exercised); the separate-projector pair and the smoothing wrappers are exercised too; the on-the-fly ray-tracing projector vs matrix clause is oracle-only (both FOV shapes, 4k and 4k+2 views, every segment with sub-ranges, shifted origins, anisotropic and one-plane-per-ring grids). Five defects found this way were repaired in /repo.",
   note=TB + "what the rows are (Siddon ray tracing) is uninterpreted; float summation order covered only by the derived bound; ForwardProjectorByBinUsingRayTracing is not modelled (oracle comparison only).",
   design="DESIGN.md §4 C04")
CHECKS["C05"] = dict(
   technique="Lean 4 proofs over any linearly ordered field (exact identities, sums over subsets, derivative theorems over the reals via Mathlib, set-up flag state machine for all request histories), exact-Rat/Float differential correspondence",
   text="Proof: in the model transcribed from PoissonLogLikelihoodWithLinearModelForMeanAndProjData (thresholds, end-plane clearing, normalisation, additive term, TOF loop) gradient = gradient-plus-sensitivity "
        "- sensitivity exactly; Hessian products, sensitivities and penalised quantities summed over subsets equal the full-data quantity; on the regular region the value is the textbook Poisson "
        "log-likelihood, the gradient is its derivative and the textbook Hessian product the derivative of the gradient (HasDerivAt over the reals); the set-up flag machine serves every request of "
        "every history with the projectors it needs, whatever the indeterminate initial flags. "
        "Tie: the real objective function on generated small geometries with the explicit matrix read from the real projector; every quantity is recomputed by the model exactly in Rat (value in Float) and "
        "compared under a derived rounding bound; all orders of first use of the request kinds; textbook oracle on the implementation.",
   note=TB + "log and float accumulation modelled, not verified; distributed/MPI paths not built; the matrix rows are data read from the implementation.",
   design="DESIGN.md §4 C05")
CHECKS["C08"] = dict(
   technique="Lean 4 proofs (update formula, bounds, positivity of D, relaxation schedule, restart equality by induction over the run), exact-Rat differential correspondence on the real OSSPSReconstruction",
   text="Proof: for every objective (any gradient, curvature, Hessian-on-ones, non-identifiable set), image size, parameters and sub-iteration: the model of update_estimate is voxelwise "
        "clamp(lambda + g N / D zeta, 0, ub) with the denominator used/stored in every branch; every iterate of every run lies in [0, ub] (ub >= 0; negative witness otherwise); D is strictly positive in "
        "every sub-iteration; zeta = alpha/(1+gamma n) for ALL sub-iterations of full iteration n; resuming after any k reproduces the uninterrupted run exactly (state equality for all later "
        "sub-iterations and final results) for no prior / image-independent curvature, with enforce_initial_positivity off or a positive saved image (witnesses show both side conditions necessary and the "
        "documented set_up trap). Iterates stay within bounds after any bound-preserving inter-iteration/post filter (the separable filter with non-negative taps of sum <= 1 is one; negative witness and listed known finding for a sharpening filter applied after the clamp); a denominator read from file is refused unless readable and matching the image, and resuming with the saved denominator file reproduces the run. Tie: the real OSSPSReconstruction (set_up/update_estimate/end_of_iteration_processing/reconstruct, restarts from saved iterates compared bitwise) on generated problems: non-TOF and TOF, bin normalisation from projection data, zero_seg0_end_planes, subset sensitivities on/off, every number of subsets, quadratic prior variants, denominator computed / fixed / read from file, separable smoothing and sharpening filters, randomised subset order; the model gets the explicit system matrix and "
        "predicts every iterate in Rat within a derived bound; gradient, D0 = -H(1), update, relaxation, bounds, resume and refusal oracles on the implementation. Three defects found this way were repaired in /repo (relaxation off by one sub-iteration; non-identifiable voxels re-zeroed only on resume; D0 included the zeroed end planes).",
   note=TB + "float rounding modelled by a derived bound; objective function answers (gradient, curvature, Hessian on ones) are inputs to the model (their correctness is C05/C09); filters not exercised.",
   design="DESIGN.md §4 C08")
CHECKS["C10"] = dict(
   technique="Lean 4 proofs over Rat/Int (position round trip with explicit formatting error, no-overflow and quantisation bounds of the scale-factor arithmetic, exam-info round trip), differential correspondence on real Interfile image IO",
   text="Proof: for every index range, origin, voxel size: the header arithmetic (first pixel offset, reader's index range, recomputed origin) preserves every voxel's physical position exactly when header numbers "
        "print exactly and within an explicit bound otherwise; with find_scale_factor's result no stored integer overflows (types below 2^31) and decoding is within half a quantisation step (plus the header's "
        "scale-factor printing error); float output is exact; truncated data is rejected in the model of read_data; every exam-information field the format stores survives for frames of positive duration. "
        "Truncated single, multi-data-set and multi-file images are rejected; exam information of every container member survives. Clauses the code violates are negative-witness theorems tied to listed known findings (unsigned >= 32-bit output, double with automatic scale, unsigned output of non-positive images, subnormal scale factors). "
        "Tie: the real write_to_file/read_from_file on single images and on dynamic/parametric containers (Interfile and Multi) x every number type x byte order x scale setting x 11 value distributions x exam infos, every header, data set and member compared with the model; per-voxel position/value/exam oracles and truncation of every file of a container on the implementation; known findings are absorbed only for exactly their voxel, data set or length class.",
   note=TB + "decimal formatting of floats is an abstract rounding with a stated relative error; stream/OS behaviour is runtime; only the Interfile image format family (incl. dynamic/parametric multi) is exercised.",
   design="DESIGN.md §4 C10")
CHECKS["C13"] = dict(
   technique="Lean 4 proofs over any linearly ordered field (pointwise efficiency, apply/undo inverse, chains as products, grouping independence, Beer-Lambert form), exact-Rat differential correspondence on the real BinNormalisation classes",
   text="Proof: for every normalisation object (any nesting of chains), bin and value: undo multiplies by one fixed efficiency, positive for positive factor data and equal to the reported efficiency where one is "
        "reported; apply divides by it above the 1e-20 floor; apply-then-undo is the identity there (exact statement of what happens below the floor, with negative witness); a chain's efficiency is the product "
        "of its members'; processing by related viewgrams under any grouping equals processing the whole data set; TOF data with non-TOF factors use the timing-position-0 factor; attenuation factors are the "
        "exponential of the line integral (for any E with E(x+y)=E(x)E(y)). 'Trivial changes nothing' is partial: listed known finding for bins outside the fan with an even number of tangential positions. "
        "Chains also through their halves (apply/undo_only_first/second, null members), set-up refusals and the check of the set-up state on use are modelled decisions. Tie: real BinNormalisationFromProjData, FromAttenuationImage (matrix projector and the default on-the-fly projector), PETFromComponents (expectations also built by hand from the raw component arrays by symmetry classes, scanners with several blocks per bucket), WithCalibration and Chained objects on generated block scanners; every bin compared with the exact-Rat model through all symmetry groupings and whole-data calls; oracle on the implementation.",
   note=TB + "exp is an abstract homomorphism in the theorems and Float in the driver; ECAT/GE/HDF5 normalisation readers not built.",
   design="DESIGN.md §4 C13")
CHECKS["C14"] = dict(
   technique="Lean 4 proofs by induction over record streams (multi-pass = single pass, one count per event, frames add, cut-off), algebraic gradient identity, differential correspondence on the real LmToProjData and list-mode objective",
   text="Proof: for every record stream, frame list, template and batch size in time-frame mode with regular frames: the multi-pass run of process_data equals the single-pass histogram, any two batch sizes give "
        "the same result, each bin holds +1 per prompt / -1 (or delayed_increment) per delayed event of the frame assigned to it and nothing else, out-of-range events are dropped, frames of a partition add up to the "
        "whole interval, num_events_to_store cuts at the characterised prefix; the list-mode gradient (executable model of read_listmode_batch: frame/event-count selection, batching into cache files of any size, subset test, back projection of 1/(row.image+additive)) equals the projection-data gradient expression on the histogram for every cache size and subset split, for streams whose time marks never go back. Two stream/frames classes where the "
        "code deviates are negative-witness theorems and listed known findings. Tie: generated list-mode streams (a synthetic in-memory ListModeData whose events are real CListEventCylindricalScannerWithDiscreteDetectors) through the real LmToProjData for all batch sizes, frames and store switches, every non-zero bin of every frame compared exactly with the model; an independent event-count oracle on the implementation; the real PoissonLogLikelihoodWithLinearModelForMeanAndListModeDataWithProjMatrixByBin is run in memory (TOF/non-TOF, additive, normalisation, subsets, frames, event caches split into batches, setter histories vs fresh objects) and its per-subset gradient, sensitivity and Hessian product are compared voxel by voxel with the real projection-data objective on the real LmToProjData histogram of the same events, the event-sum part also with the exact-Rat model. Five defects of the list-mode objective found this way were repaired in /repo (among them: without OpenMP the event sums never reached the output).",
   note=TB + "event -> bin assignment is C01's model (data here); scanner-specific list-mode file decoders, re-use of old cache files and the OpenMP/MPI builds of the list-mode objective are not exercised; its sensitivity, Hessian product and value are compared on the implementation only (no Lean model).",
   design="DESIGN.md §4 C14")
CHECKS["C15"] = dict(
   technique="Lean 4 proofs (SSRB commutes with binning for all ring/segment/view/TOF combinations, no double counting, total conservation with exact trimming account, overlap-interpolation conservation/uniform/centre-of-mass bounds), differential correspondence on real SSRB/zoom/inverse_SSRB",
   text="Proof: for every number of rings, detectors, segments to combine, view and (odd) TOF mashing: the output bin SSRB adds an input bin to is the bin the output geometry assigns to every detector pair of that "
        "input bin (given exact axial sampling, decidable), no input bin is added twice, totals are conserved exactly up to the stated account of trimmed ranges, mashed views sit at the mean angle; "
        "overlap interpolation (zoom) conserves the total for covering output boxes, preserves uniform values and moves the centre of mass by at most half the box sizes; inverse_SSRB outputs are convex "
        "combinations of direct sinograms at the right axial position. The C01 known geometry class reappears as a negative witness and listed known finding. "
        "zoom_viewgram's in-place overload equals the two-step one and the identity request is the identity; every bin of an inverse_SSRB sinogram is the stated convex combination. Tie: real SSRB (all three overloads, the Interfile-writing one read back), overlap_interpolate, every zoom_image variant (input first plane -2..2), zoom_viewgram/zoom_viewgrams on arc-corrected viewgrams, find_centre_of_gravity_in_mm, inverse_SSRB (all bins, random data, guards) and extend_segment (180, 360 degrees and other coverages) on generated geometries and data against the exact model; histogram-then-SSRB = histogram-coarse, conservation, centroid and uniformity oracles on the implementation. Three defects found this way were repaired in /repo.",
   note=TB + "3-D zoom is modelled as three separable 1-D overlap interpolations; the link from the transcribed overlap loops to the specification is checked per operation by the driver, not proved; even TOF combine factors, non-cylindrical geometries and interpolate_projdata are not covered.",
   design="DESIGN.md §4 C15")
CHECKS["C16"] = dict(
   technique="Lean 4 proofs over any ordered field (symmetry, linearity, non-negativity of the single-scatter formula), cache transparency, invalidation-table state machine for all setter histories, differential correspondence on the real ScatterSimulation",
   text="Proof: the model of the single-scatter estimate is invariant under exchanging the detectors, linear in the activity image, zero for zero activity and non-negative for non-negative ingredients, for any "
        "number of scatter points; reads through the line-integral cache equal uncached reads for any read sequence; for every history (any length) of setters — including an image changed IN PLACE and handed over again under the same pointer, proved to invalidate exactly like a new pointer — explicit down-sampling calls / set_up / process_data whose operations satisfy the "
        "stated guard the state equals that of a freshly configured simulation, via an invalidation table proved faithful to the modelled setters; exactly which setters lack an invalidation is a theorem with "
        "negative witnesses = listed known findings. The formula theorems take the incidence cosine of each detector as a separate input, so they cover BlocksOnCylindrical scanners too. Tie: the real SingleScatterSimulation on generated cylindrical, blocks and down-sampled templates: detector-exchange, linearity, zero, cache on/off and setter histories vs fresh objects (bitwise), detection_efficiency_no_scatter, with the "
        "state-machine observations compared with the model; automatic zoom, downsample_images_to_scanner_size and random scatter-point placement (time() replaced by a seeded clock) by oracle only. One defect was repaired in /repo; five are listed known findings.",
   note=TB + "Compton cross-sections, detection efficiency and line integrals are uninterpreted non-negative quantities; OpenMP scatter paths are C18's.",
   design="DESIGN.md §4 C16")
CHECKS["C19"] = dict(
   technique="Lean 4 proofs (radix-2 butterfly loop = DFT, inversion, Parseval, bit reversal, convolution loops with all index ranges and boundary conditions, circular = linear convolution condition, separability), exact/Float differential correspondence on the real FFT and filter classes",
   text="Proof: the model of fourier_1d's iterative radix-2 loop equals the DFT definition for every power-of-two length over any commutative ring with a primitive root, inverse after forward returns the input, "
        "Parseval/Plancherel, impulse -> constant; bit reversal is the involutive permutation; ArrayFilter1DUsingConvolution(+SymmetricKernel) loops are the convolutions they claim for arbitrary kernel/input/output "
        "index ranges and boundary conditions and never read out of range; the padded-DFT route equals direct convolution when no wrap-around can occur (precise condition; witness that 'twice the length' alone is not enough); "
        "separable filters commute in all axis orders; unit-sum kernels preserve the mean on constant support; the influenced/influencing index ranges every convolution class reports are sound (1-D both boundary conditions, 2-D/3-D outer index) and tight (1-D); the DFT filter built from a kernel in frequency space is the same filter as the one built from the spatial kernel. 2-D/3-D convolution is partial (is_trivial defect) and a length-2 last dimension is rejected by the real inverse: "
        "negative witnesses = listed known findings. The 1-D convolution theorem (inverse DFT of the product of two DFTs = L x circular convolution, any length, any primitive root, any integral domain) is proved for the DFT by its definition; the real-data packing trick and the n-dimensional recursion remain correspondence-only. "
        "Tie: real fourier/inverse_fourier (complex and real data, 1-3 D, lengths to 1024), ArrayFilter*UsingConvolution (incl. in-place calls, index-range queries, is_trivial), ArrayFilterUsingRealDFTWithPadding (spatial kernel, frequency-space constructor and setter, arbitrary spectrum, set_padding_range accept/reject), SeparableArrayFunctionObject, Gaussian/Metz edge cases on generated arrays against the model (exact Rat where no "
        "transcendental enters, Float with a derived bound otherwise); inversion/Parseval/impulse oracles on the implementation.",
   note=TB + "sin/cos tables are roots of unity in the theorems and Float in the driver; float rounding by derived bound; Metz/Gaussian kernel values not modelled.",
   design="DESIGN.md §4 C19")
CHECKS["C20"] = dict(
   technique="Lean 4 proofs (gap index maps, fan storage keys, fan round trip, apply/unapply, fixed points, KL descent of the efficiency sweep over the reals), exact-Rat differential correspondence on the real ML_norm code",
   text="Proof: for every block/crystal/gap configuration removing and re-adding gaps are mutually inverse on physical crystals; fan-data storage keys stay inside the allocation, identify exactly the two namings of a "
        "cross-ring pair, and the loop nest visits every stored element once; projection data -> fan -> projection data is lossless with gaps filled as requested and each entry is the value of the bin the geometry assigns "
        "to the pair; apply followed by un-apply of efficiencies, block and geometric factors is the identity for non-zero factors, applying multiplies by the product of the two detectors' factors; model data are a fixed "
        "point of the efficiency and block iterations (0 where the fan sum is 0); each coordinate update and hence every sweep of iterate_efficiencies does not increase the Kullback-Leibler distance (abstract "
        "formulation, proved over the reals). KL descent of iterate_efficiencies (KL summed once per detector pair) and the fixed point of the geometric factors are theorems about the executable model itself (the latter for every GeoData3D that fits the FanProjData: g.N = d.N, 2*half | N, acpb | R — without which the model violates it); the library's own KL function double counts in-ring LORs (negative witness, listed known finding). "
        "The DetPairData family (2-D detector-pair representation) is modelled too: entry = bin value, round trip, apply/un-apply, product of the two detectors' factors, efficiency fixed point and KL descent (by refinement to the one-ring fan model) are theorems; the model-free iterate_efficiencies overload is proved to be the model-of-ones instance. Tie: the real FanProjData and DetPairData functions (make/set, apply_*, make_*_data, iterate_*, KL, model-free overloads) on generated scanners with and without virtual crystals against the exact-Rat model; multiply_crystal_factors on span/mashing/TOF/virtual-crystal data and ML_estimate_component_based_normalisation for all 16 flag combinations with several blocks per bucket by oracle (recomputation from the building blocks); fixed-point and descent oracles on the implementation. Two defects were repaired in /repo; four classes of scanner on which the property cannot hold are listed known findings.",
   note=TB + "log only in the KL theorems (reals) and the oracle (double); DetPairData block/geometric fixed points and block/geometric descent are oracle-only; the detector-pair <-> bin map (C01) is a parameter; GE/ECAT-specific normalisation files not exercised.",
   design="DESIGN.md §4 C20")

CHECKS["C03"] = dict(
   technique="Lean 4 proofs (symmetry operation rebuilds the bin, operations are voxel bijections, cache key injective, cache state machine refines the specification for every history); translator tie for the 48 symmetry-operation functions, both decision trees and cache_key; differential correspondence + reference-row oracle on the real ProjMatrixByBinUsingRayTracing",
   text="Proof: for every number of views, switch combination and bin the operation chosen by the decision trees applied to the basic bin gives the bin back, find_basic_bin is idempotent, every operation is a "
        "bijection of voxel indices that keeps rows duplicate-free and inside a symmetric x/y range, find_transform_z is exact and carries the axial tube of the basic bin onto that of the bin, the cache key is "
        "injective on the guarded box, and for EVERY history of get / clear_cache / cache-mode / set_* / set_up events every returned row equals the operation applied to compute(basic bin) for the geometry last "
        "set up (refinement by induction over histories; compute = the ray tracer, uninterpreted). The symmetry-operation member functions, the two decision trees and cache_key are regenerated from the C++ source on "
        "every run and proved equal to the model (tie T, 51 kernels). The same refinement holds for ProjMatrixByBinUsingInterpolation by reduction (its set_up has no short cut). Tie (C): every bin of generated geometries (TOF with view/TOF mashing, spans 1-4, cut-off outer segments, use_actual_detector_boundaries) x 32 switch combinations x 3 cache modes x ray counts on both real matrix classes, exact comparison incl. "
        "cache histories and re-set_up; oracle: each row against the row of a fresh matrix without symmetries and cache (library tolerance 2e-3, boundary ties screened geometrically), non-negative, no duplicates, "
        "inside the image. Geometric reason for deriving rows (ProofsLOR, over the reals): for all 17 operation kinds the real-affine extension of the voxel map is an isometry that carries the line of response (and the whole ray bundle) of a bin onto that of op.onBin(bin), hence the LOR of every bin is the image of its basic bin's LOR under the operation findSymOp chooses; the TOF sign rule holds exactly for the kinds the constructor leaves enabled for TOF data (negative witness otherwise). The in-image clause fails in z for end-ring bins (listed known finding with negative witness and _partial theorem); six defects found this way were repaired in /repo; the z-clipping question is open for both matrix classes.",
   note=TB + "Siddon ray tracing and the TOF kernel are uninterpreted (that intersection lengths are invariant under the grid isometries is oracle-only; the LOR equivariance itself is a theorem); only the cylindrical branch is modelled; 32-bit overflow not modelled; translator trusts that constructors store arguments in the members of the same name.",
   design="DESIGN.md §4 C03")

CHECKS["C07"] = dict(
   technique="Lean 4 proofs over Rat/Real (EM update formula, non-negativity, count preservation, MAP denominator bounds, log-likelihood monotonicity, restart equality by induction over the run), exact-Rat differential correspondence on the real OSMAPOSLReconstruction",
   text="Proof: for every image size, matrix, data and configuration the model of the OSMAPOSL sub-iteration is the voxelwise EM formula (zero where the subset sensitivity and numerator vanish), every branch (MAP additive / "
        "multiplicative clamps, arbitrary positivity-preserving filters) keeps non-negative images non-negative for whole runs, one full-data update without additive term preserves the sensitivity-weighted sum, the MAP "
        "denominators obey the documented bounds, with a single subset the Poisson log-likelihood does not decrease (Jensen argument over the reals), and the state after k sub-iterations is (image_k, k): the resumed run "
        "equals the uninterrupted run whenever set_up leaves image_k alone (characterised exactly) and always when resumed with enforce_initial_positivity off. With the default option and an image containing exact zeros the "
        "restart clause fails: two negative witnesses and a listed known finding. Tie: real OSMAPOSLReconstruction (set_up / update_estimate / reconstruct, restarts from saved iterates compared bitwise, option both ways) on "
        "generated problems with explicit matrices; every iterate compared per voxel with the exact model under a derived tolerance; formula, counts, monotone objective and restart oracles on the implementation.",
   note=TB + "float rounding by derived bound; the subset gradient-plus-sensitivity, sensitivities and prior gradient are data for the model (C05/C09); user filters abstract; randomised subset order excluded (C06); post-filter, parametric images and MPI not covered.",
   design="DESIGN.md §4 C07")
CHECKS["C09"] = dict(
   technique="Lean 4 proofs (exact algebra over Rat for the quadratic prior; HasDerivAt over the reals for RDP, log-cosh and PLS; Hessian symmetry/PSD under symmetric weights), exact-Rat/Float differential correspondence on the real prior classes",
   text="Proof: for the shared neighbourhood loops of QuadraticPrior, RelativeDifferencePrior and LogcoshPrior, for every image box, weights, kappa: linear scaling in the penalisation factor, zero gradient of uniform images, "
        "border voxels use only in-image neighbours, Hessian-times-vector is the derivative of the gradient (exact affine identity for the quadratic prior) for ALL weights; under symmetric weights the Hessian row equals H applied "
        "to the unit vector, H is symmetric, the exact second-order expansion holds for the quadratic prior, gradient = derivative of value for RDP and log-cosh, and with non-negative weights/kappa H is positive semi-definite; "
        "for PLSPrior the partial derivative of the value with respect to every voxel (borders and any kappa included) equals the gradient. Asymmetric user weights break the symmetric-weight clauses: negative witnesses and "
        "a listed known finding. Tie: the real prior classes on random images from 1x1x1 up (singleton dimensions, anisotropic spacing, user weights, only_2D, kappa), every quantity compared element by element with the model "
        "under a derived float bound; algebraic-identity and central-difference oracles on the implementation. The check also follows ONE prior object through its life (first call of every API function with lazily computed weights, a second set_up with another image or voxel size, parse() with 'weights :=' incl. even sizes and kappa/anatomical files, every setter after use): the model keeps the object's members and predicts every call; weights of every reachable object state are proved symmetric and non-negative so the symmetric-weight theorems apply. Four defects found this way were repaired in /repo (PLS gradient at borders, PLS kappa, Hessian centre weight, default weights stale after set_up).",
   note=TB + "sqrt/log/cosh/tanh are Float in the driver and real functions in the proofs; PLS convexity and RDP derivatives at equal neighbouring values are oracle-only; parsing and set_up guards not modelled.",
   design="DESIGN.md §4 C09")
CHECKS["C12"] = dict(
   technique="Lean 4 proofs (interleaving/chord geometry, axial midpoint, antisymmetry and monotonicity of coordinates, TOF table, arc-corrected round trip, nearest-detector round trip at most one step), Float/Rat differential correspondence on the real ProjDataInfo classes and ArcCorrection",
   text="Proof: the chord through a bin's detectors gives its tangential offset and azimuthal angle (exactly for even tangential positions, within half a view step otherwise), the axial midpoint equals the mean over the "
        "contributing ring pairs, get_m / get_s are antisymmetric and monotone, opposite segments have opposite obliqueness and segment 0 of every accepted table is symmetric, the TOF table is antisymmetric, contiguous and "
        "monotone, for arc-corrected data get_bin(get_LOR(bin)) = bin in exact arithmetic for every TOF bin, arc-corrected sampling is uniform and the arc-correction output boxes are contiguous; transaxially every answer of the "
        "model's detector-based round trip is a miss or a bin at most one step away inside the data range (no miss away from the first/last tangential position). Average obliqueness = nominal only for odd span away from cut "
        "ring-pair lists, and misses occur at the tangential edge: partial theorems with negative witnesses = four listed known findings. Tie: all bins of generated and predefined geometries (cylindrical arc-corrected and not, "
        "blocks, generic; spans, mashing, TOF) on the real classes, coordinates compared in binary64 under a derived bound, round-trip and straight-line oracles on the implementation; arc correction and overlap_interpolate on "
        "random rows against an exact Rat model. Five defects found this way were repaired in /repo.",
   note=TB + "sin/asin/atan2/sqrt and rounding at ties (modelled as either neighbour) are not verified; segment/axial/TOF part of the detector-based round trip and the blocks/generic crystal maps are correspondence/oracle-only; 32-bit overflow not modelled.",
   design="DESIGN.md §4 C12")

CHECKS["C17"] = dict(
   technique="Lean 4 proofs for a text model of KeyParser (keyword standardisation, aliases, vectorised keys, line-level print/parse round trips, totality of parse/read_line, allocation = declared count); differential correspondence on the real KeyParser; registered-class round-trip oracle; sanitizer fuzzing of the Interfile readers",
   text="Proof (text model of KeyParser): keyword matching is case- and white-space-insensitive, aliases resolve, vectorised keys store at the index given or are rejected, print -> parse is the identity at line level for int, bool, "
        "string, int-list and string-list keys, every list the model builds is bounded by the text, parse and read_line return for every text (regression witness for the repaired continuation-at-EOF loop), and a count key allocates "
        "exactly the declared number of elements (negative witness: a 33-byte line allocates 10^8 elements = the one listed known finding). Tie: the model is compared line by line with stir::KeyParser and the Interfile count "
        "call-backs (about 7600 operations quick). Oracle-only on the implementation: parameter_info -> parse -> parameter_info for every constructible registered class, keyword/alias/index oracles. Runtime evidence, not a theorem: "
        "memory safety, allocation size and size consistency of KeyParser::parse, read_interfile_image, read_interfile_PDFS and MultipleDataSetHeader under ASan/UBSan on grammar-aware mutations of valid headers (not coverage-guided). "
        "For Interfile projection-data headers the rejection rule of the per-segment lists is a theorem about the model (an accepted header has one entry per declared segment in every list; one wrong list is rejected) compared with the real InterfilePDFSHeader; aliases resolve end to end for arbitrary spellings of key, target, alias and line (theorem + the library's own TOF aliases on the implementation); 377 structured 'exactly one field inconsistent' headers must be rejected and accepted headers must agree with an independent reading of the header text. Twelve defects found this way were repaired in /repo (null dereferences, a stack overflow by strcpy, two use-after-free, a division by zero, an endless loop, string-list trimming, a non-round-tripping 'None' normalisation).",
   note=TB + "floats, arrays, nested parsing objects, ${ENV} and NUL bytes are not modelled; only the listed sources are sanitizer-instrumented; signed-overflow reports on absurd header numbers are counted, not fatal; 40 registered classes need external data and are not constructed.",
   design="DESIGN.md §4 C17")

NOT_YET = {}

def main():
    props = [json.loads(l)["id"] for l in open(os.path.join(VERIF, "properties.jsonl"))]
    checks = []
    for p in props:
        if p in CHECKS:
            c = CHECKS[p]
            checks.append(dict(
                property_id=p,
                quick_cmd="./check %s --tier quick" % p,
                thorough_cmd="./check %s --tier thorough" % p,
                evidence_file="evidence/%s.json" % p,
                replay_cmd_template="./check %s --replay {path}" % p,
                engine="lean-model+correspondence",
                level_claimed=dict(category=c.get("category", "proof"), text=c["text"], design_ref=c["design"]),
                level_note=c["note"], technique=c["technique"]))
    na = [dict(property_id=p, reason=NOT_YET.get(p, "no check registered yet in this round: the Lean model/proofs and correspondence harness for this property are not built; see DESIGN.md §4 for the plan"))
          for p in props if p not in CHECKS]
    man = dict(
        version=1,
        setup_cmd="python3 tools/build_stir.py plain && python3 tools/build_stir.py omp && (cd lean && lake build StirVerif stirdriver)",
        hooks=dict(guard="UCL_STIR_VERIF",
                   enable="tools/build_stir.py configures /repo out-of-tree into build/stir-plain with -DUCL_STIR_VERIF (CMAKE_CXX_FLAGS); harnesses are compiled with the same define",
                   baseline_off_cmd="cmake --build /repo/_build -j 14 && ctest --test-dir /repo/_build -j8 --timeout 900",
                   source_commits=["5d9f086d3"], add_only=True),
        engines=[dict(name="lean-model", path="lean/", serves_properties=sorted(CHECKS), kind_free_text="Lean 4 models, proofs and line-protocol driver (lake; no Mathlib require)"),
                 dict(name="correspondence-harness", path="harness/", serves_properties=sorted(CHECKS), kind_free_text="C++ drivers of the real STIR API + property oracles, linked against a build of /repo's working tree")],
        checks=checks,
        notes="See DESIGN.md. known_findings.txt lists repaired (fixed:) and open (known:) findings.",
        not_applicable=na)
    with open(os.path.join(VERIF, "MANIFEST.json"), "w") as fh:
        json.dump(man, fh, indent=1)
        fh.write("\n")

if __name__ == "__main__":
    main()
