#!/usr/bin/env python3
"""Regenerates MANIFEST.json from the table below (kept here so that the manifest stays valid)."""
import json, os
VERIF = os.path.dirname(os.path.dirname(os.path.abspath(__file__)))

TB = ("Lean 4.33 kernel + axioms propext/Classical.choice/Quot.sound only (audited per run); hand-written Lean model; "
      "tie = correspondence run of the real C++ (rebuilt from /repo's working tree) against the model's executable definitions; ")

CHECKS = {
 "C11": dict(
   technique="Lean 4 refinement + invariant proofs (index-range map), differential correspondence under ASan/UBSan",
   text="Proof: for the 1-D core (VectorWithOffset/Array<1>/NumericVectorWithOffset) every operation is proved in Lean to refine the index-range-map "
        "specification and to stay inside the allocation, and `C11_history_safe` lifts memory safety + invariant to every operation history by induction. "
        "The model is tied to the code by executing all histories up to length 3 (thorough: 4) over a 21-operation alphabet plus seeded random histories on the real classes "
        "under ASan/UBSan and on the Lean driver, comparing the full observable state after every step. N-dimensional arrays, views and row-major iteration are "
        "covered by the harness's reference-map oracle (exploration), not by a theorem.",
   note=TB + "element type int; allocator/shared_ptr lifetime/iterator invalidation only seen by ASan; N-dim arrays by oracle only.",
   design="DESIGN.md §4 C11"),
}

CHECKS["C06"] = dict(
   technique="Lean 4 proofs (partition/permutation theorems for all view counts and subset numbers), differential correspondence on the real symmetry/subset/schedule code",
   text="Proof: the related-viewgram sets of the basic view/segment pairs partition all pairs, the processed sets of the subsets are duplicate-free and partition the data "
        "(count = 1 for every (segment, view) and TOF loop multiplicity), the balance flag is true iff all subsets process equally many viewgrams, and both subset schedules "
        "(fixed order with any start subset; randomised order for any random draws) are permutations of the subsets — all proved in Lean for every number of views, subsets and "
        "segment range under the flag constraints the constructor establishes (also a theorem). Tie: the real DataSymmetriesForBins_PET_CartesianGrid, "
        "detail::find_basic_vs_nums_in_subset, subsets_are_approximately_balanced and IterativeReconstruction::get_subset_num (rand() scripted) are run on generated geometries "
        "and every answer is compared with the model; an oracle counts multiplicities on the implementation.",
   note=TB + "rand() is a parameter; views are 0..V-1; only the PET_CartesianGrid symmetry class (the one the projectors use) is modelled.",
   design="DESIGN.md §4 C06")
CHECKS["C01"] = dict(
   technique="Lean 4 proofs (interleaving round trips, ring-pair partition, bin/detector-pair exactness with mashing), differential correspondence + partition oracle on the real ProjDataInfo classes",
   text="Proof: for every even number of detectors the view/tangential <-> detector-pair maps are mutual inverses up to the reported exchange; for every well-formed segment table "
        "(decidable predicate WFb, evaluated per configuration and compared with the implementation's behaviour) ring pairs are partitioned over (segment, axial position); for every "
        "view-mashing factor dividing N/2 and odd TOF mashing the pairs a bin reports are exactly the pairs assigned to it (sound, complete up to orientation, duplicate-free, reported count), "
        "exchanging detectors negates the TOF index, and uncompressed bin->pair->bin is the identity. Tie: construct_proj_data_info geometries (generated + predefined scanners) are "
        "enumerated on the real ProjDataInfoCylindricalNoArcCorr and every table entry / bin is compared with the model; a partition oracle runs on the implementation. "
        "The segment table construction (ProjDataInfoCTI) is modelled and compared but its well-formedness is checked per configuration, not proved in general; one class of "
        "configurations (outermost segment clipped to a single ring difference of odd parity) violates the ring-pair clause and is a listed known finding with a Lean negative witness.",
   note=TB + "float computation of m_offset/ax_pos_num_offset replaced by exact integers; 32-bit overflow not modelled; Blocks/Generic geometries share the formulas but are not yet exercised by the harness.",
   design="DESIGN.md §4 C01")

CHECKS["C18"] = dict(
   technique="Lean 4 invariant proofs over interleaving semantics of the synchronisation protocols (any threads, any schedule); trace validation + schedule-perturbed differential runs of the OpenMP build",
   text="Proof (protocol level only): the double-checked lazy initialisation used for the geometry tables never lets a thread use an incomplete table, builds it at most once and cannot deadlock; "
        "the lock-protected matrix cache returns the specified row for every request and never stores a wrong entry; the per-thread accumulation + reduction equals the sum over all work items for "
        "every assignment of items to threads — each for every number of threads and every schedule (induction over schedules with an inductive invariant). "
        "Tie/exploration: the OpenMP build of /repo is run with UCL_STIR_VERIF schedule points that record events and inject seeded yields/sleeps; every recorded trace must be accepted by the "
        "model's trace validators (exactly one build per table, `crit 0, built, crit 1*`, no set flag seen before the build, cache hits after inserts, every work item exactly once), and "
        "multi-threaded results are compared with single-threaded results of the same binary. What libgomp and the hardware do is not a theorem: this is the weakest claim in the set.",
   note=TB + "OpenMP atomic/critical/locks assumed sequentially consistent; races outside the modelled protocols are visible only to the perturbed runs; list-mode gradient and scatter not exercised.",
   design="DESIGN.md §4 C18")

NOT_YET = {}

def main():
    props = [json.loads(l)["id"] for l in open(os.path.join(VERIF, "properties.jsonl"))]
    checks = []
    for p in props:
        if p in CHECKS:
            c = CHECKS[p]
            checks.append(dict(
                property_id=p,
                quick_cmd="./check %s --tier quick" % p,
                thorough_cmd="./check %s --tier thorough" % p,
                evidence_file="evidence/%s.json" % p,
                replay_cmd_template="./check %s --replay {path}" % p,
                engine="lean-model+correspondence",
                level_claimed=dict(category=c.get("category", "proof"), text=c["text"], design_ref=c["design"]),
                level_note=c["note"], technique=c["technique"]))
    na = [dict(property_id=p, reason=NOT_YET.get(p, "no check registered yet in this round: the Lean model/proofs and correspondence harness for this property are not built; see DESIGN.md §4 for the plan"))
          for p in props if p not in CHECKS]
    man = dict(
        version=1,
        setup_cmd="python3 tools/build_stir.py plain && python3 tools/build_stir.py omp && (cd lean && lake build StirVerif stirdriver)",
        hooks=dict(guard="UCL_STIR_VERIF",
                   enable="tools/build_stir.py configures /repo out-of-tree into build/stir-plain with -DUCL_STIR_VERIF (CMAKE_CXX_FLAGS); harnesses are compiled with the same define",
                   baseline_off_cmd="cmake --build /repo/_build -j 14 && ctest --test-dir /repo/_build -j8 --timeout 900",
                   source_commits=["5d9f086d3"], add_only=True),
        engines=[dict(name="lean-model", path="lean/", serves_properties=sorted(CHECKS), kind_free_text="Lean 4 models, proofs and line-protocol driver (lake; no Mathlib require)"),
                 dict(name="correspondence-harness", path="harness/", serves_properties=sorted(CHECKS), kind_free_text="C++ drivers of the real STIR API + property oracles, linked against a build of /repo's working tree")],
        checks=checks,
        notes="See DESIGN.md. known_findings.txt lists repaired (fixed:) and open (known:) findings.",
        not_applicable=na)
    with open(os.path.join(VERIF, "MANIFEST.json"), "w") as fh:
        json.dump(man, fh, indent=1)
        fh.write("\n")

if __name__ == "__main__":
    main()
