#!/usr/bin/env python3
"""c2lean.py — tie (T) of DESIGN.md §2.2: regenerate Lean definitions of small loop-free integer kernels
from the C++ source text of STIR.

    python3 tools/c2lean.py [--repo /repo] [--out lean/StirVerif/Gen] [--only k1,k2] [--keep-going]
                            [--report report.json] [--stdout]

For every kernel of the contract (KERNELS below) the script runs

    clang++-14 -std=gnu++17 -fsyntax-only -w -DNDEBUG -DUCL_STIR_VERIF -Xclang -ast-dump=json
               -Xclang -ast-dump-filter=<Class::function> -I <repo>/src/include -I <build>/stir-plain/src/include
               -I /usr/include/hdf5/serial <file>

(`<build>` = $VERIF_BUILD_DIR or /verif/build: it holds the generated stir/config.h; `.inl` files are reached through
a one-line translation unit that includes their header), walks the JSON AST and writes `Kernels.lean`
(namespace `StirVerif.Gen`, core Lean only, deterministic).  The bridge theorems `Gen.f = Model.f` live in the
hand-written `Bridges.lean` beside it.

Exit codes: 0 all kernels translated; 3 at least one kernel left the supported subset / could not be located
(message names the kernel, the AST node kind and the source line: the caller reports a broken tie);
2 infrastructure problem (clang missing / source does not parse).

Supported C++ subset — everything else is rejected:
  declarations   `int` / `bool` (optionally const) locals, with initialiser (without: allowed, but every read must be
                 dominated by an assignment — checked by a definite-assignment pass)
  expressions    integer / bool literals, + - * / % (C truncation: Int.tdiv, Int.tmod), `>> k` with literal k
                 (arithmetic: Gen.shr = floor division by 2^k), < <= > >= == != (Bool via `decide`), && || !,
                 unary - +, ?:, parentheses, implicit casts (lvalue-to-rvalue, no-op, int<->bool), static_cast/C cast to
                 int/bool, std::min / std::max / std::abs on ints
  references     locals; function parameters, enclosing loop variables and data members (`this->m`, also in a template
                 where the member expression is still dependent: the field's declared type is then checked separately)
                 that are listed as parameters in the contract; `const` locals of the enclosing function with an
                 initialiser inside the subset (hoisted as `let`); contract-listed accessor calls / array elements
                 (`v_s.view_num()` -> mutable variable, `ax_pos_num_offset[segment_num]` -> parameter,
                 `table[i][j].field = e` -> output)
  statements     `x = e`, `x op= e` (+ - * / % >>), `++x`/`x++`/`--x`/`x--` as statements, if / else, return, `;`,
                 `assert(..)` under NDEBUG, nested compound statements
  no loops, no calls, no pointers, no floats.  A kernel may be the body of a `for`: it is located by function +
  the text of an assigned lvalue, and the loop variables are parameters.
"""
import argparse, concurrent.futures, json, os, re, subprocess, sys, tempfile

VERIF = os.path.dirname(os.path.dirname(os.path.abspath(__file__)))
CLANG = os.environ.get("C2LEAN_CLANG", "clang++-14")


# ------------------------------------------------------------------------------------------------ contract
# params : ordered (name, Lean type) — the signature of the generated function (the contract with Bridges.lean)
# bind   : canonical C text of an lvalue / call  ->  how it is represented
#            ("state", lean name, type, initial parameter | None)   mutable variable
#            ("param", parameter name)                              read-only, must be in params
#            ("out",   lean name, type)                             write-only store
#            ("ignore",)                                            store that belongs to another kernel
# outputs: lean names returned (in this order); "$return" = the value of the C `return`
# mode   : function  — whole function body
#          block     — innermost compound statement that directly contains an assignment to `marker`
#                      (optionally starting at the declaration of `start_decl`)
#          stmt      — the single assignment statement to `marker`
#          cond_else — else-branch of the conditional expression returned by the function (condition text `cond`)
SYM = "include/stir/recon_buildblock/DataSymmetriesForBins_PET_CartesianGrid"
NOARC = "buildblock/ProjDataInfoCylindricalNoArcCorr.cxx"
SYM_PARAMS = [("num_views", "Int"), ("do_symmetry_90degrees_min_phi", "Bool"), ("do_symmetry_180degrees_min_phi", "Bool"),
              ("do_symmetry_swap_segment", "Bool"), ("view", "Int"), ("seg", "Int")]
VT = "uncompressed_view_tangpos_to_det1det2[v_num][tp_num]"
DV = "det1det2_to_uncompressed_view_tangpos[det1_num][det2_num]"

KERNELS = [
    dict(name="find_basic_view_segment_numbers", file=SYM + ".inl", header="stir/recon_buildblock/DataSymmetriesForBins_PET_CartesianGrid.h",
         cls="DataSymmetriesForBins_PET_CartesianGrid", function="find_basic_view_segment_numbers", mode="function",
         params=SYM_PARAMS,
         bind={"v_s.view_num()": ("state", "v_s_view_num", "Int", "view"),
               "v_s.segment_num()": ("state", "v_s_segment_num", "Int", "seg")},
         outputs=["v_s_view_num", "v_s_segment_num", "$return"], ret="Bool"),
    dict(name="num_related_view_segment_numbers", file=SYM + ".inl", header="stir/recon_buildblock/DataSymmetriesForBins_PET_CartesianGrid.h",
         cls="DataSymmetriesForBins_PET_CartesianGrid", function="num_related_view_segment_numbers", mode="function",
         params=SYM_PARAMS,
         bind={"vs.view_num()": ("param", "view"), "vs.segment_num()": ("param", "seg")},
         outputs=["$return"], ret="Int"),
    dict(name="det1", file=NOARC, cls="ProjDataInfoCylindricalNoArcCorr", function="initialise_uncompressed_view_tangpos_to_det1det2",
         mode="block", marker=VT + ".det1_num",
         params=[("num_detectors", "Int"), ("v_num", "Int"), ("tp_num", "Int")],
         bind={VT + ".det1_num": ("out", "det1_num", "Int"), VT + ".det2_num": ("ignore",)},
         outputs=["det1_num"]),
    dict(name="det2", file=NOARC, cls="ProjDataInfoCylindricalNoArcCorr", function="initialise_uncompressed_view_tangpos_to_det1det2",
         mode="block", marker=VT + ".det2_num",
         params=[("num_detectors", "Int"), ("v_num", "Int"), ("tp_num", "Int")],
         bind={VT + ".det2_num": ("out", "det2_num", "Int"), VT + ".det1_num": ("ignore",)},
         outputs=["det2_num"]),
    dict(name="det2vt", file=NOARC, cls="ProjDataInfoCylindricalNoArcCorr", function="initialise_det1det2_to_uncompressed_view_tangpos",
         mode="block", marker=DV + ".swap_detectors", start_decl="swap_detectors",
         params=[("num_detectors", "Int"), ("det1_num", "Int"), ("det2_num", "Int")],
         bind={DV + ".view_num": ("out", "out_view_num", "Int"), DV + ".tang_pos_num": ("out", "out_tang_pos_num", "Int"),
               DV + ".swap_detectors": ("out", "out_swap_detectors", "Bool")},
         outputs=["out_view_num", "out_tang_pos_num", "out_swap_detectors"]),
    dict(name="subset_num_fixed", file="recon_buildblock/IterativeReconstruction.cxx", cls="IterativeReconstruction",
         function="get_subset_num", mode="cond_else", cond="randomise_subset_order",
         params=[("subiteration_num", "Int"), ("start_subset_num", "Int"), ("num_subsets", "Int")],
         # the function is a member of a class template: `this->m` is a dependent member expression in the AST;
         # the declared type of each field is checked on the class (header below)
         dependent_fields={"subiteration_num": "int", "start_subset_num": "int", "num_subsets": "int"},
         fields_header="stir/recon_buildblock/IterativeReconstruction.h",
         bind={}, outputs=["$expr"], ret="Int"),
    dict(name="ax_pos_num", file="include/stir/ProjDataInfoCylindrical.inl", header="stir/ProjDataInfoCylindrical.h",
         cls="ProjDataInfoCylindrical", function="get_segment_axial_pos_num_for_ring_pair", mode="stmt", marker="ax_pos_num",
         params=[("ring1", "Int"), ("ring2", "Int"), ("off", "Int"), ("inc", "Int")],
         bind={"ax_pos_num": ("state", "ax_pos_num", "Int", None),
               "ax_pos_num_offset[segment_num]": ("param", "off"),
               "get_num_axial_poss_per_ring_inc(segment_num)": ("param", "inc")},
         outputs=["ax_pos_num"]),
]


# ---- C03: the 16 symmetry-operation classes of SymmetryOperations_PET_CartesianGrid (3 member functions each).
# Uniform signatures (unused parameters are simply not referenced by a class that does not store that member):
#   so_<kind>_bin (view180 axial_pos_shift seg view ax tang tof) : seg × view × ax × tang × tof
#   so_<kind>_vs  (view180 seg view)                             : seg × view
#   so_<kind>_img (z_shift q z y x)                              : z × y × x
SO = "include/stir/recon_buildblock/SymmetryOperations_PET_CartesianGrid"
SO_KINDS = ["z_shift", "swap_xmx_zq", "swap_xmy_yx_zq", "swap_xy_yx_zq", "swap_xmy_yx", "swap_xy_yx", "swap_xmx", "swap_ymy",
            "swap_zq", "swap_xmx_ymy_zq", "swap_xy_ymx_zq", "swap_xy_ymx", "swap_xmy_ymx", "swap_ymy_zq", "swap_xmx_ymy",
            "swap_xmy_ymx_zq"]
for _k in SO_KINDS:
    _common = dict(file=SO + ".inl", header="stir/recon_buildblock/SymmetryOperations_PET_CartesianGrid.h",
                   cls="SymmetryOperation_PET_CartesianGrid_" + _k, mode="function")
    KERNELS.append(dict(_common, name="so_%s_bin" % _k, function="transform_bin_coordinates",
        params=[("view180", "Int"), ("axial_pos_shift", "Int"), ("seg", "Int"), ("view", "Int"), ("ax", "Int"), ("tang", "Int"), ("tof", "Int")],
        bind={"b.segment_num()": ("state", "b_seg", "Int", "seg"), "b.view_num()": ("state", "b_view", "Int", "view"),
              "b.axial_pos_num()": ("state", "b_ax", "Int", "ax"), "b.tangential_pos_num()": ("state", "b_tang", "Int", "tang"),
              "b.timing_pos_num()": ("state", "b_tof", "Int", "tof")},
        outputs=["b_seg", "b_view", "b_ax", "b_tang", "b_tof"]))
    KERNELS.append(dict(_common, name="so_%s_vs" % _k, function="transform_view_segment_indices",
        params=[("view180", "Int"), ("seg", "Int"), ("view", "Int")],
        bind={"vs.segment_num()": ("state", "vs_seg", "Int", "seg"), "vs.view_num()": ("state", "vs_view", "Int", "view")},
        outputs=["vs_seg", "vs_view"]))
    KERNELS.append(dict(_common, name="so_%s_img" % _k, function="transform_image_coordinates",
        params=[("z_shift", "Int"), ("q", "Int"), ("z", "Int"), ("y", "Int"), ("x", "Int")],
        bind={"c[1]": ("state", "c_z", "Int", "z"), "c[2]": ("state", "c_y", "Int", "y"), "c[3]": ("state", "c_x", "Int", "x")},
        outputs=["c_z", "c_y", "c_x"]))

# ---- C03: the two decision trees that choose the symmetry operation (cylindrical branch).  Result: (class index, view180,
# axial_pos_shift, z_shift, q) with the class index = position in SO_CLASSES; a class that does not take an argument gets 0.
SO_CLASSES = ["TrivialSymmetryOperation"] + ["SymmetryOperation_PET_CartesianGrid_" + k for k in SO_KINDS]
_SO_ZQ = [k for k in SO_KINDS if k.endswith("_zq")]
SO_NEW = {"TrivialSymmetryOperation": (0, [])}
for _i, _k in enumerate(SO_KINDS):
    SO_NEW["SymmetryOperation_PET_CartesianGrid_" + _k] = (_i + 1, [1, 2] if _k == "z_shift" else ([0, 1, 2, 3] if _k in _SO_ZQ else [0, 1, 2]))
_TREE = dict(file=SYM + ".inl", header="stir/recon_buildblock/DataSymmetriesForBins_PET_CartesianGrid.h",
             cls="DataSymmetriesForBins_PET_CartesianGrid", mode="if_string", if_literal="Cylindrical", if_callee="get_scanner_geometry",
             new_classes=SO_NEW, new_slots=4, outputs=["$return"], ret="Int")
_TREE_BIND = {"find_transform_z(abs(segment_num), do_symmetry_shift_z ? 0 : axial_pos_num)": ("param", "tz"),
              "num_planes_per_axial_pos[segment_num]": ("param", "nppa_seg")}
KERNELS.append(dict(_TREE, name="find_sym_op_bin0", function="find_sym_op_bin0",
    params=[("num_views", "Int"), ("do_symmetry_90degrees_min_phi", "Bool"), ("do_symmetry_180degrees_min_phi", "Bool"),
            ("do_symmetry_swap_segment", "Bool"), ("do_symmetry_shift_z", "Bool"), ("tz", "Int"), ("nppa_seg", "Int"),
            ("segment_num", "Int"), ("view_num", "Int"), ("axial_pos_num", "Int")], bind=_TREE_BIND))
KERNELS.append(dict(_TREE, name="find_sym_op_general_bin", function="find_sym_op_general_bin",
    params=[("num_views", "Int"), ("do_symmetry_90degrees_min_phi", "Bool"), ("do_symmetry_180degrees_min_phi", "Bool"),
            ("do_symmetry_swap_segment", "Bool"), ("do_symmetry_swap_s", "Bool"), ("do_symmetry_shift_z", "Bool"), ("tz", "Int"),
            ("nppa_seg", "Int"), ("s", "Int"), ("segment_num", "Int"), ("view_num", "Int"), ("axial_pos_num", "Int")], bind=_TREE_BIND))

# ---- C03: ProjMatrixByBin::cache_key (64-bit packing of the three signed coordinates; the widths are the in-class initialisers)
KERNELS.append(dict(name="cache_key", file="recon_buildblock/ProjMatrixByBin.cxx", cls="ProjMatrixByBin", function="cache_key", mode="function",
    params=[("ax", "Int"), ("tang", "Int"), ("tof", "Int")],
    const_fields={"tang_pos_bits": "U64", "axial_pos_bits": "U64", "timing_pos_bits": "U64"},
    fields_header="stir/recon_buildblock/ProjMatrixByBin.h",
    bind={"bin.axial_pos_num()": ("param", "ax"), "bin.tangential_pos_num()": ("param", "tang"), "bin.timing_pos_num()": ("param", "tof")},
    outputs=["$return"], ret="U64"))

# ---- C02: the address arithmetic of projection data (range checks -> error number, std::find over the segment / TOF sequences,
#      the loop over the preceding segments, the two storage orders).  64-bit types are modelled as unbounded Int (wide_int).
_PD_PARAMS = [("segSeq", "List Int"), ("tofSeq", "List Int"), ("minSeg", "Int"), ("maxSeg", "Int"),
              ("minAx", "Int → Int"), ("maxAx", "Int → Int"), ("numAx", "Int → Int"),
              ("minView", "Int"), ("maxView", "Int"), ("numViews", "Int"), ("minTang", "Int"), ("maxTang", "Int"), ("numTang", "Int"),
              ("minTof", "Int"), ("maxTof", "Int"), ("numTof", "Int")]
_PD_BIND = {"this_bin.segment_num()": ("param", "seg"), "this_bin.axial_pos_num()": ("param", "ax"), "this_bin.view_num()": ("param", "view"),
            "this_bin.tangential_pos_num()": ("param", "tang"), "this_bin.timing_pos_num()": ("param", "tof"),
            "get_min_segment_num()": ("param", "minSeg"), "get_max_segment_num()": ("param", "maxSeg"),
            "get_min_view_num()": ("param", "minView"), "get_max_view_num()": ("param", "maxView"), "get_num_views()": ("param", "numViews"),
            "get_min_tangential_pos_num()": ("param", "minTang"), "get_max_tangential_pos_num()": ("param", "maxTang"),
            "get_num_tangential_poss()": ("param", "numTang"),
            "get_min_tof_pos_num()": ("param", "minTof"), "get_max_tof_pos_num()": ("param", "maxTof"),
            "proj_data_info_sptr->get_num_tof_poss()": ("param", "numTof"),
            "segment_sequence": ("list", "segSeq"), "timing_poss_sequence": ("list", "tofSeq")}
_PD_FUN = {"get_min_axial_pos_num": "minAx", "get_max_axial_pos_num": "maxAx", "get_num_axial_poss": "numAx"}
_PD_BIN = [("seg", "Int"), ("view", "Int"), ("ax", "Int"), ("tang", "Int"), ("tof", "Int")]
KERNELS.append(dict(name="get_index", file="buildblock/ProjDataInMemory.cxx", cls="ProjDataInMemory", function="get_index", mode="function",
    params=_PD_PARAMS + [("offset_3d_data", "Int")] + _PD_BIN, bind=dict(_PD_BIND), bind_fun=_PD_FUN,
    wide_int=True, error_calls=True, outputs=["$return"], ret="Int"))
KERNELS.append(dict(name="get_offset", file="buildblock/ProjDataFromStream.cxx", cls="ProjDataFromStream", function="get_offset", mode="function",
    params=_PD_PARAMS + [("order", "Int"), ("elemSize", "Int"), ("offset", "Int"), ("offset_3d_data", "Int")] + _PD_BIN,
    bind=dict(_PD_BIND, **{"get_storage_order()": ("param", "order"), "on_disk_data_type.size_in_bytes()": ("param", "elemSize")}),
    bind_fun=_PD_FUN, enum_types=["ProjDataFromStream::StorageOrder"], fields_header="stir/ProjDataFromStream.h",
    wide_int=True, error_calls=True, outputs=["$return"], ret="Int"))

# ---- C20: FanProjData / GeoData3D / DetPairData of ML_norm.cxx — which element of the underlying array an access goes to, the
#      membership tests, and the index ranges the constructors allocate
_ML = dict(file="buildblock/ML_norm.cxx")
_FAN_BIND = {"(*this)[ra][a].get_min_index()": ("param", "loRb_ra"), "(*this)[ra][a].get_max_index()": ("param", "maxRb_ra")}
_FANF = {"get_min_b": "minB", "get_max_b": "maxB"}
KERNELS.append(dict(_ML, name="fan_key", cls="FanProjData", function="operator()", const_method=True, mode="function", index_tuple=4,
    params=[("num_detectors_per_ring", "Int"), ("minB", "Int → Int"), ("ra", "Int"), ("a", "Int"), ("rb", "Int"), ("b", "Int")],
    bind={}, bind_fun=_FANF, outputs=["$return"], ret="Int"))
KERNELS.append(dict(_ML, name="fan_is_in_data", cls="FanProjData", function="is_in_data", mode="function",
    params=[("num_detectors_per_ring", "Int"), ("minB", "Int → Int"), ("maxB", "Int → Int"), ("loRb_ra", "Int"), ("maxRb_ra", "Int"),
            ("ra", "Int"), ("a", "Int"), ("rb", "Int"), ("b", "Int")],
    bind=dict(_FAN_BIND), bind_fun=_FANF, outputs=["$return"], ret="Bool"))
KERNELS.append(dict(_ML, name="fan_min_rb", cls="FanProjData", function="get_min_rb", mode="function",
    params=[("max_ring_diff", "Int"), ("ra", "Int")], bind={}, outputs=["$return"], ret="Int"))
KERNELS.append(dict(_ML, name="fan_ctor_rb_range", cls="FanProjData", function="FanProjData", nparams=4, mode="call_args", marker="fan_indices[ra][a].grow", nargs=2,
    params=[("num_rings", "Int"), ("max_ring_diff", "Int"), ("ra", "Int")], bind={}, outputs=[], ret="Int"))
KERNELS.append(dict(_ML, name="fan_ctor_b_range", cls="FanProjData", function="FanProjData", nparams=4, mode="call_args", marker="fan_indices[ra][a][rb]", nargs=2,
    params=[("num_detectors_per_ring", "Int"), ("half_fan_size", "Int"), ("a", "Int")], bind={}, outputs=[], ret="Int"))
KERNELS.append(dict(_ML, name="geo_key", cls="GeoData3D", function="operator()", const_method=True, mode="function", index_tuple=4,
    params=[("num_detectors_per_ring", "Int"), ("minB", "Int → Int"), ("ra", "Int"), ("a", "Int"), ("rb", "Int"), ("b", "Int")],
    bind={}, bind_fun=_FANF, outputs=["$return"], ret="Int"))
KERNELS.append(dict(_ML, name="geo_ctor_rb_range", cls="GeoData3D", function="GeoData3D", nparams=4, mode="call_args", marker="fan_indices[ra][a].grow", nargs=2,
    params=[("num_rings", "Int"), ("ra", "Int")], bind={}, outputs=[], ret="Int"))
KERNELS.append(dict(_ML, name="geo_ctor_b_range", cls="GeoData3D", function="GeoData3D", nparams=4, mode="call_args", marker="fan_indices[ra][a][rb]", nargs=2,
    params=[("num_detectors_per_ring", "Int"), ("a", "Int")], bind={}, outputs=[], ret="Int"))
KERNELS.append(dict(_ML, name="dp_key", cls="DetPairData", function="operator()", const_method=True, mode="function", index_tuple=2,
    params=[("num_detectors", "Int"), ("minB", "Int → Int"), ("a", "Int"), ("b", "Int")],
    bind={}, bind_fun={"get_min_index": "minB", "get_max_index": "maxB"}, outputs=["$return"], ret="Int"))
for _n in ("fan_key", "geo_key", "dp_key"):
    # the non-const overloads `float& operator()(…)` (the ones every write goes through) have their own bodies
    _c = [k for k in KERNELS if k["name"] == _n][0]
    KERNELS.append(dict(_c, name=_n + "_nc", const_method=False))
KERNELS.append(dict(_ML, name="dp_is_in_data", cls="DetPairData", function="is_in_data", mode="function",
    params=[("num_detectors", "Int"), ("minB", "Int → Int"), ("maxB", "Int → Int"), ("a", "Int"), ("b", "Int")],
    bind={}, bind_fun={"get_min_index": "minB", "get_max_index": "maxB"}, outputs=["$return"], ret="Bool"))


class Reject(Exception):
    """the kernel leaves the supported subset / cannot be located"""


class Infra(Exception):
    pass


# ------------------------------------------------------------------------------------------------ clang

def build_include(repo):
    cands = []
    if os.environ.get("VERIF_BUILD_DIR"):
        cands.append(os.path.join(os.environ["VERIF_BUILD_DIR"], "stir-plain", "src", "include"))
    cands.append(os.path.join(VERIF, "build", "stir-plain", "src", "include"))
    for c in cands:
        if os.path.exists(os.path.join(c, "stir", "config.h")):
            return c
    raise Infra("generated stir/config.h not found in any of %s (build STIR first: tools/build_stir.py)" % cands)


def clang_ast(repo, tu_kind, tu, flt, tmpdir):
    """Run clang on a source file (tu_kind='source') or on a one-line TU including a header; returns the list of
    top-level JSON documents printed for the declarations matching the filter."""
    if tu_kind == "source":
        path = os.path.join(repo, "src", tu)
        if not os.path.exists(path):
            raise Reject("source file src/%s does not exist" % tu)
    else:
        if not os.path.exists(os.path.join(repo, "src", "include", tu)):
            raise Reject("header src/include/%s does not exist" % tu)
        path = os.path.join(tmpdir, "tu_" + re.sub(r"\W", "_", tu + "__" + flt) + ".cxx")
        with open(path, "w") as fh:
            fh.write('#include "%s"\n' % tu)
    cmd = [CLANG, "-std=gnu++17", "-fsyntax-only", "-w", "-DNDEBUG", "-DUCL_STIR_VERIF",
           "-Xclang", "-ast-dump=json", "-Xclang", "-ast-dump-filter=" + flt,
           "-I", os.path.join(repo, "src", "include"), "-I", build_include(repo), "-I", "/usr/include/hdf5/serial", path]
    try:
        r = subprocess.run(cmd, stdout=subprocess.PIPE, stderr=subprocess.PIPE, text=True)
    except FileNotFoundError:
        raise Infra("%s not found" % CLANG)
    if r.returncode != 0:
        raise Infra("clang failed on %s:\n%s" % (path, r.stderr[-3000:]))
    docs, dec, i, text = [], json.JSONDecoder(), 0, r.stdout
    while True:
        while i < len(text) and text[i].isspace():
            i += 1
        if i >= len(text):
            break
        o, i = dec.raw_decode(text, i)
        resolve_locations(o)
        docs.append(o)
    return docs


def resolve_locations(doc):
    """clang's JSON omits `file` / `line` of a location when equal to the previously printed one: fill them in
    (document order = print order)."""
    last = {"file": None, "line": None}

    def walk(o):
        if isinstance(o, dict):
            if "offset" in o and "col" in o:
                if "file" in o:
                    last["file"] = o["file"]
                else:
                    o["file"] = last["file"]
                if "line" in o:
                    last["line"] = o["line"]
                else:
                    o["line"] = last["line"]
            for v in o.values():
                walk(v)
        elif isinstance(o, list):
            for v in o:
                walk(v)
    walk(doc)


def loc_of(node):
    b = node.get("range", {}).get("begin", {})
    b = b.get("expansionLoc", b)
    return b.get("file"), b.get("line")


def kids(node):
    return [c for c in node.get("inner", []) if c and c.get("kind") not in ("FullComment",)]


# ------------------------------------------------------------------------------------------------ canonical C text

def unparse(n):
    """canonical C text of the small class of lvalue / call expressions that the contract may bind"""
    k = n.get("kind")
    ch = kids(n)
    if k in ("ImplicitCastExpr", "MaterializeTemporaryExpr", "ExprWithCleanups"):
        return unparse(ch[0])
    if k == "ParenExpr":
        return "(" + unparse(ch[0]) + ")"
    if k == "DeclRefExpr":
        return n["referencedDecl"].get("name", "?")
    if k == "CXXThisExpr":
        return "this"
    if k == "MemberExpr":
        base = ch[0] if ch else None
        if base is None or strip_casts(base).get("kind") == "CXXThisExpr":
            return n.get("name", "?")
        return unparse(base) + ("->" if n.get("isArrow") else ".") + n.get("name", "?")
    if k == "CXXDependentScopeMemberExpr":
        if ch and strip_casts(ch[0]).get("kind") == "CXXThisExpr":
            return n.get("member", "?")
        return (unparse(ch[0]) if ch else "?") + ("->" if n.get("isArrow") else ".") + n.get("member", "?")
    if k == "CXXMemberCallExpr":
        return unparse(ch[0]) + "(" + ", ".join(unparse(a) for a in ch[1:]) + ")"
    if k == "CXXOperatorCallExpr":
        callee = strip_casts(ch[0])
        if callee.get("kind") == "DeclRefExpr" and callee["referencedDecl"].get("name") == "operator[]" and len(ch) == 3:
            return unparse(ch[1]) + "[" + unparse(ch[2]) + "]"
        if callee.get("kind") == "DeclRefExpr" and callee["referencedDecl"].get("name") == "operator->" and len(ch) == 2:
            return unparse(ch[1])     # smart pointer: `p->m` reads as for a plain pointer
        return "<CXXOperatorCallExpr %s>" % callee.get("referencedDecl", {}).get("name")
    if k == "ArraySubscriptExpr":
        return unparse(ch[0]) + "[" + unparse(ch[1]) + "]"
    if k == "CallExpr":
        return unparse(ch[0]) + "(" + ", ".join(unparse(a) for a in ch[1:]) + ")"
    if k == "IntegerLiteral":
        return str(n.get("value"))
    if k == "CXXBoolLiteralExpr":
        return "true" if n.get("value") else "false"
    if k == "BinaryOperator" or k == "CompoundAssignOperator":
        return unparse(ch[0]) + " " + n.get("opcode", "?") + " " + unparse(ch[1])
    if k == "UnaryOperator":
        return (unparse(ch[0]) + n.get("opcode", "?")) if n.get("isPostfix") else (n.get("opcode", "?") + unparse(ch[0]))
    if k == "ConditionalOperator" and len(ch) == 3:
        return unparse(ch[0]) + " ? " + unparse(ch[1]) + " : " + unparse(ch[2])
    if k == "StringLiteral":
        return str(n.get("value"))
    if k == "CXXBindTemporaryExpr" and ch:
        return unparse(ch[0])
    return "<%s>" % k


def strip_casts_this(n):
    """like strip_casts, also through the derived-to-base conversions of an implicit `this`"""
    n = strip_casts(n)
    while n.get("kind") == "ImplicitCastExpr" and kids(n):
        n = strip_casts(kids(n)[0])
    return n


def strip_casts(n):
    while n.get("kind") in ("ImplicitCastExpr", "ParenExpr", "MaterializeTemporaryExpr", "ExprWithCleanups") and kids(n):
        n = kids(n)[0]
    return n


# ------------------------------------------------------------------------------------------------ translation

LEAN_KEYWORDS = set("""abbrev at axiom by class def deriving do else end example export extends for from fun have if import in
 inductive infix infixl infixr instance let local macro match mut mutual namespace noncomputable notation open opaque partial
 postfix prefix private protected return section set_option show structure syntax then theorem try unless universe unsafe
 using variable where with true false default max min shr iabs b2i Int Bool Id pure decide vecFind vecGet forRange""".split())


def lean_ident(name):
    if not re.fullmatch(r"[A-Za-z_][A-Za-z0-9_]*", name):
        raise Reject("identifier %r cannot be used in Lean" % name)
    if name in LEAN_KEYWORDS or name.startswith("_"):
        return "c_" + name
    return name


WIDE_TYPES = (["long"], ["unsigned", "long"], ["std::streamoff"], ["streamoff"], ["std::size_t"], ["size_t"], ["std::ptrdiff_t"],
              ["std::vector::size_type"], ["std::vector<int>::size_type"])


def ctype_to_lean(qt, wide=False, enums=()):
    """declared C type of a variable -> (Lean type, is_const) or None.
    wide: the kernel's contract says that 64-bit integer types (long / unsigned long and their typedefs) are modelled as unbounded
    `Int` (sound while no intermediate value leaves [0, 2^63): recorded as an assumption of the kernel);
    enums: names of enumeration types that are modelled by the integer value of their enumerators."""
    q = qt.replace("&", " ").split()
    const = "const" in q
    q = [w for w in q if w != "const"]
    if q == ["int"]:
        return "Int", const
    if wide and q in WIDE_TYPES:
        return "Int", const
    if len(q) == 1 and q[0].replace("stir::", "") in enums:
        return "Int", const
    if q == ["bool"]:
        return "Bool", const
    if q in (["std::uint64_t"], ["uint64_t"], ["unsigned", "long"], ["CacheKey"], ["stir::ProjMatrixByBin::CacheKey"], ["ProjMatrixByBin::CacheKey"]):
        return "U64", const     # 64-bit unsigned: a Nat below 2^64, every operation reduced mod 2^64
    return None


ALL = None  # "every variable is assigned" (after a return)


def meet(a, b):
    if a is ALL:
        return b
    if b is ALL:
        return a
    return a & b


class Translator:
    def __init__(self, spec, fn, relfile, repo_root):
        self.spec, self.fn, self.relfile, self.repo_root = spec, fn, relfile, repo_root
        self.params = dict(spec["params"])
        self.used_params = set()
        self.decls = {}        # id -> VarDecl / ParmVarDecl node of the whole function
        self.collect_decls(fn)
        self.locals = {}       # decl id -> (lean name, type, mutable)
        self.scope_names = set(lean_ident(p) for p, _ in spec["params"])
        self.hoisted = []      # (lean name, type, text) const locals of the enclosing function
        self.hoisted_ids = {}
        self.state = {}        # lean name -> type   (bound mutable variables / outputs)
        self.assigned = set()  # lean names definitely assigned at the current point
        self.in_hoist = False
        for ctext, b in spec["bind"].items():
            if b[0] == "state":
                self.state[b[1]] = b[2]
                if b[3] is not None:
                    self.assigned.add(b[1])
            elif b[0] == "out":
                self.state[b[1]] = b[2]
            elif b[0] == "param" and b[1] not in self.params:
                raise Infra("contract of %s binds %r to unknown parameter %s" % (spec["name"], ctext, b[1]))
        self.scope_names |= set(self.state)

    # ---- helpers
    def ctl(self, tnode_or_qt):
        """Lean type of a clang type (a `type` dict of the JSON AST, or a qualType string)"""
        wide, enums = bool(self.spec.get("wide_int")), tuple(self.spec.get("enum_types", ()))
        if isinstance(tnode_or_qt, dict):
            t = ctype_to_lean(tnode_or_qt.get("qualType", ""), wide, enums)
            if t is None and wide and tnode_or_qt.get("desugaredQualType"):
                t = ctype_to_lean(tnode_or_qt["desugaredQualType"], wide, enums)
            return t
        return ctype_to_lean(tnode_or_qt or "", wide, enums)

    def collect_decls(self, n):
        if isinstance(n, dict):
            if n.get("kind") in ("VarDecl", "ParmVarDecl") and "id" in n:
                self.decls[n["id"]] = n
            for c in n.get("inner", []):
                self.collect_decls(c)

    def where(self, n):
        f, l = loc_of(n)
        return "%s:%s" % (self.relfile if f is None else rel(f, self.repo_root), l)

    def reject(self, n, why):
        raise Reject("kernel %s: %s — AST node %s at %s (`%s`)" % (self.spec["name"], why, n.get("kind"), self.where(n), unparse(n)[:120]))

    def use_param(self, n, name, want_ctype=None):
        if name not in self.params:
            self.reject(n, "reference to `%s`, which is neither a local of the kernel nor a parameter of the contract %s"
                        % (name, [p for p, _ in self.spec["params"]]))
        if want_ctype is not None:
            t = self.ctl(want_ctype)
            if t is None or t[0] != self.params[name]:
                self.reject(n, "`%s` has C type `%s` but the contract says %s" % (name, want_ctype, self.params[name]))
        self.used_params.add(name)
        return lean_ident(name), self.params[name]

    @staticmethod
    def as_bool(e):
        return e if e[1] == "Bool" else ("(%s != 0)" % e[0], "Bool")

    @staticmethod
    def as_int(e):
        if e[1] == "U64":
            return "(Int.ofNat %s)" % e[0], "Int"
        return e if e[1] == "Int" else ("(b2i %s)" % e[0], "Int")

    @staticmethod
    def as_u64(e):
        if e[1] == "U64":
            return e
        if e[1] == "Bool":
            return "(u64OfInt (b2i %s))" % e[0], "U64"
        return "(u64OfInt %s)" % e[0], "U64"

    def check_type(self, n, got):
        """where clang knows the type of an expression it must agree with ours"""
        qt = n.get("type", {}).get("qualType")
        if qt is None or "dependent" in qt:
            return
        t = self.ctl(n.get("type", {}))
        if t is None:
            self.reject(n, "expression of type `%s` (only int and bool are supported)" % qt)
        if t[0] != got:
            self.reject(n, "internal type mismatch: clang says `%s`, translator inferred %s" % (qt, got))

    # ---- expressions: return (lean text, "Int" | "Bool")
    def expr(self, n):
        e = self.expr_(n)
        self.check_type(n, e[1])
        return e

    def bound(self, n):
        k = n.get("kind")
        if k in ("CXXMemberCallExpr", "CXXOperatorCallExpr", "ArraySubscriptExpr", "MemberExpr", "DeclRefExpr", "CallExpr",
                 "CXXDependentScopeMemberExpr"):
            return self.spec["bind"].get(unparse(n))
        return None

    def read_var(self, n, name):
        if name not in self.assigned:
            self.reject(n, "`%s` may be read before it is assigned" % name)

    def expr_(self, n):
        k = n.get("kind")
        ch = kids(n)
        b = self.bound(n)
        if b is not None:
            if b[0] == "param":
                return self.use_param(n, b[1])
            if b[0] == "state":
                if self.in_hoist:
                    self.reject(n, "initialiser of a hoisted constant reads mutable state")
                self.read_var(n, b[1])
                return b[1], b[2]
            self.reject(n, "read of a write-only output")
        if k in ("ParenExpr", "MaterializeTemporaryExpr", "ExprWithCleanups"):
            return self.expr(ch[0])
        if k == "CXXOperatorCallExpr" and len(ch) == 3:
            callee = strip_casts(ch[0])
            opname = callee.get("referencedDecl", {}).get("name") if callee.get("kind") == "DeclRefExpr" else None
            if opname == "operator-":
                # `std::find(S.begin(), S.end(), e) - S.begin()` on a vector<int> S that the contract binds as a list
                lhs, rhs = strip_casts(ch[1]), strip_casts(ch[2])
                if lhs.get("kind") == "CallExpr" and len(kids(lhs)) == 4:
                    fc = strip_casts(kids(lhs)[0])
                    a0, a1, a2 = kids(lhs)[1:]
                    if fc.get("kind") == "DeclRefExpr" and fc.get("referencedDecl", {}).get("name") == "find":
                        t0, t1, t2 = unparse(strip_casts(a0)), unparse(strip_casts(a1)), unparse(rhs)
                        if t0.endswith(".begin()") and t1 == t0[:-len(".begin()")] + ".end()" and t2 == t0:
                            lb = self.spec["bind"].get(t0[:-len(".begin()")])
                            if lb is not None and lb[0] == "list":
                                lst = self.use_param(n, lb[1])[0]
                                e = self.as_int(self.expr(a2))[0]
                                return "(vecFind %s %s)" % (lst, e), "Int"
                self.reject(n, "iterator difference that is not `std::find(S.begin(), S.end(), e) - S.begin()` on a contract-bound vector")
            if opname == "operator[]":
                lb = self.spec["bind"].get(unparse(strip_casts(ch[1])))
                if lb is not None and lb[0] == "list":
                    lst = self.use_param(n, lb[1])[0]
                    return "(vecGet %s %s)" % (lst, self.as_int(self.expr(ch[2]))[0]), "Int"
        if k == "CXXMemberCallExpr" and ch and ch[0].get("kind") == "MemberExpr" and ch[0].get("name") in self.spec.get("bind_fun", {}) \
                and kids(ch[0]) and strip_casts_this(kids(ch[0])[0]).get("kind") == "CXXThisExpr" and len(ch) == 2:
            # a getter with one integer argument that the contract represents by a function parameter
            f = self.use_param(n, self.spec["bind_fun"][ch[0]["name"]])[0]
            return "(%s %s)" % (f, self.as_int(self.expr(ch[1]))[0]), "Int"
        if k == "DeclRefExpr" and n.get("referencedDecl", {}).get("kind") == "EnumConstantDecl":
            nm = n["referencedDecl"].get("name")
            if nm in getattr(self, "enum_values", {}):
                return str(self.enum_values[nm]), "Int"
            self.reject(n, "enumerator `%s` of an enumeration the contract does not list" % nm)
        if k == "IntegerLiteral":
            qt = n.get("type", {}).get("qualType")
            if qt != "int":
                self.reject(n, "integer literal of type `%s`" % qt)
            return str(int(n["value"])), "Int"
        if k == "CXXBoolLiteralExpr":
            return ("true" if n.get("value") else "false"), "Bool"
        if k in ("ImplicitCastExpr", "CXXStaticCastExpr", "CStyleCastExpr", "CXXFunctionalCastExpr"):
            ck = n.get("castKind")
            inner = self.expr(ch[0])
            if ck in ("LValueToRValue", "NoOp"):
                return inner
            if ck == "IntegralToBoolean":
                return self.as_bool(inner)
            if ck == "IntegralCast":
                t = self.ctl(n.get("type", {}))
                if t is None:
                    self.reject(n, "integral cast to `%s`" % n.get("type", {}).get("qualType"))
                if t[0] == "U64":
                    return self.as_u64(inner)
                return self.as_int(inner) if t[0] == "Int" else self.as_bool(inner)
            self.reject(n, "cast of kind %s" % ck)
        if k == "DeclRefExpr":
            rd = n["referencedDecl"]
            if rd.get("kind") not in ("VarDecl", "ParmVarDecl"):
                self.reject(n, "reference to a %s" % rd.get("kind"))
            if rd["id"] in self.locals:
                name, ty, _ = self.locals[rd["id"]]
                self.read_var(n, name)
                return name, ty
            if rd["id"] in self.hoisted_ids:
                return self.hoisted_ids[rd["id"]]
            name = rd.get("name", "?")
            if name in self.params:
                return self.use_param(n, name, rd.get("type", {}))
            return self.hoist(n, rd)
        if k == "MemberExpr":
            if ch and strip_casts(ch[0]).get("kind") == "CXXThisExpr" and n.get("name") in getattr(self, "const_fields", {}):
                return self.const_fields[n.get("name")]
            if ch and strip_casts(ch[0]).get("kind") == "CXXThisExpr":
                return self.use_param(n, n.get("name", "?"), n.get("type", {}))
            self.reject(n, "member access that is not `this->member`")
        if k == "CXXDependentScopeMemberExpr":
            if ch and strip_casts(ch[0]).get("kind") == "CXXThisExpr" and n.get("member") in self.spec.get("dependent_fields", {}):
                return self.use_param(n, n["member"])
            self.reject(n, "dependent member expression not covered by the contract")
        if k == "UnaryOperator":
            op = n.get("opcode")
            if op == "-":
                return "(-%s)" % self.as_int(self.expr(ch[0]))[0], "Int"
            if op == "+":
                return self.as_int(self.expr(ch[0]))
            if op == "!":
                return "(!%s)" % self.as_bool(self.expr(ch[0]))[0], "Bool"
            self.reject(n, "unary operator `%s` inside an expression" % op)
        if k == "BinaryOperator":
            return self.binop(n, n.get("opcode"), ch[0], ch[1])
        if k == "ConditionalOperator":
            c = self.as_bool(self.expr(ch[0]))
            a, b2 = self.expr(ch[1]), self.expr(ch[2])
            if a[1] != b2[1]:
                a, b2 = self.as_int(a), self.as_int(b2)
            return "(if %s then %s else %s)" % (c[0], a[0], b2[0]), a[1]
        if k == "CallExpr":
            callee = strip_casts(ch[0])
            fname = callee.get("referencedDecl", {}).get("name") if callee.get("kind") == "DeclRefExpr" else None
            args = [self.as_int(self.expr(a)) for a in ch[1:]] if fname in ("min", "max", "abs") else []
            if fname in ("min", "max") and len(args) == 2:
                return "(%s %s %s)" % (fname, args[0][0], args[1][0]), "Int"
            if fname == "abs" and len(args) == 1:
                return "(iabs %s)" % args[0][0], "Int"
            self.reject(n, "call of `%s`" % (fname or unparse(ch[0])))
        if k in ("CXXMemberCallExpr", "CXXOperatorCallExpr", "ArraySubscriptExpr"):
            self.reject(n, "call / element access that the contract does not bind (bound: %s)" % sorted(self.spec["bind"]))
        self.reject(n, "unsupported expression")

    def binop(self, n, op, l, r):
        qt = self.ctl(n.get("type", {}))
        if qt is not None and qt[0] == "U64":
            a, b = self.as_u64(self.expr(l)), self.as_u64(self.expr(r))
            if op == "+":
                return "(u64add %s %s)" % (a[0], b[0]), "U64"
            if op == "<<":
                return "(u64shl %s %s)" % (a[0], b[0]), "U64"
            if op == "|":
                return "(%s ||| %s)" % (a[0], b[0]), "U64"
            self.reject(n, "binary operator `%s` on 64-bit unsigned operands" % op)
        if op in ("+", "-", "*", "/", "%"):
            a, b = self.as_int(self.expr(l)), self.as_int(self.expr(r))
            if op == "/":
                return "(Int.tdiv %s %s)" % (a[0], b[0]), "Int"
            if op == "%":
                return "(Int.tmod %s %s)" % (a[0], b[0]), "Int"
            return "(%s %s %s)" % (a[0], op, b[0]), "Int"
        if op == ">>":
            rr = strip_casts(r)
            if rr.get("kind") != "IntegerLiteral" or not (0 <= int(rr["value"]) < 31):
                self.reject(n, "`>>` by something that is not a small literal")
            return "(shr %s %d)" % (self.as_int(self.expr(l))[0], int(rr["value"])), "Int"
        if op in ("<", "<=", ">", ">="):
            a, b = self.as_int(self.expr(l)), self.as_int(self.expr(r))
            lop = {"<": "<", "<=": "≤", ">": ">", ">=": "≥"}[op]
            return "(decide (%s %s %s))" % (a[0], lop, b[0]), "Bool"
        if op in ("==", "!="):
            a, b = self.expr(l), self.expr(r)
            if a[1] != b[1]:
                a, b = self.as_int(a), self.as_int(b)
            return "(%s %s %s)" % (a[0], op, b[0]), "Bool"
        if op in ("&&", "||"):
            a, b = self.as_bool(self.expr(l)), self.as_bool(self.expr(r))
            return "(%s %s %s)" % (a[0], op, b[0]), "Bool"
        self.reject(n, "binary operator `%s` inside an expression" % op)

    def hoist(self, n, rd):
        """a `const int/bool` local of the enclosing function, declared outside the kernel: becomes a leading `let`"""
        d = self.decls.get(rd["id"])
        name = rd.get("name", "?")
        if d is None or d.get("kind") != "VarDecl":
            self.reject(n, "reference to `%s`, which is neither a local of the kernel nor a parameter of the contract %s"
                        % (name, [p for p, _ in self.spec["params"]]))
        t = self.ctl(d.get("type", {}))
        init = kids(d)
        if t is None or not t[1] or not init:
            self.reject(n, "reference to `%s` (declared `%s` outside the kernel): only contract parameters and `const int/bool` locals "
                        "with an initialiser can be used" % (name, d.get("type", {}).get("qualType")))
        lname = lean_ident(name)
        if lname in self.scope_names:
            self.reject(n, "name clash for hoisted constant `%s`" % name)
        saved, self.in_hoist = self.in_hoist, True
        try:
            text, ty = self.expr(init[0])
        finally:
            self.in_hoist = saved
        text = (self.as_int if t[0] == "Int" else self.as_bool)((text, ty))[0]
        self.scope_names.add(lname)
        self.hoisted.append((lname, t[0], text, loc_of(d)[1]))
        self.hoisted_ids[rd["id"]] = (lname, t[0])
        return lname, t[0]

    # ---- statements: return list of (indent, text) lines; maintain self.assigned
    def lvalue(self, n):
        """-> ("var", lean name, type) | ("ignore",)"""
        m = strip_casts(n)
        b = self.bound(m)
        if b is not None:
            if b[0] in ("state", "out"):
                if getattr(self, "loop_rec", None) is not None:
                    self.loop_rec.append((b[1], b[2]))
                return "var", b[1], b[2]
            if b[0] == "ignore":
                return ("ignore",)
            self.reject(n, "assignment to read-only `%s`" % unparse(m))
        if m.get("kind") == "DeclRefExpr" and m["referencedDecl"].get("id") in self.locals:
            name, ty, mutable = self.locals[m["referencedDecl"]["id"]]
            if not mutable:
                self.reject(n, "assignment to const `%s`" % name)
            if getattr(self, "loop_rec", None) is not None:
                self.loop_rec.append((name, ty))
            return "var", name, ty
        self.reject(n, "assignment to an lvalue that is not a local of the kernel and not bound by the contract")

    def is_noop(self, n):
        m = n
        while m.get("kind") == "ParenExpr":
            m = kids(m)[0]
        return (m.get("kind") in ("CXXStaticCastExpr", "CStyleCastExpr", "CXXFunctionalCastExpr") and m.get("castKind") == "ToVoid"
                and strip_casts(kids(m)[0]).get("kind") == "IntegerLiteral")

    def ret_tuple(self, retval):
        vals = []
        for o in self.spec["outputs"]:
            if o == "$return":
                vals.append(retval)
            else:
                if o not in self.assigned:
                    raise Reject("kernel %s: output `%s` is not assigned on every path" % (self.spec["name"], o))
                vals.append(o)
        return vals[0] if len(vals) == 1 else "(" + ", ".join(vals) + ")"

    def stmts(self, nodes, ind):
        out = []
        dead = False
        for s in nodes:
            if dead:
                if getattr(self, "last_was_error", False) and s.get("kind") == "ReturnStmt":
                    continue      # `error(...); return x;` — error() does not return, the statement is there to silence a compiler warning
                self.reject(s, "statement after `return`")
            self.last_was_error = False
            out += self.stmt(s, ind)
            dead = self.assigned is ALL
        return out

    def conv(self, e, ty):
        return (self.as_int if ty == "Int" else self.as_u64 if ty == "U64" else self.as_bool)(e)[0]

    def stmt(self, n, ind):
        k = n.get("kind")
        ch = kids(n)
        pad = "  " * ind
        if k == "CompoundStmt":
            # nested block: declarations inside go out of scope afterwards
            saved_locals, saved_names = dict(self.locals), set(self.scope_names)
            res = self.stmts(ch, ind)
            inner_names = set(v[0] for kk, v in self.locals.items() if kk not in saved_locals)
            self.locals, self.scope_names = saved_locals, saved_names
            if self.assigned is not ALL:
                self.assigned = self.assigned - inner_names
            return res
        if k == "NullStmt" or self.is_noop(n):
            return []
        if k == "DeclStmt":
            res = []
            for d in ch:
                if d.get("kind") != "VarDecl":
                    self.reject(d, "declaration of something that is not a variable")
                t = self.ctl(d.get("type", {}))
                if t is None or "&" in d.get("type", {}).get("qualType", ""):
                    self.reject(d, "local of type `%s` (only int and bool)" % d.get("type", {}).get("qualType"))
                name = lean_ident(d["name"])
                if name in self.scope_names:
                    self.reject(d, "redeclaration / shadowing of `%s`" % d["name"])
                init = kids(d)
                if init:
                    text = self.conv(self.expr(init[0]), t[0])
                    self.assigned.add(name)
                    res.append(pad + "let %s%s : %s := %s" % ("" if t[1] else "mut ", name, t[0], text))
                else:
                    if t[1]:
                        self.reject(d, "const local without initialiser")
                    res.append(pad + "let mut %s : %s := %s  -- declared without initialiser; every read is dominated by an assignment"
                               % (name, t[0], "0" if t[0] == "Int" else "false"))
                self.scope_names.add(name)
                self.locals[d["id"]] = (name, t[0], not t[1])
            return res
        if k == "BinaryOperator" and n.get("opcode") == "=":
            lv = self.lvalue(ch[0])
            if lv[0] == "ignore":
                return []
            rhs = self.conv(self.expr(ch[1]), lv[2])
            self.assigned.add(lv[1])
            return [pad + "%s := %s" % (lv[1], rhs)]
        if k == "CompoundAssignOperator":
            op = n.get("opcode", "")[:-1]
            lv = self.lvalue(ch[0])
            if lv[0] == "ignore":
                return []
            if lv[2] != "Int" or op not in ("+", "-", "*", "/", "%", ">>"):
                self.reject(n, "compound assignment `%s`" % n.get("opcode"))
            self.read_var(n, lv[1])
            if op == ">>":
                rr = strip_casts(ch[1])
                if rr.get("kind") != "IntegerLiteral" or not (0 <= int(rr["value"]) < 31):
                    self.reject(n, "`>>=` by something that is not a small literal")
                return [pad + "%s := (shr %s %d)" % (lv[1], lv[1], int(rr["value"]))]
            r = self.as_int(self.expr(ch[1]))[0]
            text = {"/": "(Int.tdiv %s %s)", "%": "(Int.tmod %s %s)"}.get(op, "(%%s %s %%s)" % op) % (lv[1], r)
            return [pad + "%s := %s" % (lv[1], text)]
        if k == "UnaryOperator" and n.get("opcode") in ("++", "--"):
            lv = self.lvalue(ch[0])
            if lv[0] == "ignore":
                return []
            if lv[2] != "Int":
                self.reject(n, "increment of a bool")
            self.read_var(n, lv[1])
            return [pad + "%s := (%s %s 1)" % (lv[1], lv[1], n["opcode"][0])]
        if k == "CallExpr" and self.spec.get("error_calls"):
            callee = strip_casts(ch[0])
            if callee.get("kind") == "DeclRefExpr" and callee.get("referencedDecl", {}).get("name") == "error":
                # stir::error(...) throws: the kernel's result is (number of the error call in source order, 0)
                if self.spec["mode"] != "function" or getattr(self, "in_loop", False):
                    self.reject(n, "error(...) inside a loop / a kernel that is a fragment of a function")
                self.err_count = getattr(self, "err_count", 0) + 1
                self.assigned = ALL
                self.last_was_error = True
                return [pad + "return (%d, 0)" % self.err_count]
        if k == "ForStmt":
            return self.for_stmt(n, ch, ind)
        if k == "IfStmt":
            if n.get("hasInit") or n.get("hasVar") or n.get("isConstexpr") or len(ch) not in (2, 3):
                self.reject(n, "if statement with initialiser / condition variable / constexpr")
            c = self.as_bool(self.expr(ch[0]))[0]
            before = self.assigned if self.assigned is ALL else set(self.assigned)
            saved_locals, saved_names = dict(self.locals), set(self.scope_names)
            th = self.stmt(ch[1], ind + 1)
            a_then = self.assigned
            self.locals, self.scope_names = dict(saved_locals), set(saved_names)
            self.assigned = before if before is ALL else set(before)
            el = self.stmt(ch[2], ind + 1) if len(ch) == 3 else []
            a_else = self.assigned
            self.locals, self.scope_names = saved_locals, saved_names
            self.assigned = meet(a_then, a_else)
            res = [pad + "if %s then" % c] + (th or [pad + "  pure ()"])
            if len(ch) == 3:
                res += [pad + "else"] + (el or [pad + "  pure ()"])
            return res
        if k == "ReturnStmt":
            if self.spec["mode"] != "function":
                self.reject(n, "`return` inside a kernel that is a fragment of a function")
            if getattr(self, "in_loop", False):
                self.reject(n, "`return` inside a loop")
            if not ch:
                # `return;` of a void function: the result is the tuple of the bound state variables
                if "$return" in self.spec["outputs"]:
                    self.reject(n, "`return` without value")
                line = pad + "return " + self.ret_tuple(None)
                self.assigned = ALL
                return [line]
            if "$return" not in self.spec["outputs"]:
                self.reject(n, "`return <value>` in a kernel whose contract has no `$return` output")
            if self.spec.get("index_tuple"):
                # `return c ? (*this)[i1]…[ik] : (*this)[j1]…[jk]`: the result is the tuple of indices of the element that is accessed
                line = pad + "return " + self.index_tuple(ch[0], self.spec["index_tuple"])
                self.assigned = ALL
                return [line]
            if self.spec.get("new_classes") is not None:
                # `return new C(a, b, …)`: the result is (index of class C, slot 0, …, slot 3); the contract says, per class, which
                # constructor argument goes to which slot (slots without an argument are 0)
                e = strip_casts(ch[0])
                while e.get("kind") == "ImplicitCastExpr" and kids(e):
                    e = strip_casts(kids(e)[0])
                if e.get("kind") != "CXXNewExpr" or not kids(e) or kids(e)[0].get("kind") != "CXXConstructExpr":
                    self.reject(n, "`return` of something that is not `new Class(args)`")
                ctor = kids(e)[0]
                cname = ctor.get("type", {}).get("qualType", "").replace("stir::", "")
                if cname not in self.spec["new_classes"]:
                    self.reject(n, "`new %s`: class not in the contract %s" % (cname, sorted(self.spec["new_classes"])))
                idx, slots = self.spec["new_classes"][cname]
                args = [a for a in kids(ctor) if a.get("kind") != "CXXDefaultArgExpr"]
                if len(args) != len(slots):
                    self.reject(n, "`new %s` with %d arguments, the contract expects %d" % (cname, len(args), len(slots)))
                vals = ["0"] * self.spec["new_slots"]
                for a, sl in zip(args, slots):
                    vals[sl] = self.as_int(self.expr(a))[0]
                line = pad + "return (" + ", ".join([str(idx)] + vals) + ")"
                self.assigned = ALL
                return [line]
            rv = self.conv(self.expr(ch[0]), self.spec["ret"])
            if self.spec.get("error_calls"):
                rv = "(0, %s)" % rv      # no error() call was reached
            line = pad + "return " + self.ret_tuple(rv)
            self.assigned = ALL
            return [line]
        self.reject(n, "unsupported statement")

    def index_tuple(self, n, arity):
        m = strip_casts(n)
        if m.get("kind") == "ConditionalOperator":
            c, a, b = kids(m)
            return "(if %s then %s else %s)" % (self.as_bool(self.expr(c))[0], self.index_tuple(a, arity), self.index_tuple(b, arity))
        idx = []
        while m.get("kind") == "CXXOperatorCallExpr" and len(kids(m)) == 3 and strip_casts(kids(m)[0]).get("referencedDecl", {}).get("name") == "operator[]":
            idx.append(self.as_int(self.expr(kids(m)[2]))[0])
            m = strip_casts(kids(m)[1])
        if unparse(m) not in ("*this", "(*this)") or len(idx) != arity:
            self.reject(n, "returned element is not `(*this)[i1]…[i%d]`" % arity)
        return "(" + ", ".join(reversed(idx)) + ")"

    def for_stmt(self, n, ch, ind):
        """`for (int i = lo; i < hi; i++) body` (also `<=`, `++i`): a counted loop whose bounds do not depend on what the body
        changes.  Result: `vars := forRange lo (hi - lo).toNat (fun i vars => body) vars` for the variables the body assigns."""
        pad = "  " * ind
        if len(ch) != 4 or ch[0].get("kind") != "DeclStmt":
            self.reject(n, "for loop that is not `for (int i = lo; cond; step) body`")
        d = kids(ch[0])
        if len(d) != 1 or d[0].get("kind") != "VarDecl" or self.ctl(d[0].get("type", {})) != ("Int", False) or not kids(d[0]) \
                or d[0].get("type", {}).get("qualType") != "int":
            self.reject(n, "loop variable must be one non-const `int` with an initialiser")
        iv = d[0]
        cond, inc, body = ch[1], ch[2], ch[3]
        def is_iv(x):
            x = strip_casts(x)
            return x.get("kind") == "DeclRefExpr" and x.get("referencedDecl", {}).get("id") == iv["id"]
        if cond.get("kind") != "BinaryOperator" or cond.get("opcode") not in ("<", "<=") or not is_iv(kids(cond)[0]):
            self.reject(cond, "loop condition must be `i < hi` or `i <= hi`")
        if inc.get("kind") != "UnaryOperator" or inc.get("opcode") != "++" or not is_iv(kids(inc)[0]):
            self.reject(inc, "loop step must be `i++` / `++i`")
        if getattr(self, "in_loop", False):
            self.reject(n, "nested loop")
        self.loop_count = getattr(self, "loop_count", 0) + 1
        lo_name, hi_name = "lo%d" % self.loop_count, "hi%d" % self.loop_count
        lo = self.as_int(self.expr(kids(iv)[0]))[0]
        hi = self.as_int(self.expr(kids(cond)[1]))[0]
        if cond.get("opcode") == "<=":
            hi = "(%s + 1)" % hi
        iname = lean_ident(iv["name"])
        if iname in self.scope_names or lo_name in self.scope_names or hi_name in self.scope_names:
            self.reject(n, "redeclaration / shadowing of `%s`" % iv["name"])
        saved_locals, saved_names = dict(self.locals), set(self.scope_names)
        before = self.assigned if self.assigned is ALL else set(self.assigned)
        self.scope_names.add(iname)
        self.locals[iv["id"]] = (iname, "Int", False)
        self.assigned.add(iname)
        self.loop_rec, self.in_loop = [], True
        try:
            inner = self.stmt(body, ind + 2)
        finally:
            rec, self.loop_rec, self.in_loop = self.loop_rec, None, False
        self.locals, self.scope_names = saved_locals, saved_names
        self.assigned = before
        outer = []
        for nm, ty in rec:
            if nm in saved_names and (nm, ty) not in outer:
                outer.append((nm, ty))
        if not outer:
            self.reject(n, "loop body assigns nothing that is visible after the loop")
        for nm, ty in outer:
            if nm not in before:
                self.reject(n, "`%s` is changed by the loop body but may be unassigned before the loop" % nm)
            if re.search(r"(?<![A-Za-z0-9_'])%s(?![A-Za-z0-9_'])" % re.escape(nm), lo + " " + hi):
                self.reject(n, "loop bound depends on `%s`, which the loop body changes" % nm)
        tup = outer[0][0] if len(outer) == 1 else "(" + ", ".join(nm for nm, _ in outer) + ")"
        res = [pad + "let %s : Int := %s" % (lo_name, lo), pad + "let %s : Int := %s" % (hi_name, hi),
               pad + "%s := forRange %s (%s - %s).toNat (fun %s %s => Id.run do" % (tup, lo_name, hi_name, lo_name, iname, tup)]
        res += [pad + "    let mut %s : %s := %s" % (nm, ty, nm) for nm, ty in outer]
        res += inner
        res += [pad + "    return %s) %s" % (tup, tup)]
        self.scope_names |= {lo_name, hi_name}
        return res

    # ---- whole kernel
    def out_type(self):
        if self.spec.get("error_calls"):
            return "Int × " + self.spec["ret"]
        if self.spec.get("index_tuple"):
            return " × ".join(["Int"] * self.spec["index_tuple"])
        if self.spec.get("mode") == "call_args":
            return " × ".join(["Int"] * self.spec["nargs"])
        if self.spec.get("new_classes") is not None:
            return " × ".join(["Int"] * (1 + self.spec["new_slots"]))
        tys = []
        for o in self.spec["outputs"]:
            tys.append(self.spec["ret"] if o in ("$return", "$expr") else self.state[o])
        return " × ".join(tys)

    def signature(self):
        groups, cur = [], None
        for p, t in self.spec["params"]:
            if cur and cur[1] == t:
                cur[0].append(lean_ident(p))
            else:
                cur = ([lean_ident(p)], t)
                groups.append(cur)
        return ("def %s %s : %s :=" % (self.spec["name"], " ".join("(%s : %s)" % (" ".join(g), t) for g, t in groups), self.out_type())).replace("U64", "Nat")

    def translate_body(self, nodes):
        body = []
        for ctext, b in self.spec["bind"].items():
            if b[0] == "state":
                if b[3] is not None:
                    body.append("  let mut %s : %s := %s" % (b[1], b[2], self.use_param(self.fn, b[3])[0]))
                else:
                    body.append("  let mut %s : %s := %s  -- output parameter: written before it is read" % (b[1], b[2], "0" if b[2] == "Int" else "false"))
            elif b[0] == "out":
                body.append("  let mut %s : %s := %s  -- output: assigned on every path" % (b[1], b[2], "0" if b[2] == "Int" else "false"))
        code = self.stmts(nodes, 1)
        if self.spec["mode"] == "function":
            if self.assigned is not ALL:
                if "$return" in self.spec["outputs"]:
                    raise Reject("kernel %s: control may reach the end of the function without `return`" % self.spec["name"])
                code.append("  return " + self.ret_tuple(None))   # void function: falls off the end
        else:
            code.append("  return " + self.ret_tuple(None))
        hoist = ["  let %s : %s := %s  -- const local of the enclosing function (line %s)" % (nm, ty, tx, ln) for nm, ty, tx, ln in self.hoisted]
        return [self.signature() + " Id.run do"] + hoist + body + code

    def translate_expr(self, node):
        text, ty = self.expr(node)
        text = self.conv((text, ty), self.spec["ret"])
        if self.hoisted:
            self.reject(node, "expression kernel referring to an outer local")
        return [self.signature(), "  " + text]


def rel(path, repo):
    path = os.path.abspath(path)
    repo = os.path.abspath(repo)
    return os.path.relpath(path, repo) if path.startswith(repo + os.sep) else path


# ------------------------------------------------------------------------------------------------ locating kernels

def find_function(docs, spec, repo):
    want = os.path.abspath(os.path.join(repo, "src", spec["file"]))
    found = []
    for d in docs:
        if d.get("kind") in ("CXXMethodDecl", "FunctionDecl", "CXXConstructorDecl") and d.get("name") == spec["function"] \
                and any(c.get("kind") == "CompoundStmt" for c in kids(d)):
            f = d.get("loc", {}).get("expansionLoc", d.get("loc", {})).get("file")
            if not (f and os.path.abspath(f) == want):
                continue
            if "nparams" in spec and len([c for c in kids(d) if c.get("kind") == "ParmVarDecl"]) != spec["nparams"]:
                continue     # overload selected by its number of parameters
            if "const_method" in spec and d.get("type", {}).get("qualType", "").rstrip().endswith(" const") != spec["const_method"]:
                continue     # const / non-const overload
            found.append(d)
    if len(found) != 1:
        raise Reject("kernel %s: expected exactly one definition of %s::%s in src/%s, found %d"
                     % (spec["name"], spec["cls"], spec["function"], spec["file"], len(found)))
    return found[0]


def assignments_to(marker):
    def pred(s):
        return s.get("kind") in ("BinaryOperator", "CompoundAssignOperator") and s.get("opcode", "").endswith("=") \
            and s.get("opcode") not in ("==", "!=", "<=", ">=") and unparse(kids(s)[0]) == marker
    return pred


def find_compounds(n, pred, acc):
    """all CompoundStmt that directly contain a statement satisfying pred"""
    if not isinstance(n, dict):
        return
    if n.get("kind") == "CompoundStmt" and any(pred(s) for s in kids(n)):
        acc.append(n)
    for c in n.get("inner", []):
        find_compounds(c, pred, acc)


def find_all(n, kind, acc):
    if isinstance(n, dict):
        if n.get("kind") == kind:
            acc.append(n)
        for c in n.get("inner", []):
            find_all(c, kind, acc)


def translate_kernel(spec, docs, field_docs, repo):
    fn = find_function(docs, spec, repo)
    tr = Translator(spec, fn, "src/" + spec["file"], repo)
    tr.const_fields = {}
    for fld, lty in spec.get("const_fields", {}).items():
        # `const T name = <integer literal>;` data member with an in-class initialiser (no constructor of the class may override it:
        # not checked here, the correspondence run covers it)
        fds = [d for d in field_docs if d.get("kind") == "FieldDecl" and d.get("name") == fld]
        ok = len(fds) == 1 and fds[0].get("hasInClassInitializer") and "const" in fds[0].get("type", {}).get("qualType", "")
        lit = strip_casts(kids(fds[0])[0]) if ok and kids(fds[0]) else {}
        while lit.get("kind") in ("ImplicitCastExpr", "CXXStaticCastExpr", "ConstantExpr") and kids(lit):
            lit = strip_casts(kids(lit)[0])
        if not ok or lit.get("kind") != "IntegerLiteral":
            raise Reject("kernel %s: field %s::%s is not a `const` member with an integer-literal in-class initialiser" % (spec["name"], spec["cls"], fld))
        tr.const_fields[fld] = (str(int(lit["value"])), lty)
    tr.enum_values = {}
    for en in spec.get("enum_types", ()):
        eds = [d for d in field_docs if d.get("kind") == "EnumDecl" and d.get("name") == en.split("::")[-1]]
        if len(eds) != 1:
            raise Reject("kernel %s: expected exactly one definition of enum %s in %s, found %d" % (spec["name"], en, spec.get("fields_header"), len(eds)))
        val = -1
        for ec in kids(eds[0]):
            if ec.get("kind") != "EnumConstantDecl":
                continue
            if kids(ec):
                lit = strip_casts(kids(ec)[0])
                while lit.get("kind") in ("ConstantExpr", "ImplicitCastExpr") and kids(lit):
                    lit = strip_casts(kids(lit)[0])
                if lit.get("kind") != "IntegerLiteral":
                    raise Reject("kernel %s: enumerator %s has an initialiser that is not an integer literal" % (spec["name"], ec.get("name")))
                val = int(lit["value"])
            else:
                val += 1
            tr.enum_values[ec["name"]] = val
    body = [c for c in kids(fn) if c.get("kind") == "CompoundStmt"][0]
    mode = spec["mode"]
    if mode == "function":
        first = fn
        line = fn.get("loc", {}).get("line")
        lines = tr.translate_body(kids(body))
        what = "function body"
    elif mode in ("block", "stmt"):
        acc = []
        pred = assignments_to(spec["marker"])
        find_compounds(body, pred, acc)
        if len(acc) != 1:
            raise Reject("kernel %s: expected exactly one compound statement in %s containing an assignment to `%s`, found %d"
                         % (spec["name"], spec["function"], spec["marker"], len(acc)))
        nodes = kids(acc[0])
        if mode == "stmt":
            nodes = [s for s in nodes if pred(s)]
            if len(nodes) != 1:
                raise Reject("kernel %s: %d assignments to `%s` in the same block" % (spec["name"], len(nodes), spec["marker"]))
            what = "the statement assigning `%s`" % spec["marker"]
        else:
            what = "innermost compound statement containing the assignment to `%s`" % spec["marker"]
            if spec.get("start_decl"):
                idx = [i for i, s in enumerate(nodes) if s.get("kind") == "DeclStmt" and any(d.get("name") == spec["start_decl"] for d in kids(s))]
                if len(idx) != 1:
                    raise Reject("kernel %s: declaration of `%s` not found in the block" % (spec["name"], spec["start_decl"]))
                nodes = nodes[idx[0]:]
                what += ", from the declaration of `%s`" % spec["start_decl"]
        # reported line: the marker statement itself, or the first statement when the kernel starts at a declaration
        line = loc_of(nodes[0] if (mode == "stmt" or spec.get("start_decl")) else [s for s in nodes if pred(s)][0])[1]
        lines = tr.translate_body(nodes)
    elif mode == "if_string":
        # then-branch of the top-level `if (<expr> == "<literal>")` of the function body (e.g. the branch for one scanner geometry)
        cands = []
        for st in kids(body):
            if st.get("kind") == "IfStmt":
                lits = []
                find_all(kids(st)[0], "StringLiteral", lits)
                mems = []
                find_all(kids(st)[0], "MemberExpr", mems)
                if any(str(l.get("value")) == '"%s"' % spec["if_literal"] for l in lits) and any(m.get("name") == spec["if_callee"] for m in mems):
                    cands.append(st)
        if not cands:
            raise Reject("kernel %s: no top-level `if (… %s … == \"%s\")` in %s" % (spec["name"], spec["if_callee"], spec["if_literal"], spec["function"]))
        st = cands[0]     # the first one: later ones are unreachable for this value unless the first falls through (it must return on every path)
        then = kids(st)[1]
        nodes = kids(then) if then.get("kind") == "CompoundStmt" else [then]
        line = loc_of(st)[1]
        spec = dict(spec, mode="function")
        tr.spec = spec
        lines = tr.translate_body(nodes)
        what = "then-branch of `if (… == \"%s\")`" % spec["if_literal"]
    elif mode == "call_args":
        # the integer arguments of the unique call `<marker>(…)` (a member call such as `idx[ra][a].grow(lo, hi)`) or of the object
        # constructed on the right of the unique assignment `<marker> = T(lo, hi)`; enclosing loop variables are contract parameters,
        # `const int` locals of the enclosing blocks are hoisted
        hits = []
        def walk(x):
            if not isinstance(x, dict):
                return
            k = x.get("kind")
            c = kids(x)
            if k == "CXXMemberCallExpr" and c and c[0].get("kind") == "MemberExpr" and unparse(c[0]) == spec["marker"]:
                hits.append(c[1:])
            elif k == "CXXOperatorCallExpr" and len(c) == 3 and strip_casts(c[0]).get("referencedDecl", {}).get("name") == "operator=" \
                    and unparse(strip_casts(c[1])) == spec["marker"]:
                r = strip_casts(c[2])
                while r.get("kind") in ("CXXFunctionalCastExpr", "CXXBindTemporaryExpr", "ImplicitCastExpr", "MaterializeTemporaryExpr") and kids(r):
                    r = strip_casts(kids(r)[0])
                if r.get("kind") in ("CXXTemporaryObjectExpr", "CXXConstructExpr"):
                    hits.append(kids(r))
            for y in x.get("inner", []):
                walk(y)
        walk(body)
        if len(hits) != 1:
            raise Reject("kernel %s: expected exactly one `%s(…)` / `%s = T(…)` in %s, found %d" % (spec["name"], spec["marker"], spec["marker"], spec["function"], len(hits)))
        args = [a for a in hits[0] if a.get("kind") != "CXXDefaultArgExpr"]
        if len(args) != spec["nargs"]:
            raise Reject("kernel %s: `%s` has %d arguments, the contract expects %d" % (spec["name"], spec["marker"], len(args), spec["nargs"]))
        vals = [tr.as_int(tr.expr(a))[0] for a in args]
        line = loc_of(args[0])[1]
        hoist = ["  let %s : %s := %s  -- const local of the enclosing function (line %s)" % (nm, ty, tx, ln) for nm, ty, tx, ln in tr.hoisted]
        lines = [tr.signature() + " Id.run do"] + hoist + ["  return (" + ", ".join(vals) + ")"]
        what = "arguments of `%s`" % spec["marker"]
    elif mode == "cond_else":
        rets = []
        find_all(body, "ReturnStmt", rets)
        rets = [r for r in rets if kids(r) and strip_casts(kids(r)[0]).get("kind") == "ConditionalOperator"]
        if len(rets) != 1:
            raise Reject("kernel %s: expected exactly one `return c ? a : b` in %s, found %d" % (spec["name"], spec["function"], len(rets)))
        co = strip_casts(kids(rets[0])[0])
        c, a, b = kids(co)
        if unparse(c) != spec["cond"]:
            raise Reject("kernel %s: condition of the returned conditional expression is `%s`, expected `%s`" % (spec["name"], unparse(c), spec["cond"]))
        # declared types of the (dependent) members
        for fld, cty in spec.get("dependent_fields", {}).items():
            fds = [d for d in field_docs if d.get("kind") == "FieldDecl" and d.get("name") == fld]
            if len(fds) != 1 or fds[0].get("type", {}).get("qualType") != cty:
                raise Reject("kernel %s: field %s::%s is not declared `%s` (found %s)" % (spec["name"], spec["cls"], fld, cty,
                             [d.get("type", {}).get("qualType") for d in fds]))
        line = loc_of(b)[1]
        lines = tr.translate_expr(b)
        what = "else-branch of `return %s ? … : …`" % spec["cond"]
    else:
        raise Infra("unknown mode " + mode)
    return dict(name=spec["name"], lines=lines, line=line, what=what)


# ------------------------------------------------------------------------------------------------ driver

PRELUDE = """namespace StirVerif.Gen

/-- C `x >> k` on `int` (arithmetic shift; the source has `BOOST_STATIC_ASSERT(-1 >> 1 == -1)`): floor division by `2^k` -/
def shr (x : Int) (k : Nat) : Int := Int.fdiv x (2 ^ k)

/-- `std::abs(int)` -/
def iabs (x : Int) : Int := if x < 0 then -x else x

/-- conversion of an `int` to `std::uint64_t` (wraps modulo 2^64) -/
def u64OfInt (x : Int) : Nat := (x % 18446744073709551616).toNat

/-- `a << s` on `std::uint64_t` (the bits shifted out are lost) -/
def u64shl (a s : Nat) : Nat := (a <<< s) % 18446744073709551616

/-- `a + b` on `std::uint64_t` -/
def u64add (a b : Nat) : Nat := (a + b) % 18446744073709551616

/-- `std::find(v.begin(), v.end(), a) - v.begin()` on a `std::vector<int>`: the length when `a` is missing -/
def vecFind : List Int → Int → Int
  | [], _ => 0
  | x :: xs, a => if x == a then 0 else vecFind xs a + 1

/-- `v[i]` on a `std::vector<int>`; outside the vector (undefined behaviour in C++) the value is 0 — every bridge that
    goes through `vecGet` has to show that the index is in range -/
def vecGet (v : List Int) (i : Int) : Int := if i < 0 then 0 else v.getD i.toNat 0

/-- `for (int i = lo; i < lo + n; i++) s = f i s` -/
def forRange {σ : Type} (lo : Int) : Nat → (Int → σ → σ) → σ → σ
  | 0, _, s => s
  | n + 1, f, s => forRange (lo + 1) n f (f lo s)

/-- `bool` -> `int` conversion -/
def b2i (b : Bool) : Int := if b then 1 else 0
"""


def generate(repo, only=None):
    """-> (lean text, report).  report = list of dict(name, status ok|rejected|error, message, file, line)."""
    specs = [s for s in KERNELS if only is None or s["name"] in only]
    jobs = {}
    for s in specs:
        key = ("header", s["header"], s["cls"] + "::" + s["function"]) if "header" in s else ("source", s["file"], s["cls"] + "::" + s["function"])
        jobs.setdefault(key, None)
        if "fields_header" in s:
            jobs.setdefault(("header", s["fields_header"], "stir::" + s["cls"] + "::"), None)
    results = {}
    with tempfile.TemporaryDirectory(prefix="c2lean-") as tmp:
        with concurrent.futures.ThreadPoolExecutor(max_workers=min(6, len(jobs) or 1)) as ex:
            futs = {key: ex.submit(clang_ast, repo, "source" if key[0] == "source" else "header", key[1], key[2], tmp) for key in jobs}
            for key, f in futs.items():
                try:
                    results[key] = ("ok", f.result())
                except Reject as e:
                    results[key] = ("reject", str(e))
                except Infra as e:
                    results[key] = ("infra", str(e))
    report, chunks = [], []
    for s in specs:
        key = ("header", s["header"], s["cls"] + "::" + s["function"]) if "header" in s else ("source", s["file"], s["cls"] + "::" + s["function"])
        entry = dict(name=s["name"], file="src/" + s["file"], function=s["cls"] + "::" + s["function"], line=None, status="ok", message="")
        try:
            st, docs = results[key]
            if st == "infra":
                raise Infra(docs)
            if st == "reject":
                raise Reject("kernel %s: %s" % (s["name"], docs))
            fdocs = []
            if "fields_header" in s:
                st2, fdocs = results[("header", s["fields_header"], "stir::" + s["cls"] + "::")]
                if st2 == "infra":
                    raise Infra(fdocs)
                if st2 == "reject":
                    raise Reject("kernel %s: %s" % (s["name"], fdocs))
            k = translate_kernel(s, docs, fdocs, repo)
            entry["line"] = k["line"]
            entry["what"] = k["what"]
            chunks.append((s, k))
        except Reject as e:
            entry["status"], entry["message"] = "rejected", str(e)
        except Infra as e:
            entry["status"], entry["message"] = "error", str(e)
        report.append(entry)
    head = ["/-", "GENERATED by tools/c2lean.py from the C++ source of STIR — do not edit; regenerated on every run of the checks.",
            "Tie (T) of DESIGN.md §2.2; the bridge theorems `Gen.f = Model.f` are in StirVerif/Gen/Bridges.lean.",
            "All kernels below were translated by walking clang's JSON AST (no source-text fallback was needed).",
            "C semantics: `/` = Int.tdiv, `%` = Int.tmod, `>> k` = Gen.shr (floor division by 2^k), comparisons = `decide`, asserts compiled out (NDEBUG).",
            "Kernels (paths relative to the repository root):"]
    for e in report:
        if e["status"] == "ok":
            head.append("  %-34s %s:%s  %s — %s" % (e["name"], e["file"], e["line"], e["function"], e["what"]))
        else:
            head.append("  %-34s %s  %s — NOT TRANSLATED (%s)" % (e["name"], e["file"], e["function"], e["status"]))
    head.append("-/")
    text = "\n".join(head) + "\n" + PRELUDE
    for s, k in chunks:
        text += "\n/-- `%s::%s` (src/%s:%s): %s -/\n" % (s["cls"], s["function"], s["file"], k["line"], k["what"])
        text += "\n".join(k["lines"]) + "\n"
    text += "\nend StirVerif.Gen\n"
    return text, report


def write_if_changed(path, text):
    if os.path.exists(path) and open(path).read() == text:
        return False
    os.makedirs(os.path.dirname(path), exist_ok=True)
    tmp = path + ".tmp.%d" % os.getpid()
    with open(tmp, "w") as fh:
        fh.write(text)
    os.replace(tmp, path)
    return True


def main(argv=None):
    ap = argparse.ArgumentParser(description="regenerate lean/StirVerif/Gen/Kernels.lean from the STIR C++ source")
    ap.add_argument("--repo", default=os.environ.get("STIR_REPO", "/repo"))
    ap.add_argument("--out", default=os.path.join(VERIF, "lean", "StirVerif", "Gen"))
    ap.add_argument("--only", default=None, help="comma separated kernel names")
    ap.add_argument("--keep-going", action="store_true", help="write the kernels that do translate even if others are rejected")
    ap.add_argument("--report", default=None, help="write a JSON report (one entry per kernel)")
    ap.add_argument("--stdout", action="store_true", help="print the generated file instead of writing it")
    a = ap.parse_args(argv)
    only = set(a.only.split(",")) if a.only else None
    try:
        text, report = generate(os.path.abspath(a.repo), only)
    except Infra as e:
        sys.stderr.write("c2lean: ERROR %s\n" % e)
        return 2
    if a.report:
        with open(a.report, "w") as fh:
            json.dump(report, fh, indent=1, sort_keys=True)
            fh.write("\n")
    bad = [e for e in report if e["status"] != "ok"]
    for e in bad:
        sys.stderr.write("c2lean: %s %s\n" % ("REJECTED" if e["status"] == "rejected" else "ERROR", e["message"]))
    if not bad or a.keep_going:
        if a.stdout:
            sys.stdout.write(text)
        else:
            path = os.path.join(a.out, "Kernels.lean")
            changed = write_if_changed(path, text)
            sys.stderr.write("c2lean: %d/%d kernels translated -> %s (%s)\n" % (len(report) - len(bad), len(report), path, "written" if changed else "unchanged"))
    if any(e["status"] == "error" for e in bad):
        return 2
    return 3 if bad else 0


if __name__ == "__main__":
    sys.exit(main())
