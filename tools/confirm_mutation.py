#!/usr/bin/env python3
"""confirm_mutation.py <Cxx> <k> : independently confirm a seeded defect produced in /tmp/mut/<Cxx>.out/<k>/
(patch.diff, demo.cxx, notes.md) in the scratch worktree /tmp/mut/<Cxx> (build dir _b):
  1. patch applies, library + tests build;  2. the existing test suite gives the baseline result
  (only the known sandbox failures);  3. demo exits non-zero with the change;  4. demo exits 0 without it.
On success copies the artefacts to /verif/seeded/<Cxx>-<k>/ with meta.json."""
import json, os, shutil, subprocess, sys, time

KNOWN_FAIL_PREFIXES = ("test_IO_", "test_stir_math", "test_data_processor_projectors",
                       "test_PoissonLogLikelihoodWithLinearModelForMeanAndListModeWithProjMatrixByBin")

def sh(cmd, **kw):
    return subprocess.run(cmd, stdout=subprocess.PIPE, stderr=subprocess.STDOUT, text=True, **kw)

def failed_tests(bdir):
    r = sh(["ctest", "--test-dir", bdir, "-j", "8", "--timeout", "900"])
    fails, total = [], None
    for l in r.stdout.splitlines():
        l = l.strip()
        if " - " in l and ("(Failed)" in l or "(Subprocess aborted)" in l or "(Timeout)" in l or "(SEGFAULT)" in l or "(Not Run)" in l):
            fails.append(l.split(" - ")[1].split(" ")[0])
        if "tests failed out of" in l:
            total = int(l.split("out of")[1].strip())
    return sorted(fails), total, r.stdout[-1500:]

def build(wt):
    r = sh(["cmake", "--build", os.path.join(wt, "_b"), "-j", "12"])
    return r.returncode == 0, r.stdout[-2000:]

def build_demo(wt, src, exe):
    b = os.path.join(wt, "_b")
    regs = sh("find %s/src/CMakeFiles/stir_registries.dir -name '*.o'" % b, shell=True).stdout.split()
    libs = sh("find %s/src -name '*.a'" % b, shell=True).stdout.split()
    omp = ["-fopenmp"] if os.environ.get("MUT_OPENMP") == "1" else []
    cmd = ["g++", "-std=gnu++17", "-O1", "-w", "-DNDEBUG"] + omp + ["-I", b + "/src/include", "-I", wt + "/src/include",
           "-I", "/usr/include/hdf5/serial", src, "-o", exe] + regs + ["-Wl,--start-group"] + libs + ["-Wl,--end-group",
           "-L/usr/lib/x86_64-linux-gnu/hdf5/serial", "-lhdf5_cpp", "-lhdf5", "-lX11", "-lcurses", "-lz", "-lpthread"]
    r = sh(cmd)
    return r.returncode == 0, r.stdout[-1500:]

def run_demo(exe, cwd):
    env = dict(os.environ, STIR_CONFIG_DIR=os.path.join(cwd, "src", "config"))
    try:
        r = sh([exe], cwd=os.path.dirname(exe), env=env, timeout=1800)
        return r.returncode, r.stdout[-800:]
    except subprocess.TimeoutExpired:
        return 124, "timeout"

def main():
    prop, k = sys.argv[1], sys.argv[2]
    wt = "/tmp/mut/%s" % (prop + os.environ.get("MUT_SUFFIX", ""))
    src = "/tmp/mut/%s%s.out/%s" % (prop, os.environ.get("MUT_SUFFIX", ""), k)
    meta = dict(property=prop, index=int(k), confirmed=False, steps={})
    sh(["git", "-C", wt, "checkout", "-q", "--", "."])
    r = sh(["git", "-C", wt, "apply", os.path.join(src, "patch.diff")])
    meta["steps"]["apply"] = r.returncode == 0
    ok = r.returncode == 0
    demo_src = os.path.join(src, "demo.cxx")
    exe_mut, exe_clean = os.path.join(src, "demo_mut_confirm"), os.path.join(src, "demo_clean_confirm")
    if ok:
        ok, out = build(wt)
        meta["steps"]["build_with_change"] = ok
    if ok:
        fails, total, tail = failed_tests(os.path.join(wt, "_b"))
        unexpected = [f for f in fails if not f.startswith(KNOWN_FAIL_PREFIXES)]
        meta["steps"]["ctest_with_change"] = dict(total=total, failed=fails, unexpected_failures=unexpected)
        ok = total is not None and not unexpected
    if ok:
        ok, out = build_demo(wt, demo_src, exe_mut)
        meta["steps"]["demo_builds_with_change"] = ok
        if not ok:
            meta["steps"]["demo_build_log"] = out
    if ok:
        rc, out = run_demo(exe_mut, wt)
        meta["steps"]["demo_with_change"] = dict(exit=rc, tail=out[-300:])
        ok = rc != 0 and rc != 124
    sh(["git", "-C", wt, "checkout", "-q", "--", "."])
    if ok:
        ok, out = build(wt)
        meta["steps"]["build_clean"] = ok
    if ok:
        ok, out = build_demo(wt, demo_src, exe_clean)
    if ok:
        rc, out = run_demo(exe_clean, wt)
        meta["steps"]["demo_clean"] = dict(exit=rc, tail=out[-200:])
        ok = rc == 0
    meta["confirmed"] = bool(ok)
    for f in (exe_mut, exe_clean):
        if os.path.exists(f):
            os.remove(f)
    dst = "/verif/seeded/%s-%s%s" % (prop, os.environ.get("MUT_SUFFIX", ""), k)
    if ok:
        os.makedirs(dst, exist_ok=True)
        for f in ("patch.diff", "demo.cxx", "notes.md"):
            if os.path.exists(os.path.join(src, f)):
                shutil.copy(os.path.join(src, f), os.path.join(dst, f))
        meta["breaks_property"] = prop
        meta["what_i_ran"] = ("git apply patch.diff in a scratch worktree of /repo; cmake --build (libraries + tests, -O1 -DNDEBUG); "
                              "ctest -j8 (all tests except the known sandbox failures test_IO_*/test_stir_math/test_data_processor_projectors/"
                              "test_PoissonLogLikelihood...ListMode... must pass); demo.cxx built against the patched and the clean build: "
                              "exit non-zero with the change, 0 without")
        notes = os.path.join(src, "notes.md")
        meta["needs_to_manifest"] = open(notes).read()[:1500] if os.path.exists(notes) else ""
        json.dump(meta, open(os.path.join(dst, "meta.json"), "w"), indent=1)
    print(json.dumps(meta, indent=1)[:1500])
    return 0 if ok else 1

if __name__ == "__main__":
    sys.exit(main())
