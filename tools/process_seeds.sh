#!/bin/sh
# process_seeds.sh <Cxx> : confirm every delivered seeded defect of /tmp/mut/<Cxx>.out/<k> (tools/confirm_mutation.py),
# run the property's quick check against it (tools/mutrun.py, scratch worktree), log to /tmp/seedlogs/, then remove the
# agent's worktree and build.  Serialised with a lock because mutrun uses one scratch tree.
P=$1
mkdir -p /tmp/seedlogs
for k in 1 2 3; do
  [ -f /tmp/mut/$P.out/$k/patch.diff ] || continue
  python3 /verif/tools/confirm_mutation.py $P $k > /tmp/seedlogs/$P-$k.confirm 2>&1
  if grep -q '"confirmed": true' /tmp/seedlogs/$P-$k.confirm; then
    flock /tmp/seedlogs/.lock python3 /verif/tools/mutrun.py $P /verif/seeded/$P-$k/patch.diff --tier quick > /tmp/seedlogs/$P-$k.quick 2>&1
    grep -E "VIOLATION|^OK|EXIT" /tmp/seedlogs/$P-$k.quick | grep -v "Lean library does not build" | cut -c1-400 | head -8 > /verif/seeded/$P-$k/check_quick.txt
    echo "$P-$k confirmed quick: $(grep -c VIOLATION /tmp/seedlogs/$P-$k.quick) violations, $(grep EXIT /tmp/seedlogs/$P-$k.quick)" >> /tmp/seedlogs/summary
  else
    echo "$P-$k NOT confirmed" >> /tmp/seedlogs/summary
  fi
done
python3 /verif/tools/mut_setup.py $P --remove >> /tmp/seedlogs/summary 2>&1
