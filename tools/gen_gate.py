#!/usr/bin/env python3
"""gen_gate.py — the gate of tie (T): regenerate lean/StirVerif/Gen/Kernels.lean from the C++ source of `vlib.REPO`
(tools/c2lean.py), re-check the bridge theorems `Gen.f = Model.f` (lean/StirVerif/Gen/Bridges.lean) and, if a kernel
left the translator's subset or a bridge no longer checks, look for a concrete input on which the freshly generated
definition and the hand-written model disagree.

    import gen_gate
    stats = gen_gate.gate(chk)                       # chk: vlib.Check; all kernels
    stats = gen_gate.gate(chk, kernels=["det1", "det2", "det2vt", "ax_pos_num"])   # report only these

    python3 tools/gen_gate.py --selftest [--repo DIR]   # stand-alone run, prints the result (exit 1 on violations)

Violations are reported as `chk.violation("bridge:<kernel>", "...; first disagreeing input: ...", replay text,
found_input=<an input was found>)`.  The returned dict (kernels translated, bridges checked, …) is meant for the
evidence file.

Several checks may call the gate at the same time: the whole sequence (write Kernels.lean if its content changed,
`lake build StirVerif.Gen.Bridges`, search) runs under `fcntl` locks — `<vlib.BUILD>/.lock-gen` and, because the
generated file lives in the shared Lean source tree whatever VERIF_BUILD_DIR says, `/verif/build/.lock-gen`.
"""
import fcntl, json, os, re, sys, time

sys.path.insert(0, os.path.dirname(os.path.abspath(__file__)))

# ------------------------------------------------------------------------------------------------ search boxes
# For every kernel: the bridge theorem(s), and how to compare generated definition and model on a box of small inputs.
# vars: (name, "Int", lo, hi) | (name, "Bool");  pre: Lean Bool expression (hypotheses of the bridge);
# lets: extra `let` lines;  gen / model: Lean expressions of the same type (with BEq and Repr);
# real: Lean Bool expression describing the inputs that occur in STIR — the box is searched twice, first restricted to
#       `real` (so that the reported input is one the library can actually see), then completely.
_SYMR = "decide (V ≥ 4) && V % 4 == 0 && decide (0 ≤ v) && decide (v < V)"
_VTR = "decide (N ≥ 4) && N % 2 == 0 && decide (0 ≤ v) && decide (v < N / 2) && decide (-(N / 2) < tp) && decide (tp ≤ N / 2)"
_SYMV = [("V", "Int", -3, 17), ("d90", "Bool"), ("d180", "Bool"), ("sw", "Bool"), ("v", "Int", -3, 18), ("s", "Int", -2, 2)]
SEARCH = {
    "find_basic_view_segment_numbers": dict(
        theorems=["bridge_find_basic_view_segment_numbers"], vars=_SYMV, real=_SYMR,
        gen="Gen.find_basic_view_segment_numbers V d90 d180 sw v s",
        model="(let r := C06.findBasic ⟨V, d90, d180, sw⟩ ⟨v, s⟩; (r.1.view, r.1.seg, r.2))"),
    "num_related_view_segment_numbers": dict(
        theorems=["bridge_num_related_view_segment_numbers"], vars=_SYMV, real=_SYMR,
        gen="Gen.num_related_view_segment_numbers V d90 d180 sw v s",
        model="((C06.numRelated ⟨V, d90, d180, sw⟩ ⟨v, s⟩ : Nat) : Int)"),
    "det1": dict(
        theorems=["bridge_det1"], vars=[("N", "Int", -4, 14), ("v", "Int", -8, 14), ("tp", "Int", -9, 14)],
        real=_VTR, gen="Gen.det1 N v tp", model="(C01.viewTangToDet N v tp).1"),
    "det2": dict(
        theorems=["bridge_det2"], vars=[("N", "Int", -4, 14), ("v", "Int", -8, 14), ("tp", "Int", -9, 14)],
        real=_VTR, gen="Gen.det2 N v tp", model="(C01.viewTangToDet N v tp).2"),
    "det2vt": dict(
        theorems=["bridge_det2vt"], vars=[("N", "Int", -4, 14), ("d1", "Int", -3, 14), ("d2", "Int", -3, 14)],
        real="decide (N ≥ 4) && N % 2 == 0 && decide (0 ≤ d1) && decide (d1 < N) && decide (0 ≤ d2) && decide (d2 < N) && d1 != d2",
        gen="Gen.det2vt N d1 d2", model="C01.detToViewTang N d1 d2"),
    "subset_num_fixed": dict(
        theorems=["bridge_subset_num_fixed"], vars=[("k", "Int", 1, 14), ("s", "Int", 0, 7), ("n", "Int", 1, 8)],
        gen="Gen.subset_num_fixed k s n", model="((C06.subsetNum k.toNat s.toNat n.toNat : Nat) : Int)"),
    "ax_pos_num": dict(
        theorems=["bridge_ax_pos_num"],
        vars=[("lo", "Int", -2, 2), ("hi", "Int", -2, 2), ("off", "Int", -4, 8), ("r1", "Int", -2, 7), ("r2", "Int", -2, 7)],
        lets=["let sg : C01.Seg := ⟨lo, hi, 0⟩"], real="decide (lo ≤ hi) && decide (0 ≤ r1) && decide (0 ≤ r2) && decide (0 ≤ off)",
        gen="Gen.ax_pos_num r1 r2 off sg.inc", model="sg.axOf off r1 r2"),
}

# C03: the symmetry-operation classes (48 kernels, uniform signatures: see SO_KINDS in tools/c2lean.py)
_SO_KINDS = ["z_shift", "swap_xmx_zq", "swap_xmy_yx_zq", "swap_xy_yx_zq", "swap_xmy_yx", "swap_xy_yx", "swap_xmx", "swap_ymy",
             "swap_zq", "swap_xmx_ymy_zq", "swap_xy_ymx_zq", "swap_xy_ymx", "swap_xmy_ymx", "swap_ymy_zq", "swap_xmx_ymy",
             "swap_xmy_ymx_zq"]
_SOR = "decide (V ≥ 4) && V % 4 == 0 && decide (0 ≤ view) && decide (view < V)"
for _k in _SO_KINDS:
    SEARCH["so_%s_bin" % _k] = dict(
        theorems=["bridge_so_%s_bin" % _k],
        vars=[("V", "Int", -2, 9), ("a", "Int", -2, 2), ("seg", "Int", -2, 2), ("view", "Int", -2, 9), ("ax", "Int", -1, 2),
              ("tang", "Int", -2, 2), ("tof", "Int", -1, 1)], real=_SOR,
        gen="Gen.so_%s_bin V a seg view ax tang tof" % _k,
        model="(let r := (⟨.%s, V, a, 0, 0⟩ : C03.SymOp).onBin ⟨seg, view, ax, tang, tof⟩; (r.seg, r.view, r.ax, r.tang, r.tof))" % _k)
    SEARCH["so_%s_vs" % _k] = dict(
        theorems=["bridge_so_%s_vs" % _k],
        vars=[("V", "Int", -2, 17), ("seg", "Int", -3, 3), ("view", "Int", -2, 17)], real=_SOR,
        gen="Gen.so_%s_vs V seg view" % _k,
        model="(let r := (⟨.%s, V, 0, 0, 0⟩ : C03.SymOp).onVS ⟨view, seg⟩; (r.seg, r.view))" % _k)
    SEARCH["so_%s_img" % _k] = dict(
        theorems=["bridge_so_%s_img" % _k],
        vars=[("zs", "Int", -3, 3), ("q", "Int", -3, 6), ("z", "Int", -3, 6), ("y", "Int", -3, 3), ("x", "Int", -3, 3)],
        gen="Gen.so_%s_img zs q z y x" % _k,
        model="(let r := (⟨.%s, 0, 0, zs, q⟩ : C03.SymOp).onVoxel ⟨z, y, x⟩; (r.z, r.y, r.x))" % _k)

_IDX = "let idx : C03.Kind → Int := fun k => match k with | .trivial => 0 | " + " | ".join(".%s => %d" % (k, i + 1) for i, k in enumerate(_SO_KINDS))
_SYMY = "let y : C03.Sym := ⟨V, d90, d180, sw, sws, shz, 2, fun _ => nppa, fun t => 2 * t, fun _ => zo⟩"
_TUP = "(idx o.kind, o.view180, o.axShift, o.zShift, o.q)"
_TREEV = [("V", "Int", 0, 13), ("d90", "Bool"), ("d180", "Bool"), ("sw", "Bool"), ("sws", "Bool"), ("shz", "Bool"), ("nppa", "Int", 1, 2),
          ("zo", "Int", 0, 1), ("seg", "Int", -1, 1), ("view", "Int", -1, 13), ("ax", "Int", 0, 2)]
SEARCH["find_sym_op_bin0"] = dict(
    theorems=["bridge_find_sym_op_bin0"], vars=_TREEV, real="decide (V ≥ 4) && V % 4 == 0 && decide (0 ≤ view) && decide (view < V) && !sws",
    lets=[_IDX, _SYMY, "let o := y.symOpBin0 seg view ax"],
    gen="Gen.find_sym_op_bin0 V d90 d180 sw shz (y.transformZ (C03.iabs seg) (if shz then 0 else ax)) (y.nppa seg) seg view ax", model=_TUP)
SEARCH["find_sym_op_general_bin"] = dict(
    theorems=["bridge_find_sym_op_general_bin"], vars=_TREEV + [("s", "Int", -1, 1)],
    real="decide (V ≥ 4) && V % 4 == 0 && decide (0 ≤ view) && decide (view < V) && s != 0",
    lets=[_IDX, _SYMY, "let o := y.symOpGeneral s seg view ax"],
    gen="Gen.find_sym_op_general_bin V d90 d180 sw sws shz (y.transformZ (C03.iabs seg) (if shz then 0 else ax)) (y.nppa seg) s seg view ax", model=_TUP)
SEARCH["cache_key"] = dict(
    theorems=["bridge_cache_key"], vars=[("ax", "Int", -300, 300), ("tang", "Int", -40, 40), ("tof", "Int", -12, 12)],
    gen="Gen.cache_key (ax * 1000003) (tang * 97) (tof * 40009)", model="C03.cacheKey ⟨0, 0, ax * 1000003, tang * 97, tof * 40009⟩",
    pre="decide ((ax * 1000003).natAbs < 2 ^ 28) && decide ((tang * 97).natAbs < 2 ^ 12) && decide ((tof * 40009).natAbs < 2 ^ 20)")
# C02: address arithmetic.  A small family of layouts (segment sequences incl. a permuted one and one that misses a segment, 1 or 3 TOF bins,
# per-segment axial ranges) x every bin in and just outside the ranges.
_PDV = [("sq", "Choice", ["[0]", "[0, -1, 1]", "[1, 0, -1]", "[0, 1]"]), ("nt", "Choice", ["1", "3"]), ("nv", "Int", 1, 3), ("ng", "Int", 1, 3),
        ("seg", "Int", -2, 2), ("view", "Int", -1, 3), ("ax", "Int", -1, 4), ("tang", "Int", -2, 2), ("tof", "Int", -2, 2)]
_PDL = ["let l : C02.Layout := { segSeq := sq, tofSeq := if nt == 1 then [0] else [-1, 0, 1], minSeg := -1, maxSeg := 1, minAx := fun s => if s == 0 then 0 else 1, "
        "numAx := fun s => if s == 0 then 3 else 2, minView := 0, numViews := nv, minTang := -(ng / 2), numTang := ng, minTof := -(nt / 2), maxTof := nt / 2, numTof := nt, "
        "order := ord, elemSize := es, offset := 12, offset3d := 7 * nv * ng * es, checkView := true, checkTang := true }",
        "let b : C02.Bin := ⟨seg, view, ax, tang, tof⟩"]
_PDR = "decide (sq.length == 3) && decide (-1 ≤ seg) && decide (seg ≤ 1)"
_PDA = "l.segSeq l.tofSeq l.minSeg l.maxSeg l.minAx l.maxAx l.numAx l.minView l.maxView l.numViews l.minTang l.maxTang l.numTang l.minTof l.maxTof l.numTof"
SEARCH["get_index"] = dict(
    theorems=["bridge_get_index"], vars=_PDV, lets=["let ord := C02.Order.savt", "let es : Int := 1"] + _PDL, real=_PDR,
    gen="Gen.get_index %s l.offset3d seg view ax tang tof" % _PDA,
    model="(match C02.getIndex l b with | .error e => ((match e with | .segRange => 1 | .axRange => 2 | .tofRange => 3 | .viewRange => 4 | .tangRange => 5 : Int), (0 : Int)) | .ok v => (0, v))")
SEARCH["get_offset"] = dict(
    theorems=["bridge_get_offset", "bridge_get_offset_unsupported"],
    vars=[("oc", "Int", 0, 4), ("es", "Choice", ["4", "2"])] + _PDV,
    lets=["let ord := if oc < 2 then C02.Order.savt else C02.Order.svat"] + _PDL, real=_PDR,
    gen="Gen.get_offset %s oc es l.offset l.offset3d seg view ax tang tof" % _PDA,
    model="(match C02.offsetOf l b with | .error e => ((match e with | .segRange => 1 | .axRange => 2 | .tofRange => 3 | .viewRange => 4 | .tangRange => 5 : Int), (0 : Int)) "
          "| .ok v => if oc == 4 then (6, 0) else (0, v))")
PD_KERNELS = ["get_index", "get_offset"]
# C20: storage keys, membership tests, allocated ranges of FanProjData / GeoData3D / DetPairData
_FD = [("R", "Int", 1, 4), ("N", "Int", 2, 8), ("md", "Int", 0, 3), ("h", "Int", 0, 3)]
_FDL = ["let d : C20.Dims := ⟨R, N, md, h⟩"]
_FDR = "N % 2 == 0 && decide (md < R) && decide (2 * h + 1 < N)"
_FQ = [("ra", "Int", -1, 4), ("a", "Int", -1, 9), ("rb", "Int", -1, 4), ("b", "Int", -2, 17)]
_FQR = _FDR + " && decide (0 ≤ ra) && decide (ra < R) && decide (0 ≤ rb) && decide (rb < R) && decide (0 ≤ a) && decide (0 ≤ b)"
SEARCH["fan_key"] = dict(theorems=["bridge_fan_key"], vars=_FD + _FQ, lets=_FDL, real=_FQR,
    gen="Gen.fan_key d.N d.minB ra a rb b", model="d.storeKey ra a rb b")
SEARCH["fan_is_in_data"] = dict(theorems=["bridge_fan_is_in_data"], vars=_FD + _FQ, lets=_FDL, real=_FQR,
    gen="Gen.fan_is_in_data d.N d.minB d.maxB (d.loRb ra) (d.maxRb ra) ra a rb b", model="d.isInData ra a rb b")
SEARCH["fan_min_rb"] = dict(theorems=["bridge_fan_min_rb"], vars=[("md", "Int", -1, 6), ("ra", "Int", -2, 9)],
    lets=["let d : C20.Dims := ⟨4, 8, md, 1⟩"], gen="Gen.fan_min_rb d.md ra", model="d.minRb ra")
SEARCH["fan_ctor_rb_range"] = dict(theorems=["bridge_fan_ctor_rb_range"], vars=[("R", "Int", 0, 8), ("md", "Int", -1, 8), ("ra", "Int", -1, 8)],
    lets=["let d : C20.Dims := ⟨R, 8, md, 1⟩"], real="decide (0 ≤ md) && decide (md < R) && decide (0 ≤ ra) && decide (ra < R)",
    gen="Gen.fan_ctor_rb_range d.R d.md ra", model="(d.loRb ra, d.maxRb ra)")
SEARCH["fan_ctor_b_range"] = dict(theorems=["bridge_fan_ctor_b_range"], vars=[("N", "Int", -2, 12), ("h", "Int", -1, 6), ("a", "Int", -2, 12)],
    lets=["let d : C20.Dims := ⟨3, N, 1, h⟩"], real="N % 2 == 0 && decide (N ≥ 2) && decide (0 ≤ h) && decide (0 ≤ a) && decide (a < N)",
    gen="Gen.fan_ctor_b_range d.N d.h a", model="(d.minB a, d.maxB a)")
_GQ = [("N", "Int", -1, 8), ("ra", "Int", -1, 3), ("a", "Int", -1, 9), ("rb", "Int", -1, 3), ("b", "Int", -2, 17)]
SEARCH["geo_key"] = dict(theorems=["bridge_geo_key"], vars=_GQ, lets=["let g : C20.GeoDims := ⟨2, 2, 3, N⟩"],
    real="decide (N ≥ 2) && decide (0 ≤ ra) && decide (0 ≤ rb) && decide (0 ≤ a) && decide (0 ≤ b)",
    gen="Gen.geo_key g.N (fun a => (Gen.geo_ctor_b_range g.N a).1) ra a rb b", model="g.storeKey ra a rb b")
SEARCH["geo_ctor_b_range"] = dict(theorems=["bridge_geo_ctor_b_range"], vars=[("N", "Int", -2, 12), ("a", "Int", -2, 12)],
    gen="Gen.geo_ctor_b_range N a", model="(a, a + N - 1)")
SEARCH["geo_ctor_rb_range"] = dict(theorems=["bridge_geo_ctor_rb_range"], vars=[("R", "Int", -2, 12), ("ra", "Int", -2, 12)],
    gen="Gen.geo_ctor_rb_range R ra", model="(ra, R - 1)")
_DQ = [("N", "Int", -1, 10), ("h", "Int", -1, 4), ("a", "Int", -1, 10), ("b", "Int", -3, 20)]
_DQR = "N % 2 == 0 && decide (N ≥ 2) && decide (0 ≤ h) && decide (2 * h + 1 < N) && decide (0 ≤ a) && decide (a < N) && decide (0 ≤ b)"
SEARCH["dp_key"] = dict(theorems=["bridge_dp_key"], vars=_DQ, lets=["let d : C20.DPDims := ⟨N, h⟩"], real=_DQR,
    gen="(let r := Gen.dp_key d.N d.minB a b; ((0 : Int), r.1, (0 : Int), r.2))", model="d.storeKey a b")
SEARCH["dp_is_in_data"] = dict(theorems=["bridge_dp_is_in_data"], vars=_DQ, lets=["let d : C20.DPDims := ⟨N, h⟩"], real=_DQR,
    gen="Gen.dp_is_in_data d.N d.minB d.maxB a b", model="d.isInData a b")
for _n in ("fan_key", "geo_key", "dp_key"):
    SEARCH[_n + "_nc"] = dict(SEARCH[_n], theorems=["bridge_%s_nc" % _n], gen=SEARCH[_n]["gen"].replace("Gen.%s " % _n, "Gen.%s_nc " % _n))
ML_KERNELS = ["fan_key_nc", "geo_key_nc", "dp_key_nc", "fan_key", "fan_is_in_data", "fan_min_rb", "fan_ctor_rb_range", "fan_ctor_b_range", "geo_key", "geo_ctor_b_range", "geo_ctor_rb_range",
              "dp_key", "dp_is_in_data"]
SO_KERNELS = [k for k in SEARCH if k.startswith("so_")] + ["cache_key"] + ["find_sym_op_bin0", "find_sym_op_general_bin"]
GEN_DIR = ("StirVerif", "Gen")


def _search_source(kernels):
    out = ["import StirVerif.Gen.Kernels", "import StirVerif.C01.Model", "import StirVerif.C06.Model", "import StirVerif.C03.Model", "import StirVerif.C02.Model", "import StirVerif.C20.Model", "open StirVerif", "",
           "/-- 0, 1, …, hi, then -1, -2, …, lo: realistic values first -/",
           "def rng (lo hi : Int) : List Int :=",
           "  ((List.range (hi + 1).toNat).map fun (k : Nat) => (k : Int)).filter (fun x => decide (lo ≤ x)) ++",
           "  ((List.range (-lo).toNat).map fun (k : Nat) => -((k : Int) + 1)).filter (fun x => decide (x ≤ hi))", ""]
    for k in kernels:
        sp = SEARCH[k]
        out.append("def search_%s (realistic : Bool) : Option String := Id.run do" % k)
        ind = "  "
        for v in sp["vars"]:
            if v[1] == "Int":
                out.append(ind + "for %s in rng (%d) (%d) do" % (v[0], v[2], v[3]))
            elif v[1] == "Choice":
                out.append(ind + "for %s in ([%s] : List _) do" % (v[0], ", ".join(v[2])))
            else:
                out.append(ind + "for %s in [false, true] do" % v[0])
            ind += "  "
        for l in sp.get("lets", []):
            out.append(ind + l)
        if sp.get("pre"):
            out.append(ind + "if !(%s) then continue" % sp["pre"])
        out.append(ind + "if realistic && !(%s) then continue" % sp.get("real", "true"))
        out.append(ind + "let g := %s" % sp["gen"])
        out.append(ind + "let m := %s" % sp["model"])
        out.append(ind + "if g != m then")
        desc = " ".join("%s={%s}" % (v[0], v[0]) for v in sp["vars"])
        out.append(ind + '  return some s!"%s : generated-from-source={repr g} model={repr m}"' % desc)
        out.append("  return none")
        out.append('#eval IO.println (match search_%s true with' % k)
        out.append('  | some s => "DISAGREE %s " ++ s ++ " (an input in the range STIR uses)"' % k)
        out.append('  | none => match search_%s false with' % k)
        out.append('    | some s => "DISAGREE %s " ++ s ++ " (outside the range STIR uses; the bridge is stated for all integers)"' % k)
        out.append('    | none => "AGREE %s")' % k)
        out.append("")
    return "\n".join(out)


def _regions(path, pattern):
    """[(first line, last line, name)] of the top-level declarations matching pattern in a Lean file"""
    if not os.path.exists(path):
        return []
    lines = open(path).read().splitlines()
    starts = [(i + 1, m.group(1)) for i, l in enumerate(lines) for m in [re.match(pattern, l)] if m]
    res = []
    for j, (ln, name) in enumerate(starts):
        end = starts[j + 1][0] - 1 if j + 1 < len(starts) else len(lines)
        res.append((ln, end, name))
    return res


def _lookup(regions, line):
    for a, b, name in regions:
        if a <= line <= b:
            return name
    return None


def _box(k):
    return ", ".join("%s∈[%d..%d]" % (v[0], v[2], v[3]) if v[1] == "Int" else "%s∈{%s}" % (v[0], "; ".join(v[2])) if v[1] == "Choice"
                     else "%s∈Bool" % v[0] for v in SEARCH[k]["vars"])


def _def_text(kernels_path, name):
    for a, b, nm in _regions(kernels_path, r"^def\s+(\w+)"):
        if nm == name:
            ls = open(kernels_path).read().splitlines()[a - 1:b]
            while ls and (not ls[-1].strip() or ls[-1].startswith("/--") or ls[-1].startswith("end ")):
                ls.pop()
            return "\n".join(ls)
    return "(no generated definition)"


def gate(chk, kernels=None):
    """Regenerate, re-check the bridges, search for a disagreeing input on failure.  `kernels`: names whose failure
    is reported through `chk` (default: all; everything is always regenerated and rebuilt)."""
    import vlib, c2lean
    t0 = time.time()
    report_for = set(SEARCH) if kernels is None else set(kernels)
    unknown = report_for - set(SEARCH)
    if unknown:
        raise ValueError("gen_gate: unknown kernels %s (known: %s)" % (sorted(unknown), sorted(SEARCH)))
    os.makedirs(vlib.BUILD, exist_ok=True)
    os.makedirs(vlib.OUT, exist_ok=True)
    lock_paths = [os.path.join(vlib.BUILD, ".lock-gen")]
    glob_lock = os.path.join(vlib.VERIF, "build", ".lock-gen")
    if os.path.abspath(glob_lock) != os.path.abspath(lock_paths[0]):
        os.makedirs(os.path.dirname(glob_lock), exist_ok=True)
        lock_paths.append(glob_lock)
    # 1. translate (pure function of the source tree: done before taking the locks)
    try:
        text, report = c2lean.generate(os.path.abspath(vlib.REPO))
    except c2lean.Infra as e:
        text, report = None, [dict(name=s["name"], status="error", message=str(e), file="src/" + s["file"], line=None) for s in c2lean.KERNELS]
    locks = []
    for p in lock_paths:
        fh = open(p, "w")
        fcntl.flock(fh, fcntl.LOCK_EX)
        locks.append(fh)
    try:
        return _gate_locked(chk, report_for, vlib, c2lean, t0, text, report)
    finally:
        for fh in reversed(locks):
            fcntl.flock(fh, fcntl.LOCK_UN)
            fh.close()


def _gate_locked(chk, report_for, vlib, c2lean, t0, text, report):
    gen_dir = os.path.join(vlib.LEAN, *GEN_DIR)
    kernels_path = os.path.join(gen_dir, "Kernels.lean")
    bridges_path = os.path.join(gen_dir, "Bridges.lean")
    stats = dict(repo=vlib.REPO, kernels_total=len(c2lean.KERNELS), kernels_translated=0, bridges_total=0, bridges_checked=0,
                 regenerated=False, failing=[], search={}, checker_cmd="python3 tools/c2lean.py && cd lean && lake build StirVerif.Gen.Bridges")
    failing = {}   # kernel -> [reasons]

    translated = [e["name"] for e in report if e["status"] == "ok"]
    stats["kernels_translated"] = len(translated)
    stats["sources"] = {e["name"]: ("%s:%s" % (e["file"], e["line"]) if e.get("line") else e["file"]) for e in report}
    for e in report:
        if e["status"] != "ok":
            failing.setdefault(e["name"], []).append("the translator %s the kernel: %s" % ("rejects" if e["status"] == "rejected" else "could not process", e["message"]))
    if text is not None:
        stats["regenerated"] = c2lean.write_if_changed(kernels_path, text)

    # 2. bridges
    thm_regions = _regions(bridges_path, r"^theorem\s+(\w+)")
    bridge_thms = [n for _, _, n in thm_regions if n.startswith("bridge_")]
    thm_to_kernel = {t: k for k, sp in SEARCH.items() for t in sp["theorems"]}
    stats["bridges_total"] = len(bridge_thms)
    for k, sp in SEARCH.items():
        for t in sp["theorems"]:
            if t not in bridge_thms:
                failing.setdefault(k, []).append("bridge theorem %s is missing from Bridges.lean" % t)
    body = vlib._strip_lean_comments(open(bridges_path).read()) + "\n" + (vlib._strip_lean_comments(text) if text else "")
    bad_tokens = sorted({m.group(0).strip() for m in vlib._FORBIDDEN.finditer(body)})
    build_out, axioms_out = "", ""
    ok = False
    if text is not None:
        ok, build_out = vlib.lean_build(targets=("StirVerif.Gen.Bridges",))
    unattributed = []
    if not ok:
        def_regions = _regions(kernels_path, r"^def\s+(\w+)")
        for m in re.finditer(r"error: \S*?(Kernels|Bridges)\.lean:(\d+):(\d+):? ?([^\n]*)", build_out):
            which, line, msg = m.group(1), int(m.group(2)), m.group(4)
            if which == "Bridges":
                thm = _lookup(thm_regions, line)
                k = thm_to_kernel.get(thm)
                why = "bridge theorem %s no longer checks (Bridges.lean:%d: %s)" % (thm, line, msg[:120])
            else:
                k = _lookup(def_regions, line)
                why = "the generated definition does not elaborate (Kernels.lean:%d: %s)" % (line, msg[:120])
            if k in SEARCH:
                if k not in translated:
                    continue   # consequence of the missing definition: already reported as a translator rejection
                if why not in failing.setdefault(k, []):
                    failing[k].append(why)
            else:
                unattributed.append(m.group(0)[:200])
        if text is not None and not failing and not unattributed:
            unattributed.append("lake build StirVerif.Gen.Bridges failed without a located error")
    else:
        # axiom audit of the bridge theorems (cheap: everything is built)
        af = os.path.join(vlib.OUT, "Audit_Gen.lean")
        with open(af, "w") as fh:
            fh.write("import StirVerif.Gen.Bridges\n" + "".join("#print axioms StirVerif.Gen.%s\n" % t for t in bridge_thms))
        r = vlib.sh(["lake", "env", "lean", af], cwd=vlib.LEAN)
        axioms_out = r.stdout
        seen = {}
        for m in re.finditer(r"'([^']+)' (does not depend on any axioms|depends on axioms: \[([^\]]*)\])", r.stdout, re.S):
            seen[m.group(1).split(".")[-1]] = [] if m.group(3) is None else [a.strip() for a in m.group(3).replace("\n", " ").split(",") if a.strip()]
        stats["axioms_used"] = sorted({a for v in seen.values() for a in v})
        for t in bridge_thms:
            k = thm_to_kernel.get(t)
            if t not in seen:
                failing.setdefault(k, []).append("bridge theorem %s not found in the compiled environment" % t)
            elif [a for a in seen[t] if a not in ("propext", "Classical.choice", "Quot.sound")]:
                failing.setdefault(k, []).append("bridge theorem %s depends on non-standard axioms %s" % (t, seen[t]))
    if bad_tokens:
        unattributed.append("forbidden tokens in StirVerif/Gen: %s" % bad_tokens)
    failing_thms = {t for k in failing if k in SEARCH for t in SEARCH[k]["theorems"]}
    stats["bridges_checked"] = len([t for t in bridge_thms if t not in failing_thms]) if (ok or failing) and not unattributed else 0

    # 3. search for a disagreeing input for every failing kernel that still has a generated definition
    searchable = [k for k in SEARCH if k in failing and k in translated]
    found = {}
    search_out = ""
    if searchable:
        okk, outk = vlib.lean_build(targets=("StirVerif.Gen.Kernels", "StirVerif.C01.Model", "StirVerif.C06.Model", "StirVerif.C03.Model", "StirVerif.C02.Model", "StirVerif.C20.Model"))
        if okk:
            sf = os.path.join(vlib.OUT, "GenSearch.lean")
            with open(sf, "w") as fh:
                fh.write(_search_source(searchable))
            try:
                r = vlib.sh(["lake", "env", "lean", sf], cwd=vlib.LEAN, timeout=600)
                search_out = r.stdout
            except Exception as e:  # timeout
                search_out = "search failed: %s" % e
            for l in search_out.splitlines():
                m = re.match(r"DISAGREE (\w+) (.*)", l)
                if m:
                    found[m.group(1)] = m.group(2)
        else:
            search_out = "generated Kernels.lean does not build:\n" + outk[-1500:]
    for k in SEARCH:
        if k not in failing:
            continue
        inp = found.get(k)
        stats["failing"].append(k)
        stats["search"][k] = inp or "no disagreement in box " + _box(k)
        if k not in report_for:
            continue
        src = stats["sources"].get(k, "?")
        first = "first disagreeing input: %s" % inp if inp else \
            ("no disagreeing input found in the box %s" % _box(k) if k in translated else "no generated definition to evaluate")
        desc = "tie (T) broken for kernel %s (%s): %s; %s" % (k, src, "; ".join(failing[k])[:400], first)
        text_r = "# kernel %s  source %s  repo %s\n# replay: python3 tools/gen_gate.py --selftest   (or: python3 tools/c2lean.py && cd lean && lake build StirVerif.Gen.Bridges)\n" % (k, src, vlib.REPO)
        text_r += "# reasons:\n" + "".join("#   %s\n" % w for w in failing[k])
        text_r += "# %s\n" % first
        text_r += "# model side: %s\n# generated side: %s\n" % (SEARCH[k]["model"], SEARCH[k]["gen"])
        text_r += "# ---- definition generated from the source now\n" + _def_text(kernels_path, k) + "\n"
        errs = "\n".join(l for l in build_out.splitlines() if "error" in l)[:1500]
        if errs:
            text_r += "# ---- lake build StirVerif.Gen.Bridges\n" + "".join("# %s\n" % l for l in errs.splitlines())
        chk.violation("bridge:" + k, desc, text_r, found_input=bool(inp))
    if unattributed:
        chk.violation("bridge:build", "tie (T): StirVerif.Gen does not check: " + "; ".join(unattributed)[:300],
                      (build_out[-3000:] or "\n".join(unattributed)), found_input=False)
        stats["failing"].append("build")
    stats["wall_s"] = round(time.time() - t0, 1)
    return stats


class _SelfCheck:
    """stand-in for vlib.Check in --selftest (no evidence / replay files are written)"""
    def __init__(self):
        self.violations = []

    def violation(self, key, description, replay_text, found_input=True):
        self.violations.append((key, description, replay_text, found_input))


def main(argv):
    if "--selftest" not in argv:
        sys.stderr.write(__doc__)
        return 2
    if "--repo" in argv:
        os.environ["STIR_REPO"] = os.path.abspath(argv[argv.index("--repo") + 1])
    kernels = argv[argv.index("--kernels") + 1].split(",") if "--kernels" in argv else None
    chk = _SelfCheck()
    stats = gate(chk, kernels)
    print(json.dumps(stats, indent=1, sort_keys=True, ensure_ascii=False))
    for key, desc, text, found in chk.violations:
        print("VIOLATION %s %s%s" % (key, desc, "" if found else " no-failing-input-found"))
        if "--verbose" in argv:
            print(text)
    print("gen_gate: %s (%d/%d kernels translated, %d/%d bridges checked, %.1fs)" % (
        "FAIL" if chk.violations else "OK", stats["kernels_translated"], stats["kernels_total"],
        stats["bridges_checked"], stats["bridges_total"], stats["wall_s"]))
    return 1 if chk.violations else 0


if __name__ == "__main__":
    sys.exit(main(sys.argv[1:]))
