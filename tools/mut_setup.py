#!/usr/bin/env python3
"""mut_setup.py <name> [--remove]: create (or remove) a scratch worktree of /repo at /tmp/mut/<name> with a build
directory /tmp/mut/<name>/_b holding the libraries AND the test executables (-O1 -DNDEBUG, as the baseline has asserts
off), for seeded-defect work.  ccache (basedir /tmp/mut) makes every build after the first one fast.
Nothing registered in MANIFEST.json depends on this."""
import os, shutil, subprocess, sys

def sh(cmd, **kw):
    return subprocess.run(cmd, stdout=subprocess.PIPE, stderr=subprocess.STDOUT, text=True, **kw)

def main():
    name = sys.argv[1]
    wt = "/tmp/mut/%s" % name
    if "--remove" in sys.argv:
        sh(["git", "-C", "/repo", "worktree", "remove", "--force", wt])
        shutil.rmtree(wt, ignore_errors=True)
        shutil.rmtree(wt + ".out", ignore_errors=True)
        sh(["git", "-C", "/repo", "worktree", "prune"])
        print("removed", wt)
        return 0
    os.makedirs("/tmp/mut", exist_ok=True)
    if not os.path.exists(wt):
        r = sh(["git", "-C", "/repo", "worktree", "add", "--detach", wt, "HEAD"])
        if r.returncode != 0:
            print(r.stdout)
            return 1
    env = dict(os.environ, CCACHE_DIR="/tmp/mut/.ccache", CCACHE_BASEDIR="/tmp/mut", CCACHE_NOHASHDIR="1",
               CCACHE_MAXSIZE="6G", CCACHE_SLOPPINESS="time_macros,include_file_mtime,include_file_ctime")
    b = os.path.join(wt, "_b")
    if not os.path.exists(os.path.join(b, "build.ninja")):
        r = sh(["cmake", "-G", "Ninja", "-S", wt, "-B", b, "-DCMAKE_BUILD_TYPE=Release",
                "-DCMAKE_CXX_FLAGS_RELEASE=-O1 -DNDEBUG", "-DCMAKE_CXX_FLAGS=-Wno-error -w",
                "-DCMAKE_CXX_COMPILER_LAUNCHER=ccache", "-DCMAKE_C_COMPILER_LAUNCHER=ccache",
                "-DBUILD_TESTING=ON", "-DBUILD_EXECUTABLES=OFF", "-DBUILD_DOCUMENTATION=OFF", "-DBUILD_SWIG_PYTHON=OFF",
                "-DDISABLE_STIR_LOCAL=ON", "-DSTIR_OPENMP=" + ("ON" if os.environ.get("MUT_OPENMP") == "1" else "OFF"), "-DSTIR_MPI=OFF"], env=env)
        if r.returncode != 0:
            print(r.stdout[-3000:])
            return 1
    r = sh(["cmake", "--build", b, "-j", sys.argv[sys.argv.index("-j") + 1] if "-j" in sys.argv else "12"], env=env)
    if r.returncode != 0:
        print(r.stdout[-3000:])
        return 1
    os.makedirs(wt + ".out", exist_ok=True)
    print("ready", wt, b)
    return 0

if __name__ == "__main__":
    sys.exit(main())
