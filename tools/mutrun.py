#!/usr/bin/env python3
"""mutrun.py <Cxx> <patch.diff> [--tier quick]: run a check against a scratch worktree of /repo with a seeded defect
applied (worktree /tmp/mutrun/repo at /repo's HEAD, build in /tmp/mutrun/build, evidence in /tmp/mutrun/evid), then
revert the patch.  Used while other work is going on in /repo; the final confirmation applies patches to /repo itself."""
import os, subprocess, sys
VERIF = os.path.dirname(os.path.dirname(os.path.abspath(__file__)))
WT, BD, EV = "/tmp/mutrun/repo", "/tmp/mutrun/build", "/tmp/mutrun/evid"

def sh(cmd, **kw):
    return subprocess.run(cmd, stdout=subprocess.PIPE, stderr=subprocess.STDOUT, text=True, **kw)

def main():
    prop, patch = sys.argv[1], sys.argv[2]
    tier = sys.argv[sys.argv.index("--tier") + 1] if "--tier" in sys.argv else "quick"
    os.makedirs("/tmp/mutrun", exist_ok=True)
    head = sh(["git", "-C", "/repo", "rev-parse", "HEAD"]).stdout.strip()
    if not os.path.exists(WT):
        print(sh(["git", "-C", "/repo", "worktree", "add", "--detach", WT, head]).stdout)
    else:
        sh(["git", "-C", WT, "checkout", "-q", "--", "."])
        sh(["git", "-C", WT, "checkout", "-q", "--detach", head])
    env = dict(os.environ, STIR_REPO=WT, VERIF_BUILD_DIR=BD, VERIF_EVID_DIR=EV)
    if patch != "none":
        r = sh(["git", "-C", WT, "apply", os.path.abspath(patch)])
        if r.returncode != 0:
            # /repo has moved on since the patch was made (fix: commits): try a 3-way merge and print the rebased patch
            r = sh(["git", "-C", WT, "apply", "--3way", os.path.abspath(patch)])
            if r.returncode != 0:
                print("PATCH DOES NOT APPLY:", r.stdout)
                return 3
            sh(["git", "-C", WT, "reset", "-q"])
            rebased = sh(["git", "-C", WT, "diff"]).stdout
            open(os.path.abspath(patch) + ".rebased", "w").write(rebased)
            print("patch rebased onto current HEAD ->", os.path.abspath(patch) + ".rebased")
    try:
        r = sh([os.path.join(VERIF, "check"), prop, "--tier", tier], env=env, cwd=VERIF)
        print(r.stdout[-3000:])
        print("EXIT", r.returncode)
        return r.returncode
    finally:
        sh(["git", "-C", WT, "checkout", "-q", "--", "."])

if __name__ == "__main__":
    sys.exit(main())
