#!/usr/bin/env python3
"""integrate.py Cxx [...]: wire finished properties into lean/StirVerif.lean and lean/Driver/Main.lean (idempotent)."""
import os, re, sys
VERIF = os.path.dirname(os.path.dirname(os.path.abspath(__file__)))
for prop in sys.argv[1:]:
    p = os.path.join(VERIF, "lean", "StirVerif.lean")
    s = open(p).read()
    line = "import StirVerif.%s.Props\n" % prop
    if line not in s:
        s = re.sub(r"import StirVerif\.%s\.\w+\n" % prop, "", s)
        s += line
        open(p, "w").write(s)
    p = os.path.join(VERIF, "lean", "Driver", "Main.lean")
    s = open(p).read()
    imp = "import Driver.%s\n" % prop
    if imp not in s:
        s = imp + s
        s = s.replace("  | _ => IO.eprintln", '  | ["%s"] => Driver.%s.main; return 0\n  | _ => IO.eprintln' % (prop, prop))
        open(p, "w").write(s)
    print("integrated", prop)
